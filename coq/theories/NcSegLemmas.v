(* NcSegLemmas.v — segmentation-independence of the NETCONF read loop (NcSession.v) and end-to-end
   delivery of a reply that the server sent in full:
     A. the read loop files one server message under its id however the message is cut into reads;
     B. a call whose reply arrived in full (in any number of reads) returns ROk with exactly the
        decoding of that message; for 1.1 the decoding is the concatenation of the chunks, for 1.0
        the payload before the end-of-message marker;
     C. record1dot0 returns exactly the (space-trimmed) payload.
   No axioms; Print Assumptions at the end. *)
From Scrapli Require Import Bytes BytesLemmas Regex PlatformTypes Generated Channel Netconf NetconfLemmas NcSession NcSessionLemmas.
From Coq Require Import ZifyBool ZifyN ZifyNat.
Open Scope N_scope.

(* ================================================================================================
   PART A — the read loop does not depend on how one message is cut into reads *)

Fixpoint read_chunks (v : ncver) (b : bytes) (st : store) (cs : list bytes) : rd_out :=
  match cs with
  | [] => RdKeep b st
  | c :: t => match nc_read_chunk v b st c with
              | RdKeep b' st' => read_chunks v b' st' t
              | RdPanic => RdPanic
              end
  end.

(* [complete_message_filed'] with the resulting store spelled out *)
Lemma complete_message_filed_exact : forall v b st chunk,
  rx_match (delim_re v) (b ++ chunk) = true ->
  contains END_RPC (b ++ chunk) = false ->
  message_id_of (b ++ chunk) <> 0%Z ->
  nc_read_chunk v b st chunk = RdKeep [] ((message_id_of (b ++ chunk), b ++ chunk) :: st).
Proof.
  intros v b st chunk Hm Hc Hne.
  unfold nc_read_chunk. cbn [nc_settle]. unfold nc_examine at 1. rewrite Hm, Hc.
  destruct (Z.eqb_spec (message_id_of (b ++ chunk)) 0) as [H0|_]; [contradiction|].
  unfold nc_examine. rewrite empty_no_delim. reflexivity.
Qed.

(* general form: any starting buffer [b0]; only the boundaries strictly inside the message matter
   (k = 0, the buffer before the first read, is not needed) *)
Lemma read_chunks_filed : forall cs v b0 st,
  cs <> [] ->
  (forall k, (0 < k < length cs)%nat ->
             rx_match (delim_re v) (b0 ++ concat (firstn k cs)) = false) ->
  rx_match (delim_re v) (b0 ++ concat cs) = true ->
  contains END_RPC (b0 ++ concat cs) = false ->
  message_id_of (b0 ++ concat cs) <> 0%Z ->
  read_chunks v b0 st cs = RdKeep [] ((message_id_of (b0 ++ concat cs), b0 ++ concat cs) :: st).
Proof.
  induction cs as [|c t IH]; intros v b0 st Hcs Hpre Hm Hc Hne; [congruence|].
  destruct t as [|c2 t].
  - cbn [concat] in *. rewrite app_nil_r in *. cbn [read_chunks].
    rewrite complete_message_filed_exact by assumption. reflexivity.
  - cbn [read_chunks].
    assert (H1 : rx_match (delim_re v) (b0 ++ c) = false).
    { specialize (Hpre 1%nat). cbn [firstn concat] in Hpre. rewrite app_nil_r in Hpre.
      apply Hpre. cbn [length]. lia. }
    rewrite (incomplete_kept _ _ _ _ H1).
    change (concat (c :: c2 :: t)) with (c ++ concat (c2 :: t)) in *.
    rewrite app_assoc in Hm, Hc, Hne |- *.
    apply IH; try assumption; [discriminate|].
    intros k Hk. specialize (Hpre (S k)). cbn [firstn] in Hpre.
    change (concat (c :: firstn k (c2 :: t))) with (c ++ concat (firstn k (c2 :: t))) in Hpre.
    rewrite app_assoc in Hpre. apply Hpre. cbn [length] in *. lia.
Qed.

(* the resulting state, exactly *)
Theorem message_any_split_exact : forall v st cs m,
  concat cs = m ->
  (forall k, (k < length cs)%nat -> rx_match (delim_re v) (concat (firstn k cs)) = false) ->
  rx_match (delim_re v) m = true -> contains END_RPC m = false ->
  message_id_of m <> 0%Z ->
  read_chunks v [] st cs = RdKeep [] ((message_id_of m, m) :: st).
Proof.
  intros v st cs m Hcat Hpre Hm Hc Hne. subst m.
  assert (Hcs : cs <> []).
  { intros ->. cbn [concat] in Hm. rewrite empty_no_delim in Hm. discriminate. }
  assert (Hpre' : forall k, (0 < k < length cs)%nat ->
                            rx_match (delim_re v) ([] ++ concat (firstn k cs)) = false).
  { intros k Hk. apply Hpre. lia. }
  exact (read_chunks_filed cs v [] st Hcs Hpre' Hm Hc Hne).
Qed.

Theorem message_any_split : forall v st cs m id,
  concat cs = m ->
  (forall k, (k < length cs)%nat -> rx_match (delim_re v) (concat (firstn k cs)) = false) ->
  rx_match (delim_re v) m = true -> contains END_RPC m = false ->
  message_id_of m = id -> id <> 0%Z ->
  exists st', read_chunks v [] st cs = RdKeep [] st' /\ store_get st' id = Some m /\
              (forall j, j <> id -> store_get st' j = store_get st j).
Proof.
  intros v st cs m id Hcat Hpre Hm Hc Hid Hne. subst id.
  exists ((message_id_of m, m) :: st). split; [|split].
  - apply message_any_split_exact; assumption.
  - cbn [store_get]. rewrite Z.eqb_refl. reflexivity.
  - intros j Hj. cbn [store_get]. destruct (Z.eqb_spec j (message_id_of m)); [contradiction|reflexivity].
Qed.

(* two ways of cutting the same message give the same buffer and the same store *)
Corollary split_independent_eq : forall v st cs1 cs2 m,
  concat cs1 = m -> concat cs2 = m ->
  (forall k, (k < length cs1)%nat -> rx_match (delim_re v) (concat (firstn k cs1)) = false) ->
  (forall k, (k < length cs2)%nat -> rx_match (delim_re v) (concat (firstn k cs2)) = false) ->
  rx_match (delim_re v) m = true -> contains END_RPC m = false ->
  message_id_of m <> 0%Z ->
  read_chunks v [] st cs1 = read_chunks v [] st cs2.
Proof.
  intros v st cs1 cs2 m H1 H2 P1 P2 Hm Hc Hne.
  rewrite (message_any_split_exact v st cs1 m), (message_any_split_exact v st cs2 m) by assumption.
  reflexivity.
Qed.

Corollary split_independent : forall v st cs1 cs2 m,
  concat cs1 = m -> concat cs2 = m ->
  (forall k, (k < length cs1)%nat -> rx_match (delim_re v) (concat (firstn k cs1)) = false) ->
  (forall k, (k < length cs2)%nat -> rx_match (delim_re v) (concat (firstn k cs2)) = false) ->
  rx_match (delim_re v) m = true -> contains END_RPC m = false ->
  message_id_of m <> 0%Z ->
  exists st1 st2,
    read_chunks v [] st cs1 = RdKeep [] st1 /\ read_chunks v [] st cs2 = RdKeep [] st2 /\
    (forall j, store_get st1 j = store_get st2 j) /\
    store_get st1 (message_id_of m) = Some m.
Proof.
  intros v st cs1 cs2 m H1 H2 P1 P2 Hm Hc Hne.
  exists ((message_id_of m, m) :: st), ((message_id_of m, m) :: st).
  split; [apply message_any_split_exact; assumption|].
  split; [apply message_any_split_exact; assumption|].
  split; [reflexivity|]. cbn [store_get]. rewrite Z.eqb_refl. reflexivity.
Qed.

(* the same from a non-empty buffer: bytes [b0] of the message were already read *)
Theorem message_any_split_buf : forall v st b0 cs m id,
  cs <> [] -> b0 ++ concat cs = m ->
  (forall k, (0 < k < length cs)%nat ->
             rx_match (delim_re v) (b0 ++ concat (firstn k cs)) = false) ->
  rx_match (delim_re v) m = true -> contains END_RPC m = false ->
  message_id_of m = id -> id <> 0%Z ->
  exists st', read_chunks v b0 st cs = RdKeep [] st' /\ store_get st' id = Some m /\
              (forall j, j <> id -> store_get st' j = store_get st j).
Proof.
  intros v st b0 cs m id Hcs Hcat Hpre Hm Hc Hid Hne. subst id m.
  exists ((message_id_of (b0 ++ concat cs), b0 ++ concat cs) :: st). split; [|split].
  - apply read_chunks_filed; assumption.
  - cbn [store_get]. rewrite Z.eqb_refl. reflexivity.
  - intros j Hj. cbn [store_get].
    destruct (Z.eqb_spec j (message_id_of (b0 ++ concat cs))); [contradiction|reflexivity].
Qed.

Corollary split_independent_buf : forall v st b1 cs1 b2 cs2 m,
  cs1 <> [] -> cs2 <> [] -> b1 ++ concat cs1 = m -> b2 ++ concat cs2 = m ->
  (forall k, (0 < k < length cs1)%nat -> rx_match (delim_re v) (b1 ++ concat (firstn k cs1)) = false) ->
  (forall k, (0 < k < length cs2)%nat -> rx_match (delim_re v) (b2 ++ concat (firstn k cs2)) = false) ->
  rx_match (delim_re v) m = true -> contains END_RPC m = false ->
  message_id_of m <> 0%Z ->
  read_chunks v b1 st cs1 = read_chunks v b2 st cs2.
Proof.
  intros v st b1 cs1 b2 cs2 m N1 N2 H1 H2 P1 P2 Hm Hc Hne. subst m.
  rewrite (read_chunks_filed cs1 v b1 st) by assumption.
  rewrite <- H2 in Hm, Hc, Hne.
  rewrite (read_chunks_filed cs2 v b2 st) by assumption.
  rewrite H2. reflexivity.
Qed.

(* ================================================================================================
   PART C — NETCONF 1.0 decoding returns exactly the payload *)

Lemma mem_byte_In (y : N) : forall l, In y l -> mem_byte y l = true.
Proof.
  induction l as [|a l IH]; cbn [In mem_byte]; [tauto|].
  intros [->|Hl]; [rewrite N.eqb_refl; reflexivity|]. rewrite (IH Hl). apply orb_true_r.
Qed.

Lemma not_mem_all (y : N) (cands : list bytes) :
  forallb (fun c => negb (mem_byte y c)) cands = true -> forall c, In c cands -> ~ In y c.
Proof.
  intros H c Hin Hc. rewrite forallb_forall in H. specialize (H c Hin).
  apply negb_true_iff in H. rewrite (mem_byte_In y c Hc) in H. discriminate.
Qed.

Lemma nonempty_all (cands : list bytes) :
  forallb (fun c => match c with [] => false | _ => true end) cands = true ->
  forall c, In c cands -> c <> [].
Proof.
  intros H c Hin ->. rewrite forallb_forall in H. specialize (H [] Hin). discriminate.
Qed.

(* a candidate that does not contain the byte [y] cannot reach across it *)
Lemma is_prefix_app_sentinel (y : N) (r : bytes) : forall c u,
  ~ In y c -> is_prefix c (u ++ y :: r) = is_prefix c u.
Proof.
  induction c as [|a c IH]; intros u Hy; [reflexivity|].
  destruct u as [|b u]; cbn [app is_prefix].
  - destruct (N.eqb_spec a y) as [->|_]; [exfalso; apply Hy; left; reflexivity|reflexivity].
  - f_equal. apply IH. intros H. apply Hy. right. exact H.
Qed.

Lemma first_prefix_of_sentinel (y : N) (r : bytes) : forall cands u,
  (forall c, In c cands -> ~ In y c) ->
  first_prefix_of cands (u ++ y :: r) = first_prefix_of cands u.
Proof.
  induction cands as [|c0 cs IH]; intros u H; [reflexivity|]. cbn [first_prefix_of].
  rewrite is_prefix_app_sentinel by (apply H; left; reflexivity).
  destruct (is_prefix c0 u); [reflexivity|]. apply IH. intros c Hin. apply H. right. exact Hin.
Qed.

Lemma first_prefix_of_nil : forall cands,
  (forall c, In c cands -> c <> []) -> first_prefix_of cands [] = None.
Proof.
  induction cands as [|c0 cs IH]; intros H; [reflexivity|]. cbn [first_prefix_of].
  destruct c0 as [|a c0]; [exfalso; apply (H []); [left; reflexivity|reflexivity]|].
  cbn [is_prefix]. apply IH. intros c Hin. apply H. right. exact Hin.
Qed.

Section TrimGenMore.
  Variable cands : list bytes.
  Hypothesis cands_nonempty : forall c, In c cands -> c <> [].

  (* trimming stops at a byte [y] that is neither whitespace nor part of any space sequence *)
  Lemma trimgen_sentinel_ext (y : N) (r : bytes) :
    ascii_space y = false -> (forall c, In c cands -> ~ In y c) ->
    forall f u f', (length u <= f)%nat -> (length u < f')%nat ->
    trimgen cands f' (u ++ y :: r) = trimgen cands f u ++ y :: r.
  Proof.
    intros Hy Hno.
    assert (Hnone : first_prefix_of cands (y :: r) = None).
    { change (y :: r) with ([] ++ y :: r). rewrite first_prefix_of_sentinel by exact Hno.
      apply first_prefix_of_nil. exact cands_nonempty. }
    induction f as [|f IH]; intros u f' Hu Hf'.
    - destruct u as [|x t]; [|cbn [length] in Hu; lia].
      destruct f' as [|f']; [cbn [length] in Hf'; lia|].
      cbn [app trimgen]. rewrite Hy, Hnone. reflexivity.
    - destruct u as [|x t].
      + destruct f' as [|f']; [cbn [length] in Hf'; lia|].
        cbn [app trimgen]. rewrite Hy, Hnone. reflexivity.
      + destruct f' as [|f']; [lia|]. cbn [length] in Hu, Hf'. cbn [app trimgen].
        destruct (ascii_space x); [apply IH; lia|].
        change (x :: t ++ y :: r) with ((x :: t) ++ y :: r).
        rewrite first_prefix_of_sentinel by exact Hno.
        destruct (first_prefix_of cands (x :: t)) as [c|] eqn:Ec; [|reflexivity].
        apply first_prefix_of_some in Ec. destruct Ec as [Hin Hp].
        apply is_prefix_true_iff in Hp. destruct Hp as [t' Ht'].
        pose proof (cands_nonempty c Hin) as Hcne.
        assert (Hlen : length (x :: t) = (length c + length t')%nat)
          by (rewrite Ht'; apply app_length).
        rewrite Ht', <- app_assoc, !skipn_len_app.
        destruct c as [|c0 c]; [congruence|]. cbn [length] in Hlen.
        apply IH; lia.
  Qed.

  (* with enough fuel the result is empty or starts at a byte where trimming stops *)
  Lemma trimgen_stable : forall f s, (length s <= f)%nat ->
    trimgen cands f s = [] \/
    exists x t, trimgen cands f s = x :: t /\ ascii_space x = false /\
                first_prefix_of cands (x :: t) = None.
  Proof.
    induction f as [|f IH]; intros s Hs.
    - destruct s; [left; reflexivity|cbn [length] in Hs; lia].
    - destruct s as [|x t]; [left; reflexivity|]. cbn [length] in Hs. cbn [trimgen].
      destruct (ascii_space x) eqn:Ex; [apply IH; lia|].
      destruct (first_prefix_of cands (x :: t)) as [c|] eqn:Ec.
      + apply IH. rewrite skipn_length.
        apply first_prefix_of_some in Ec. destruct Ec as [Hin _].
        pose proof (cands_nonempty c Hin) as Hcne.
        destruct c; [congruence|]. cbn [length]. lia.
      + right. exists x, t. auto.
  Qed.

  Lemma trimgen_idem : forall f f' s, (length s <= f)%nat ->
    trimgen cands f' (trimgen cands f s) = trimgen cands f s.
  Proof.
    intros f f' s Hs.
    destruct (trimgen_stable f s Hs) as [E|(x & t & E & Hx & Hn)]; rewrite E.
    - destruct f'; reflexivity.
    - destruct f'; [reflexivity|]. cbn [trimgen]. rewrite Hx, Hn. reflexivity.
  Qed.
End TrimGenMore.

Lemma uni_nonempty : forall c, In c uni_space_seqs -> c <> [].
Proof. apply nonempty_all. reflexivity. Qed.

Lemma go_trim_left_idem (s : bytes) : go_trim_left (go_trim_left s) = go_trim_left s.
Proof.
  unfold go_trim_left. rewrite !go_trim_left_fuel_gen.
  apply trimgen_idem; [exact uni_nonempty|lia].
Qed.

Lemma go_trim_left_app_sentinel (u : bytes) (y : N) (r : bytes) :
  ascii_space y = false -> (forall c, In c uni_space_seqs -> ~ In y c) ->
  go_trim_left (u ++ y :: r) = go_trim_left u ++ y :: r.
Proof.
  intros Hy Hno. unfold go_trim_left. rewrite !go_trim_left_fuel_gen.
  apply trimgen_sentinel_ext; try assumption; [exact uni_nonempty|lia|].
  rewrite app_length. cbn [length]. lia.
Qed.

Lemma trim_suffix_app (d l : bytes) : trim_suffix d (l ++ d) = l.
Proof.
  unfold trim_suffix, is_suffix. rewrite !frev_rev, rev_app_distr, is_prefix_refl_app.
  rewrite app_length. replace (length l + length d - length d)%nat with (length l) by lia.
  apply firstn_len_app.
Qed.

Lemma trim_prefix_app (h r : bytes) : trim_prefix h (h ++ r) = r.
Proof. unfold trim_prefix. rewrite is_prefix_refl_app. apply skipn_len_app. Qed.

(* facts about the generated constants, re-checked by computation against Generated.v *)
Lemma delim10_shape : nc_v1dot0_delim = 93 :: [93; 62; 93; 93] ++ [62].
Proof. reflexivity. Qed.

Lemma uni_no_rbracket : forall c, In c uni_space_seqs -> ~ In 93 c.
Proof. apply not_mem_all. reflexivity. Qed.

Lemma header_no_rbracket : ~ In 93 nc_xml_header.
Proof.
  intros H. apply mem_byte_In in H. vm_compute in H. discriminate.
Qed.

(* TrimSpace of "payload ]]>]]> spaces" removes the trailing spaces and the leading spaces of the
   payload, nothing else *)
Lemma go_trim_space_before_delim (p post : bytes) :
  ws post -> go_trim_space (p ++ nc_v1dot0_delim ++ post) = go_trim_left p ++ nc_v1dot0_delim.
Proof.
  intros Hpost. unfold go_trim_space. rewrite delim10_shape. cbn [app].
  rewrite (go_trim_left_app_sentinel p 93) by (try reflexivity; exact uni_no_rbracket).
  replace (go_trim_left p ++ 93 :: 93 :: 62 :: 93 :: 93 :: 62 :: post)
    with ((go_trim_left p ++ [93; 93; 62; 93; 93]) ++ 62 :: post)
    by (rewrite <- app_assoc; reflexivity).
  rewrite go_trim_right_ws; [|exact Hpost|reflexivity|reflexivity].
  rewrite <- app_assoc. reflexivity.
Qed.

Lemma record10_core (p post : bytes) :
  ws post ->
  go_trim_space (trim_suffix nc_v1dot0_delim (go_trim_space (p ++ nc_v1dot0_delim ++ post)))
  = go_trim_space p.
Proof.
  intros Hpost. rewrite (go_trim_space_before_delim p post Hpost), trim_suffix_app.
  unfold go_trim_space. rewrite go_trim_left_idem. reflexivity.
Qed.

Theorem record10_payload : forall p post, ws post ->
  is_prefix nc_xml_header p = false ->
  record10 (p ++ nc_v1dot0_delim ++ post) = go_trim_space p.
Proof.
  intros p post Hpost Hnp. unfold record10.
  assert (Hno : is_prefix nc_xml_header (p ++ nc_v1dot0_delim ++ post) = false).
  { rewrite delim10_shape. cbn [app].
    rewrite is_prefix_app_sentinel by exact header_no_rbracket. exact Hnp. }
  unfold trim_prefix at 1. rewrite Hno. apply record10_core. exact Hpost.
Qed.

Theorem record10_payload_decl : forall p post, ws post ->
  record10 (nc_xml_header ++ p ++ nc_v1dot0_delim ++ post) = go_trim_space p.
Proof.
  intros p post Hpost. unfold record10. rewrite trim_prefix_app. apply record10_core. exact Hpost.
Qed.

(* both at once: the XML declaration is removed when (and only when) it is the very beginning *)
Corollary record10_payload_any : forall p post, ws post ->
  record10 (p ++ nc_v1dot0_delim ++ post) = go_trim_space (trim_prefix nc_xml_header p).
Proof.
  intros p post Hpost. unfold trim_prefix.
  destruct (is_prefix nc_xml_header p) eqn:E.
  - apply is_prefix_true_iff in E. destruct E as [r ->].
    rewrite skipn_len_app, <- app_assoc. apply record10_payload_decl. exact Hpost.
  - apply record10_payload; assumption.
Qed.

(* ================================================================================================
   PART B — a reply the server sent in full is never lost, however it is split into reads, and
   decodes to exactly the payload *)

Definition reads_of (seg : list nlev) : list bytes :=
  flat_map (fun e => match e with NR c => [c] | _ => [] end) seg.
Definition writes_of (seg : list nlev) : list bytes :=
  flat_map (fun e => match e with NW w => [w] | _ => [] end) seg.
(* no deadline / transport error mark in the segment *)
Definition quiet (seg : list nlev) : bool :=
  forallb (fun e => match e with NDeadline | NErr => false | _ => true end) seg.

(* a quiet segment is the fold of the read loop over its reads; writes only extend the write log *)
Lemma run_segment_quiet : forall seg s dl er b st,
  quiet seg = true ->
  read_chunks (n_ver s) (n_buf s) (n_store s) (reads_of seg) = RdKeep b st ->
  run_segment s seg dl er
  = (mkN (n_ver s) (n_force s) (n_xh s) b st (n_next_id s) (n_writes s ++ writes_of seg) (n_panic s),
     dl, er).
Proof.
  unfold quiet, reads_of, writes_of.
  induction seg as [|e t IH]; intros s dl er b st Hq Hr.
  - cbn [flat_map read_chunks] in *. injection Hr as <- <-. cbn [run_segment].
    rewrite app_nil_r. destruct s; reflexivity.
  - destruct e as [c|w| | |]; cbn [forallb andb] in Hq; try discriminate;
      cbn [run_segment flat_map app] in *.
    + cbn [read_chunks] in Hr.
      destruct (nc_read_chunk (n_ver s) (n_buf s) (n_store s) c) as [b' st'|] eqn:E; [|discriminate].
      rewrite (IH (apply_chunk s c) dl er b st Hq).
      * unfold apply_chunk. rewrite E. reflexivity.
      * unfold apply_chunk. rewrite E. exact Hr.
    + rewrite (IH (mkN (n_ver s) (n_force s) (n_xh s) (n_buf s) (n_store s) (n_next_id s)
                       (n_writes s ++ [w]) (n_panic s)) dl er b st Hq Hr).
      cbn [n_ver n_force n_xh n_next_id n_writes n_panic].
      rewrite <- app_assoc. reflexivity.
    + apply IH; assumption.
Qed.

Lemma store_del_head (st : store) (i : Z) (b : bytes) : store_del ((i, b) :: st) i = store_del st i.
Proof. cbn [store_del]. rewrite Z.eqb_refl. reflexivity. Qed.

(* general segment: any interleaving of writes, reads and call marks without deadline / error *)
Theorem reply_never_lost_gen : forall s o p seg m,
  n_buf s = [] -> n_panic s = false -> op_payload o = BOk p ->
  quiet seg = true ->
  concat (reads_of seg) = m ->
  (forall k, (k < length (reads_of seg))%nat ->
             rx_match (delim_re (n_ver s)) (concat (firstn k (reads_of seg))) = false) ->
  rx_match (delim_re (n_ver s)) m = true -> contains END_RPC m = false ->
  message_id_of m = Z.of_N (n_next_id s) -> Z.of_N (n_next_id s) <> 0%Z ->
  exists s' r rpce pe,
    do_rpc s o seg
    = (s', ROk (Z.of_N (n_next_id s))
               (ser_raw (serialize (n_ver s) (n_force s) (n_xh s) (n_next_id s) p))
               (ser_framed (serialize (n_ver s) (n_force s) (n_xh s) (n_next_id s) p))
               r rpce pe) /\
    record_fast (n_ver s) m = RecOut r rpce pe /\
    record (n_ver s) m = RecOut r rpce pe /\
    n_buf s' = [] /\ n_store s' = store_del (n_store s) (Z.of_N (n_next_id s)) /\
    n_next_id s' = n_next_id s + 1 /\ n_writes s' = n_writes s ++ writes_of seg /\
    n_panic s' = false /\ n_ver s' = n_ver s.
Proof.
  intros s o p seg m Hbuf Hpan Hp Hq Hcat Hpre Hm Hc Hid Hne.
  assert (Hne' : message_id_of m <> 0%Z) by congruence.
  pose proof (message_any_split_exact (n_ver s) (n_store s) (reads_of seg) m Hcat Hpre Hm Hc Hne')
    as Hrd.
  rewrite Hid in Hrd.
  destruct (record_fast (n_ver s) m) as [r rpce pe|] eqn:Hrec;
    [|exfalso; eapply record_fast_no_panic; eauto].
  exists (mkN (n_ver s) (n_force s) (n_xh s) [] (store_del (n_store s) (Z.of_N (n_next_id s)))
              (n_next_id s + 1) (n_writes s ++ writes_of seg) false), r, rpce, pe.
  split; [|rewrite record_refines; cbn [n_buf n_store n_next_id n_writes n_panic n_ver]; auto 10].
  unfold do_rpc. rewrite Hp.
  rewrite (run_segment_quiet seg _ false false [] ((Z.of_N (n_next_id s), m) :: n_store s) Hq)
    by (cbn [n_ver n_buf n_store]; rewrite Hbuf; exact Hrd).
  cbn [n_ver n_force n_xh n_buf n_store n_next_id n_writes n_panic]. rewrite Hpan.
  cbn [store_get]. rewrite Z.eqb_refl, Hrec, store_del_head. reflexivity.
Qed.

Lemma reads_of_shape (ws0 cs : list bytes) : reads_of (map NW ws0 ++ map NR cs) = cs.
Proof.
  unfold reads_of. rewrite flat_map_app.
  assert (H1 : forall l, flat_map (fun e => match e with NR c => [c] | _ => [] end) (map NW l) = []).
  { induction l as [|x l IH]; [reflexivity|exact IH]. }
  assert (H2 : forall l, flat_map (fun e => match e with NR c => [c] | _ => [] end) (map NR l) = l).
  { induction l as [|x l IH]; [reflexivity|]. cbn [map flat_map app]. rewrite IH. reflexivity. }
  rewrite H1, H2. reflexivity.
Qed.

Lemma writes_of_shape (ws0 cs : list bytes) : writes_of (map NW ws0 ++ map NR cs) = ws0.
Proof.
  unfold writes_of. rewrite flat_map_app.
  assert (H1 : forall l, flat_map (fun e => match e with NW w => [w] | _ => [] end) (map NW l) = l).
  { induction l as [|x l IH]; [reflexivity|]. cbn [map flat_map app]. rewrite IH. reflexivity. }
  assert (H2 : forall l, flat_map (fun e => match e with NW w => [w] | _ => [] end) (map NR l) = []).
  { induction l as [|x l IH]; [reflexivity|exact IH]. }
  rewrite H1, H2. apply app_nil_r.
Qed.

Lemma quiet_shape (ws0 cs : list bytes) : quiet (map NW ws0 ++ map NR cs) = true.
Proof.
  unfold quiet. rewrite forallb_app. apply andb_true_iff. split.
  - induction ws0 as [|x l IH]; [reflexivity|exact IH].
  - induction cs as [|x l IH]; [reflexivity|exact IH].
Qed.

(* the shape of the task: the request is written (any number of Channel.Write calls), then the
   reply arrives in reads c1 .. cn *)
Theorem reply_never_lost : forall s o p ws0 cs m,
  n_buf s = [] -> n_panic s = false -> op_payload o = BOk p ->
  concat cs = m ->
  (forall k, (k < length cs)%nat -> rx_match (delim_re (n_ver s)) (concat (firstn k cs)) = false) ->
  rx_match (delim_re (n_ver s)) m = true -> contains END_RPC m = false ->
  message_id_of m = Z.of_N (n_next_id s) -> Z.of_N (n_next_id s) <> 0%Z ->
  exists s' r rpce pe,
    do_rpc s o (map NW ws0 ++ map NR cs)
    = (s', ROk (Z.of_N (n_next_id s))
               (ser_raw (serialize (n_ver s) (n_force s) (n_xh s) (n_next_id s) p))
               (ser_framed (serialize (n_ver s) (n_force s) (n_xh s) (n_next_id s) p))
               r rpce pe) /\
    record_fast (n_ver s) m = RecOut r rpce pe /\
    record (n_ver s) m = RecOut r rpce pe /\
    n_buf s' = [] /\ n_store s' = store_del (n_store s) (Z.of_N (n_next_id s)) /\
    n_next_id s' = n_next_id s + 1 /\ n_writes s' = n_writes s ++ ws0 /\
    n_panic s' = false /\ n_ver s' = n_ver s.
Proof.
  intros s o p ws0 cs m Hbuf Hpan Hp Hcat Hpre Hm Hc Hid Hne.
  pose proof (reply_never_lost_gen s o p (map NW ws0 ++ map NR cs) m Hbuf Hpan Hp
                (quiet_shape ws0 cs)) as H.
  rewrite reads_of_shape, writes_of_shape in H.
  apply H; assumption.
Qed.

(* --- what the decoding is --- *)

(* 1.1: a well-formed chunked message decodes (through the functional decoder and through the
   cursor-level transcription of the Go loop alike) to the concatenation of its chunks *)
Theorem record_11_wellformed : forall chunks pre post,
  chunks <> [] -> Forall chunk_ok chunks -> ws pre -> ws post ->
  let m := pre ++ encode11 chunks ++ post in
  record_fast V11 m
  = RecOut (finish11 (concat chunks)) (carries_marker m || carries_marker (finish11 (concat chunks))) false
  /\ record V11 m
  = RecOut (finish11 (concat chunks)) (carries_marker m || carries_marker (finish11 (concat chunks))) false
  /\ record11_go m = DOk (finish11 (concat chunks)).
Proof.
  intros chunks pre post Hne Hok Hpre Hpost m.
  pose proof (wellformed11 chunks pre post Hne Hok Hpre Hpost) as Hw. fold m in Hw.
  assert (H1 : record_fast V11 m
               = RecOut (finish11 (concat chunks))
                        (carries_marker m || carries_marker (finish11 (concat chunks))) false).
  { unfold record_fast, record_with. rewrite Hw. reflexivity. }
  split; [exact H1|]. split; [rewrite record_refines; exact H1|].
  rewrite record11_go_refines. exact Hw.
Qed.

Theorem reply_never_lost_11 : forall s o p ws0 cs pre chunks post,
  n_ver s = V11 ->
  n_buf s = [] -> n_panic s = false -> op_payload o = BOk p ->
  let m := pre ++ encode11 chunks ++ post in
  concat cs = m ->
  (forall k, (k < length cs)%nat -> rx_match (delim_re V11) (concat (firstn k cs)) = false) ->
  rx_match (delim_re V11) m = true -> contains END_RPC m = false ->
  message_id_of m = Z.of_N (n_next_id s) -> Z.of_N (n_next_id s) <> 0%Z ->
  chunks <> [] -> Forall chunk_ok chunks -> ws pre -> ws post ->
  exists s',
    do_rpc s o (map NW ws0 ++ map NR cs)
    = (s', ROk (Z.of_N (n_next_id s))
               (ser_raw (serialize V11 (n_force s) (n_xh s) (n_next_id s) p))
               (ser_framed (serialize V11 (n_force s) (n_xh s) (n_next_id s) p))
               (finish11 (concat chunks))
               (carries_marker m || carries_marker (finish11 (concat chunks))) false) /\
    n_buf s' = [] /\ n_store s' = store_del (n_store s) (Z.of_N (n_next_id s)) /\
    n_next_id s' = n_next_id s + 1.
Proof.
  intros s o p ws0 cs pre chunks post Hv Hbuf Hpan Hp m Hcat Hpre Hm Hc Hid Hne Hcne Hok Hwpre Hwpost.
  destruct (record_11_wellformed chunks pre post Hcne Hok Hwpre Hwpost) as [Hw _]. fold m in Hw.
  clearbody m. rewrite <- Hv in Hpre, Hm.
  destruct (reply_never_lost s o p ws0 cs m Hbuf Hpan Hp Hcat Hpre Hm Hc Hid Hne)
    as (s' & r & rpce & pe & Hd & Hrec & _ & Hb & Hst & Hn & _).
  rewrite Hv in Hd, Hrec. rewrite Hw in Hrec. injection Hrec as <- <- <-.
  exists s'. auto.
Qed.

(* 1.0: the result is the payload before the end-of-message marker, space-trimmed, without a
   leading XML declaration *)
Theorem reply_never_lost_10 : forall s o p ws0 cs payload post,
  n_ver s = V10 ->
  n_buf s = [] -> n_panic s = false -> op_payload o = BOk p ->
  let m := payload ++ nc_v1dot0_delim ++ post in
  concat cs = m ->
  (forall k, (k < length cs)%nat -> rx_match (delim_re V10) (concat (firstn k cs)) = false) ->
  rx_match (delim_re V10) m = true -> contains END_RPC m = false ->
  message_id_of m = Z.of_N (n_next_id s) -> Z.of_N (n_next_id s) <> 0%Z ->
  ws post ->
  exists s',
    do_rpc s o (map NW ws0 ++ map NR cs)
    = (s', ROk (Z.of_N (n_next_id s))
               (ser_raw (serialize V10 (n_force s) (n_xh s) (n_next_id s) p))
               (ser_framed (serialize V10 (n_force s) (n_xh s) (n_next_id s) p))
               (go_trim_space (trim_prefix nc_xml_header payload))
               (carries_marker m) false) /\
    n_buf s' = [] /\ n_store s' = store_del (n_store s) (Z.of_N (n_next_id s)) /\
    n_next_id s' = n_next_id s + 1.
Proof.
  intros s o p ws0 cs payload post Hv Hbuf Hpan Hp m Hcat Hpre Hm Hc Hid Hne Hwpost.
  assert (Hw : record_fast V10 m
               = RecOut (go_trim_space (trim_prefix nc_xml_header payload)) (carries_marker m) false).
  { unfold record_fast, record_with. unfold m at 1.
    rewrite (record10_payload_any payload post Hwpost). reflexivity. }
  clearbody m. rewrite <- Hv in Hpre, Hm.
  destruct (reply_never_lost s o p ws0 cs m Hbuf Hpan Hp Hcat Hpre Hm Hc Hid Hne)
    as (s' & r & rpce & pe & Hd & Hrec & _ & Hb & Hst & Hn & _).
  rewrite Hv in Hd, Hrec. rewrite Hw in Hrec. injection Hrec as <- <- <-.
  exists s'. auto.
Qed.

(* ================================================================================================
   Non-vacuity: closed instances checked by computation *)

Definition ex_reply11 : bytes :=
  encode11 [bs "<rpc-reply message-id=""101"">"; bs "<data>x</data>"; bs "</rpc-reply>"] ++ [10].
(* three different ways of cutting it *)
Definition ex_cut (ns : list nat) (m : bytes) : list bytes :=
  (fix go (ns : list nat) (m : bytes) : list bytes :=
     match ns with [] => [m] | n :: t => firstn n m :: go t (skipn n m) end) ns m.

Example ex_hyps11 :
  let cs := ex_cut [5; 30; 3]%nat ex_reply11 in
  concat cs = ex_reply11 /\
  forallb (fun k => negb (rx_match (delim_re V11) (concat (firstn k cs)))) (seq 0 (length cs)) = true /\
  rx_match (delim_re V11) ex_reply11 = true /\ contains END_RPC ex_reply11 = false /\
  message_id_of ex_reply11 = 101%Z.
Proof. vm_compute. repeat split; reflexivity. Qed.

Example ex_do_rpc11 :
  let s := mkN V11 false false [] [] 101 [] false in
  map (fun ns => snd (do_rpc s (ORaw (bs "<get/>"))
                        (map NW [bs "req"; bs "ret"] ++ map NR (ex_cut ns ex_reply11))))
      [[]; [1]; [5; 30; 3]; [40; 1; 1; 1]]%nat
  = repeat (ROk 101 (ser_raw (serialize V11 false false 101 (bs "<get/>")))
                    (ser_framed (serialize V11 false false 101 (bs "<get/>")))
                    (bs "<rpc-reply message-id=""101""><data>x</data></rpc-reply>") false false) 4.
Proof. vm_compute. reflexivity. Qed.

Example ex_record10 :
  record10 (nc_xml_header ++ bs "  <rpc-reply><ok/></rpc-reply> " ++ nc_v1dot0_delim ++ [10; 32])
  = bs "<rpc-reply><ok/></rpc-reply>"
  /\ record10 (bs " " ++ nc_v1dot0_delim) = []
  /\ record10 nc_v1dot0_delim = [].
Proof. vm_compute. repeat split; reflexivity. Qed.

Print Assumptions read_chunks_filed.
Print Assumptions message_any_split_exact.
Print Assumptions message_any_split.
Print Assumptions split_independent_eq.
Print Assumptions split_independent.
Print Assumptions message_any_split_buf.
Print Assumptions split_independent_buf.
Print Assumptions record10_payload.
Print Assumptions record10_payload_decl.
Print Assumptions record10_payload_any.
Print Assumptions run_segment_quiet.
Print Assumptions reply_never_lost_gen.
Print Assumptions reply_never_lost.
Print Assumptions record_11_wellformed.
Print Assumptions reply_never_lost_11.
Print Assumptions reply_never_lost_10.
Print Assumptions ex_hyps11.
Print Assumptions ex_do_rpc11.
Print Assumptions ex_record10.
