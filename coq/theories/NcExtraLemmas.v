(* NcExtraLemmas.v — further NETCONF theorems:
   PART 1  the content of every request (C03): what op_payload returns for each operation, as an
           explicit term over the caller's arguments, including the build errors;
   PART 2  ForceSelfClosingTags is local (C03);
   PART 3  RPC time-outs and transport errors (C05 / C06 for NETCONF, C08: the id advances even
           after a time-out, and a late reply is kept, not deleted).
   Proofs only; no definition of the model is changed. *)
From Scrapli Require Import Bytes BytesLemmas Regex PlatformTypes Generated Channel Netconf NetconfLemmas
  NcSession NcSessionLemmas NcSegLemmas.
From Coq Require Import ZifyBool ZifyN ZifyNat.
Open Scope N_scope.

(* ================================================================================================
   PART 1 — request content *)

Lemma beqb_false_neq (a b : bytes) : a <> b -> beqb a b = false.
Proof.
  intros Hne. destruct (beqb a b) eqn:E; [|reflexivity].
  exfalso. apply Hne. apply beqb_true_eq. exact E.
Qed.

Lemma beqb_neq_false (a b : bytes) : beqb a b = false -> a <> b.
Proof. intros E ->. rewrite beqb_refl in E. discriminate. Qed.

Lemma filter_xpath_nonempty : ncd_filter_xpath <> [].
Proof. discriminate. Qed.

Lemma filter_types_distinct : ncd_filter_xpath <> ncd_filter_subtree.
Proof. discriminate. Qed.

(* --- the filter element: the four cases of filter_elem --- *)

Lemma filter_elem_absent (f ft : bytes) : f = [] \/ ft = [] -> filter_elem f ft = BOk [].
Proof. intros [-> | ->]; [reflexivity|]. destruct f; reflexivity. Qed.

Lemma filter_elem_subtree (f : bytes) :
  f <> [] ->
  filter_elem f ncd_filter_subtree
  = BOk (elem (bs "filter") (attr (bs "type") ncd_filter_subtree) f).
Proof. intros Hf. destruct f as [|x f]; [contradiction|]. reflexivity. Qed.

Lemma filter_elem_xpath (f : bytes) :
  f <> [] ->
  filter_elem f ncd_filter_xpath
  = BOk (elem (bs "filter") (attr (bs "type") ncd_filter_xpath ++ attr (bs "select") f) []).
Proof. intros Hf. destruct f as [|x f]; [contradiction|]. reflexivity. Qed.

Lemma filter_elem_invalid (f ft : bytes) :
  f <> [] -> ft <> [] -> ft <> ncd_filter_subtree -> ft <> ncd_filter_xpath ->
  filter_elem f ft = BErr.
Proof.
  intros Hf Hft H1 H2. destruct f as [|x f]; [contradiction|]. destruct ft as [|y ft]; [contradiction|].
  unfold filter_elem. rewrite (beqb_false_neq _ _ H1), (beqb_false_neq _ _ H2). reflexivity.
Qed.

Lemma filter_elem_err_iff (f ft : bytes) :
  filter_elem f ft = BErr <->
  (f <> [] /\ ft <> [] /\ ft <> ncd_filter_subtree /\ ft <> ncd_filter_xpath).
Proof.
  split.
  - intros H. destruct f as [|x f]; [discriminate|]. destruct ft as [|y ft]; [discriminate|].
    unfold filter_elem in H.
    destruct (beqb (y :: ft) ncd_filter_subtree) eqn:E1; [discriminate|].
    destruct (beqb (y :: ft) ncd_filter_xpath) eqn:E2; [discriminate|].
    repeat split; try discriminate; apply beqb_neq_false; assumption.
  - intros (Hf & Hft & H1 & H2). apply filter_elem_invalid; assumption.
Qed.

(* --- the with-defaults element --- *)

Lemma defaults_elem_absent : defaults_elem [] = BOk [].
Proof. reflexivity. Qed.

Lemma defaults_elem_valid (dt : bytes) :
  dt <> [] -> existsb (beqb dt) ncd_defaults_types = true ->
  defaults_elem dt = BOk (elem (bs "with-defaults") (attr (bs "xmlns") ncd_default_namespace) dt).
Proof.
  intros Hne Hin. destruct dt as [|x dt]; [contradiction|]. unfold defaults_elem. rewrite Hin. reflexivity.
Qed.

Lemma defaults_elem_err_iff (dt : bytes) :
  defaults_elem dt = BErr <-> (dt <> [] /\ existsb (beqb dt) ncd_defaults_types = false).
Proof.
  split.
  - intros H. destruct dt as [|x dt]; [discriminate|]. unfold defaults_elem in H.
    destruct (existsb (beqb (x :: dt)) ncd_defaults_types); [discriminate|]. split; [discriminate|reflexivity].
  - intros [Hne Hin]. destruct dt as [|x dt]; [contradiction|]. unfold defaults_elem. rewrite Hin. reflexivity.
Qed.

(* membership in the generated list of defaults modes, as a plain disjunction of equalities *)
Lemma defaults_types_mem (dt : bytes) :
  existsb (beqb dt) ncd_defaults_types = true <-> In dt ncd_defaults_types.
Proof.
  rewrite existsb_exists. split.
  - intros (x & Hin & E). apply beqb_true_eq in E. subst x. exact Hin.
  - intros Hin. exists dt. split; [exact Hin|apply beqb_refl].
Qed.

(* --- get --- *)

Theorem get_content : forall f ft,
  ((f = [] \/ ft = []) -> op_payload (OGet f ft) = BOk (elem (bs "get") [] [])) /\
  (f <> [] -> ft = ncd_filter_subtree ->
     op_payload (OGet f ft) = BOk (elem (bs "get") [] (elem (bs "filter") (attr (bs "type") ft) f))) /\
  (f <> [] -> ft = ncd_filter_xpath ->
     op_payload (OGet f ft)
     = BOk (elem (bs "get") [] (elem (bs "filter") (attr (bs "type") ft ++ attr (bs "select") f) []))) /\
  (f <> [] -> ft <> [] -> ft <> ncd_filter_subtree -> ft <> ncd_filter_xpath ->
     op_payload (OGet f ft) = BErr).
Proof.
  intros f ft. cbn [op_payload]. splits.
  - intros H. rewrite (filter_elem_absent f ft H). reflexivity.
  - intros Hf ->. rewrite (filter_elem_subtree f Hf). reflexivity.
  - intros Hf ->. rewrite (filter_elem_xpath f Hf). reflexivity.
  - intros Hf Hft H1 H2. rewrite (filter_elem_invalid f ft Hf Hft H1 H2). reflexivity.
Qed.

(* the request fails to build exactly when a non-empty filter comes with an unknown type *)
Theorem get_build_error : forall f ft,
  op_payload (OGet f ft) = BErr <->
  (f <> [] /\ ft <> [] /\ ft <> ncd_filter_subtree /\ ft <> ncd_filter_xpath).
Proof.
  intros f ft. rewrite <- filter_elem_err_iff. cbn [op_payload].
  destruct (filter_elem f ft); split; intros H; try discriminate; reflexivity.
Qed.

(* --- get-config: the payload in full (complements get_config_content / _filter_cases) --- *)

Theorem get_config_content_full : forall s f ft dt fe de,
  filter_elem f ft = BOk fe -> defaults_elem dt = BOk de ->
  op_payload (OGetConfig s f ft dt)
  = BOk (elem (bs "get-config") [] (datastore (bs "source") s ++ fe ++ de)).
Proof. intros s f ft dt fe de Hf Hd. cbn [op_payload]. rewrite Hf, Hd. reflexivity. Qed.

(* with a subtree filter and a valid defaults mode, everything the caller gave appears as given *)
Corollary get_config_subtree_defaults : forall s f dt,
  f <> [] -> dt <> [] -> In dt ncd_defaults_types ->
  op_payload (OGetConfig s f ncd_filter_subtree dt)
  = BOk (elem (bs "get-config") []
           (datastore (bs "source") s
              ++ elem (bs "filter") (attr (bs "type") ncd_filter_subtree) f
              ++ elem (bs "with-defaults") (attr (bs "xmlns") ncd_default_namespace) dt)).
Proof.
  intros s f dt Hf Hd Hin. apply get_config_content_full.
  - apply filter_elem_subtree. exact Hf.
  - apply defaults_elem_valid; [exact Hd|]. apply defaults_types_mem. exact Hin.
Qed.

Theorem get_config_build_error : forall s f ft dt,
  op_payload (OGetConfig s f ft dt) = BErr <->
  ((f <> [] /\ ft <> [] /\ ft <> ncd_filter_subtree /\ ft <> ncd_filter_xpath) \/
   (dt <> [] /\ existsb (beqb dt) ncd_defaults_types = false)).
Proof.
  intros s f ft dt. rewrite <- filter_elem_err_iff, <- defaults_elem_err_iff. cbn [op_payload].
  destruct (filter_elem f ft) as [fe|]; [|split; [intros _; left; reflexivity|reflexivity]].
  destruct (defaults_elem dt) as [de|]; split; intros H.
  - discriminate.
  - destruct H as [H|H]; discriminate.
  - right. reflexivity.
  - reflexivity.
Qed.

(* --- the operations that always build: stated as equations (the implications of the same names in
       NcSessionLemmas follow from these) --- *)

Theorem copy_config_content : forall s t,
  op_payload (OCopyConfig s t)
  = BOk (elem (bs "copy-config") [] (datastore (bs "target") t ++ datastore (bs "source") s)).
Proof. reflexivity. Qed.

Theorem delete_config_content : forall t,
  op_payload (ODeleteConfig t) = BOk (elem (bs "delete-config") [] (datastore (bs "target") t)).
Proof. reflexivity. Qed.

Theorem lock_content : forall t,
  op_payload (OLock t) = BOk (elem (bs "lock") [] (datastore (bs "target") t)).
Proof. reflexivity. Qed.

Theorem unlock_content : forall t,
  op_payload (OUnlock t) = BOk (elem (bs "unlock") [] (datastore (bs "target") t)).
Proof. reflexivity. Qed.

Theorem validate_content : forall s,
  op_payload (OValidate s) = BOk (elem (bs "validate") [] (datastore (bs "source") s)).
Proof. reflexivity. Qed.

Theorem discard_content : op_payload ODiscard = BOk (elem (bs "discard-changes") [] []).
Proof. reflexivity. Qed.

(* commit: every option contributes its own element or nothing; never a build error.  The persist
   token and id are character data, so they pass through the XML text escaper. *)
Theorem commit_content : forall c tmo p pid,
  op_payload (OCommit c tmo p pid)
  = BOk (elem (bs "commit") []
           ((if c then elem (bs "confirmed") [] [] else [])
              ++ (if 0 <? tmo then elem (bs "confirm-timeout") [] (print_dec tmo) else [])
              ++ (match p with [] => [] | _ => elem (bs "persist") [] (xml_escape p) end)
              ++ (match pid with [] => [] | _ => elem (bs "persist-id") [] (xml_escape pid) end))).
Proof. reflexivity. Qed.

Corollary commit_plain : op_payload (OCommit false 0 [] []) = BOk (elem (bs "commit") [] []).
Proof. reflexivity. Qed.

Corollary commit_never_fails : forall c tmo p pid, op_payload (OCommit c tmo p pid) <> BErr.
Proof. intros c tmo p pid. rewrite commit_content. discriminate. Qed.

(* a token free of XML specials is carried unaltered *)
Definition xml_plain (b : N) : bool :=
  negb ((b =? 34) || (b =? 39) || (b =? 38) || (b =? 60) || (b =? 62) || (b =? 9) || (b =? 10) || (b =? 13)).

Lemma xml_escape_plain (s : bytes) : forallb xml_plain s = true -> xml_escape s = s.
Proof.
  induction s as [|b t IH]; intros H; [reflexivity|].
  cbn [forallb] in H. apply andb_true_iff in H. destruct H as [Hb Ht].
  unfold xml_escape in *. cbn [flat_map]. rewrite (IH Ht).
  unfold xml_plain in Hb. unfold xml_escape_byte.
  repeat match goal with |- context [?x =? ?y] => destruct (N.eqb_spec x y); [subst; discriminate Hb|] end.
  reflexivity.
Qed.

Corollary commit_persist_plain : forall c tmo p pid,
  p <> [] -> pid <> [] -> forallb xml_plain p = true -> forallb xml_plain pid = true ->
  op_payload (OCommit c tmo p pid)
  = BOk (elem (bs "commit") []
           ((if c then elem (bs "confirmed") [] [] else [])
              ++ (if 0 <? tmo then elem (bs "confirm-timeout") [] (print_dec tmo) else [])
              ++ elem (bs "persist") [] p ++ elem (bs "persist-id") [] pid)).
Proof.
  intros c tmo p pid Hp Hpid Ep Epid. rewrite commit_content.
  rewrite (xml_escape_plain p Ep), (xml_escape_plain pid Epid).
  destruct p as [|x p]; [contradiction|]. destruct pid as [|y pid]; [contradiction|]. reflexivity.
Qed.

(* --- every payload sits, unaltered, inside the rpc element with the base namespace and the id --- *)

Theorem every_payload_in_rpc : forall o v xh id p,
  op_payload o = BOk p ->
  ser_raw (serialize v false xh id p) = (if xh then [] else ncd_xml_header) ++ rpc_xml id p /\
  rpc_xml id p
  = elem (bs "rpc") (attr (bs "xmlns") ncd_base_namespace ++ attr (bs "message-id") (print_dec id)) p.
Proof.
  intros o v xh id p _. split.
  - apply force_option_off.
  - destruct (rpc_wrapper id p) as (attrs & E & ->). exact E.
Qed.

(* ... hence the payload occurs verbatim in the message handed to the channel *)
Corollary every_payload_verbatim : forall o v xh id p,
  op_payload o = BOk p ->
  exists pre post, ser_raw (serialize v false xh id p) = pre ++ p ++ post.
Proof.
  intros o v xh id p H. destruct (every_payload_in_rpc o v xh id p H) as [E1 E2].
  destruct (elem_inner (bs "rpc")
              (attr (bs "xmlns") ncd_base_namespace ++ attr (bs "message-id") (print_dec id)) p)
    as (pre & post & E3).
  exists ((if xh then [] else ncd_xml_header) ++ pre), post.
  rewrite E1, E2, E3. repeat rewrite <- app_assoc. reflexivity.
Qed.

(* ================================================================================================
   PART 2 — ForceSelfClosingTags is local *)

Lemma find_all_no_match (r : re) (s : bytes) : rx_match r s = false -> rx_find_all r s = [].
Proof.
  unfold rx_match, rx_find_all, rx_search. intros H.
  replace (length s + 2)%nat with (S (length s + 1)) by lia.
  cbn [find_all_loop Nat.ltb Nat.leb last_byte_before skipn].
  destruct (search r (fuel_for r s) None 0 s); [reflexivity|reflexivity|discriminate].
Qed.

(* (a) a message with no empty open/close pair is left exactly as it is *)
Theorem force_self_closing_no_match : forall s,
  rx_match rx_ncd_emptyTags s = false -> force_self_closing s = s.
Proof. intros s H. unfold force_self_closing. rewrite (find_all_no_match _ _ H). reflexivity. Qed.

Corollary force_self_closing_no_matches : forall s,
  rx_find_all rx_ncd_emptyTags s = [] -> force_self_closing s = s.
Proof. intros s H. unfold force_self_closing. rewrite H. reflexivity. Qed.

(* (b) the option changes the raw message by force_self_closing and nothing else; the framing is
   the ordinary framing of the rewritten message *)
Theorem force_option_local : forall v xh id p,
  ser_raw (serialize v true xh id p) = force_self_closing (ser_raw (serialize v false xh id p)) /\
  ser_framed (serialize v true xh id p) = frame v (force_self_closing (ser_raw (serialize v false xh id p))).
Proof. intros v xh id p. split; reflexivity. Qed.

Corollary force_option_explicit : forall v xh id p,
  ser_raw (serialize v true xh id p)
  = force_self_closing ((if xh then [] else ncd_xml_header) ++ rpc_xml id p).
Proof. intros v xh id p. destruct (force_option_local v xh id p) as [-> _]. rewrite force_option_off. reflexivity. Qed.

(* when the message has no empty pair the option changes nothing at all, framing included *)
Corollary force_option_noop : forall v xh id p,
  rx_match rx_ncd_emptyTags (ser_raw (serialize v false xh id p)) = false ->
  serialize v true xh id p = serialize v false xh id p.
Proof.
  intros v xh id p H. apply force_self_closing_no_match in H.
  unfold serialize in *. cbn [ser_raw] in H. rewrite H. reflexivity.
Qed.

(* (c) closed instances *)
Example force_self_closing_example :
  force_self_closing (bs "<a><b></b><c x=""1""></c><d>t</d></a>") = bs "<a><b/><c x=""1""/><d>t</d></a>".
Proof. vm_compute. reflexivity. Qed.

Example force_self_closing_unchanged :
  force_self_closing (bs "<a><d>t</d><e/></a>") = bs "<a><d>t</d><e/></a>" /\
  rx_match rx_ncd_emptyTags (bs "<a><d>t</d><e/></a>") = false.
Proof. vm_compute. split; reflexivity. Qed.

(* a whole request: lock has an empty datastore element, which becomes self-closing; the rest of
   the message, the id included, is as without the option *)
Example force_lock_example :
  ser_raw (serialize V10 true true 101 (elem (bs "lock") [] (datastore (bs "target") (bs "candidate"))))
  = bs "<rpc xmlns=""urn:ietf:params:xml:ns:netconf:base:1.0"" message-id=""101""><lock><target><candidate/></target></lock></rpc>".
Proof. vm_compute. reflexivity. Qed.

(* ================================================================================================
   PART 3 — time-outs and transport errors of one RPC *)

Definition is_deadline (e : nlev) : bool := match e with NDeadline => true | _ => false end.
Definition is_err (e : nlev) : bool := match e with NErr => true | _ => false end.

(* the state in which the segment of a built request is replayed: the id already consumed *)
Definition with_next_id (s : nst) (n : N) : nst :=
  mkN (n_ver s) (n_force s) (n_xh s) (n_buf s) (n_store s) n (n_writes s) (n_panic s).

(* (a) what run_segment returns as flags, and what it never touches *)
Theorem run_segment_flags : forall seg s dl er,
  snd (fst (run_segment s seg dl er)) = dl || existsb is_deadline seg /\
  snd (run_segment s seg dl er) = er || existsb is_err seg /\
  n_next_id (fst (fst (run_segment s seg dl er))) = n_next_id s /\
  n_ver (fst (fst (run_segment s seg dl er))) = n_ver s /\
  n_force (fst (fst (run_segment s seg dl er))) = n_force s /\
  n_xh (fst (fst (run_segment s seg dl er))) = n_xh s.
Proof.
  induction seg as [|e t IH]; intros s dl er.
  - cbn [run_segment existsb fst snd]. rewrite !orb_false_r. splits; reflexivity.
  - destruct e as [c|w| | |]; cbn [run_segment existsb is_deadline is_err orb].
    + destruct (IH (apply_chunk s c) dl er) as (A1 & A2 & A3 & A4 & A5 & A6).
      destruct (apply_chunk_inv s c) as (B1 & B2 & B3 & B4 & _).
      splits; congruence.
    + exact (IH _ dl er).
    + exact (IH s dl er).
    + destruct (IH s true er) as (A1 & A2 & A3 & A4 & A5 & A6).
      rewrite orb_true_r. splits; assumption.
    + destruct (IH s dl true) as (A1 & A2 & A3 & A4 & A5 & A6).
      rewrite orb_true_r. splits; assumption.
Qed.

Corollary run_segment_flags_eq : forall seg s dl er s' dl' er',
  run_segment s seg dl er = (s', dl', er') ->
  dl' = dl || existsb is_deadline seg /\ er' = er || existsb is_err seg /\
  n_next_id s' = n_next_id s /\ n_ver s' = n_ver s /\ n_force s' = n_force s /\ n_xh s' = n_xh s.
Proof.
  intros seg s dl er s' dl' er' H. pose proof (run_segment_flags seg s dl er) as F.
  rewrite H in F. cbn [fst snd] in F. exact F.
Qed.

(* the id field is inert in the read loop: replaying with another id gives the same state but for
   that field *)
Lemma apply_chunk_with_id (s : nst) (n : N) (c : bytes) :
  apply_chunk (with_next_id s n) c = with_next_id (apply_chunk s c) n.
Proof.
  unfold apply_chunk, with_next_id. cbn [n_ver n_force n_xh n_buf n_store n_next_id n_writes n_panic].
  destruct (nc_read_chunk (n_ver s) (n_buf s) (n_store s) c); reflexivity.
Qed.

Lemma run_segment_with_id : forall seg s n dl er,
  run_segment (with_next_id s n) seg dl er
  = (with_next_id (fst (fst (run_segment s seg dl er))) n,
     snd (fst (run_segment s seg dl er)), snd (run_segment s seg dl er)).
Proof.
  induction seg as [|e t IH]; intros s n dl er.
  - reflexivity.
  - destruct e as [c|w| | |]; cbn [run_segment].
    + rewrite apply_chunk_with_id. apply IH.
    + exact (IH (mkN (n_ver s) (n_force s) (n_xh s) (n_buf s) (n_store s) (n_next_id s)
                     (n_writes s ++ [w]) (n_panic s)) n dl er).
    + apply IH.
    + apply IH.
    + apply IH.
Qed.

(* do_rpc for a built request, with the replay named *)
Lemma do_rpc_built (s : nst) (o : nc_op) (seg : list nlev) (p : bytes) :
  op_payload o = BOk p -> n_panic s = false ->
  let s2 := fst (fst (run_segment (with_next_id s (n_next_id s + 1)) seg false false)) in
  let zid := Z.of_N (n_next_id s) in
  n_panic s2 = false /\
  do_rpc s o seg
  = if existsb is_err seg then (s2, RError zid)
    else if existsb is_deadline seg then (s2, RTimeout zid)
    else match store_get (n_store s2) zid with
         | None => (s2, RNoReply zid)
         | Some raw =>
             let s3 := mkN (n_ver s2) (n_force s2) (n_xh s2) (n_buf s2) (store_del (n_store s2) zid)
                           (n_next_id s2) (n_writes s2) (n_panic s2) in
             match record_fast (n_ver s2) raw with
             | RecOut r rpce pe =>
                 (s3, ROk zid (ser_raw (serialize (n_ver s) (n_force s) (n_xh s) (n_next_id s) p))
                              (ser_framed (serialize (n_ver s) (n_force s) (n_xh s) (n_next_id s) p)) r rpce pe)
             | RecPanic => (s3, RPanic)
             end
         end.
Proof.
  intros Hp Hpan s2 zid. unfold do_rpc. rewrite Hp. fold (with_next_id s (n_next_id s + 1)).
  subst s2.
  destruct (run_segment (with_next_id s (n_next_id s + 1)) seg false false) as [[s2 dl] er] eqn:E.
  cbn [fst snd].
  pose proof (run_segment_panic _ _ _ _ _ _ _ E) as Hp2. cbn [with_next_id n_panic] in Hp2.
  rewrite Hpan in Hp2.
  destruct (run_segment_flags_eq _ _ _ _ _ _ _ E) as (Hdl & Her & _).
  cbn [orb] in Hdl, Her. subst dl er. split; [exact Hp2|]. rewrite Hp2. reflexivity.
Qed.

(* (b) a transport error decides the outcome, whatever else happened in the segment *)
Theorem rpc_error_wins : forall s o seg p,
  op_payload o = BOk p -> n_panic s = false ->
  existsb is_err seg = true ->
  snd (do_rpc s o seg) = RError (Z.of_N (n_next_id s)).
Proof.
  intros s o seg p Hp Hpan He. destruct (do_rpc_built s o seg p Hp Hpan) as [_ ->].
  rewrite He. reflexivity.
Qed.

(* (c) a deadline without a transport error is a time-out, whether or not the reply has been filed
   in the meantime: the store is not consulted *)
Theorem rpc_timeout : forall s o seg p,
  op_payload o = BOk p -> n_panic s = false ->
  existsb is_deadline seg = true -> existsb is_err seg = false ->
  snd (do_rpc s o seg) = RTimeout (Z.of_N (n_next_id s)).
Proof.
  intros s o seg p Hp Hpan Hd He. destruct (do_rpc_built s o seg p Hp Hpan) as [_ ->].
  rewrite He, Hd. reflexivity.
Qed.

Corollary rpc_timeout_even_if_filed : forall s o seg p raw,
  op_payload o = BOk p -> n_panic s = false ->
  existsb is_deadline seg = true -> existsb is_err seg = false ->
  store_get (n_store (fst (do_rpc s o seg))) (Z.of_N (n_next_id s)) = Some raw ->
  snd (do_rpc s o seg) = RTimeout (Z.of_N (n_next_id s)).
Proof. intros s o seg p raw Hp Hpan Hd He _. eapply rpc_timeout; eassumption. Qed.

(* the In-style reading of the hypotheses *)
Lemma has_err_In (seg : list nlev) : existsb is_err seg = true <-> In NErr seg.
Proof.
  rewrite existsb_exists. split.
  - intros (e & Hin & He). destruct e; try discriminate. exact Hin.
  - intros Hin. exists NErr. split; [exact Hin|reflexivity].
Qed.

Lemma has_deadline_In (seg : list nlev) : existsb is_deadline seg = true <-> In NDeadline seg.
Proof.
  rewrite existsb_exists. split.
  - intros (e & Hin & He). destruct e; try discriminate. exact Hin.
  - intros Hin. exists NDeadline. split; [exact Hin|reflexivity].
Qed.

Corollary rpc_error_wins_In : forall s o seg p,
  op_payload o = BOk p -> n_panic s = false -> In NErr seg ->
  snd (do_rpc s o seg) = RError (Z.of_N (n_next_id s)).
Proof. intros s o seg p Hp Hpan Hin. eapply rpc_error_wins; eauto. apply has_err_In. exact Hin. Qed.

Corollary rpc_timeout_In : forall s o seg p,
  op_payload o = BOk p -> n_panic s = false -> In NDeadline seg -> ~ In NErr seg ->
  snd (do_rpc s o seg) = RTimeout (Z.of_N (n_next_id s)).
Proof.
  intros s o seg p Hp Hpan Hd Hne. eapply rpc_timeout; eauto.
  - apply has_deadline_In. exact Hd.
  - destruct (existsb is_err seg) eqn:E; [|reflexivity]. exfalso. apply Hne. apply has_err_In. exact E.
Qed.

(* (d) a built request consumes its id in every outcome; a request that fails to build consumes
   none.  No hypothesis on the segment or on n_panic. *)
Theorem id_advances_always : forall s o seg,
  (forall p, op_payload o = BOk p -> n_next_id (fst (do_rpc s o seg)) = n_next_id s + 1) /\
  (op_payload o = BErr ->
     n_next_id (fst (do_rpc s o seg)) = n_next_id s /\ snd (do_rpc s o seg) = RBuildErr).
Proof.
  intros s o seg. destruct (do_rpc s o seg) as [s' r] eqn:E. cbn [fst snd].
  apply do_rpc_cases in E. destruct E as (_ & _ & _ & _ & _ & _ & [(Hb & Hr & Hn)|(p & Hp & Hn & _)]).
  - split; [intros p Hp; congruence|]. intros _. split; assumption.
  - split; [intros _ _; exact Hn|]. intros Hb. congruence.
Qed.

(* two calls in a row, the first of which timed out or failed: the second request is sent under the
   next id, never the same one again *)
Corollary next_request_fresh_id : forall s o1 seg1 o2 seg2 p1 p2,
  op_payload o1 = BOk p1 -> op_payload o2 = BOk p2 -> n_panic s = false ->
  existsb is_deadline seg1 = true \/ existsb is_err seg1 = true ->
  let s1 := fst (do_rpc s o1 seg1) in
  out_id (snd (do_rpc s o1 seg1)) = Some (Z.of_N (n_next_id s)) /\
  n_next_id s1 = n_next_id s + 1 /\
  n_next_id (fst (do_rpc s1 o2 seg2)) = n_next_id s + 2.
Proof.
  intros s o1 seg1 o2 seg2 p1 p2 Hp1 Hp2 Hpan Hcase s1.
  destruct (id_advances_always s o1 seg1) as [A1 _]. specialize (A1 p1 Hp1).
  destruct (id_advances_always s1 o2 seg2) as [A2 _]. specialize (A2 p2 Hp2).
  splits.
  - destruct (existsb is_err seg1) eqn:He.
    + rewrite (rpc_error_wins s o1 seg1 p1 Hp1 Hpan He). reflexivity.
    + destruct Hcase as [Hd|Habs]; [|discriminate].
      rewrite (rpc_timeout s o1 seg1 p1 Hp1 Hpan Hd He). reflexivity.
  - exact A1.
  - rewrite A2. subst s1. rewrite A1. lia.
Qed.

(* (e) after a time-out or an error nothing is removed from the store: the state returned is the
   replay of the segment itself, so the store is the one the read loop built — with the entries
   present before and those filed during the segment, the call's own reply included *)
Theorem late_reply_kept : forall s o seg p,
  op_payload o = BOk p -> n_panic s = false ->
  existsb is_deadline seg = true \/ existsb is_err seg = true ->
  let s2 := fst (fst (run_segment s seg false false)) in
  fst (do_rpc s o seg) = with_next_id s2 (n_next_id s + 1) /\
  (forall j, store_get (n_store (fst (do_rpc s o seg))) j = store_get (n_store s2) j) /\
  (forall j, store_get (n_store s) j <> None -> store_get (n_store (fst (do_rpc s o seg))) j <> None).
Proof.
  intros s o seg p Hp Hpan Hcase s2.
  assert (E : fst (do_rpc s o seg) = with_next_id s2 (n_next_id s + 1)).
  { destruct (do_rpc_built s o seg p Hp Hpan) as [_ ->].
    rewrite run_segment_with_id. cbn [fst]. fold s2.
    destruct (existsb is_err seg); [reflexivity|].
    destruct Hcase as [->|Habs]; [reflexivity|discriminate]. }
  splits.
  - exact E.
  - intros j. rewrite E. reflexivity.
  - intros j Hj. rewrite E. cbn [with_next_id n_store]. subst s2.
    destruct (run_segment s seg false false) as [[s' dl] er] eqn:R. cbn [fst].
    apply run_segment_inv in R. destruct R as (_ & _ & _ & _ & _ & _ & K). auto.
Qed.

(* in particular the reply of the timed-out call, if it was filed, is still in the store afterwards
   (the Go code leaves it there; nothing ever collects it) *)
Corollary timed_out_reply_stays : forall s o seg p raw,
  op_payload o = BOk p -> n_panic s = false ->
  existsb is_deadline seg = true -> existsb is_err seg = false ->
  store_get (n_store (fst (fst (run_segment s seg false false)))) (Z.of_N (n_next_id s)) = Some raw ->
  snd (do_rpc s o seg) = RTimeout (Z.of_N (n_next_id s)) /\
  store_get (n_store (fst (do_rpc s o seg))) (Z.of_N (n_next_id s)) = Some raw.
Proof.
  intros s o seg p raw Hp Hpan Hd He Hget. split.
  - eapply rpc_timeout; eassumption.
  - destruct (late_reply_kept s o seg p Hp Hpan (or_introl Hd)) as (_ & K & _). rewrite K. exact Hget.
Qed.

(* non-vacuity: a closed 1.0 segment in which the reply arrives, then the deadline fires *)
Example timeout_instance :
  let s := mkN V10 false false [] [] 101 [] false in
  let seg := [NW (bs "x"); NR (sample_reply "101"); NDeadline] in
  snd (do_rpc s (OLock (bs "candidate")) seg) = RTimeout 101 /\
  n_next_id (fst (do_rpc s (OLock (bs "candidate")) seg)) = 102 /\
  store_get (n_store (fst (do_rpc s (OLock (bs "candidate")) seg))) 101 = Some (sample_reply "101").
Proof. vm_compute. splits; reflexivity. Qed.

Print Assumptions get_content.
Print Assumptions get_build_error.
Print Assumptions get_config_build_error.
Print Assumptions copy_config_content.
Print Assumptions delete_config_content.
Print Assumptions lock_content.
Print Assumptions unlock_content.
Print Assumptions validate_content.
Print Assumptions commit_content.
Print Assumptions commit_persist_plain.
Print Assumptions discard_content.
Print Assumptions every_payload_in_rpc.
Print Assumptions every_payload_verbatim.
Print Assumptions force_self_closing_no_match.
Print Assumptions force_option_local.
Print Assumptions force_option_noop.
Print Assumptions force_self_closing_example.
Print Assumptions force_self_closing_unchanged.
Print Assumptions force_lock_example.
Print Assumptions run_segment_flags.
Print Assumptions rpc_error_wins.
Print Assumptions rpc_timeout.
Print Assumptions id_advances_always.
Print Assumptions next_request_fresh_id.
Print Assumptions late_reply_kept.
Print Assumptions timed_out_reply_stays.
Print Assumptions timeout_instance.
