(* NcReadSrc.v — driver/netconf/read.go Driver.read, the NETCONF read loop, as the source has it on
   this run (C08, C02): ONE ROUND of its `for { … }` evaluated for every combination of what a round
   can meet — stop signal, a read error and which side of its hand-over happens, delimiter seen, the
   echo of the own rpc in the buffer, the session's version, a message-id, a subscription id.

   What a round does is what NcSession.nc_examine / apply_chunk model:
     * the chunk is appended to the buffer FIRST, in every round that is not stopped;
     * no delimiter: the buffer is kept;
     * delimiter and `</rpc>` in the buffer (the echo): the buffer becomes what follows the FIRST
       delimiter of the session's version ([rx_after_first (delim_re v)]) — nothing is stored;
     * delimiter, no echo: the buffer is filed under its message-id when that is not 0
       ([(id, b) :: st]), under its subscription id when it has one, and emptied;
     * then the read delay.  A stopped loop returns before reading; a read error is handed to the
       caller (or the loop stops, if that is what happens first) and the round goes on. *)
From Scrapli Require Import DecideLang GeneratedSkel.
From Coq Require Import String List Bool.
Import ListNotations.
Open Scope string_scope.

Record rflags := mkF { f_done : bool; f_err : bool; f_handover : bool; f_match : bool; f_rpc : bool;
                       f_v11 : bool; f_sub : bool; f_mid : bool; f_sid : bool }.

Definition getid_msg := "getID(patterns.messageID.FindSubmatch(b))".
Definition getid_sub := "getID(patterns.subscriptionID.FindSubmatch(b))".

Definition nr_env (f : rflags) : denv :=
  mkEnvX (fun _ => false)
         (fun a b => String.eqb a "err" && String.eqb b "nil" && negb (f_err f))
         (fun x => if String.eqb x "select" then (if f_handover f then "d.errs <- err" else "<-d.done")
                   else if String.eqb x "d.SelectedVersion" then (if f_v11 f then "V1Dot1" else "V1Dot0")
                   else "")
         (fun a => if String.eqb a "ready <-d.done" then Some (f_done f)
                   else if String.eqb a "d.Channel.PromptPattern.Match(b)" then Some (f_match f)
                   else if String.eqb a "bytes.Contains(b, []byte(""</rpc>""))" then Some (f_rpc f)
                   else if String.eqb a "bytes.Contains(b, []byte(""</subscription-id>""))" then Some (f_sub f)
                   else None)
         (fun s a b =>
            (* an id is 0 when it still has its zero value, else when the reply carries none *)
            if String.eqb a "messageID" && String.eqb b "0"
            then Some (Some (match sget s "messageID" with
                             | Some v => if String.eqb v getid_msg then negb (f_mid f) else true
                             | None => true end))
            else if String.eqb a "subID" && String.eqb b "0"
            then Some (Some (match sget s "subID" with
                             | Some v => if String.eqb v getid_sub then negb (f_sid f) else true
                             | None => true end))
            else None)
         (fun l => if String.eqb l "forever" then 1 else 0) (fun _ _ => None).

(* what the model says the round does: (stopped?, effects in order, the buffer's last assignment) *)
Definition nr_spec (f : rflags) : bool * list string * option string :=
  if f_done f then (true, [], None)
  else if f_err f && negb (f_handover f) then (true, ["d.Channel.Read()"], None)
  else
    let rd := ["d.Channel.Read()"] in
    let sl := ["time.Sleep(d.Channel.ReadDelay)"] in
    if negb (f_match f) then (false, app rd sl, Some "append(b, rb...)")
    else if f_rpc f then (false, app rd sl, Some "[]byte(ss[1])")
    else (false,
          app rd (app (if f_mid f then ["d.storeMessage(messageID, b)"] else [])
             (app (if f_sub f && f_sid f then ["d.storeSubscriptionMessage(subID, b)"] else []) sl)),
          Some "nil").

Fixpoint strs_eqb (a b : list string) : bool :=
  match a, b with
  | [], [] => true
  | x :: a', y :: b' => String.eqb x y && strs_eqb a' b'
  | _, _ => false
  end.

Definition opt_eqb (a b : option string) : bool :=
  match a, b with Some x, Some y => String.eqb x y | None, None => true | _, _ => false end.

Definition nr_run_ok (f : rflags) : bool :=
  let '(stopped, calls, buf) := nr_spec f in
  match DecideLang.exec 40 (nr_env f) nc_read_code [] with
  | Returned st v => stopped && String.eqb v "" && strs_eqb (calls_of st) calls && opt_eqb (sget st "b") buf
  | Running st =>
      negb stopped && strs_eqb (calls_of st) calls && opt_eqb (sget st "b") buf
      (* the echo is cut at the delimiter of the SESSION's version *)
      && (if f_match f && f_rpc f
          then opt_eqb (sget st "ss") (Some (if f_v11 f then "patterns.v1Dot1Delim.Split(string(b), endRPCSplitLen)"
                                             else "patterns.v1Dot0Delim.Split(string(b), endRPCSplitLen)"))
          else opt_eqb (sget st "ss") None)
  | _ => false
  end.

Definition bools := [false; true].
Definition all_flags : list rflags :=
  flat_map (fun a => flat_map (fun b => flat_map (fun c => flat_map (fun d => flat_map (fun e =>
  flat_map (fun g => flat_map (fun h => flat_map (fun i => map (fun j => mkF a b c d e g h i j) bools)
  bools) bools) bools) bools) bools) bools) bools) bools.

Definition nc_read_known : list string :=
  ["ready <-d.done"; "err == nil"; "switch select"; "d.Channel.PromptPattern.Match(b)";
   "bytes.Contains(b, []byte(""</rpc>""))"; "switch d.SelectedVersion";
   "bytes.Contains(b, []byte(""</subscription-id>""))"; "messageID == 0"; "subID == 0"].

Definition nc_read_table_ok : bool :=
  forallb nr_run_ok all_flags && Nat.eqb (List.length all_flags) 512 && tests_known nc_read_code nc_read_known.

Theorem nc_read_round_is_source : nc_read_table_ok = true.
Proof. vm_compute. reflexivity. Qed.
Print Assumptions nc_read_round_is_source.
