(* SshArgsLemmas.v — proofs about SshArgs.v (C14). *)
From Scrapli Require Import Bytes BytesLemmas Generated SshArgs.
Open Scope N_scope.

(* ---------- the option texts the property talks about (OpenSSH syntax, written here by hand:
   this is the specification side; the model side takes them from Generated.v) ---------- *)
Definition O_dash_o := bs "-o".
Definition O_strict_yes := bs "StrictHostKeyChecking=yes".
Definition O_strict_no := bs "StrictHostKeyChecking=no".
Definition O_known_hosts (f : bytes) := bs "UserKnownHostsFile=" ++ f.
Definition O_known_hosts_null := bs "UserKnownHostsFile=/dev/null".
Definition DEV_NULL := bs "/dev/null".

(* explicit form of the argument list *)
Definition part_head (c : cfg) : list bytes :=
  [ c_host c; bs "-p"; print_dec (c_port c);
    O_dash_o; bs "ConnectTimeout=" ++ print_dec (c_timeout c);
    O_dash_o; bs "ServerAliveInterval=" ++ print_dec (c_timeout c) ].
Definition part_user (c : cfg) : list bytes :=
  match c_user c with [] => [] | u => [bs "-l"; u] end.
Definition part_strict (c : cfg) : list bytes :=
  if c_strict c then
    [O_dash_o; O_strict_yes]
    ++ match c_known_hosts c with [] => [] | f => [O_dash_o; O_known_hosts f] end
  else [O_dash_o; O_strict_no; O_dash_o; O_known_hosts_null].
Definition part_config (c : cfg) : list bytes :=
  match c_config c with [] => [bs "-F"; DEV_NULL] | f => [bs "-F"; f] end.
Definition part_key (c : cfg) : list bytes :=
  match c_key c with [] => [] | k => [bs "-i"; k] end.
Definition part_netconf (c : cfg) : list bytes :=
  if c_netconf c then [bs "-s"; bs "netconf"] else [].

Definition argv_spec (c : cfg) : list bytes :=
  part_head c ++ part_user c ++ part_strict c ++ part_config c ++ part_key c
  ++ c_extra c ++ part_netconf c.

(* the generated literals are the expected ones, at the expected positions (re-checked whenever
   Generated.v changes) *)
Lemma literals :
  alit 0 = bs "-p" /\ alit 1 = bs "%d" /\ alit 2 = bs "-o" /\ alit 3 = bs "ConnectTimeout=%d"
  /\ alit 4 = bs "-o" /\ alit 5 = bs "ServerAliveInterval=%d" /\ alit 6 = [] /\ alit 7 = bs "-l"
  /\ alit 8 = bs "-o" /\ alit 9 = O_strict_yes /\ alit 10 = [] /\ alit 11 = bs "-o"
  /\ alit 12 = bs "UserKnownHostsFile=%s" /\ alit 13 = bs "-o" /\ alit 14 = O_strict_no
  /\ alit 15 = bs "-o" /\ alit 16 = O_known_hosts_null /\ alit 17 = [] /\ alit 18 = bs "-F"
  /\ alit 19 = bs "-F" /\ alit 20 = DEV_NULL /\ alit 21 = [] /\ alit 22 = bs "-i"
  /\ nlit 0 = bs "-s" /\ nlit 1 = bs "netconf".
Proof. repeat split; reflexivity. Qed.

Lemma differs_nil (s : bytes) : negb (beqb s []) = match s with [] => false | _ => true end.
Proof. destruct s; reflexivity. Qed.

Lemma fmt_d a : fmt1 (bs "%d") a = a.
Proof. cbn. apply app_nil_r. Qed.
Lemma fmt_ct a : fmt1 (bs "ConnectTimeout=%d") a = bs "ConnectTimeout=" ++ a.
Proof. cbn. now rewrite app_nil_r. Qed.
Lemma fmt_sa a : fmt1 (bs "ServerAliveInterval=%d") a = bs "ServerAliveInterval=" ++ a.
Proof. cbn. now rewrite app_nil_r. Qed.
Lemma fmt_kh a : fmt1 (bs "UserKnownHostsFile=%s") a = O_known_hosts a.
Proof. cbn. now rewrite app_nil_r. Qed.

Theorem ssh_argv_spec : forall c, ssh_argv c = argv_spec c.
Proof.
  intros c.
  destruct literals as (L0 & L1 & L2 & L3 & L4 & L5 & L6 & L7 & L8 & L9 & L10 & L11 & L12 & L13
                        & L14 & L15 & L16 & L17 & L18 & L19 & L20 & L21 & L22 & N0 & N1).
  unfold ssh_argv, build_open_args, differs, argv_spec.
  rewrite L0, L1, L2, L3, L4, L5, L6, L7, L8, L9, L10, L11, L12, L13, L14, L15, L16, L17, L18,
    L19, L20, L21, L22, N0, N1.
  rewrite fmt_d, fmt_ct, fmt_sa, fmt_kh, !differs_nil.
  unfold part_head, part_user, part_strict, part_config, part_key, part_netconf, O_dash_o.
  rewrite <- !app_assoc.
  destruct (c_user c), (c_strict c), (c_known_hosts c), (c_config c), (c_key c); reflexivity.
Qed.

(* ---------- position / adjacency vocabulary ---------- *)
Definition adjacent (a b : bytes) (l : list bytes) : Prop :=
  exists l1 l2, l = l1 ++ a :: b :: l2.

(* none of the caller-supplied free-form strings is the text [x] *)
Definition user_free (x : bytes) (c : cfg) : Prop :=
  c_host c <> x /\ c_user c <> x /\ c_config c <> x /\ c_key c <> x /\ ~ In x (c_extra c).

Lemma in_spec (c : cfg) (x : bytes) :
  In x (argv_spec c) <->
  In x (part_head c) \/ In x (part_user c) \/ In x (part_strict c) \/ In x (part_config c)
  \/ In x (part_key c) \/ In x (c_extra c) \/ In x (part_netconf c).
Proof. unfold argv_spec. rewrite !in_app_iff. tauto. Qed.

Lemma dec_not (n : N) (x : bytes) (b : N) :
  hd_error x = Some b -> ~ (48 <= b <= 57) -> print_dec n <> x.
Proof.
  intros Hx Hb E. apply (print_dec_not_in b n Hb). rewrite E.
  destruct x; [discriminate|]. injection Hx as ->. now left.
Qed.

Ltac kill_in H :=
  repeat match type of H with
         | In _ (_ :: _) => destruct H as [H | H]
         | In _ [] => destruct H
         | _ \/ _ => destruct H as [H | H]
         end.

(* ---------- host / port ---------- *)
Theorem argv_host_first : forall c, nth_error (ssh_argv c) 0 = Some (c_host c).
Proof. intros c. rewrite ssh_argv_spec. reflexivity. Qed.

Theorem argv_port : forall c,
  nth_error (ssh_argv c) 1 = Some (bs "-p") /\ nth_error (ssh_argv c) 2 = Some (print_dec (c_port c)).
Proof. intros c. rewrite ssh_argv_spec. split; reflexivity. Qed.

Theorem argv_timeouts : forall c,
  nth_error (ssh_argv c) 3 = Some (bs "-o")
  /\ nth_error (ssh_argv c) 4 = Some (bs "ConnectTimeout=" ++ print_dec (c_timeout c))
  /\ nth_error (ssh_argv c) 5 = Some (bs "-o")
  /\ nth_error (ssh_argv c) 6 = Some (bs "ServerAliveInterval=" ++ print_dec (c_timeout c)).
Proof. intros c. rewrite ssh_argv_spec. repeat split; reflexivity. Qed.

(* ---------- strict host-key checking ---------- *)
Theorem argv_strict_yes : forall c, c_strict c = true ->
  adjacent O_dash_o O_strict_yes (ssh_argv c).
Proof.
  intros c H. rewrite ssh_argv_spec. unfold argv_spec, part_strict. rewrite H.
  exists (part_head c ++ part_user c). eexists.
  rewrite <- !app_assoc. cbn [app]. reflexivity.
Qed.

Lemma adjacent_in_r a b l : adjacent a b l -> In b l.
Proof. intros (l1 & l2 & ->). apply in_or_app. right. right. now left. Qed.
Lemma adjacent_in_l a b l : adjacent a b l -> In a l.
Proof. intros (l1 & l2 & ->). apply in_or_app. right. now left. Qed.

Theorem argv_strict_yes_in : forall c, c_strict c = true -> In O_strict_yes (ssh_argv c).
Proof. intros c H. eapply adjacent_in_r, argv_strict_yes, H. Qed.

(* a text [x] that is not one of the fixed leading arguments can only be in the leading part as
   the host *)
Lemma head_free (c : cfg) (x : bytes) (b : N) :
  hd_error x = Some b -> ~ (48 <= b <= 57) ->
  x <> bs "-p" -> x <> bs "-o" ->
  is_prefix (bs "ConnectTimeout=") x = false -> is_prefix (bs "ServerAliveInterval=") x = false ->
  c_host c <> x -> ~ In x (part_head c).
Proof.
  intros Hx Hd Hp Ho Hct Hsa Hh Hin. unfold part_head, O_dash_o in Hin. kill_in Hin.
  - now apply Hh.
  - now apply Hp.
  - now apply (dec_not (c_port c) x b).
  - now apply Ho.
  - subst x. rewrite is_prefix_refl_app in Hct. discriminate.
  - now apply Ho.
  - subst x. rewrite is_prefix_refl_app in Hsa. discriminate.
Qed.

Lemma part_user_in c x : In x (part_user c) -> x = bs "-l" \/ (x = c_user c /\ c_user c <> []).
Proof.
  unfold part_user. destruct (c_user c) eqn:E; intros H; kill_in H; subst; auto.
  right. split; [reflexivity|discriminate].
Qed.
Lemma part_config_in c x : In x (part_config c) -> x = bs "-F" \/ x = DEV_NULL \/ x = c_config c.
Proof. unfold part_config. destruct (c_config c); intros H; kill_in H; subst; auto. Qed.
Lemma part_key_in c x : In x (part_key c) -> x = bs "-i" \/ (x = c_key c /\ c_key c <> []).
Proof.
  unfold part_key. destruct (c_key c) eqn:E; intros H; kill_in H; subst; auto.
  right. split; [reflexivity|discriminate].
Qed.
Lemma part_netconf_in c x : In x (part_netconf c) -> x = bs "-s" \/ x = bs "netconf".
Proof. unfold part_netconf. destruct (c_netconf c); intros H; kill_in H; subst; auto. Qed.
Lemma part_strict_in c x : In x (part_strict c) ->
  x = O_dash_o
  \/ (c_strict c = true /\ (x = O_strict_yes \/ (x = O_known_hosts (c_known_hosts c) /\ c_known_hosts c <> [])))
  \/ (c_strict c = false /\ (x = O_strict_no \/ x = O_known_hosts_null)).
Proof.
  unfold part_strict. destruct (c_strict c).
  - destruct (c_known_hosts c) eqn:E; intros H; cbn [app] in H; kill_in H; subst; auto.
    right. left. split; auto. right. split; [reflexivity|discriminate].
  - intros H; kill_in H; subst; auto.
Qed.

(* generic: a text [x] unrelated to every fixed argument is in argv only if the caller put it *)
Lemma argv_free (c : cfg) (x : bytes) (b : N) :
  hd_error x = Some b -> ~ (48 <= b <= 57) -> b <> 45 ->
  is_prefix (bs "ConnectTimeout=") x = false -> is_prefix (bs "ServerAliveInterval=") x = false ->
  x <> DEV_NULL -> x <> bs "netconf" ->
  user_free x c ->
  In x (ssh_argv c) ->
  (c_strict c = true /\ (x = O_strict_yes \/ x = O_known_hosts (c_known_hosts c)))
  \/ (c_strict c = false /\ (x = O_strict_no \/ x = O_known_hosts_null)).
Proof.
  intros Hx Hd H45 Hct Hsa Hdn Hnc (Hh & Hu & Hc & Hk & He).
  assert (Hdash : forall y, hd_error y = Some 45 -> x <> y).
  { intros y Hy E. subst y. rewrite Hx in Hy. injection Hy as ->. now apply H45. }
  rewrite ssh_argv_spec, in_spec.
  intros [H | [H | [H | [H | [H | [H | H]]]]]].
  - exfalso. revert H. apply (head_free c x b); auto; apply Hdash; reflexivity.
  - exfalso. apply part_user_in in H. destruct H as [H | [H _]];
      [revert H; apply Hdash; reflexivity | now apply Hu].
  - apply part_strict_in in H. destruct H as [H | [[Hs [H | [H _]]] | [Hs H]]]; auto.
    exfalso. revert H. apply Hdash. reflexivity.
  - exfalso. apply part_config_in in H. destruct H as [H | [H | H]];
      [revert H; apply Hdash; reflexivity | now apply Hdn | now apply Hc].
  - exfalso. apply part_key_in in H. destruct H as [H | [H _]];
      [revert H; apply Hdash; reflexivity | now apply Hk].
  - exfalso. now apply He.
  - exfalso. apply part_netconf_in in H. destruct H as [H | H];
      [revert H; apply Hdash; reflexivity | now apply Hnc].
Qed.

Theorem argv_strict_no_absent : forall c, c_strict c = true -> user_free O_strict_no c ->
  ~ In O_strict_no (ssh_argv c).
Proof.
  intros c Hs Hf Hin.
  apply (argv_free c O_strict_no 83) in Hin; try reflexivity; try lia; try discriminate; auto.
  destruct Hin as [[_ [H | H]] | [H _]]; try discriminate H. congruence.
Qed.

Theorem argv_known_hosts : forall c, c_strict c = true -> c_known_hosts c <> [] ->
  adjacent O_dash_o (O_known_hosts (c_known_hosts c)) (ssh_argv c).
Proof.
  intros c H Hk. rewrite ssh_argv_spec. unfold argv_spec, part_strict. rewrite H.
  destruct (c_known_hosts c) as [|k0 kt] eqn:E; [congruence|].
  exists (part_head c ++ part_user c ++ [O_dash_o; O_strict_yes]). eexists.
  rewrite <- !app_assoc. cbn [app]. reflexivity.
Qed.

(* strict and no file given: no UserKnownHostsFile option at all (OpenSSH then uses its own
   default files), in particular not /dev/null *)
Theorem argv_strict_no_null : forall c, c_strict c = true -> user_free O_known_hosts_null c ->
  c_known_hosts c <> DEV_NULL ->
  ~ In O_known_hosts_null (ssh_argv c).
Proof.
  intros c Hs Hf Hk Hin.
  apply (argv_free c O_known_hosts_null 85) in Hin; try reflexivity; try lia; try discriminate; auto.
  destruct Hin as [[_ [H | H]] | [H _]]; try discriminate H; try congruence.
  apply Hk. unfold O_known_hosts_null, O_known_hosts in H.
  change (bs "UserKnownHostsFile=/dev/null") with (bs "UserKnownHostsFile=" ++ DEV_NULL) in H.
  apply app_inv_head in H. now symmetry.
Qed.

Theorem argv_not_strict : forall c, c_strict c = false ->
  adjacent O_dash_o O_strict_no (ssh_argv c) /\ adjacent O_dash_o O_known_hosts_null (ssh_argv c).
Proof.
  intros c H. rewrite ssh_argv_spec. unfold argv_spec, part_strict. rewrite H. split.
  - exists (part_head c ++ part_user c). eexists. rewrite <- !app_assoc. cbn [app]. reflexivity.
  - exists (part_head c ++ part_user c ++ [O_dash_o; O_strict_no]). eexists.
    rewrite <- !app_assoc. cbn [app]. reflexivity.
Qed.

Theorem argv_not_strict_yes_absent : forall c, c_strict c = false -> user_free O_strict_yes c ->
  ~ In O_strict_yes (ssh_argv c).
Proof.
  intros c Hs Hf Hin.
  apply (argv_free c O_strict_yes 83) in Hin; try reflexivity; try lia; try discriminate; auto.
  destruct Hin as [[H _] | [_ [H | H]]]; try discriminate H. congruence.
Qed.

(* ---------- user ---------- *)
Theorem argv_user : forall c, c_user c <> [] -> adjacent (bs "-l") (c_user c) (ssh_argv c).
Proof.
  intros c H. rewrite ssh_argv_spec. unfold argv_spec, part_user.
  destruct (c_user c) as [|u0 ut]; [congruence|].
  exists (part_head c). eexists. cbn [app]. reflexivity.
Qed.

Lemma dash_free (c : cfg) (x : bytes) :
  hd_error x = Some 45 -> x <> bs "-p" -> x <> bs "-o" -> x <> bs "-F" -> x <> bs "-s" ->
  user_free x c -> In x (ssh_argv c) ->
  (x = bs "-l" /\ c_user c <> []) \/ (x = bs "-i" /\ c_key c <> []).
Proof.
  intros Hx Hp Ho HF Hs (Hh & Hu & Hc & Hk & He).
  assert (Hnd : forall y b, hd_error y = Some b -> b <> 45 -> x <> y).
  { intros y b Hy Hb E. subst y. rewrite Hx in Hy. injection Hy as <-. now apply Hb. }
  rewrite ssh_argv_spec, in_spec.
  intros [H | [H | [H | [H | [H | [H | H]]]]]].
  - exfalso. revert H. apply (head_free c x 45); auto; try lia;
      destruct x as [|x0 [|x1 xt]]; try discriminate Hx; injection Hx as ->; reflexivity.
  - unfold part_user in H. destruct (c_user c) eqn:E; kill_in H.
    + left. split; [now symmetry | discriminate].
    + exfalso. now apply Hu.
  - exfalso. apply part_strict_in in H.
    destruct H as [H | [[_ [H | [H _]]] | [_ [H | H]]]];
      [now apply Ho | | | | ]; revert H; (eapply Hnd; [cbn; reflexivity | vm_compute; discriminate]).
  - exfalso. apply part_config_in in H. destruct H as [H | [H | H]];
      [now apply HF | revert H; (eapply Hnd; [cbn; reflexivity | vm_compute; discriminate]) | now apply Hc].
  - unfold part_key in H. destruct (c_key c) eqn:E; kill_in H.
    + right. split; [now symmetry | discriminate].
    + exfalso. now apply Hk.
  - exfalso. now apply He.
  - exfalso. apply part_netconf_in in H. destruct H as [H | H];
      [now apply Hs | revert H; (eapply Hnd; [cbn; reflexivity | vm_compute; discriminate])].
Qed.

Theorem argv_no_user : forall c, c_user c = [] -> user_free (bs "-l") c ->
  ~ In (bs "-l") (ssh_argv c).
Proof.
  intros c Hu Hf Hin. apply dash_free in Hin; auto; try discriminate.
  destruct Hin as [[_ H] | [H _]]; [now apply H | discriminate H].
Qed.

(* ---------- config file ---------- *)
Theorem argv_config : forall c,
  adjacent (bs "-F") (match c_config c with [] => DEV_NULL | f => f end) (ssh_argv c).
Proof.
  intros c. rewrite ssh_argv_spec. unfold argv_spec, part_config.
  exists (part_head c ++ part_user c ++ part_strict c). eexists.
  rewrite <- !app_assoc. destruct (c_config c); cbn [app]; reflexivity.
Qed.

Theorem argv_config_default : forall host,
  adjacent (bs "-F") DEV_NULL (ssh_argv (default_cfg host)).
Proof. intros host. exact (argv_config (default_cfg host)). Qed.

(* ---------- private key ---------- *)
Theorem argv_key : forall c, c_key c <> [] -> adjacent (bs "-i") (c_key c) (ssh_argv c).
Proof.
  intros c H. rewrite ssh_argv_spec. unfold argv_spec, part_key.
  destruct (c_key c) as [|k0 kt]; [congruence|].
  exists (part_head c ++ part_user c ++ part_strict c ++ part_config c). eexists.
  rewrite <- !app_assoc. cbn [app]. reflexivity.
Qed.

Theorem argv_no_key : forall c, c_key c = [] -> user_free (bs "-i") c ->
  ~ In (bs "-i") (ssh_argv c).
Proof.
  intros c Hk Hf Hin. apply dash_free in Hin; auto; try discriminate.
  destruct Hin as [[H _] | [_ H]]; [discriminate H | now apply H].
Qed.

(* ---------- extra arguments last, before "-s netconf" ---------- *)
Theorem argv_extra_last : forall c, exists pre,
  ssh_argv c = pre ++ c_extra c ++ (if c_netconf c then [bs "-s"; bs "netconf"] else []).
Proof.
  intros c. rewrite ssh_argv_spec. unfold argv_spec.
  exists (part_head c ++ part_user c ++ part_strict c ++ part_config c ++ part_key c).
  rewrite <- !app_assoc. reflexivity.
Qed.

(* ---------- the password is not an input of the argument list ---------- *)
Theorem argv_password_independent : forall c p1 p2,
  ssh_argv (set_password c p1) = ssh_argv (set_password c p2).
Proof. intros c p1 p2. reflexivity. Qed.

Lemma set_password_same c : set_password c (c_password c) = c.
Proof. destruct c; reflexivity. Qed.

(* precise "never on the command line": a password that is not a substring of any argument the
   password-less configuration produces is not a substring of any argument *)
Theorem argv_password_absent : forall c,
  (forall e, In e (ssh_argv (set_password c [])) -> contains (c_password c) e = false) ->
  forall e, In e (ssh_argv c) -> contains (c_password c) e = false.
Proof.
  intros c H e Hin. apply H.
  rewrite (argv_password_independent c [] (c_password c)), set_password_same. exact Hin.
Qed.

(* ---------- standard transport ---------- *)
Theorem std_policy_strict_nofile : forall c, c_strict c = true -> c_known_hosts c = [] ->
  std_policy c = PErrNoFile.
Proof. intros c Hs Hk. unfold std_policy. now rewrite Hs, Hk. Qed.

Theorem std_policy_strict_file : forall c, c_strict c = true -> c_known_hosts c <> [] ->
  std_policy c = PKnownHosts (c_known_hosts c).
Proof.
  intros c Hs Hk. unfold std_policy. rewrite Hs. destruct (c_known_hosts c); [congruence|reflexivity].
Qed.

Theorem std_policy_not_strict : forall c, c_strict c = false -> std_policy c = PInsecure.
Proof. intros c Hs. unfold std_policy. now rewrite Hs. Qed.

Theorem std_policy_insecure_only_if_disabled : forall c, std_policy c = PInsecure -> c_strict c = false.
Proof. intros c. unfold std_policy. destruct (c_strict c), (is_empty (c_known_hosts c)); congruence. Qed.

(* with strict checking the handshake passes only if a file is configured and that file lists
   the server's key, whatever the known-hosts oracle is *)
Theorem std_connects_strict : forall kh c, c_strict c = true -> std_connects kh c = true ->
  c_known_hosts c <> [] /\ kh (c_known_hosts c) = true.
Proof.
  intros kh c Hs. unfold std_connects, std_policy. rewrite Hs.
  destruct (c_known_hosts c); cbn; [discriminate|]. intros H. split; [discriminate|exact H].
Qed.

Theorem std_connects_not_strict : forall kh c, c_strict c = false -> std_connects kh c = true.
Proof. intros kh c Hs. unfold std_connects, std_policy. now rewrite Hs. Qed.

Theorem std_auth_spec : forall c,
  (In APublicKey (std_auth c) <-> c_key c <> [])
  /\ (In APassword (std_auth c) <-> c_password c <> [])
  /\ (In AKeyboardInteractive (std_auth c) <-> c_password c <> [])
  /\ std_auth c = (match c_key c with [] => [] | _ => [APublicKey] end)
                  ++ (match c_password c with [] => [] | _ => [APassword; AKeyboardInteractive] end).
Proof.
  intros c. unfold std_auth.
  destruct (c_key c), (c_password c); cbn; repeat split; intros H;
    try congruence; try discriminate; try tauto;
    repeat (destruct H as [H | H]; try discriminate H); auto.
Qed.

Theorem std_target : forall c,
  std_addr c = c_host c ++ bs ":" ++ print_dec (c_port c) /\ std_user c = c_user c.
Proof. intros c. split; reflexivity. Qed.

(* ---------- defaults ---------- *)
Theorem default_strict : tr_default_ssh_strict_key = true.
Proof. reflexivity. Qed.

Theorem default_cfg_strict : forall host, c_strict (default_cfg host) = true.
Proof. intros host. reflexivity. Qed.

(* ---------- non-vacuity ---------- *)
Example ex_default_argv :
  ssh_argv (default_cfg (bs "r1")) =
  [ bs "r1"; bs "-p"; bs "22"; bs "-o"; bs "ConnectTimeout=30"; bs "-o"; bs "ServerAliveInterval=30";
    bs "-o"; bs "StrictHostKeyChecking=yes"; bs "-F"; bs "/dev/null" ].
Proof. vm_compute. reflexivity. Qed.

Definition ex_cfg : cfg :=
  mkSsh (bs "10.0.0.1") 2222 5 (bs "admin") (bs "s3cret") true (bs "/tmp/kh") (bs "/tmp/cfg")
        (bs "/tmp/id") [bs "-o"; bs "KexAlgorithms=+x"] true.

Example ex_full_argv :
  ssh_argv ex_cfg =
  [ bs "10.0.0.1"; bs "-p"; bs "2222"; bs "-o"; bs "ConnectTimeout=5"; bs "-o"; bs "ServerAliveInterval=5";
    bs "-l"; bs "admin"; bs "-o"; bs "StrictHostKeyChecking=yes"; bs "-o"; bs "UserKnownHostsFile=/tmp/kh";
    bs "-F"; bs "/tmp/cfg"; bs "-i"; bs "/tmp/id"; bs "-o"; bs "KexAlgorithms=+x"; bs "-s"; bs "netconf" ]
  /\ std_policy ex_cfg = PKnownHosts (bs "/tmp/kh")
  /\ std_auth ex_cfg = [APublicKey; APassword; AKeyboardInteractive]
  /\ user_free O_strict_no ex_cfg
  /\ forallb (fun e => negb (contains (c_password ex_cfg) e)) (ssh_argv ex_cfg) = true.
Proof.
  vm_compute. repeat split; try discriminate.
  intros [H | [H | H]]; try discriminate H; exact H.
Qed.

Example ex_not_strict_argv :
  ssh_argv (mkSsh (bs "h") 22 30 [] (bs "pw") false (bs "/tmp/kh") [] [] [] false) =
  [ bs "h"; bs "-p"; bs "22"; bs "-o"; bs "ConnectTimeout=30"; bs "-o"; bs "ServerAliveInterval=30";
    bs "-o"; bs "StrictHostKeyChecking=no"; bs "-o"; bs "UserKnownHostsFile=/dev/null";
    bs "-F"; bs "/dev/null" ].
Proof. vm_compute. reflexivity. Qed.

Example ex_run_c14 :
  run_c14 [bs "c14"; bs "std"; bs "2022"; bs "2"; bs "d"; bs "0";
           bs "L:3132372e302e302e31:61:7077:2f6b68:::"; bs "L"; bs "1"]
  = [bs "std"; bs "knownhosts"; bs "1"; bs "password,keyboard-interactive"; bs "U61"].
Proof. vm_compute. reflexivity. Qed.
