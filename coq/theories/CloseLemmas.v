(* CloseLemmas.v — C07: the theorems about the shutdown protocol (Close.v), each for EVERY schedule
   of the modelled instruction-level interleavings.

   Method: for every scenario the reachable set is computed ([reach]), re-checked to be closed
   under the step function ([check_closed]) and the predicates are evaluated on it by vm_compute
   ([all_scenarios_ok]).  [closed_covers_all] / [ef_sound] / [moves_bounded] (Conc.v, proved once)
   turn that into statements about all schedules of unbounded length.

   The original code (cc33fde) is refuted by concrete witness schedules found by breadth-first
   search with parent pointers ([find_path]) and re-executed by [exec] inside the theorem. *)
From Scrapli Require Import Conc Close CloseDefs.
From Scrapli Require CloseShard00.
From Scrapli Require CloseShard01.
From Scrapli Require CloseShard02.
From Scrapli Require CloseShard03.
From Scrapli Require CloseShard04.
From Scrapli Require CloseShard05.
From Scrapli Require CloseShard06.
From Scrapli Require CloseShard07.
From Scrapli Require CloseShard08.
From Scrapli Require CloseShard09.
From Scrapli Require CloseShard10.
From Scrapli Require CloseShard11.
From Scrapli Require CloseShard12.
From Coq Require Import List Arith Bool Lia.
Import ListNotations.

(* THE computation: all scenarios in scope, all predicates -- done shard by shard in
   CloseShardNN.v (vm_compute, checked by the kernel at each Qed), assembled here *)
Lemma all_scenarios_ok : forall sc, In sc scenarios -> ok_on sc (reach_of sc) = true.
Proof.
  intros sc Hin. pose proof (shard_of_bound sc) as Hb. unfold NSHARDS in Hb.
  remember (shard_of sc) as n eqn:E. symmetry in E.
  destruct n; [exact (by_shard 0 CloseShard00.shard_ok sc Hin E)|].
  destruct n; [exact (by_shard 1 CloseShard01.shard_ok sc Hin E)|].
  destruct n; [exact (by_shard 2 CloseShard02.shard_ok sc Hin E)|].
  destruct n; [exact (by_shard 3 CloseShard03.shard_ok sc Hin E)|].
  destruct n; [exact (by_shard 4 CloseShard04.shard_ok sc Hin E)|].
  destruct n; [exact (by_shard 5 CloseShard05.shard_ok sc Hin E)|].
  destruct n; [exact (by_shard 6 CloseShard06.shard_ok sc Hin E)|].
  destruct n; [exact (by_shard 7 CloseShard07.shard_ok sc Hin E)|].
  destruct n; [exact (by_shard 8 CloseShard08.shard_ok sc Hin E)|].
  destruct n; [exact (by_shard 9 CloseShard09.shard_ok sc Hin E)|].
  destruct n; [exact (by_shard 10 CloseShard10.shard_ok sc Hin E)|].
  destruct n; [exact (by_shard 11 CloseShard11.shard_ok sc Hin E)|].
  destruct n; [exact (by_shard 12 CloseShard12.shard_ok sc Hin E)|].
  exfalso. lia.
Qed.

Lemma scenario_ok_of : forall sc, in_scope sc = true -> ok_on sc (reach_of sc) = true.
Proof. intros sc H. exact (all_scenarios_ok sc (scenarios_complete sc H)). Qed.

Record ok_parts (sc : scenario) (rs : list state) : Prop := mkParts {
  op_closed : check_closed (sys_of sc) rs = true;
  op_panic : forallb p_no_panic rs = true;
  op_tclosed : forallb (p_tclosed sc) rs = true;
  op_graceful : forallb (p_graceful sc) rs = true;
  op_ef : check_ef (edges (sys_of sc) rs) (closers_returned sc) EF_FUEL = true;
  op_mono1 : check_mono (edges (sys_of sc) rs) T_CLOSER1 = true;
  op_mono2 : check_mono (edges (sys_of sc) rs) T_CLOSER2 = true;
  op_bound : forallb (fun s => Nat.leb (pc_of s T_CLOSER1) CLOSER_BOUND
                               && Nat.leb (pc_of s T_CLOSER2) CLOSER_BOUND) rs = true;
  op_leak : forallb (p_no_leak sc) (edges (sys_of sc) rs) = true;
  op_gone : is_block (sc_tc sc) = true
            \/ check_ef (edges (sys_of sc) rs) (all_gone sc) EF_FUEL = true
}.

Lemma ok_on_parts : forall sc rs, ok_on sc rs = true -> ok_parts sc rs.
Proof.
  intros sc rs H. unfold ok_on in H. cbv zeta in H.
  apply andb_true_iff in H. destruct H as [H Hgone].
  apply andb_true_iff in H. destruct H as [H Hleak].
  apply andb_true_iff in H. destruct H as [H Hm].
  apply andb_true_iff in H. destruct H as [H Hef].
  apply andb_true_iff in H. destruct H as [H Htc].
  apply andb_true_iff in H. destruct H as [Hcl Hpan].
  apply andb_true_iff in Htc. destruct Htc as [Htc Hgr].
  apply andb_true_iff in Hm. destruct Hm as [Hm Hb].
  apply andb_true_iff in Hm. destruct Hm as [Hm1 Hm2].
  apply orb_true_iff in Hgone.
  constructor; assumption.
Qed.

Lemma parts_of : forall sc, in_scope sc = true -> ok_parts sc (reach_of sc).
Proof. intros sc H. apply ok_on_parts. apply scenario_ok_of. exact H. Qed.

(* ---------- the theorems (fixed code) ---------- *)

(* no goroutine panics: no send on a closed channel, no close of a closed channel *)
Theorem no_panic : forall sc, in_scope sc = true ->
  forall sched, panic (exec (sys_of sc) sched) = 0.
Proof.
  intros sc H sched. destruct (parts_of sc H).
  apply Nat.eqb_eq.
  exact (safety_all label (sys_of sc) _ p_no_panic op_closed0 op_panic0 sched).
Qed.

(* whenever a Close call has returned, Impl.Close has been called *)
Theorem transport_closed_on_return : forall sc, in_scope sc = true ->
  forall sched, some_closer_returned sc (exec (sys_of sc) sched) = true ->
                transport_closed (exec (sys_of sc) sched) = true.
Proof.
  intros sc H sched Hr. destruct (parts_of sc H).
  pose proof (safety_all label (sys_of sc) _ (p_tclosed sc) op_closed0 op_tclosed0 sched) as P.
  unfold p_tclosed in P. rewrite Hr in P. exact P.
Qed.

(* a closer inside Transport.Close(false) (Lock .. Impl.Close .. Unlock) implies the reader is gone *)
Theorem graceful_only_after_reader_exit : forall sc, in_scope sc = true ->
  forall sched t, (t = T_CLOSER1 \/ (t = T_CLOSER2 /\ sc_second sc = true)) ->
    in_graceful sc (exec (sys_of sc) sched) t = true ->
    exited_at (sys_of sc) (exec (sys_of sc) sched) T_READER = true.
Proof.
  intros sc H sched t Ht Hg. destruct (parts_of sc H).
  pose proof (safety_all label (sys_of sc) _ (p_graceful sc) op_closed0 op_graceful0 sched) as P.
  unfold p_graceful in P.
  destruct Ht as [->|[-> H2]].
  - rewrite Hg in P. exact P.
  - rewrite Hg, H2 in P. rewrite orb_true_r in P. exact P.
Qed.

(* AG EF returned: whatever has happened, the Close calls can still all return *)
Theorem close_never_stuck : forall sc, in_scope sc = true ->
  forall sched, exists sched',
    closers_returned sc (exec (sys_of sc) (sched ++ sched')) = true.
Proof.
  intros sc H sched. destruct (parts_of sc H).
  exact (ef_sound label (sys_of sc) _ _ EF_FUEL op_closed0 op_ef0 sched).
Qed.

(* Close is loop-free: along any schedule a closer moves at most CLOSER_BOUND times *)
Theorem closer_moves_bounded : forall sc, in_scope sc = true ->
  forall sched,
    moves (sys_of sc) T_CLOSER1 (init (sys_of sc)) sched <= CLOSER_BOUND /\
    moves (sys_of sc) T_CLOSER2 (init (sys_of sc)) sched <= CLOSER_BOUND.
Proof.
  intros sc H sched. destruct (parts_of sc H). split.
  - eapply moves_bounded; eauto.
    rewrite forallb_forall in *. intros s Hs. specialize (op_bound0 s Hs).
    apply andb_true_iff in op_bound0. apply op_bound0.
  - eapply moves_bounded; eauto.
    rewrite forallb_forall in *. intros s Hs. specialize (op_bound0 s Hs).
    apply andb_true_iff in op_bound0. apply op_bound0.
Qed.

Lemma edge_of_exec : forall sc sched rs, check_closed (sys_of sc) rs = true ->
  In (exec (sys_of sc) sched, succs (sys_of sc) (exec (sys_of sc) sched)) (edges (sys_of sc) rs).
Proof.
  intros sc sched rs Hc. unfold edges. apply in_map_iff.
  exists (exec (sys_of sc) sched). split; [reflexivity|].
  apply closed_covers_all. exact Hc.
Qed.

(* quiescent = no thread (environment included) has a step *)
Definition quiescent (sc : scenario) (s : state) : Prop := succs (sys_of sc) s = [].

(* no goroutine outlives Close (reader, NETCONF read loop, sendRPC's poller, and also the
   user-side callers):
   in every quiescent state in which the Close calls have returned each of them is at Exit;
   for a transport whose blocked read stays blocked the reader may instead still be in the read *)
Theorem no_leak : forall sc, in_scope sc = true ->
  forall sched, let s := exec (sys_of sc) sched in
    quiescent sc s -> closers_returned sc s = true ->
    forall t, In t [T_READER; T_USER; T_RPC; T_POLLER] -> thread_gone sc s t = true.
Proof.
  intros sc H sched s Hq Hr t Ht. destruct (parts_of sc H).
  rewrite forallb_forall in op_leak0.
  specialize (op_leak0 _ (edge_of_exec sc sched _ op_closed0)).
  unfold p_no_leak in op_leak0. cbn [fst snd] in op_leak0.
  unfold quiescent in Hq. fold s in op_leak0. rewrite Hq in op_leak0.
  rewrite Hr in op_leak0. cbn [implb] in op_leak0.
  rewrite forallb_forall in op_leak0. apply op_leak0. exact Ht.
Qed.

Corollary no_leak_unblocking : forall sc, in_scope sc = true -> is_block (sc_tc sc) = false ->
  forall sched, let s := exec (sys_of sc) sched in
    quiescent sc s -> closers_returned sc s = true ->
    forall t, In t [T_READER; T_USER; T_RPC; T_POLLER] -> exited_at (sys_of sc) s t = true.
Proof.
  intros sc H Hb sched s Hq Hr t Ht.
  pose proof (no_leak sc H sched Hq Hr t Ht) as P. unfold thread_gone in P.
  rewrite Hb in P. cbn in P. rewrite orb_false_r in P. exact P.
Qed.

(* ... and with an unblocking transport that state can always still be reached (AG EF all gone) *)
Theorem all_exit_reachable : forall sc, in_scope sc = true -> is_block (sc_tc sc) = false ->
  forall sched, exists sched', all_gone sc (exec (sys_of sc) (sched ++ sched')) = true.
Proof.
  intros sc H Hb sched. destruct (parts_of sc H).
  destruct op_gone0 as [G|G]; [rewrite Hb in G; discriminate|].
  exact (ef_sound label (sys_of sc) _ _ EF_FUEL op_closed0 G sched).
Qed.

(* race freedom: the fixed code has no plain (unsynchronised) access to shared connection state
   left — done/exited/Errs are channels, doneOnce/exitedOnce are sync.Once, implLock a mutex —
   so the model of it has no plain-access instruction, and no state at all is racy *)
Lemma fixed_no_plain : forall sc, no_plain (sys_of sc) = true.
Proof. intros [k st tc b2 u]. destruct k, st, tc, b2, u; reflexivity. Qed.

Theorem race_free : forall sc s, races (sys_of sc) s = false.
Proof. intros sc s. apply no_plain_no_race. apply fixed_no_plain. Qed.

(* ---------- what remains in the fixed code: witnesses ---------- *)

Definition find (sy : sys label) (goal : state -> bool) : option sched :=
  find_path sy goal 400.

Definition quiescent_b (sy : sys label) (s : state) : bool :=
  match succs sy s with [] => true | _ => false end.

(* (1) a transport whose blocked read does not return on close keeps the reader goroutine *)
Definition sc_blocked_stays := mkSc CLI StBlocked TcBlock false false.
Definition goal_reader_remains (s : state) : bool :=
  quiescent_b (sys_of sc_blocked_stays) s && closers_returned sc_blocked_stays s && reader_in_read s.
Definition w_reader_remains : sched :=
  Eval vm_compute in
    match find (sys_of sc_blocked_stays) goal_reader_remains with Some w => w | None => [] end.

Theorem reader_remains_when_read_stays_blocked :
  goal_reader_remains (exec (sys_of sc_blocked_stays) w_reader_remains) = true.
Proof. vm_compute. reflexivity. Qed.

(* ---------- the code BEFORE the two repairs e29178e / 985cf8a: refutations ---------- *)

(* sendRPC before e29178e: the reply is found by the poller while the waiter leaves through the
   timer (or d.errs): the poller blocks forever on `done <- data` *)
Definition sc_rpc := mkSc NETCONF StBlocked TcEOF false true.
Definition poller_stranded (s : state) : bool :=
  Nat.eqb (pc_of s T_POLLER) P_SEND && is_parked s T_POLLER.
Definition prefix_closers_returned (sc : scenario) (s : state) : bool :=
  exited_at (prefix_sys_of sc) s T_CLOSER1 && exited_at (prefix_sys_of sc) s T_CLOSER2.
Definition goal_poller_stranded (s : state) : bool :=
  quiescent_b (prefix_sys_of sc_rpc) s && prefix_closers_returned sc_rpc s && poller_stranded s.
Definition w_poller_stranded : sched :=
  Eval vm_compute in
    match find (prefix_sys_of sc_rpc) goal_poller_stranded with Some w => w | None => [] end.

Theorem prefix_rpc_poller_can_be_stranded :
  goal_poller_stranded (exec (prefix_sys_of sc_rpc) w_poller_stranded) = true.
Proof. vm_compute. reflexivity. Qed.

(* the same without any Close: it was a defect of sendRPC alone *)
Definition goal_poller_stranded_noclose (s : state) : bool :=
  poller_stranded s && exited_at (prefix_sys_of sc_rpc) s T_RPC && Nat.eqb (pc_of s T_CLOSER1) 0.
Definition w_poller_stranded_noclose : sched :=
  Eval vm_compute in
    match find (prefix_sys_of sc_rpc) goal_poller_stranded_noclose with Some w => w | None => [] end.
Theorem prefix_rpc_poller_can_be_stranded_without_close :
  goal_poller_stranded_noclose (exec (prefix_sys_of sc_rpc) w_poller_stranded_noclose) = true.
Proof. vm_compute. reflexivity. Qed.

(* the System transport before 985cf8a: the forced close assigns the plain field `fd` while the
   reader loads it — a data race; and that was the only one: every racy state has a closer at the
   `t.fd = nil` of a FORCED close (program point 8 of [prefix_system_closer_code]) *)
Definition sys_fd1 := prefix_system_sys TcEOF false.
Definition w_fd_race : sched :=
  Eval vm_compute in match find sys_fd1 (races sys_fd1) with Some w => w | None => [] end.
Theorem prefix_system_fd_race : races sys_fd1 (exec sys_fd1 w_fd_race) = true.
Proof. vm_compute. reflexivity. Qed.

Definition p_fd_forced (second : bool) (tc : tcb) (s : state) : bool :=
  implb (races (prefix_system_sys tc second) s)
        (Nat.eqb (pc_of s T_CLOSER1) 8 || Nat.eqb (pc_of s T_CLOSER2) 8).
Definition psystem_ok_on (second : bool) (tc : tcb) (rs : list state) : bool :=
  check_closed (prefix_system_sys tc second) rs && forallb (p_fd_forced second tc) rs
  && forallb p_no_panic rs.
Definition psystem_reach (second : bool) (tc : tcb) : list state :=
  fst (reach (prefix_system_sys tc second) FUEL).
Lemma psystem_all_ok :
  forallb (fun b2 => forallb (fun tc => psystem_ok_on b2 tc (psystem_reach b2 tc)) all_tcs)
          all_bools = true.
Proof. vm_cast_no_check (eq_refl true). Qed.

Lemma psystem_ok_of : forall second tc, psystem_ok_on second tc (psystem_reach second tc) = true.
Proof.
  intros second tc.
  assert (Hb : In second all_bools) by (destruct second; cbn; tauto).
  assert (Ht : In tc all_tcs) by (destruct tc; cbn; tauto).
  exact (proj1 (forallb_forall (fun tc => psystem_ok_on second tc (psystem_reach second tc)) all_tcs)
               (proj1 (forallb_forall
                         (fun b2 => forallb (fun tc => psystem_ok_on b2 tc (psystem_reach b2 tc)) all_tcs)
                         all_bools) psystem_all_ok second Hb) tc Ht).
Qed.

Lemma psystem_ok_on_parts : forall second tc rs, psystem_ok_on second tc rs = true ->
  check_closed (prefix_system_sys tc second) rs = true /\
  forallb (p_fd_forced second tc) rs = true /\ forallb p_no_panic rs = true.
Proof.
  intros second tc rs A. unfold psystem_ok_on in A.
  apply andb_true_iff in A. destruct A as [A Hp].
  apply andb_true_iff in A. destruct A as [Hc Hf]. auto.
Qed.

Theorem prefix_system_fd_race_only_forced : forall second tc (sched : sched),
  let s := exec (prefix_system_sys tc second) sched in
  panic s = 0 /\
  (races (prefix_system_sys tc second) s = true ->
   pc_of s T_CLOSER1 = 8 \/ pc_of s T_CLOSER2 = 8).
Proof.
  intros second tc sched s.
  destruct (psystem_ok_on_parts second tc _ (psystem_ok_of second tc)) as (Hc & Hf & Hp).
  split.
  - apply Nat.eqb_eq. exact (safety_all label _ _ p_no_panic Hc Hp sched).
  - intros Hr.
    pose proof (safety_all label _ _ (p_fd_forced second tc) Hc Hf sched) as P.
    unfold p_fd_forced in P. fold s in P. rewrite Hr in P. cbn [implb] in P.
    apply orb_true_iff in P. destruct P as [P|P]; apply Nat.eqb_eq in P; auto.
Qed.

(* ---------- the System transport, current code: fd guarded by fdLock ----------
   The field accesses are still plain-access instructions, now inside Lock/Unlock of fdLock; the
   checker decides that no reachable state co-enables two of them — for one or two Close calls,
   graceful and forced, every transport-close behaviour.  Also: nothing panics, Close can always
   return, and a returned Close has closed the file. *)
Definition system_returned (second : bool) (tc : tcb) (s : state) : bool :=
  exited_at (system_sys tc second) s T_CLOSER1 && exited_at (system_sys tc second) s T_CLOSER2.
Definition p_system_closed (second : bool) (s : state) : bool :=
  implb (Nat.eqb (pc_of s T_CLOSER1) S_RETURN || (second && Nat.eqb (pc_of s T_CLOSER2) S_RETURN))
        (transport_closed s).
Definition system_ok_on (second : bool) (tc : tcb) (rs : list state) : bool :=
  let sy := system_sys tc second in
  check_closed sy rs
  && forallb (fun s => negb (races sy s)) rs
  && forallb p_no_panic rs
  && forallb (p_system_closed second) rs
  && check_ef (edges sy rs) (system_returned second tc) EF_FUEL.
Definition system_reach (second : bool) (tc : tcb) : list state :=
  fst (reach (system_sys tc second) FUEL).
Lemma system_all_ok :
  forallb (fun b2 => forallb (fun tc => system_ok_on b2 tc (system_reach b2 tc)) all_tcs)
          all_bools = true.
Proof. vm_cast_no_check (eq_refl true). Qed.

Lemma system_ok_of : forall second tc, system_ok_on second tc (system_reach second tc) = true.
Proof.
  intros second tc.
  assert (Hb : In second all_bools) by (destruct second; cbn; tauto).
  assert (Ht : In tc all_tcs) by (destruct tc; cbn; tauto).
  exact (proj1 (forallb_forall (fun tc => system_ok_on second tc (system_reach second tc)) all_tcs)
               (proj1 (forallb_forall
                         (fun b2 => forallb (fun tc => system_ok_on b2 tc (system_reach b2 tc)) all_tcs)
                         all_bools) system_all_ok second Hb) tc Ht).
Qed.

Lemma system_ok_on_parts : forall second tc rs, system_ok_on second tc rs = true ->
  check_closed (system_sys tc second) rs = true /\
  forallb (fun s => negb (races (system_sys tc second) s)) rs = true /\
  forallb p_no_panic rs = true /\
  forallb (p_system_closed second) rs = true /\
  check_ef (edges (system_sys tc second) rs) (system_returned second tc) EF_FUEL = true.
Proof.
  intros second tc rs A. unfold system_ok_on in A. cbv zeta in A.
  apply andb_true_iff in A. destruct A as [A He].
  apply andb_true_iff in A. destruct A as [A Ht].
  apply andb_true_iff in A. destruct A as [A Hp].
  apply andb_true_iff in A. destruct A as [Hc Hr]. auto.
Qed.

Theorem system_race_free : forall second tc (sched : sched),
  races (system_sys tc second) (exec (system_sys tc second) sched) = false /\
  panic (exec (system_sys tc second) sched) = 0.
Proof.
  intros second tc sched.
  destruct (system_ok_on_parts second tc _ (system_ok_of second tc)) as (Hc & Hr & Hp & _ & _).
  split.
  - pose proof (safety_all label _ _ (fun s => negb (races (system_sys tc second) s)) Hc Hr sched) as P.
    cbv beta in P. apply negb_true_iff in P. exact P.
  - apply Nat.eqb_eq. exact (safety_all label _ _ p_no_panic Hc Hp sched).
Qed.

Theorem system_close_completes : forall second tc (sched : sched),
  (exists sched', system_returned second tc (exec (system_sys tc second) (sched ++ sched')) = true) /\
  (p_system_closed second (exec (system_sys tc second) sched) = true).
Proof.
  intros second tc sched.
  destruct (system_ok_on_parts second tc _ (system_ok_of second tc)) as (Hc & _ & _ & Ht & He).
  split.
  - exact (ef_sound label _ _ _ EF_FUEL Hc He sched).
  - exact (safety_all label _ _ (p_system_closed second) Hc Ht sched).
Qed.

(* the plain accesses are really there (the theorem above is not vacuous) *)
Lemma system_has_plain : forall second tc, no_plain (system_sys tc second) = false.
Proof. intros second tc. destruct second, tc; reflexivity. Qed.

(* ---------- ORIGINAL code: refutations by witness schedule ---------- *)

(* F4: a second Channel.Close closes Errs again *)
Definition osc_second := mkSc CLI StBlocked TcEOF true false.
Definition ogoal_close_of_closed (s : state) : bool := Nat.eqb (panic s) PANIC_CLOSE_OF_CLOSED.
Definition ow_second : sched :=
  Eval vm_compute in
    match find (old_sys_of osc_second) ogoal_close_of_closed with Some w => w | None => [] end.
Theorem old_second_close_panics :
  panic (exec (old_sys_of osc_second) ow_second) = PANIC_CLOSE_OF_CLOSED.
Proof. vm_compute. reflexivity. Qed.

(* F5: Close while the reader is parked on `c.Errs <- err` *)
Definition osc_ioerr := mkSc CLI StIOErr TcEOF false false.
Definition ogoal_send_on_closed (s : state) : bool := Nat.eqb (panic s) PANIC_SEND_ON_CLOSED.
Definition ow_ioerr : sched :=
  Eval vm_compute in
    match find (old_sys_of osc_ioerr) ogoal_send_on_closed with Some w => w | None => [] end.
Theorem old_close_with_error_pending_panics :
  panic (exec (old_sys_of osc_ioerr) ow_ioerr) = PANIC_SEND_ON_CLOSED.
Proof. vm_compute. reflexivity. Qed.

(* F6: readLoopExited is written by the reader and read by Close (and by Channel.Read) without
   synchronisation *)
Definition osc_race := mkSc CLI StEOFArriving TcEOF false false.
Definition ow_race : sched :=
  Eval vm_compute in
    match find (old_sys_of osc_race) (races (old_sys_of osc_race)) with Some w => w | None => [] end.
Theorem old_flag_race_close :
  races (old_sys_of osc_race) (exec (old_sys_of osc_race) ow_race) = true.
Proof. vm_compute. reflexivity. Qed.

Definition osc_race_read := mkSc CLI StEOFArriving TcEOF false true.
Definition ogoal_race_read (s : state) : bool :=
  races (old_sys_of osc_race_read) s && Nat.eqb (pc_of s T_CLOSER1) 0.
Definition ow_race_read : sched :=
  Eval vm_compute in
    match find (old_sys_of osc_race_read) ogoal_race_read with Some w => w | None => [] end.
(* ... also with no Close at all: reader's write against Channel.Read's read *)
Theorem old_flag_race_read :
  ogoal_race_read (exec (old_sys_of osc_race_read) ow_race_read) = true.
Proof. vm_compute. reflexivity. Qed.

(* F7: EOF from the peer racing with Close strands the goroutine that sends on `done`: nobody can
   move any more, Close has returned, the sender is parked on `c.done <- struct{}{}` *)
Definition ogoal_stranded (s : state) : bool :=
  quiescent_b (old_sys_of osc_race) s && old_closers_returned osc_race s
  && Nat.eqb (pc_of s T_SENDER1) 1 && Nat.eqb (var_of s V_NET) NET_EOF.
Definition ow_stranded : sched :=
  Eval vm_compute in
    match find (old_sys_of osc_race) ogoal_stranded with Some w => w | None => [] end.
Theorem old_done_sender_stranded :
  ogoal_stranded (exec (old_sys_of osc_race) ow_stranded) = true.
Proof. vm_compute. reflexivity. Qed.

(* F8: NETCONF Close after the stream ended blocks forever on `d.done <- true`: nobody can move,
   Close has not returned *)
Definition osc_nc_eof := mkSc NETCONF StEOF TcEOF false false.
Definition ogoal_nc_blocked (s : state) : bool :=
  quiescent_b (old_sys_of osc_nc_eof) s && Nat.eqb (pc_of s T_CLOSER1) 0.
Definition ow_nc_eof : sched :=
  Eval vm_compute in
    match find (old_sys_of osc_nc_eof) ogoal_nc_blocked with Some w => w | None => [] end.
Theorem old_netconf_close_blocks_forever :
  ogoal_nc_blocked (exec (old_sys_of osc_nc_eof) ow_nc_eof) = true.
Proof. vm_compute. reflexivity. Qed.

(* F8': a second NETCONF Close blocks forever likewise (the read loop is gone) *)
Definition osc_nc_second := mkSc NETCONF StBlocked TcEOF true false.
Definition ogoal_nc_second_blocked (s : state) : bool :=
  quiescent_b (old_sys_of osc_nc_second) s
  && Nat.eqb (pc_of s T_CLOSER1) (old_closer_return true) && Nat.eqb (pc_of s T_CLOSER2) 0
  && Nat.eqb (panic s) 0.
Definition ow_nc_second : sched :=
  Eval vm_compute in
    match find (old_sys_of osc_nc_second) ogoal_nc_second_blocked with Some w => w | None => [] end.
Theorem old_netconf_second_close_blocks_forever :
  ogoal_nc_second_blocked (exec (old_sys_of osc_nc_second) ow_nc_second) = true.
Proof. vm_compute. reflexivity. Qed.

(* what the checker says about the original code on the whole reachable set of a scenario:
   (states, panic states, racy states, quiescent states with Close not returned or a thread left) *)
Definition old_census (sc : scenario) : nat * nat * nat * nat :=
  let sy := old_sys_of sc in
  let rs := fst (reach sy FUEL) in
  (length rs,
   length (filter (fun s => negb (Nat.eqb (panic s) 0)) rs),
   length (filter (races sy) rs),
   length (filter (fun s => Nat.eqb (panic s) 0 && quiescent_b sy s
                            && negb (forallb (exited_at sy s) [T_READER; T_CLOSER1; T_CLOSER2; T_USER; T_SENDER1; T_SENDER2])) rs)).
