(* NetworkLemmas.v — the privilege graph is a tree; the randomised depth-first search of
   buildPrivChangeMap returns the unique tree path whatever the iteration order; AcquirePriv
   walks that path one escalate / de-escalate command at a time and stops at the target. *)
From Coq Require Import Permutation List Lia Bool Arith.
From Scrapli Require Import Bytes Regex PlatformTypes Generated Channel Network NetworkAbs.
Import ListNotations.
Local Open Scope nat_scope.

(* ================================================================== *)
(* 0. byte-string equality, membership, generic list facts             *)
(* ================================================================== *)

Lemma beqb_true_iff (a b : bytes) : beqb a b = true <-> a = b.
Proof.
  revert b. induction a as [|x a IH]; intros [|y b]; cbn [beqb]; split; intro H;
    try discriminate; try reflexivity.
  - apply andb_true_iff in H. destruct H as [H1 H2]. apply N.eqb_eq in H1. apply IH in H2. congruence.
  - inversion H; subst. rewrite N.eqb_refl. cbn. apply IH. reflexivity.
Qed.

Lemma beqb_refl' (a : bytes) : beqb a a = true.
Proof. apply beqb_true_iff. reflexivity. Qed.

Lemma beqb_false_iff (a b : bytes) : beqb a b = false <-> a <> b.
Proof.
  split.
  - intros H E. apply beqb_true_iff in E. congruence.
  - intros H. destruct (beqb a b) eqn:E; [|reflexivity]. apply beqb_true_iff in E. contradiction.
Qed.

Lemma beqb_reflect (a b : bytes) : reflect (a = b) (beqb a b).
Proof.
  destruct (beqb a b) eqn:E; constructor.
  - apply beqb_true_iff; exact E.
  - apply beqb_false_iff; exact E.
Qed.

Lemma bytes_eq_dec (a b : bytes) : {a = b} + {a <> b}.
Proof. destruct (beqb_reflect a b); [left|right]; assumption. Qed.

Lemma mem_bytes_In (x : bytes) (l : list bytes) : mem_bytes x l = true <-> In x l.
Proof.
  unfold mem_bytes. rewrite existsb_exists. split.
  - intros [y [Hy E]]. apply beqb_true_iff in E. subst. exact Hy.
  - intros H. exists x. split; [exact H|apply beqb_refl'].
Qed.

Lemma mem_bytes_false (x : bytes) (l : list bytes) : mem_bytes x l = false <-> ~ In x l.
Proof.
  split.
  - intros H Hin. apply mem_bytes_In in Hin. congruence.
  - intros H. destruct (mem_bytes x l) eqn:E; [|reflexivity]. apply mem_bytes_In in E. contradiction.
Qed.

Lemma nodup_b_NoDup (l : list bytes) : nodup_b l = true <-> NoDup l.
Proof.
  induction l as [|x t IH]; cbn [nodup_b].
  - split; [constructor|reflexivity].
  - rewrite andb_true_iff, negb_true_iff, mem_bytes_false, IH. split.
    + intros [H1 H2]. constructor; assumption.
    + intros H. inversion H; subst. split; assumption.
Qed.

Lemma dedup_In (x : bytes) (l : list bytes) : In x (dedup l) <-> In x l.
Proof.
  induction l as [|y t IH]; cbn [dedup]; [tauto|].
  destruct (mem_bytes y t) eqn:E.
  - rewrite IH. split; [intros H; right; exact H|].
    intros [H|H]; [subst; apply mem_bytes_In; exact E|exact H].
  - cbn [In]. rewrite IH. tauto.
Qed.

Lemma dedup_NoDup (l : list bytes) : NoDup (dedup l).
Proof.
  induction l as [|y t IH]; cbn [dedup]; [constructor|].
  destruct (mem_bytes y t) eqn:E; [exact IH|].
  constructor; [|exact IH]. rewrite dedup_In. apply mem_bytes_false. exact E.
Qed.

Lemma NoDup_app_iff {A} (l m : list A) :
  NoDup (l ++ m) <-> NoDup l /\ NoDup m /\ (forall x, In x l -> ~ In x m).
Proof.
  induction l as [|a l IH]; cbn [app].
  - split; [intros H; repeat split; [constructor|exact H|intros x []]|tauto].
  - split.
    + intros H. inversion H as [|? ? Hn Hd]; subst. apply IH in Hd. destruct Hd as [H1 [H2 H3]].
      repeat split.
      * constructor; [|exact H1]. intros Hin. apply Hn. apply in_or_app. left; exact Hin.
      * exact H2.
      * intros x [Hx|Hx] Hm; [subst; apply Hn; apply in_or_app; right; exact Hm|exact (H3 x Hx Hm)].
    + intros [H1 [H2 H3]]. inversion H1 as [|? ? Hn Hd]; subst. constructor.
      * intros Hin. apply in_app_or in Hin. destruct Hin as [Hin|Hin]; [contradiction|].
        exact (H3 a (or_introl eq_refl) Hin).
      * apply IH. repeat split; [exact Hd|exact H2|]. intros x Hx. apply H3. right; exact Hx.
Qed.

Lemma last_cons {A} (x : A) (l : list A) (d : A) : last (x :: l) d = last l x.
Proof.
  revert x d. induction l as [|y t IH]; intros x d; [reflexivity|].
  change (last (x :: y :: t) d) with (last (y :: t) d). rewrite (IH y d), (IH y x). reflexivity.
Qed.

Lemma last_app_cons {A} (l : list A) (x : A) (m : list A) (d : A) : last (l ++ x :: m) d = last m x.
Proof.
  revert d. induction l as [|y t IH]; intros d; cbn [app]; [apply last_cons|].
  rewrite last_cons. apply IH.
Qed.

Lemma last_In {A} (l : list A) (x : A) : In (last l x) (x :: l).
Proof.
  revert x. induction l as [|y t IH]; intros x; [left; reflexivity|].
  rewrite last_cons. right. apply IH.
Qed.

Lemma hd_error_rev_last {A} (l : list A) (x : A) : hd_error (rev (x :: l)) = Some (last l x).
Proof.
  revert x. induction l as [|y t IH]; intros x; [reflexivity|].
  rewrite last_cons. rewrite <- IH. cbn [rev].
  destruct (rev t ++ [y]) eqn:E; [destruct (rev t); discriminate|reflexivity].
Qed.

Lemma last_rev_hd {A} (l : list A) (x d : A) : last (rev (x :: l)) d = x.
Proof. cbn [rev]. rewrite last_app_cons. reflexivity. Qed.

(* ---------- chains: consecutive elements related ---------- *)
Fixpoint chain {A} (R : A -> A -> Prop) (p : list A) : Prop :=
  match p with
  | x :: ((y :: _) as t) => R x y /\ chain R t
  | _ => True
  end.

Lemma chain_cons {A} (R : A -> A -> Prop) x y t : chain R (x :: y :: t) <-> R x y /\ chain R (y :: t).
Proof. reflexivity. Qed.

Lemma chain_tail {A} (R : A -> A -> Prop) x t : chain R (x :: t) -> chain R t.
Proof. destruct t; [intros; exact I|intros [_ H]; exact H]. Qed.

Lemma chain_app_inv {A} (R : A -> A -> Prop) (l m : list A) : chain R (l ++ m) -> chain R l /\ chain R m.
Proof.
  induction l as [|x t IH]; cbn [app]; [intros H; split; [exact I|exact H]|].
  intros H. destruct t as [|y t'].
  - split; [exact I|]. apply chain_tail in H. exact H.
  - cbn [app] in *. destruct H as [H1 H2]. apply IH in H2. destruct H2 as [H2 H3].
    split; [split; assumption|exact H3].
Qed.

Lemma chain_join {A} (R : A -> A -> Prop) (l : list A) x m :
  chain R (l ++ [x]) -> chain R (x :: m) -> chain R (l ++ x :: m).
Proof.
  induction l as [|y t IH]; cbn [app]; [intros _ H; exact H|].
  intros H1 H2. destruct t as [|z t'].
  - cbn [app] in *. destruct H1 as [H1 _]. split; assumption.
  - cbn [app] in *. destruct H1 as [H1 H3]. split; [exact H1|]. apply IH; assumption.
Qed.

Lemma chain_rev {A} (R : A -> A -> Prop) (p : list A) : chain R p -> chain (fun x y => R y x) (rev p).
Proof.
  induction p as [|x t IH]; [intros; exact I|].
  intros H. destruct t as [|y t']; [exact I|].
  destruct H as [H1 H2]. specialize (IH H2). cbn [rev] in *.
  rewrite <- app_assoc. cbn [app]. apply chain_join; [exact IH|]. split; [exact H1|exact I].
Qed.

Lemma chain_impl {A} (R R' : A -> A -> Prop) (p : list A) :
  (forall x y, R x y -> R' x y) -> chain R p -> chain R' p.
Proof.
  intros HR. induction p as [|x t IH]; [intros; exact I|].
  destruct t as [|y t']; [intros; exact I|]. intros [H1 H2]. split; [apply HR; exact H1|apply IH; exact H2].
Qed.

(* ---------- find / upto ---------- *)
Lemma find_split {A} (f : A -> bool) (l : list A) x :
  find f l = Some x -> exists l1 l2, l = l1 ++ x :: l2 /\ f x = true /\ forall y, In y l1 -> f y = false.
Proof.
  induction l as [|y t IH]; cbn [find]; [discriminate|].
  destruct (f y) eqn:E.
  - intros H; inversion H; subst. exists [], t. repeat split; [exact E|intros ? []].
  - intros H. destruct (IH H) as [l1 [l2 [H1 [H2 H3]]]]. exists (y :: l1), l2. subst.
    repeat split; [exact H2|]. intros z [Hz|Hz]; [subst; exact E|apply H3; exact Hz].
Qed.

Lemma find_none_all {A} (f : A -> bool) (l : list A) : find f l = None -> forall y, In y l -> f y = false.
Proof. intros H y Hy. exact (find_none f l H y Hy). Qed.

Lemma upto_app (x : bytes) (l1 l2 : list bytes) : ~ In x l1 -> upto x (l1 ++ x :: l2) = l1 ++ [x].
Proof.
  induction l1 as [|y t IH]; cbn [app upto]; intros H.
  - rewrite beqb_refl'. reflexivity.
  - destruct (beqb_reflect x y) as [E|E]; [subst; exfalso; apply H; left; reflexivity|].
    f_equal. apply IH. intros Hin. apply H. right; exact Hin.
Qed.

(* ---------- lookup ---------- *)
Lemma lookup_In (ls : list (bytes * level)) k l : lookup_level ls k = Some l -> In (k, l) ls.
Proof.
  induction ls as [|[k' l'] t IH]; cbn [lookup_level]; [discriminate|].
  destruct (beqb_reflect k k') as [E|E].
  - intros H; inversion H; subst. left; reflexivity.
  - intros H. right. apply IH; exact H.
Qed.

Lemma lookup_None (ls : list (bytes * level)) k : lookup_level ls k = None <-> ~ In k (names ls).
Proof.
  induction ls as [|[k' l'] t IH]; cbn [lookup_level names map fst In]; [tauto|].
  destruct (beqb_reflect k k') as [E|E].
  - split; [discriminate|]. intros H. exfalso. apply H. left. symmetry; exact E.
  - rewrite IH. unfold names. split; [intros H [H1|H1]; [apply E; symmetry; exact H1|exact (H H1)]|tauto].
Qed.

Lemma lookup_Some_names (ls : list (bytes * level)) k l : lookup_level ls k = Some l -> In k (names ls).
Proof.
  intros H. destruct (in_dec bytes_eq_dec k (names ls)) as [Hin|Hn]; [exact Hin|].
  apply lookup_None in Hn. congruence.
Qed.

Lemma lookup_NoDup (ls : list (bytes * level)) k l :
  NoDup (names ls) -> In (k, l) ls -> lookup_level ls k = Some l.
Proof.
  induction ls as [|[k' l'] t IH]; cbn [lookup_level names map fst In]; [intros _ []|].
  intros Hnd [H|H].
  - inversion H; subst. rewrite beqb_refl'. reflexivity.
  - inversion Hnd as [|? ? Hn Hd]; subst. destruct (beqb_reflect k k') as [E|E].
    + subst. exfalso. apply Hn. change (In k' (names t)). unfold names. apply in_map_iff. exists (k', l). split; [reflexivity|exact H].
    + apply IH; assumption.
Qed.

Lemma names_In (ls : list (bytes * level)) k : In k (names ls) -> exists l, lookup_level ls k = Some l.
Proof.
  intros H. destruct (lookup_level ls k) eqn:E; [eexists; reflexivity|].
  apply lookup_None in E. contradiction.
Qed.

(* ================================================================== *)
(* 1. tree facts                                                       *)
(* ================================================================== *)

(* the parent of a level: its non-empty previous-priv link *)
Definition parent (ls : list (bytes * level)) (x : bytes) : option bytes :=
  match lookup_level ls x with
  | Some l => match lv_previous l with [] => None | p => Some p end
  | None => None
  end.

(* adjacency in the privilege tree: each is the other's previous *)
Definition adj (ls : list (bytes * level)) (x y : bytes) : Prop :=
  parent ls x = Some y \/ parent ls y = Some x.

Definition dep (ls : list (bytes * level)) (x : bytes) : nat :=
  match depth_of (S (length ls)) ls x with Some d => d | None => 0 end.

Definition anc (ls : list (bytes * level)) (x : bytes) : list bytes := ancestors (S (length ls)) ls x.

Lemma adj_sym ls x y : adj ls x y -> adj ls y x.
Proof. unfold adj; tauto. Qed.

Lemma parent_Some ls x p :
  parent ls x = Some p <-> exists l, lookup_level ls x = Some l /\ lv_previous l = p /\ p <> [].
Proof.
  unfold parent. split.
  - destruct (lookup_level ls x) as [l|]; [|discriminate].
    destruct (lv_previous l) eqn:E; [discriminate|]. intros H; inversion H; subst.
    exists l. repeat split; [exact E|discriminate].
  - intros [l [H1 [H2 H3]]]. rewrite H1. subst p. destruct (lv_previous l); [contradiction|reflexivity].
Qed.

Lemma parent_None ls x :
  parent ls x = None <-> (lookup_level ls x = None \/ exists l, lookup_level ls x = Some l /\ lv_previous l = []).
Proof.
  unfold parent. destruct (lookup_level ls x) as [l|].
  - destruct (lv_previous l) eqn:E.
    + split; [intros _; right; exists l; split; [reflexivity|exact E]|reflexivity].
    + split; [discriminate|]. intros [H|[l' [H1 H2]]]; [discriminate|]. inversion H1; subst. congruence.
  - split; [intros _; left; reflexivity|reflexivity].
Qed.

Lemma depth_of_mono ls : forall f x d, depth_of f ls x = Some d -> forall f', f <= f' -> depth_of f' ls x = Some d.
Proof.
  induction f as [|f IH]; intros x d H f' Hle; [discriminate|].
  destruct f' as [|f']; [lia|]. cbn [depth_of] in *.
  destruct (lookup_level ls x) as [l|]; [|discriminate].
  destruct (lv_previous l) as [|b p]; [exact H|].
  destruct (depth_of f ls (b :: p)) as [d'|] eqn:E; [|discriminate].
  rewrite (IH _ _ E f'); [exact H|lia].
Qed.

Lemma depth_of_lt ls : forall f x d, depth_of f ls x = Some d -> d < f.
Proof.
  induction f as [|f IH]; intros x d H; [discriminate|].
  cbn [depth_of] in H.
  destruct (lookup_level ls x) as [l|]; [|discriminate].
  destruct (lv_previous l) as [|b p]; [inversion H; lia|].
  destruct (depth_of f ls (b :: p)) as [d'|] eqn:E; [|discriminate].
  inversion H; subst. apply IH in E. lia.
Qed.

Lemma anc_fuel ls : forall f x d, depth_of f ls x = Some d ->
  forall f', f <= f' -> ancestors f' ls x = ancestors f ls x.
Proof.
  induction f as [|f IH]; intros x d H f' Hle; [discriminate|].
  destruct f' as [|f']; [lia|]. cbn [depth_of ancestors] in *.
  destruct (lookup_level ls x) as [l|]; [|reflexivity].
  destruct (lv_previous l) as [|b p]; [reflexivity|].
  destruct (depth_of f ls (b :: p)) as [d'|] eqn:E; [|discriminate].
  f_equal. apply (IH _ _ E). lia.
Qed.

Lemma ancestors_S ls f x :
  ancestors (S f) ls x =
  x :: match lookup_level ls x with
       | Some l => match lv_previous l with [] => [] | p => ancestors f ls p end
       | None => []
       end.
Proof. reflexivity. Qed.

Section Tree.
  Variable ls : list (bytes * level).
  Hypothesis W : tree_wf ls = true.

  Let n := length ls.

  Lemma wf_parts :
    keys_are_names ls = true /\ NoDup (names ls) /\ (exists r, roots ls = [r]) /\
    (forall x, In x (names ls) -> exists d, depth_of (S (length ls)) ls x = Some d).
  Proof.
    unfold tree_wf in W. rewrite !andb_true_iff in W. destruct W as [[[H1 H2] H3] H4].
    repeat split.
    - exact H1.
    - apply nodup_b_NoDup; exact H2.
    - destruct (roots ls) as [|r [|? ?]]; try discriminate. exists r; reflexivity.
    - intros x Hx. unfold names in Hx. apply in_map_iff in Hx. destruct Hx as [kl [E Hkl]].
      rewrite forallb_forall in H4. specialize (H4 kl Hkl). rewrite E in H4.
      destruct (depth_of (S (length ls)) ls x) as [d|]; [exists d; reflexivity|discriminate].
  Qed.

  (* 1a. unique keys *)
  Lemma wf_nodup : NoDup (names ls).
  Proof. apply wf_parts. Qed.

  Lemma wf_key_name k l : In (k, l) ls -> lv_name l = k.
  Proof.
    intros H. destruct wf_parts as [H1 _]. unfold keys_are_names in H1. rewrite forallb_forall in H1.
    specialize (H1 _ H). cbn in H1. apply beqb_true_iff in H1. symmetry; exact H1.
  Qed.

  (* 1b. lookup is total on the names, and agrees with membership *)
  Lemma wf_lookup_total x : In x (names ls) -> exists l, lookup_level ls x = Some l /\ In (x, l) ls /\ lv_name l = x.
  Proof.
    intros H. destruct (names_In ls x H) as [l Hl]. exists l. split; [exact Hl|].
    pose proof (lookup_In _ _ _ Hl) as Hin. split; [exact Hin|apply wf_key_name; exact Hin].
  Qed.

  Lemma wf_lookup_iff k l : lookup_level ls k = Some l <-> In (k, l) ls.
  Proof. split; [apply lookup_In|apply lookup_NoDup; exact wf_nodup]. Qed.

  Lemma wf_lookup_name k l : lookup_level ls k = Some l -> lv_name l = k.
  Proof. intros H. apply wf_key_name. apply lookup_In. exact H. Qed.

  Lemma wf_depth_defined x : In x (names ls) -> exists d, depth_of (S (length ls)) ls x = Some d.
  Proof. apply wf_parts. Qed.

  (* 1c. a non-root level's previous is a level *)
  Lemma parent_in_names x p : parent ls x = Some p -> In x (names ls) /\ In p (names ls) /\ p <> [].
  Proof.
    intros H. apply parent_Some in H. destruct H as [l [H1 [H2 H3]]].
    pose proof (lookup_Some_names _ _ _ H1) as Hx. split; [exact Hx|]. split; [|exact H3].
    destruct (wf_depth_defined x Hx) as [d Hd]. cbn [depth_of] in Hd. rewrite H1, H2 in Hd.
    destruct p as [|b p]; [contradiction|].
    destruct (depth_of (length ls) ls (b :: p)) as [d'|] eqn:E; [|discriminate].
    destruct (length ls) as [|m]; [discriminate|]. cbn [depth_of] in E.
    destruct (lookup_level ls (b :: p)) eqn:E2; [|discriminate].
    eapply lookup_Some_names; exact E2.
  Qed.

  Lemma wf_previous_in_names x l :
    lookup_level ls x = Some l -> lv_previous l <> [] -> In (lv_previous l) (names ls).
  Proof.
    intros H1 H2. apply (parent_in_names x). apply parent_Some. exists l. repeat split; assumption.
  Qed.

  (* 1d. depth *)
  Lemma depth_parent x p :
    parent ls x = Some p ->
    exists d, depth_of (S (length ls)) ls p = Some d /\ depth_of (S (length ls)) ls x = Some (S d).
  Proof.
    intros H. destruct (parent_in_names _ _ H) as [Hx [Hp Hne]].
    apply parent_Some in H. destruct H as [l [H1 [H2 H3]]].
    destruct (wf_depth_defined x Hx) as [d Hd]. pose proof Hd as Hd0. cbn [depth_of] in Hd. rewrite H1, H2 in Hd.
    destruct p as [|b p]; [contradiction|].
    destruct (depth_of (length ls) ls (b :: p)) as [d'|] eqn:E; [|discriminate].
    exists d'. split; [apply (depth_of_mono ls _ _ _ E); lia|]. inversion Hd; subst. exact Hd0.
  Qed.

  Lemma dep_parent x p : parent ls x = Some p -> dep ls x = S (dep ls p).
  Proof.
    intros H. destruct (depth_parent _ _ H) as [d [H1 H2]]. unfold dep. rewrite H1, H2. reflexivity.
  Qed.

  Lemma dep_root x : In x (names ls) -> parent ls x = None -> depth_of (S (length ls)) ls x = Some 0.
  Proof.
    intros Hx H. apply parent_None in H. destruct H as [H|[l [H1 H2]]].
    - apply lookup_None in H. contradiction.
    - cbn [depth_of]. rewrite H1, H2. reflexivity.
  Qed.

  Lemma dep_lt_n x : In x (names ls) -> dep ls x < S (length ls).
  Proof.
    intros Hx. destruct (wf_depth_defined x Hx) as [d Hd]. unfold dep. rewrite Hd.
    eapply depth_of_lt; exact Hd.
  Qed.

  (* induction along previous-links *)
  Lemma depth_ind (P : bytes -> Prop) :
    (forall x, In x (names ls) -> parent ls x = None -> P x) ->
    (forall x p, parent ls x = Some p -> P p -> P x) ->
    forall x, In x (names ls) -> P x.
  Proof.
    intros Hb Hs. assert (G : forall d x, dep ls x = d -> In x (names ls) -> P x).
    { induction d as [|d IH]; intros x Hd Hx.
      - destruct (parent ls x) as [p|] eqn:E; [|apply Hb; assumption].
        rewrite (dep_parent _ _ E) in Hd. discriminate.
      - destruct (parent ls x) as [p|] eqn:E; [|apply Hb; assumption].
        apply (Hs x p E). apply IH; [|apply (parent_in_names _ _ E)].
        rewrite (dep_parent _ _ E) in Hd. lia. }
    intros x Hx. exact (G _ x eq_refl Hx).
  Qed.

  (* 1e. a single root *)
  Lemma roots_In x : In x (roots ls) <-> In x (names ls) /\ parent ls x = None.
  Proof.
    unfold roots. rewrite in_flat_map. split.
    - intros [[k l] [Hkl Hx]]. cbn [snd] in Hx. destruct (lv_previous l) eqn:E; [|destruct Hx].
      destruct Hx as [Hx|[]]. rewrite (wf_key_name _ _ Hkl) in Hx. subst k.
      split; [unfold names; apply in_map_iff; exists (x, l); split; [reflexivity|exact Hkl]|].
      apply parent_None. right. exists l. split; [apply wf_lookup_iff; exact Hkl|exact E].
    - intros [Hx Hp]. apply parent_None in Hp. destruct Hp as [Hp|[l [H1 H2]]].
      + apply lookup_None in Hp. contradiction.
      + exists (x, l). split; [apply lookup_In; exact H1|]. cbn [snd]. rewrite H2.
        left. apply wf_lookup_name. exact H1.
  Qed.

  Lemma wf_single_root :
    exists r, roots ls = [r] /\ In r (names ls) /\ parent ls r = None /\
              forall x, In x (names ls) -> parent ls x = None -> x = r.
  Proof.
    destruct wf_parts as [_ [_ [[r Hr] _]]]. exists r. split; [exact Hr|].
    assert (Hin : In r (roots ls)) by (rewrite Hr; left; reflexivity).
    apply roots_In in Hin. destruct Hin as [H1 H2]. repeat split; [exact H1|exact H2|].
    intros x Hx Hp. assert (Hx' : In x (roots ls)) by (apply roots_In; split; assumption).
    rewrite Hr in Hx'. destruct Hx' as [E|[]]. symmetry; exact E.
  Qed.

  (* 1f. ancestors *)
  Lemma anc_unfold x : In x (names ls) ->
    anc ls x = x :: match parent ls x with Some p => anc ls p | None => [] end.
  Proof.
    intros Hx. unfold anc at 1. rewrite ancestors_S. f_equal. unfold parent.
    destruct (lookup_level ls x) as [l|] eqn:E; [|reflexivity].
    destruct (lv_previous l) as [|b p] eqn:E2; [reflexivity|].
    assert (Hp : parent ls x = Some (b :: p)) by (apply parent_Some; exists l; repeat split; [exact E|exact E2|discriminate]).
    destruct (depth_parent _ _ Hp) as [d [H1 H2]]. cbn [depth_of] in H2. rewrite E, E2 in H2.
    destruct (depth_of (length ls) ls (b :: p)) as [d'|] eqn:E3; [|discriminate].
    unfold anc. symmetry. apply (anc_fuel ls _ _ _ E3). lia.
  Qed.

  Lemma anc_hd x : In x (names ls) -> exists t, anc ls x = x :: t.
  Proof. intros Hx. rewrite (anc_unfold x Hx). eexists; reflexivity. Qed.

  Definition up (x y : bytes) : Prop := parent ls x = Some y.

  Lemma anc_up x : In x (names ls) -> chain up (anc ls x).
  Proof.
    revert x. apply (depth_ind (fun x => chain up (anc ls x))).
    - intros x Hx Hp. rewrite (anc_unfold x Hx), Hp. exact I.
    - intros x p Hp IH. destruct (parent_in_names _ _ Hp) as [Hx [Hpn _]].
      rewrite (anc_unfold x Hx), Hp. destruct (anc_hd p Hpn) as [t Ht]. rewrite Ht in *.
      split; [exact Hp|exact IH].
  Qed.

  Lemma anc_names x : In x (names ls) -> forall y, In y (anc ls x) -> In y (names ls).
  Proof.
    revert x. apply (depth_ind (fun x => forall y, In y (anc ls x) -> In y (names ls))).
    - intros x Hx Hp y. rewrite (anc_unfold x Hx), Hp. intros [E|[]]; subst; exact Hx.
    - intros x p Hp IH y. destruct (parent_in_names _ _ Hp) as [Hx [Hpn _]].
      rewrite (anc_unfold x Hx), Hp. intros [E|Hy]; [subst; exact Hx|apply IH; exact Hy].
  Qed.

  Lemma anc_dep_le x : In x (names ls) -> forall y, In y (anc ls x) -> dep ls y <= dep ls x.
  Proof.
    revert x. apply (depth_ind (fun x => forall y, In y (anc ls x) -> dep ls y <= dep ls x)).
    - intros x Hx Hp y. rewrite (anc_unfold x Hx), Hp. intros [E|[]]; subst; lia.
    - intros x p Hp IH y. destruct (parent_in_names _ _ Hp) as [Hx [Hpn _]].
      rewrite (anc_unfold x Hx), Hp. rewrite (dep_parent _ _ Hp).
      intros [E|Hy]; [subst; rewrite (dep_parent _ _ Hp); lia|specialize (IH _ Hy); lia].
  Qed.

  Lemma anc_nodup x : In x (names ls) -> NoDup (anc ls x).
  Proof.
    revert x. apply (depth_ind (fun x => NoDup (anc ls x))).
    - intros x Hx Hp. rewrite (anc_unfold x Hx), Hp. constructor; [intros []|constructor].
    - intros x p Hp IH. destruct (parent_in_names _ _ Hp) as [Hx [Hpn _]].
      rewrite (anc_unfold x Hx), Hp. constructor; [|exact IH].
      intros Hin. apply (anc_dep_le p Hpn) in Hin. rewrite (dep_parent _ _ Hp) in Hin. lia.
  Qed.

  (* ancestors ends at the root *)
  Lemma anc_last_root x r : In x (names ls) -> roots ls = [r] -> last (anc ls x) x = r.
  Proof.
    intros Hx Hr. destruct wf_single_root as [r' [Hr' [_ [_ Huniq]]]].
    assert (r' = r) by congruence. subst r'. clear Hr'.
    revert x Hx. apply (depth_ind (fun x => last (anc ls x) x = r)).
    - intros x Hx Hp. rewrite (anc_unfold x Hx), Hp. cbn. apply Huniq; assumption.
    - intros x p Hp IH. destruct (parent_in_names _ _ Hp) as [Hx [Hpn _]].
      rewrite (anc_unfold x Hx), Hp. rewrite last_cons. destruct (anc_hd p Hpn) as [t Ht].
      rewrite Ht in *. rewrite last_cons in *. exact IH.
  Qed.

  Lemma anc_root_in x r : In x (names ls) -> roots ls = [r] -> In r (anc ls x).
  Proof.
    intros Hx Hr. rewrite <- (anc_last_root x r Hx Hr).
    destruct (anc_hd x Hx) as [t Ht]. rewrite Ht. rewrite last_cons. apply last_In.
  Qed.

  (* 1g. the neighbours of a name are its parent and its children *)
  Lemma neighbours_spec x y : In y (neighbours ls x) <-> adj ls x y.
  Proof.
    unfold neighbours. rewrite dedup_In, in_app_iff, in_flat_map. unfold adj. split.
    - intros [H|[[k l] [Hkl H]]].
      + left. unfold parent. destruct (lookup_level ls x) as [l|]; [|destruct H].
        destruct (lv_previous l); [destruct H|]. destruct H as [H|[]]. subst. reflexivity.
      + right. cbn [snd] in H. destruct (lv_previous l) as [|b p] eqn:Ep; [destruct H|].
        destruct (beqb_reflect (b :: p) x) as [E|E]; [|destruct H].
        destruct H as [H|[]]. rewrite (wf_key_name _ _ Hkl) in H. subst k.
        apply parent_Some. exists l. repeat split; [apply wf_lookup_iff; exact Hkl|congruence|].
        rewrite <- E. discriminate.
    - intros [H|H].
      + left. unfold parent in H. destruct (lookup_level ls x) as [l|]; [|discriminate].
        destruct (lv_previous l); [discriminate|]. inversion H; subst. left; reflexivity.
      + right. apply parent_Some in H. destruct H as [l [H1 [H2 H3]]]. exists (y, l).
        split; [apply lookup_In; exact H1|]. cbn [snd]. rewrite H2.
        destruct x as [|b p]; [contradiction|]. rewrite beqb_refl'.
        left. apply wf_lookup_name; exact H1.
  Qed.

  Lemma neighbours_parent_children x y :
    In y (neighbours ls x) <-> (parent ls x = Some y \/ parent ls y = Some x).
  Proof. apply neighbours_spec. Qed.

  Lemma neighbours_sym x y : In y (neighbours ls x) <-> In x (neighbours ls y).
  Proof. rewrite (neighbours_spec x y), (neighbours_spec y x). split; apply adj_sym. Qed.

  Lemma neighbours_nodup x : NoDup (neighbours ls x).
  Proof. apply dedup_NoDup. Qed.

  Lemma adj_in_names x y : adj ls x y -> In x (names ls) /\ In y (names ls).
  Proof.
    intros [H|H]; destruct (parent_in_names _ _ H) as [H1 [H2 H3]]; split; assumption.
  Qed.

  Lemma parent_neq x p : parent ls x = Some p -> x <> p.
  Proof. intros H E. subst. apply dep_parent in H. lia. Qed.

  Lemma adj_neq x y : adj ls x y -> x <> y.
  Proof. intros [H|H] E; subst; exact (parent_neq _ _ H eq_refl). Qed.

  (* ================================================================== *)
  (* 2. tree_path is a simple adjacent path                              *)
  (* ================================================================== *)

  Definition spath (a b : bytes) (p : list bytes) : Prop :=
    hd_error p = Some a /\ last p a = b /\ NoDup p /\ chain (adj ls) p.

  Lemma chain_up_adj p : chain up p -> chain (adj ls) p.
  Proof. apply chain_impl. intros x y H. left. exact H. Qed.

  Lemma tree_path_decomp a b :
    In a (names ls) -> In b (names ls) ->
    exists l1 lca l2 m1 m2,
      anc ls a = l1 ++ lca :: l2 /\ anc ls b = m1 ++ lca :: m2 /\
      (forall y, In y l1 -> ~ In y (anc ls b)) /\ ~ In lca l1 /\ ~ In lca m1 /\
      tree_path ls a b = Some (l1 ++ lca :: rev m1).
  Proof.
    intros Ha Hb. destruct wf_single_root as [r [Hr _]].
    unfold tree_path. fold (anc ls a). fold (anc ls b).
    destruct (find (fun x => mem_bytes x (anc ls b)) (anc ls a)) as [lca|] eqn:F.
    - apply find_split in F. destruct F as [l1 [l2 [E1 [Hm Hl1]]]].
      apply mem_bytes_In in Hm. apply in_split in Hm.
      pose proof (anc_nodup a Ha) as Na. pose proof (anc_nodup b Hb) as Nb.
      assert (Hn1 : ~ In lca l1).
      { rewrite E1 in Na. apply NoDup_app_iff in Na. destruct Na as [_ [_ Na]].
        intros Hin. apply (Na _ Hin). left; reflexivity. }
      assert (exists m1 m2, anc ls b = m1 ++ lca :: m2 /\ ~ In lca m1) as [m1 [m2 [E2 Hn2]]].
      { destruct Hm as [m1 [m2 E2]]. exists m1, m2. split; [exact E2|].
        rewrite E2 in Nb. apply NoDup_app_iff in Nb. destruct Nb as [_ [_ Nb]].
        intros Hin. apply (Nb _ Hin). left; reflexivity. }
      exists l1, lca, l2, m1, m2. repeat split; try assumption.
      + intros y Hy Hin. specialize (Hl1 y Hy). apply mem_bytes_false in Hl1. contradiction.
      + rewrite E1 at 1. rewrite (upto_app lca l1 l2 Hn1).
        rewrite E2 at 1. rewrite (upto_app lca m1 m2 Hn2).
        rewrite rev_app_distr. cbn [rev app tl]. rewrite <- app_assoc. reflexivity.
    - exfalso. pose proof (find_none_all _ _ F r (anc_root_in a r Ha Hr)) as H. cbn beta in H.
      apply mem_bytes_false in H. apply H. apply anc_root_in; assumption.
  Qed.

  Theorem tree_path_spec_strong a b :
    In a (names ls) -> In b (names ls) ->
    exists p, tree_path ls a b = Some p /\ spath a b p /\ (forall x, In x p -> In x (names ls)).
  Proof.
    intros Ha Hb. destruct (tree_path_decomp a b Ha Hb) as [l1 [lca [l2 [m1 [m2 [E1 [E2 [Hd [Hn1 [Hn2 Htp]]]]]]]]]].
    exists (l1 ++ lca :: rev m1). split; [exact Htp|].
    pose proof (anc_nodup a Ha) as Na. pose proof (anc_nodup b Hb) as Nb.
    pose proof (anc_up a Ha) as Ua. pose proof (anc_up b Hb) as Ub.
    destruct (anc_hd a Ha) as [ta Hta]. destruct (anc_hd b Hb) as [tb Htb].
    split; [repeat split|].
    - (* head *)
      rewrite Hta in E1. destruct l1 as [|x l1']; cbn [app] in *; inversion E1; subst; reflexivity.
    - (* last *)
      rewrite last_app_cons. rewrite Htb in E2. destruct m1 as [|x m1']; cbn [app] in *; inversion E2; subst.
      + reflexivity.
      + cbn [rev]. rewrite last_app_cons. reflexivity.
    - (* NoDup *)
      rewrite E1 in Na. rewrite E2 in Nb.
      apply NoDup_app_iff in Na. destruct Na as [Na1 [Na2 Na3]].
      apply NoDup_app_iff in Nb. destruct Nb as [Nb1 [Nb2 Nb3]].
      apply NoDup_app_iff. repeat split.
      + exact Na1.
      + constructor; [rewrite <- in_rev; exact Hn2|apply NoDup_rev; exact Nb1].
      + intros x Hx [E|Hin].
        * subst. contradiction.
        * apply (Hd x Hx). rewrite E2. apply in_or_app. left. apply in_rev. exact Hin.
    - (* adjacency *)
      rewrite E1 in Ua. rewrite E2 in Ub.
      replace (l1 ++ lca :: l2) with ((l1 ++ [lca]) ++ l2) in Ua by (rewrite <- app_assoc; reflexivity).
      replace (m1 ++ lca :: m2) with ((m1 ++ [lca]) ++ m2) in Ub by (rewrite <- app_assoc; reflexivity).
      apply chain_app_inv in Ua. destruct Ua as [Ua _]. apply chain_app_inv in Ub. destruct Ub as [Ub _].
      apply chain_join.
      + apply chain_up_adj. exact Ua.
      + apply chain_rev in Ub. rewrite rev_app_distr in Ub. cbn [rev app] in Ub.
        revert Ub. apply chain_impl. intros x y H. right. exact H.
    - intros x Hx. apply in_app_or in Hx. destruct Hx as [Hx|[Hx|Hx]].
      + apply (anc_names a Ha). rewrite E1. apply in_or_app. left; exact Hx.
      + subst. apply (anc_names a Ha). rewrite E1. apply in_or_app. right; left; reflexivity.
      + apply (anc_names b Hb). rewrite E2. apply in_or_app. left. apply in_rev. exact Hx.
  Qed.
End Tree.

Theorem tree_path_spec ls a b :
  tree_wf ls = true -> In a (names ls) -> In b (names ls) ->
  exists p, tree_path ls a b = Some p /\ hd_error p = Some a /\ last p a = b /\ NoDup p /\
            chain (adj ls) p.
Proof.
  intros W Ha Hb. destruct (tree_path_spec_strong ls W a b Ha Hb) as [p [H1 [[H2 [H3 [H4 H5]]] _]]].
  exists p. repeat split; assumption.
Qed.

(* ================================================================== *)
(* 3. simple paths in the tree are unique                              *)
(* ================================================================== *)
Section Unique.
  Variable ls : list (bytes * level).
  Hypothesis W : tree_wf ls = true.

  Definition down (x y : bytes) : Prop := parent ls y = Some x.

  (* after a parent->child step a duplicate-free path keeps descending *)
  Lemma down_only : forall rest x y,
    NoDup (x :: y :: rest) -> chain (adj ls) (x :: y :: rest) -> parent ls y = Some x ->
    chain down (x :: y :: rest).
  Proof.
    induction rest as [|z rest IH]; intros x y Hnd Hc Hp.
    - split; [exact Hp|exact I].
    - split; [exact Hp|]. destruct Hc as [_ Hc]. pose proof Hc as Hc'. destruct Hc' as [[Hyz|Hzy] _].
      + exfalso. assert (z = x) by congruence. subst z.
        inversion Hnd as [|? ? Hn _]; subst. apply Hn. right; left; reflexivity.
      + apply IH; [inversion Hnd; assumption|exact Hc|exact Hzy].
  Qed.

  Lemma down_depth : forall rest x, chain down (x :: rest) -> dep ls (last rest x) = dep ls x + length rest.
  Proof.
    induction rest as [|y rest IH]; intros x Hc; [cbn; lia|].
    destruct Hc as [Hxy Hc]. rewrite last_cons. rewrite (IH y Hc).
    rewrite (dep_parent ls W _ _ Hxy). cbn [length]. lia.
  Qed.

  Lemma spath_single a b p : spath ls a b p -> a = b -> p = [a].
  Proof.
    intros [H1 [H2 [H3 H4]]] E. rewrite <- E in H2. clear E. destruct p as [|x t]; [discriminate|].
    cbn in H1. inversion H1; subst x. destruct t as [|y t]; [reflexivity|].
    exfalso. rewrite last_cons in H2. inversion H3 as [|? ? Hn _]; subst. apply Hn.
    rewrite <- H2 at 1. rewrite last_cons. apply last_In.
  Qed.

  Lemma spath_first_up a b y rest :
    spath ls a b (a :: y :: rest) -> dep ls b <= dep ls a -> parent ls a = Some y.
  Proof.
    intros [H1 [H2 [H3 H4]]] Hle. pose proof H4 as H4'. destruct H4' as [[Hay|Hya] _]; [exact Hay|].
    exfalso. pose proof (down_only rest a y H3 H4 Hya) as Hd.
    pose proof (down_depth (y :: rest) a Hd) as Hdep. rewrite last_cons in H2.
    rewrite H2 in Hdep. cbn [length] in Hdep. lia.
  Qed.

  Lemma spath_tail a b y rest : spath ls a b (a :: y :: rest) -> spath ls y b (y :: rest).
  Proof.
    intros [H1 [H2 [H3 H4]]]. repeat split.
    - rewrite !last_cons in *. exact H2.
    - inversion H3; assumption.
    - destruct H4 as [_ H4]. exact H4.
  Qed.

  Lemma spath_cons a b p : spath ls a b p -> a <> b -> exists y rest, p = a :: y :: rest.
  Proof.
    intros [H1 [H2 [H3 H4]]] Hne. destruct p as [|x t]; [discriminate|].
    cbn in H1. inversion H1; subst x. destruct t as [|y t]; [cbn in H2; contradiction|].
    exists y, t. reflexivity.
  Qed.

  Lemma spath_rev a b p : spath ls a b p -> spath ls b a (rev p).
  Proof.
    intros [H1 [H2 [H3 H4]]]. destruct p as [|x t]; [discriminate|]. cbn in H1. inversion H1; subst x.
    rewrite last_cons in H2. repeat split.
    - rewrite hd_error_rev_last. rewrite H2. reflexivity.
    - apply last_rev_hd.
    - apply NoDup_rev. exact H3.
    - apply chain_rev in H4. revert H4. apply chain_impl. intros x y H. apply adj_sym. exact H.
  Qed.

  Lemma unique_step k :
    (forall p q a b, length p <= k -> spath ls a b p -> spath ls a b q -> p = q) ->
    forall p q a b, length p <= S k -> dep ls b <= dep ls a -> spath ls a b p -> spath ls a b q -> p = q.
  Proof.
    intros IH p q a b Hlen Hle Hp Hq. destruct (bytes_eq_dec a b) as [E|E].
    - rewrite (spath_single _ _ _ Hp E), (spath_single _ _ _ Hq E). reflexivity.
    - destruct (spath_cons _ _ _ Hp E) as [y [rest ->]]. destruct (spath_cons _ _ _ Hq E) as [y' [rest' ->]].
      pose proof (spath_first_up _ _ _ _ Hp Hle) as U1. pose proof (spath_first_up _ _ _ _ Hq Hle) as U2.
      assert (y' = y) by congruence. subst y'. f_equal.
      apply (IH _ _ y b); [cbn [length] in *; lia|eapply spath_tail; exact Hp|eapply spath_tail; exact Hq].
  Qed.

  Lemma spath_unique_len : forall k p q a b, length p <= k -> spath ls a b p -> spath ls a b q -> p = q.
  Proof.
    induction k as [|k IH]; intros p q a b Hlen Hp Hq.
    - destruct p; [destruct Hp as [Hp _]; discriminate|cbn in Hlen; lia].
    - destruct (le_lt_dec (dep ls b) (dep ls a)) as [Hle|Hlt].
      + exact (unique_step k IH p q a b Hlen Hle Hp Hq).
      + assert (E : rev p = rev q).
        { apply (unique_step k IH (rev p) (rev q) b a); [rewrite rev_length; exact Hlen|lia| |];
            apply spath_rev; assumption. }
        rewrite <- (rev_involutive p), <- (rev_involutive q), E. reflexivity.
  Qed.

  Theorem spath_unique a b p q : spath ls a b p -> spath ls a b q -> p = q.
  Proof. intros Hp Hq. exact (spath_unique_len (length p) p q a b (le_n _) Hp Hq). Qed.

  Theorem tree_path_unique_s a b p :
    In a (names ls) -> In b (names ls) -> spath ls a b p -> tree_path ls a b = Some p.
  Proof.
    intros Ha Hb Hp. destruct (tree_path_spec_strong ls W a b Ha Hb) as [q [Hq [Hsq _]]].
    rewrite Hq. f_equal. exact (spath_unique a b q p Hsq Hp).
  Qed.

  (* corollaries used by the navigation proofs *)
  Lemma tree_path_self a : In a (names ls) -> tree_path ls a a = Some [a].
  Proof.
    intros Ha. apply tree_path_unique_s; try assumption.
    repeat split; [constructor; [intros []|constructor]].
  Qed.

  Lemma tree_path_tail a b y rest :
    In a (names ls) -> In b (names ls) ->
    tree_path ls a b = Some (a :: y :: rest) -> tree_path ls y b = Some (y :: rest) /\ adj ls a y /\ In y (names ls).
  Proof.
    intros Ha Hb H. destruct (tree_path_spec_strong ls W a b Ha Hb) as [q [Hq [Hsq Hn]]].
    rewrite H in Hq. inversion Hq; subst q. assert (Hy : In y (names ls)) by (apply Hn; right; left; reflexivity).
    split; [|split; [destruct Hsq as [_ [_ [_ [Hadj _]]]]; exact Hadj|exact Hy]].
    apply tree_path_unique_s; try assumption. eapply spath_tail; exact Hsq.
  Qed.

  Lemma tree_path_neq a b :
    In a (names ls) -> In b (names ls) -> a <> b ->
    exists y rest, tree_path ls a b = Some (a :: y :: rest).
  Proof.
    intros Ha Hb Hne. destruct (tree_path_spec_strong ls W a b Ha Hb) as [q [Hq [Hsq _]]].
    destruct (spath_cons _ _ _ Hsq Hne) as [y [rest ->]]. exists y, rest. exact Hq.
  Qed.
End Unique.

(* 3 as stated: a duplicate-free list from a to b with adjacent consecutive elements is the tree path *)
Theorem tree_path_unique ls a b p :
  tree_wf ls = true -> In a (names ls) -> In b (names ls) ->
  hd_error p = Some a -> last p a = b -> NoDup p -> chain (adj ls) p ->
  tree_path ls a b = Some p.
Proof.
  intros W Ha Hb H1 H2 H3 H4. apply tree_path_unique_s; try assumption. repeat split; assumption.
Qed.

(* ================================================================== *)
(* 4. the depth-first search returns the tree path, whatever the order *)
(* ================================================================== *)

(* the inner loop of buildPrivChangeMap, standalone *)
Fixpoint try_ns (bp : bytes -> option (list bytes)) (working ns : list bytes) : option (list bytes) :=
  match ns with
  | [] => None
  | p :: rest =>
      if mem_bytes p working then try_ns bp working rest
      else match bp p with
           | Some (x :: xs) => Some (x :: xs)
           | _ => try_ns bp working rest
           end
  end.

Lemma build_path_S f net cur tgt steps :
  build_path (S f) net cur tgt steps =
  if beqb cur tgt then Some (steps ++ [cur])
  else try_ns (fun p => build_path f net p tgt (steps ++ [cur])) (steps ++ [cur])
              (n_order net cur (neighbours (n_levels net) cur)).
Proof.
  cbn [build_path]. destruct (beqb cur tgt); [reflexivity|].
  generalize (n_order net cur (neighbours (n_levels net) cur)). intros ns.
  induction ns as [|p rest IH]; [reflexivity|].
  cbn [try_ns]. rewrite <- IH. reflexivity.
Qed.

Lemma try_ns_sound bp working ns p :
  try_ns bp working ns = Some p ->
  exists p0, In p0 ns /\ ~ In p0 working /\ bp p0 = Some p /\ p <> [].
Proof.
  induction ns as [|p0 rest IH]; cbn [try_ns]; [discriminate|].
  destruct (mem_bytes p0 working) eqn:M.
  - intros H. destruct (IH H) as [q [H1 H2]]. exists q. split; [right; exact H1|exact H2].
  - destruct (bp p0) as [[|x xs]|] eqn:B.
    + intros H. destruct (IH H) as [q [H1 H2]]. exists q. split; [right; exact H1|exact H2].
    + intros H. inversion H; subst. exists p0. repeat split; [left; reflexivity|apply mem_bytes_false; exact M|exact B|discriminate].
    + intros H. destruct (IH H) as [q [H1 H2]]. exists q. split; [right; exact H1|exact H2].
Qed.

Lemma try_ns_complete bp working ns nxt x xs :
  In nxt ns -> ~ In nxt working -> bp nxt = Some (x :: xs) ->
  exists y ys, try_ns bp working ns = Some (y :: ys).
Proof.
  intros Hin Hnw Hbp. induction ns as [|p0 rest IH]; [destruct Hin|].
  cbn [try_ns]. destruct (mem_bytes p0 working) eqn:M.
  - apply IH. destruct Hin as [E|Hin]; [|exact Hin]. subst. apply mem_bytes_In in M. contradiction.
  - destruct (bp p0) as [[|y ys]|] eqn:B.
    + apply IH. destruct Hin as [E|Hin]; [subst; congruence|exact Hin].
    + exists y, ys. reflexivity.
    + apply IH. destruct Hin as [E|Hin]; [subst; congruence|exact Hin].
Qed.

Section DFS.
  Variable net : netcfg.
  Let ls := n_levels net.
  Hypothesis W : tree_wf ls = true.
  Hypothesis OK : orders_ok net.

  Lemma order_neighbours cur y : In cur (names ls) ->
    (In y (n_order net cur (neighbours ls cur)) <-> adj ls cur y).
  Proof.
    intros Hc. destruct OK as [O1 _]. rewrite <- (neighbours_spec ls W cur y).
    split; intros H.
    - eapply Permutation_in; [apply O1|exact H].
    - eapply Permutation_in; [apply Permutation_sym; apply O1|exact H].
  Qed.

  (* soundness: whatever is returned extends [steps] by a duplicate-free adjacent path *)
  Lemma build_path_sound tgt : forall f cur steps p,
    In cur (names ls) -> NoDup (steps ++ [cur]) ->
    build_path f net cur tgt steps = Some p ->
    exists q, p = steps ++ q /\ hd_error q = Some cur /\ last q cur = tgt /\ chain (adj ls) q /\ NoDup p.
  Proof.
    induction f as [|f IH]; intros cur steps p Hc Hnd H; [discriminate|].
    rewrite build_path_S in H. destruct (beqb_reflect cur tgt) as [E|E].
    - inversion H; subst. exists [tgt]. repeat split; [exact Hnd].
    - apply try_ns_sound in H. destruct H as [p0 [Hin [Hnw [Hbp Hne]]]].
      fold ls in Hin. apply (order_neighbours cur p0 Hc) in Hin.
      destruct (adj_in_names ls W _ _ Hin) as [_ Hp0].
      assert (Hnd' : NoDup ((steps ++ [cur]) ++ [p0])).
      { apply NoDup_app_iff. repeat split; [exact Hnd|constructor; [intros []|constructor]|].
        intros x Hx [E'|[]]. subst. contradiction. }
      destruct (IH p0 (steps ++ [cur]) p Hp0 Hnd' Hbp) as [q [E1 [E2 [E3 [E4 E5]]]]].
      exists (cur :: q). rewrite <- app_assoc in E1. repeat split.
      + exact E1.
      + rewrite last_cons. destruct q as [|z q']; [discriminate|]. cbn in E2. inversion E2; subst z.
        rewrite last_cons in *. exact E3.
      + destruct q as [|z q']; [discriminate|]. cbn in E2. inversion E2; subst z. split; [exact Hin|exact E4].
      + exact E5.
  Qed.

  Lemma build_path_sound_nil tgt f a p :
    In a (names ls) -> In tgt (names ls) -> build_path f net a tgt [] = Some p -> tree_path ls a tgt = Some p.
  Proof.
    intros Ha Ht H. apply (build_path_sound tgt f a [] p Ha) in H; [|constructor; [intros []|constructor]].
    destruct H as [q [E1 [E2 [E3 [E4 E5]]]]]. cbn [app] in E1. subst q.
    apply tree_path_unique; assumption.
  Qed.

  (* completeness: with fuel at least the length of the tree path, and the tree path avoiding
     the nodes already on the stack, the search succeeds *)
  Lemma build_path_complete tgt : In tgt (names ls) -> forall q cur steps f,
    In cur (names ls) -> tree_path ls cur tgt = Some q -> length q <= f ->
    NoDup (steps ++ [cur]) -> (forall x, In x q -> ~ In x steps) ->
    exists y ys, build_path f net cur tgt steps = Some (y :: ys).
  Proof.
    intros Ht. induction q as [|c q IH]; intros cur steps f Hc Htp Hlen Hnd Hdisj.
    - destruct (tree_path_spec_strong ls W cur tgt Hc Ht) as [p [Hp [[Hh _] _]]]. rewrite Htp in Hp.
      inversion Hp; subst p. discriminate.
    - destruct f as [|f]; [cbn in Hlen; lia|]. rewrite build_path_S.
      destruct (beqb_reflect cur tgt) as [E|E].
      + destruct steps; cbn [app]; eexists; eexists; reflexivity.
      + destruct (tree_path_neq ls W cur tgt Hc Ht E) as [nxt [rest Hp]]. rewrite Htp in Hp.
        inversion Hp; subst c q. clear Hp.
        destruct (tree_path_tail ls W cur tgt nxt rest Hc Ht Htp) as [Htl [Hadj Hn]].
        destruct (tree_path_spec_strong ls W cur tgt Hc Ht) as [p [Hp [[_ [_ [Hpnd _]]] _]]].
        rewrite Htp in Hp. inversion Hp; subst p. clear Hp.
        assert (Hnw : ~ In nxt (steps ++ [cur])).
        { intros Hin. apply in_app_or in Hin. destruct Hin as [Hin|[Hin|[]]].
          - apply (Hdisj nxt); [right; left; reflexivity|exact Hin].
          - subst. inversion Hpnd as [|? ? Hn' _]; subst. apply Hn'. left; reflexivity. }
        assert (Hnd' : NoDup ((steps ++ [cur]) ++ [nxt])).
        { apply NoDup_app_iff. repeat split; [exact Hnd|constructor; [intros []|constructor]|].
          intros x Hx [E'|[]]. subst. contradiction. }
        destruct (IH nxt (steps ++ [cur]) f Hn Htl) as [y [ys Hb]].
        * cbn [length] in *. lia.
        * exact Hnd'.
        * intros x Hx Hin. apply in_app_or in Hin. destruct Hin as [Hin|[Hin|[]]].
          -- apply (Hdisj x); [right; exact Hx|exact Hin].
          -- subst. inversion Hpnd as [|? ? Hn' _]; subst. contradiction.
        * eapply try_ns_complete with (nxt := nxt); [|exact Hnw|exact Hb].
          fold ls. apply (order_neighbours cur nxt Hc). exact Hadj.
  Qed.

  Theorem dfs_is_tree_path_s a b :
    In a (names ls) -> In b (names ls) ->
    build_path (S (length ls)) net a b [] = tree_path ls a b.
  Proof.
    intros Ha Hb. destruct (tree_path_spec_strong ls W a b Ha Hb) as [q [Hq [[_ [_ [Hnd _]]] Hnames]]].
    assert (Hlen : length q <= S (length ls)).
    { assert (length q <= length (names ls)) by (apply NoDup_incl_length; [exact Hnd|exact Hnames]).
      unfold names in *. rewrite map_length in *. lia. }
    destruct (build_path_complete b Hb q a [] (S (length ls)) Ha Hq Hlen) as [y [ys Hb']].
    - constructor; [intros []|constructor].
    - intros x _ [].
    - rewrite Hb'. symmetry. eapply build_path_sound_nil; [exact Ha|exact Hb|exact Hb'].
  Qed.
End DFS.

(* 4 as stated *)
Theorem dfs_is_tree_path : forall net a b,
  tree_wf (n_levels net) = true -> orders_ok net ->
  In a (names (n_levels net)) -> In b (names (n_levels net)) ->
  build_path (S (length (n_levels net))) net a b [] = tree_path (n_levels net) a b.
Proof. intros net a b W OK Ha Hb. apply dfs_is_tree_path_s; assumption. Qed.

(* ================================================================== *)
(* 5. one step of navigation                                           *)
(* ================================================================== *)

(* the action the driver takes at [m] when the next node of the path is [next] *)
Definition step_action (ls : list (bytes * level)) (m next : bytes) : action :=
  match lookup_level ls next with
  | Some nl => if beqb (lv_previous nl) m then AEscalate next else ADeescalate m
  | None => ANone
  end.

Section Nav.
  Variable net : netcfg.
  Variable prompt_of : bytes -> bytes.
  Let ls := n_levels net.
  Hypothesis W : tree_wf ls = true.
  Hypothesis OK : orders_ok net.
  Hypothesis PI : prompts_identify net prompt_of.

  (* [process_acquire] chooses [current] among the possible levels; with a singleton it is [m]
     whatever [cached] is.  (Stated for any sub-list of [[m]] so that it does not depend on
     which part of the list the model's as-pattern binds.) *)
  Lemma current_is_m cached target m poss :
    In m (names ls) -> In target (names ls) -> (poss = [m] \/ poss = []) ->
    (if mem_bytes cached poss then cached
     else if mem_bytes target poss
          then match lookup_level ls target with Some l => lv_name l | None => target end
          else m) = m.
  Proof.
    intros Hm Ht [->| ->]; [|reflexivity]. destruct (mem_bytes cached [m]) eqn:M1.
    - apply mem_bytes_In in M1. destruct M1 as [E|[]]. symmetry; exact E.
    - destruct (mem_bytes target [m]) eqn:M2; [|reflexivity].
      apply mem_bytes_In in M2. destruct M2 as [E|[]]. subst target.
      destruct (wf_lookup_total ls W m Hm) as [l [H1 [_ H3]]]. rewrite H1. exact H3.
  Qed.

  Theorem process_acquire_at_target cached target :
    In target (names ls) ->
    process_acquire net cached target (prompt_of target) = PAOk ANone target.
  Proof.
    intros Ht. unfold process_acquire. rewrite (PI target Ht). cbv beta iota zeta.
    fold ls. rewrite (current_is_m cached target target _ Ht Ht) by (first [left; reflexivity|right; reflexivity]). rewrite beqb_refl'. reflexivity.
  Qed.

  (* for m <> target: the action is decided by the second node [next] of the tree path:
     escalate into [next] if [next]'s previous is [m], else de-escalate out of [m] (and then
     [next] is [m]'s previous) *)
  Theorem process_acquire_step cached target m :
    In m (names ls) -> In target (names ls) -> m <> target ->
    exists next rest nl,
      tree_path ls m target = Some (m :: next :: rest) /\
      In next (names ls) /\ lookup_level ls next = Some nl /\
      process_acquire net cached target (prompt_of m) = PAOk (step_action ls m next) net_unknown_priv /\
      ((lv_previous nl = m /\ step_action ls m next = AEscalate next) \/
       (lv_previous nl <> m /\ parent ls m = Some next /\ step_action ls m next = ADeescalate m)).
  Proof.
    intros Hm Ht Hne. destruct (tree_path_neq ls W m target Hm Ht Hne) as [next [rest Htp]].
    destruct (tree_path_tail ls W m target next rest Hm Ht Htp) as [_ [Hadj Hn]].
    destruct (wf_lookup_total ls W next Hn) as [nl [L1 [_ L3]]].
    exists next, rest, nl. split; [exact Htp|]. split; [exact Hn|]. split; [exact L1|].
    split.
    - unfold process_acquire. rewrite (PI m Hm). cbv beta iota zeta. fold ls.
      rewrite (current_is_m cached target m _ Hm Ht) by (first [left; reflexivity|right; reflexivity]).
      destruct (beqb_reflect m target) as [E|_]; [contradiction|].
      unfold ls. rewrite (dfs_is_tree_path net m target W OK Hm Ht). fold ls. rewrite Htp.
      unfold step_action. rewrite L1, L3. destruct (beqb (lv_previous nl) m); reflexivity.
    - unfold step_action. rewrite L1. destruct (beqb_reflect (lv_previous nl) m) as [E|E].
      + left. split; [exact E|reflexivity].
      + right. split; [exact E|]. split; [|reflexivity]. destruct Hadj as [H|H]; [exact H|].
        apply parent_Some in H. destruct H as [l [H1 [H2 _]]]. congruence.
  Qed.

  (* when no level is named by the empty string the escalate case is a genuine child step *)
  Corollary process_acquire_step_ne cached target m :
    ~ In [] (names ls) ->
    In m (names ls) -> In target (names ls) -> m <> target ->
    exists next rest,
      tree_path ls m target = Some (m :: next :: rest) /\
      In next (names ls) /\
      process_acquire net cached target (prompt_of m) = PAOk (step_action ls m next) net_unknown_priv /\
      ((parent ls next = Some m /\ step_action ls m next = AEscalate next) \/
       (parent ls m = Some next /\ step_action ls m next = ADeescalate m)).
  Proof.
    intros NE Hm Ht Hne.
    destruct (process_acquire_step cached target m Hm Ht Hne) as [next [rest [nl [H1 [H2 [H3 [H4 H5]]]]]]].
    exists next, rest. repeat split; try assumption.
    destruct H5 as [[E Ha]|[_ [Hp Ha]]]; [left|right]; (split; [|exact Ha]); [|exact Hp].
    apply parent_Some. exists nl. repeat split; [exact H3|exact E|]. intros E0. apply NE. rewrite <- E0. exact Hm.
  Qed.
End Nav.

(* ================================================================== *)
(* 6. the device follows                                               *)
(* ================================================================== *)
Section Device.
  Variable net : netcfg.
  Let ls := n_levels net.
  Hypothesis W : tree_wf ls = true.
  Hypothesis CO : cmds_ok ls.

  Lemma path_cmds_cons m next rest :
    path_cmds ls (m :: next :: rest) =
    (m, match lookup_level ls next with
        | Some ly => if beqb (lv_previous ly) m then lv_escalate ly
                     else match lookup_level ls m with Some lx => lv_deescalate lx | None => [] end
        | None => []
        end) :: path_cmds ls (next :: rest).
  Proof. reflexivity. Qed.

  Theorem dev_escalate d next rest :
    parent ls next = Some (d_mode d) ->
    exists cmd,
      path_cmds ls (d_mode d :: next :: rest) = (d_mode d, cmd) :: path_cmds ls (next :: rest) /\
      dev_line ls d (action_line net (AEscalate next)) = mkADev next (d_log d ++ [(d_mode d, cmd)]).
  Proof.
    intros Hp. set (m := d_mode d) in *. apply parent_Some in Hp. destruct Hp as [nl [L1 [L2 L3]]].
    exists (lv_escalate nl). split.
    - rewrite path_cmds_cons, L1, L2, beqb_refl'. reflexivity.
    - unfold action_line. fold ls. rewrite L1. destruct CO as [C1 [C2 C3]].
      pose proof (lookup_In _ _ _ L1) as Hin.
      assert (Hprev : lv_previous nl <> []) by (rewrite L2; exact L3).
      destruct (C1 next nl Hin Hprev) as [Hesc _].
      unfold dev_line. destruct (lv_escalate nl) as [|b cmd] eqn:Ecmd; [contradiction|].
      unfold child_by_cmd. fold m.
      destruct (filter (fun kl => beqb (lv_previous (snd kl)) m && beqb (lv_escalate (snd kl)) (b :: cmd)) ls)
        as [|[k l] t] eqn:F.
      + exfalso. assert (Hf : In (next, nl) (filter (fun kl => beqb (lv_previous (snd kl)) m && beqb (lv_escalate (snd kl)) (b :: cmd)) ls)).
        { apply filter_In. split; [exact Hin|]. cbn [snd]. rewrite L2, Ecmd, !beqb_refl'. reflexivity. }
        rewrite F in Hf. destruct Hf.
      + assert (Hf : In (k, l) (filter (fun kl => beqb (lv_previous (snd kl)) m && beqb (lv_escalate (snd kl)) (b :: cmd)) ls))
          by (rewrite F; left; reflexivity).
        apply filter_In in Hf. destruct Hf as [Hkl Hc]. cbn [snd] in Hc. apply andb_true_iff in Hc.
        destruct Hc as [Hc1 Hc2]. apply beqb_true_iff in Hc1. apply beqb_true_iff in Hc2.
        assert (k = next).
        { apply (C2 k l next nl Hkl Hin); [congruence|congruence|congruence]. }
        subst k. cbn [snd]. rewrite (wf_key_name ls W _ _ Hkl). reflexivity.
  Qed.

  Theorem dev_deescalate d next rest :
    d_mode d <> [] ->
    parent ls (d_mode d) = Some next ->
    exists cmd,
      path_cmds ls (d_mode d :: next :: rest) = (d_mode d, cmd) :: path_cmds ls (next :: rest) /\
      dev_line ls d (action_line net (ADeescalate (d_mode d))) = mkADev next (d_log d ++ [(d_mode d, cmd)]).
  Proof.
    intros Hm0 Hp. set (m := d_mode d) in *. pose proof Hp as Hp0.
    apply parent_Some in Hp. destruct Hp as [lm [L1 [L2 L3]]].
    destruct (parent_in_names ls W _ _ Hp0) as [Hm [Hn _]].
    destruct (wf_lookup_total ls W next Hn) as [nl [N1 [_ _]]].
    exists (lv_deescalate lm). split.
    - rewrite path_cmds_cons, N1, L1.
      destruct (beqb_reflect (lv_previous nl) m) as [E|E]; [|reflexivity].
      exfalso. assert (Hpn : parent ls next = Some m).
      { apply parent_Some. exists nl. repeat split; [exact N1|exact E|].
        exact Hm0. }
      pose proof (dep_parent ls W _ _ Hp0). pose proof (dep_parent ls W _ _ Hpn). lia.
    - unfold action_line. fold ls. fold m. rewrite L1. destruct CO as [C1 [C2 C3]].
      pose proof (lookup_In _ _ _ L1) as Hin.
      assert (Hprev : lv_previous lm <> []) by (rewrite L2; exact L3).
      destruct (C1 m lm Hin Hprev) as [_ Hde].
      unfold dev_line. destruct (lv_deescalate lm) as [|b cmd] eqn:Ecmd; [contradiction|].
      unfold child_by_cmd. fold m.
      destruct (filter (fun kl => beqb (lv_previous (snd kl)) m && beqb (lv_escalate (snd kl)) (b :: cmd)) ls)
        as [|[k l] t] eqn:F.
      + rewrite L1, Ecmd, beqb_refl'. rewrite L2. destruct next as [|? ?]; [contradiction|]. reflexivity.
      + exfalso.
        assert (Hf : In (k, l) (filter (fun kl => beqb (lv_previous (snd kl)) m && beqb (lv_escalate (snd kl)) (b :: cmd)) ls))
          by (rewrite F; left; reflexivity).
        apply filter_In in Hf. destruct Hf as [Hkl Hc]. cbn [snd] in Hc. apply andb_true_iff in Hc.
        destruct Hc as [Hc1 Hc2]. apply beqb_true_iff in Hc1. apply beqb_true_iff in Hc2.
        apply (C3 m lm k l Hin Hkl); [rewrite (wf_key_name ls W _ _ Hin); exact Hc1|congruence].
  Qed.
End Device.

(* 6 in one statement: the device follows the action chosen for an adjacent [next] *)
Theorem dev_follows net d next rest :
  tree_wf (n_levels net) = true -> cmds_ok (n_levels net) -> ~ In [] (names (n_levels net)) ->
  In (d_mode d) (names (n_levels net)) -> adj (n_levels net) (d_mode d) next ->
  exists cmd,
    path_cmds (n_levels net) (d_mode d :: next :: rest) = (d_mode d, cmd) :: path_cmds (n_levels net) (next :: rest) /\
    dev_line (n_levels net) d (action_line net (step_action (n_levels net) (d_mode d) next))
    = mkADev next (d_log d ++ [(d_mode d, cmd)]).
Proof.
  intros W CO NE Hm Hadj. assert (Hm0 : d_mode d <> []) by (intros E; apply NE; rewrite <- E; exact Hm).
  destruct (adj_in_names _ W _ _ Hadj) as [_ Hn].
  destruct (wf_lookup_total _ W next Hn) as [nl [L1 _]].
  unfold step_action. rewrite L1. destruct (beqb_reflect (lv_previous nl) (d_mode d)) as [E|E].
  - apply dev_escalate; try assumption. apply parent_Some. exists nl. repeat split; assumption.
  - apply dev_deescalate; try assumption. destruct Hadj as [H|H]; [exact H|].
    apply parent_Some in H. destruct H as [l [H1 [H2 _]]]. congruence.
Qed.

(* ================================================================== *)
(* 7. AcquirePriv walks the tree path and stops at the target          *)
(* ================================================================== *)
Section Acquire.
  Variable net : netcfg.
  Variable prompt_of : bytes -> bytes.
  Let ls := n_levels net.
  Hypothesis W : tree_wf ls = true.
  Hypothesis NE : ~ In [] (names ls).
  Hypothesis OK : orders_ok net.
  Hypothesis PI : prompts_identify net prompt_of.
  Hypothesis CO : cmds_ok ls.

  Lemma acquire_abs_walk target : In target (names ls) ->
    forall p d cached count fuel,
      In (d_mode d) (names ls) ->
      tree_path ls (d_mode d) target = Some p ->
      length p <= fuel -> count + length p <= 2 * length ls + 1 ->
      exists d', acquire_abs fuel net prompt_of d cached target count = AOk d' target /\
                 d_mode d' = target /\ d_log d' = d_log d ++ path_cmds ls p.
  Proof.
    intros Ht. induction p as [|x p IH]; intros d cached count fuel Hm Htp Hlen Hcnt.
    - exfalso. destruct (tree_path_spec_strong ls W _ _ Hm Ht) as [q [Hq [[Hh _] _]]].
      rewrite Htp in Hq. inversion Hq; subst q. discriminate.
    - destruct fuel as [|f]; [cbn in Hlen; lia|]. cbn [acquire_abs].
      destruct (bytes_eq_dec (d_mode d) target) as [E|E].
      + rewrite E in *. unfold ls in Ht. rewrite (process_acquire_at_target net prompt_of W PI cached target Ht).
        fold ls in Ht. rewrite (tree_path_self ls W target Ht) in Htp. inversion Htp; subst.
        exists d. split; [reflexivity|]. split; [first [exact E|reflexivity]|]. cbn [path_cmds]. rewrite app_nil_r. reflexivity.
      + destruct (process_acquire_step_ne net prompt_of W OK PI cached target (d_mode d) NE Hm Ht E)
          as [next [rest [Htp' [Hn [Hpa Hcase]]]]].
        fold ls in Htp', Hn, Hpa, Hcase. rewrite Htp in Htp'. inversion Htp'; subst x p. clear Htp'.
        rewrite Hpa.
        destruct (tree_path_tail ls W _ _ _ _ Hm Ht Htp) as [Htl _].
        assert (Hlt : Nat.ltb (2 * length (n_levels net)) (S count) = false).
        { apply Nat.ltb_ge. fold ls. cbn [length] in Hcnt. lia. }
        destruct Hcase as [[Hp Ha]|[Hp Ha]]; rewrite Ha; cbv beta iota zeta; rewrite Hlt.
        * destruct (dev_escalate net W CO d next rest Hp) as [cmd [Hpc Hdl]]. fold ls in Hpc, Hdl.
          fold ls. rewrite Hdl.
          destruct (IH (mkADev next (d_log d ++ [(d_mode d, cmd)])) net_unknown_priv (S count) f)
            as [d' [H1 [H2 H3]]]; [exact Hn|exact Htl|cbn [length] in *; lia|cbn [length] in *; lia|].
          exists d'. split; [exact H1|]. split; [exact H2|].
          rewrite H3. cbn [d_log]. rewrite Hpc, <- app_assoc. reflexivity.
        * destruct (dev_deescalate net W CO d next rest (fun E0 => NE (eq_ind _ (fun z => In z (names ls)) Hm _ E0)) Hp) as [cmd [Hpc Hdl]]. fold ls in Hpc, Hdl.
          fold ls. rewrite Hdl.
          destruct (IH (mkADev next (d_log d ++ [(d_mode d, cmd)])) net_unknown_priv (S count) f)
            as [d' [H1 [H2 H3]]]; [exact Hn|exact Htl|cbn [length] in *; lia|cbn [length] in *; lia|].
          exists d'. split; [exact H1|]. split; [exact H2|].
          rewrite H3. cbn [d_log]. rewrite Hpc, <- app_assoc. reflexivity.
  Qed.

  Theorem acquire_reaches_target_s d cached target :
    In (d_mode d) (names ls) -> In target (names ls) ->
    exists p d', tree_path ls (d_mode d) target = Some p /\
                 acquire_priv_abs net prompt_of d cached target = AOk d' target /\
                 d_mode d' = target /\ d_log d' = d_log d ++ path_cmds ls p.
  Proof.
    intros Hm Ht. destruct (tree_path_spec_strong ls W _ _ Hm Ht) as [p [Hp [[_ [_ [Hnd _]]] Hnames]]].
    assert (Hlen : length p <= length ls).
    { assert (length p <= length (names ls)) by (apply NoDup_incl_length; [exact Hnd|exact Hnames]).
      unfold names in *. rewrite map_length in *. lia. }
    destruct (acquire_abs_walk target Ht p d cached 0 (2 * length ls + 2) Hm Hp) as [d' [H1 H2]]; [lia|lia|].
    exists p, d'. split; [exact Hp|]. split; [|exact H2].
    unfold acquire_priv_abs. fold ls. destruct (names_In ls target Ht) as [l Hl]. rewrite Hl. exact H1.
  Qed.
End Acquire.

(* 7 as stated needs the side condition that no level is named by the empty string *)
Theorem acquire_reaches_target_partial : forall net prompt_of d cached target,
  tree_wf (n_levels net) = true -> ~ In [] (names (n_levels net)) ->
  orders_ok net -> prompts_identify net prompt_of -> cmds_ok (n_levels net) ->
  In (d_mode d) (names (n_levels net)) -> In target (names (n_levels net)) ->
  exists p d', tree_path (n_levels net) (d_mode d) target = Some p /\
               acquire_priv_abs net prompt_of d cached target = AOk d' target /\
               d_mode d' = target /\ d_log d' = d_log d ++ path_cmds (n_levels net) p.
Proof. intros. apply acquire_reaches_target_s; assumption. Qed.

Theorem acquire_unknown_target : forall net prompt_of d cached target,
  ~ In target (names (n_levels net)) -> keys_are_names (n_levels net) = true ->
  acquire_priv_abs net prompt_of d cached target = AErrPriv d.
Proof.
  intros net prompt_of d cached target Hn _. unfold acquire_priv_abs.
  apply lookup_None in Hn. rewrite Hn. reflexivity.
Qed.

(* ================================================================== *)
(* 8. non-vacuity: the Cisco IOS-XE privilege tree                     *)
(* ================================================================== *)
Module Example.
  Definition lvl (name pat prev deesc esc : String.string) : bytes * level :=
    (bs name, mkLevel (bs name) (bs pat) (re_lit (bs pat)) [] (bs prev) (bs deesc) (bs esc) false [] REps).

  Definition iosxe_levels : list (bytes * level) :=
    [ lvl "exec" ">" "" "" "";
      lvl "privilege-exec" "r1#" "exec" "disable" "enable";
      lvl "configuration" "(config)#" "privilege-exec" "end" "configure terminal";
      lvl "tclsh" "(tcl)#" "privilege-exec" "tclquit" "tclsh" ]%string.

  Definition iosxe_net : netcfg :=
    mkNet iosxe_levels (bs "privilege-exec") [] (mkCfg 1000 REps [10%N] 0%Z) (fun _ l => l) (fun l => l).

  Definition iosxe_prompt (m : bytes) : bytes :=
    if beqb m (bs "exec") then bs "r1>"
    else if beqb m (bs "privilege-exec") then bs "r1#"
    else if beqb m (bs "configuration") then bs "r1(config)#"
    else if beqb m (bs "tclsh") then bs "r1(tcl)#"
    else [].

  Lemma iosxe_tree_wf : tree_wf (n_levels iosxe_net) = true.
  Proof. vm_compute. reflexivity. Qed.

  Lemma iosxe_names_nonempty : ~ In [] (names (n_levels iosxe_net)).
  Proof. cbn. intros [H|[H|[H|[H|[]]]]]; discriminate. Qed.

  Lemma iosxe_orders_ok : orders_ok iosxe_net.
  Proof. split; intros; apply Permutation_refl. Qed.

  Lemma iosxe_prompts_identify : prompts_identify iosxe_net iosxe_prompt.
  Proof.
    intros m Hm. cbn in Hm. destruct Hm as [H|[H|[H|[H|[]]]]]; subst m; vm_compute; reflexivity.
  Qed.

  Ltac in_levels H :=
    cbn in H; destruct H as [H|[H|[H|[H|[]]]]]; inversion H; subst; clear H.

  Lemma iosxe_cmds_ok : cmds_ok (n_levels iosxe_net).
  Proof.
    split; [|split].
    - intros k l H Hp. in_levels H; cbn in *; try contradiction; split; discriminate.
    - intros k1 l1 k2 l2 H1 H2 E Hp Ee. in_levels H1; in_levels H2; cbn in *;
        try reflexivity; try contradiction; try discriminate.
    - intros k l kc lc H1 H2 E. in_levels H1; in_levels H2; cbn in *; try discriminate.
  Qed.

  Example iosxe_config_to_tclsh :
    acquire_priv_abs iosxe_net iosxe_prompt (mkADev (bs "configuration") []) (bs "configuration") (bs "tclsh")
    = AOk (mkADev (bs "tclsh") [(bs "configuration", bs "end"); (bs "privilege-exec", bs "tclsh")]) (bs "tclsh").
  Proof. vm_compute. reflexivity. Qed.

  (* the same through the theorem: its hypotheses are satisfiable and its conclusion is this run *)
  Example iosxe_config_to_tclsh_thm :
    exists p d',
      tree_path iosxe_levels (bs "configuration") (bs "tclsh") = Some p /\
      p = [bs "configuration"; bs "privilege-exec"; bs "tclsh"] /\
      acquire_priv_abs iosxe_net iosxe_prompt (mkADev (bs "configuration") []) net_unknown_priv (bs "tclsh")
        = AOk d' (bs "tclsh") /\
      d_mode d' = bs "tclsh" /\
      d_log d' = [(bs "configuration", bs "end"); (bs "privilege-exec", bs "tclsh")].
  Proof.
    destruct (acquire_reaches_target_partial iosxe_net iosxe_prompt (mkADev (bs "configuration") [])
                net_unknown_priv (bs "tclsh") iosxe_tree_wf iosxe_names_nonempty iosxe_orders_ok
                iosxe_prompts_identify iosxe_cmds_ok) as [p [d' [H1 [H2 [H3 H4]]]]].
    - cbn. right; right; left; reflexivity.
    - cbn. right; right; right; left; reflexivity.
    - exists p, d'. change (n_levels iosxe_net) with iosxe_levels in *. cbn [d_mode d_log] in *.
      assert (Hp : p = [bs "configuration"; bs "privilege-exec"; bs "tclsh"]).
      { assert (E : tree_path iosxe_levels (bs "configuration") (bs "tclsh")
                    = Some [bs "configuration"; bs "privilege-exec"; bs "tclsh"]) by (vm_compute; reflexivity).
        rewrite E in H1. inversion H1; reflexivity. }
      repeat split; try assumption. rewrite H4, Hp. vm_compute. reflexivity.
  Qed.

  (* ---- the side condition of 7 is needed: a level named by the empty string ---- *)
  Definition bad_levels : list (bytes * level) :=
    [ lvl "r" "A" "" "" ""; lvl "" "B" "r" "x" "e" ]%string.
  Definition bad_net : netcfg :=
    mkNet bad_levels (bs "r") [] (mkCfg 1000 REps [10%N] 0%Z) (fun _ l => l) (fun l => l).
  Definition bad_prompt (m : bytes) : bytes := if beqb m (bs "r") then bs "A" else bs "B".

  Example acquire_reaches_target_refuted :
    tree_wf (n_levels bad_net) = true /\ orders_ok bad_net /\ prompts_identify bad_net bad_prompt /\
    cmds_ok (n_levels bad_net) /\ In (d_mode (mkADev [] [])) (names (n_levels bad_net)) /\
    In (bs "r") (names (n_levels bad_net)) /\
    tree_path (n_levels bad_net) [] (bs "r") = Some [[]; bs "r"] /\
    acquire_priv_abs bad_net bad_prompt (mkADev [] []) net_unknown_priv (bs "r") = AErrPriv (mkADev [] []).
  Proof.
    split; [vm_compute; reflexivity|]. split; [split; intros; apply Permutation_refl|].
    split; [intros m Hm; cbn in Hm; destruct Hm as [H|[H|[]]]; subst m; vm_compute; reflexivity|].
    split.
    { split; [|split].
      - intros k l H Hp. cbn in H. destruct H as [H|[H|[]]]; inversion H; subst; cbn in *;
          try contradiction; split; discriminate.
      - intros k1 l1 k2 l2 H1 H2 E Hp Ee. cbn in H1, H2.
        destruct H1 as [H1|[H1|[]]]; destruct H2 as [H2|[H2|[]]]; inversion H1; inversion H2; subst; cbn in *;
          try reflexivity; try contradiction; try discriminate.
      - intros k l kc lc H1 H2 E. cbn in H1, H2.
        destruct H1 as [H1|[H1|[]]]; destruct H2 as [H2|[H2|[]]]; inversion H1; inversion H2; subst; cbn in *;
          try discriminate. }
    split; [cbn; right; left; reflexivity|]. split; [cbn; left; reflexivity|].
    split; vm_compute; reflexivity.
  Qed.
End Example.

(* ================================================================== *)
(* assumptions of the numbered theorems                                *)
(* ================================================================== *)
Print Assumptions wf_nodup.
Print Assumptions wf_lookup_total.
Print Assumptions wf_previous_in_names.
Print Assumptions depth_parent.
Print Assumptions wf_single_root.
Print Assumptions anc_last_root.
Print Assumptions neighbours_parent_children.
Print Assumptions neighbours_sym.
Print Assumptions tree_path_spec.
Print Assumptions tree_path_unique.
Print Assumptions dfs_is_tree_path.
Print Assumptions process_acquire_at_target.
Print Assumptions process_acquire_step.
Print Assumptions dev_escalate.
Print Assumptions dev_deescalate.
Print Assumptions dev_follows.
Print Assumptions acquire_reaches_target_partial.
Print Assumptions acquire_unknown_target.
Print Assumptions Example.iosxe_config_to_tclsh.
Print Assumptions Example.iosxe_config_to_tclsh_thm.
Print Assumptions Example.acquire_reaches_target_refuted.
