(* InteractiveLemmas.v — C12, "the result contains the whole dialogue": what SendInteractive,
   SendInput and GetPrompt return, in terms of the buffers their read-untils returned.
     - SendInteractive returns processOut (with strip = false, whatever the options say: Go calls
       c.processOut(b, false)) of the concatenation of the buffers of ALL its read-untils, echo
       reads included, in order;
     - SendInput returns processOut (strip as the options say) of the buffer of the prompt read
       only: the echo read's bytes are discarded (Go: `_, err = readUntilF(ctx, input)`); eager
       sends read no prompt and return processOut of the empty buffer;
     - GetPrompt returns the match of the prompt pattern in the buffer of its one read;
     - on failure the outcome is the error handed to the last read-until: no partial dialogue. *)
From Scrapli Require Import Bytes BytesLemmas Regex PlatformTypes Generated Channel Network Session ChanTrace ChanTraceLemmas.
Open Scope N_scope.

#[local] Opaque rx_match rx_find rx_remove_all rx_search cond_holds process_out contains
  roughly_contains process_read_buf.

(* ---------- the buffers returned by the read-untils of a trace, in order ---------- *)
(* ([ChanTraceLemmas.reads_of] is their concatenation; this keeps them apart) *)
Definition read_bufs (t : list obs) : list bytes :=
  flat_map (fun o => match o with ORead _ rb => [rb] | _ => [] end) t.

(* use the equation [inl a = inl b] left by [pinv] on a [Ret] *)
Ltac inl_inv := match goal with E : inl _ = inl _ |- _ => inversion E; subst; clear E end.

Definition is_err (x : obs) : bool := match x with OErr _ _ => true | _ => false end.

Lemma read_bufs_app a b : read_bufs (a ++ b) = read_bufs a ++ read_bufs b.
Proof. unfold read_bufs. apply flat_map_app. Qed.

Lemma read_bufs_write b r t : read_bufs (OWrite b r :: t) = read_bufs t.
Proof. reflexivity. Qed.
Lemma read_bufs_read c rb t : read_bufs (ORead c rb :: t) = rb :: read_bufs t.
Proof. reflexivity. Qed.
Lemma read_bufs_err c e t : read_bufs (OErr c e :: t) = read_bufs t.
Proof. reflexivity. Qed.

Lemma concat_read_bufs t : concat (read_bufs t) = reads_of t.
Proof.
  induction t as [|x t IH]; [reflexivity|].
  change (read_bufs (x :: t)) with ((match x with ORead _ rb => [rb] | _ => [] end) ++ read_bufs t).
  change (reads_of (x :: t)) with ((match x with ORead _ rb => rb | _ => [] end) ++ reads_of t).
  rewrite concat_app, IH. destruct x; simpl; auto. rewrite app_nil_r. reflexivity.
Qed.

(* ====================================================================== *)
(* 1.  SendInteractive: the result is the whole dialogue                   *)
(* ====================================================================== *)

Lemma interactive_loop_result cfg o : forall evs acc t r,
  ctrace cfg (interactive_loop cfg o evs acc) t (inl r) ->
  r = process_out cfg (acc ++ concat (read_bufs t)) false.
Proof.
  induction evs as [|e rest IH]; intros acc t r H; cbn [interactive_loop] in H.
  - pinv H. inl_inv. simpl. rewrite app_nil_r. reflexivity.
  - pinv H. fold (ia_prompts cfg o e) in H.
    rewrite read_bufs_write.
    (* the return / prompt-read stage, for any accumulated buffer *)
    assert (K : forall acc' t2,
       ctrace cfg (Write (c_ret cfg) false
          (Until (CAnyPrompt (ia_prompts cfg o e))
             (fun pb => match rest with
                        | [] => Ret (process_out cfg (acc' ++ pb) false)
                        | _ :: _ => if existsb (fun p => rx_match p pb) (o_complete o)
                                    then Ret (process_out cfg (acc' ++ pb) false)
                                    else interactive_loop cfg o rest (acc' ++ pb)
                        end) Fail)) t2 (inl r) ->
       r = process_out cfg (acc' ++ concat (read_bufs t2)) false).
    { intros acc' t2 H2. pinv H2. pinv H2.
      - rewrite read_bufs_write, read_bufs_read.
        cbn [concat]. rewrite app_assoc.
        assert (Hret : forall tz, ctrace cfg (Ret (process_out cfg (acc' ++ rb) false)) tz (inl r) ->
                                  r = process_out cfg ((acc' ++ rb) ++ concat (read_bufs tz)) false).
        { intros tz Hz. pinv Hz. inl_inv. simpl. rewrite app_nil_r. reflexivity. }
        destruct rest as [|e' rest'].
        + apply Hret; assumption.
        + destruct (existsb (fun p => rx_match p rb) (o_complete o)).
          * apply Hret; assumption.
          * eapply IH; eassumption.
      - pinv H2. discriminate. }
    destruct (ev_response e) as [resp|].
    + destruct (ev_hidden e).
      * specialize (K (acc ++ []) t0 H). rewrite app_nil_r in K. exact K.
      * unfold until_echo in H.
        assert (Kecho : forall inp,
           ctrace cfg (Until (echo_cond o inp)
                    (fun nb => Write (c_ret cfg) false
                       (Until (CAnyPrompt (ia_prompts cfg o e))
                          (fun pb => match rest with
                                     | [] => Ret (process_out cfg ((acc ++ nb) ++ pb) false)
                                     | _ :: _ => if existsb (fun p => rx_match p pb) (o_complete o)
                                                 then Ret (process_out cfg ((acc ++ nb) ++ pb) false)
                                                 else interactive_loop cfg o rest ((acc ++ nb) ++ pb)
                                     end) Fail)) Fail) t0 (inl r) ->
           r = process_out cfg (acc ++ concat (read_bufs t0)) false).
        { intros inp H'. pinv H'.
          - rewrite read_bufs_read.
            cbn [concat]. rewrite app_assoc. apply K. exact H'.
          - pinv H'. discriminate. }
        destruct (ev_input e) as [|x inp].
        -- specialize (K (acc ++ []) t0 H). rewrite app_nil_r in K. exact K.
        -- eapply Kecho. exact H.
    + specialize (K (acc ++ []) t0 H). rewrite app_nil_r in K. exact K.
Qed.

(* the result of a successful interactive send is processOut (strip = false) of everything every
   read-until of the send returned — the echo reads and the prompt reads, in order *)
Theorem interactive_result_whole : forall cfg evs o t r,
  ctrace cfg (send_interactive cfg evs o) t (inl r) ->
  r = process_out cfg (concat (read_bufs t)) false.
Proof.
  intros cfg evs o t r H. unfold send_interactive in H.
  apply interactive_loop_result in H. exact H.
Qed.

(* the same with [ChanTraceLemmas.reads_of] *)
Corollary interactive_result_reads_of : forall cfg evs o t r,
  ctrace cfg (send_interactive cfg evs o) t (inl r) ->
  r = process_out cfg (reads_of t) false.
Proof.
  intros cfg evs o t r H. rewrite <- concat_read_bufs. eapply interactive_result_whole; eassumption.
Qed.

(* ====================================================================== *)
(* 2.  On failure: the error of the failing read-until, no partial result  *)
(* ====================================================================== *)

(* [handler_only p]: [p] has no [Fail] node of its own; it fails only where a read-until is handed
   an error, and then with exactly that error *)
Inductive handler_only {R} : prog R -> Prop :=
| ho_ret r : handler_only (Ret r)
| ho_write b r k : handler_only k -> handler_only (Write b r k)
| ho_note tg d k : handler_only k -> handler_only (Note tg d k)
| ho_requeue b k : handler_only k -> handler_only (Requeue b k)
| ho_until c k h : (forall rb, handler_only (k rb)) -> (forall e, h e = Fail e) -> handler_only (Until c k h).


(* a failed path ends at a read-until that was handed the error; that is its only [OErr], and
   the outcome is that error *)
Lemma handler_only_failure cfg R (p : prog R) : handler_only p ->
  forall t e, ctrace cfg p t (inr e) ->
  exists t0 c, t = t0 ++ [OErr c e] /\ existsb is_err t0 = false.
Proof.
  induction 1 as [r|b r k Hk IH|tg d k Hk IH|b k Hk IH|c k h Hk IH Hh]; intros t e Hc; pinv Hc.
  - discriminate.
  - destruct (IH _ _ Hc) as [tz [c [E F]]]. exists (OWrite b r :: tz), c. subst. split; auto.
  - destruct (IH _ _ Hc) as [tz [c [E F]]]. exists (ONote tg d :: tz), c. subst. split; auto.
  - destruct (IH _ _ Hc) as [tz [c [E F]]]. exists (ORequeue b :: tz), c. subst. split; auto.
  - destruct (IH _ _ _ Hc) as [tz [c' [E F]]]. exists (ORead c rb :: tz), c'. subst. split; auto.
  - rewrite Hh in Hc. pinv Hc.
    match goal with E : inr _ = inr _ |- _ => inversion E; subst; clear E end.
    exists [], c. split; auto.
Qed.

(* a successful path has no [OErr] at all *)
Lemma handler_only_success cfg R (p : prog R) : handler_only p ->
  forall t r, ctrace cfg p t (inl r) -> existsb is_err t = false.
Proof.
  induction 1 as [r|b r k Hk IH|tg d k Hk IH|b k Hk IH|c k h Hk IH Hh]; intros t r0 Hc; pinv Hc;
    try (simpl; eauto; fail).
  rewrite Hh in Hc. pinv Hc. discriminate.
Qed.

Lemma ho_until_echo {R} o input (k : bytes -> prog R) :
  (forall rb, handler_only (k rb)) -> handler_only (until_echo o input k).
Proof.
  intros Hk. unfold until_echo. destruct input; destruct (o_exact o); auto; constructor; auto.
Qed.

Lemma ho_send_input cfg input o : handler_only (send_input cfg input o).
Proof.
  unfold send_input. constructor. apply ho_until_echo. intros _. constructor.
  destruct (o_eager o); constructor; auto. intros; constructor.
Qed.

Lemma ho_get_prompt cfg : handler_only (get_prompt cfg).
Proof. unfold get_prompt. constructor. constructor; auto. intros; constructor. Qed.

Lemma ho_interactive_loop cfg o : forall evs acc, handler_only (interactive_loop cfg o evs acc).
Proof.
  induction evs as [|e rest IH]; intros acc; cbn [interactive_loop]; [constructor|].
  constructor.
  assert (K : forall acc', handler_only (Write (c_ret cfg) false
          (Until (CAnyPrompt (o_complete o ++ [match ev_response e with Some r => r | None => c_prompt cfg end]))
             (fun pb => match rest with
                        | [] => Ret (process_out cfg (acc' ++ pb) false)
                        | _ :: _ => if existsb (fun p => rx_match p pb) (o_complete o)
                                    then Ret (process_out cfg (acc' ++ pb) false)
                                    else interactive_loop cfg o rest (acc' ++ pb)
                        end) Fail))).
  { intros acc'. constructor. constructor; auto. intros pb.
    destruct rest; [constructor|]. destruct (existsb _ _); [constructor|apply IH]. }
  destruct (ev_response e); [|apply K]. destruct (ev_hidden e); [apply K|].
  apply ho_until_echo. intros rb. apply K.
Qed.

Lemma ho_send_interactive cfg evs o : handler_only (send_interactive cfg evs o).
Proof. apply ho_interactive_loop. Qed.

(* a failed interactive send: the trace ends at a read-until that was handed exactly the error
   reported, no other read-until of the trace was handed an error, and — the outcome being
   [inr e] — nothing of the dialogue read so far is returned *)
Theorem interactive_error_no_result : forall cfg evs o t e,
  ctrace cfg (send_interactive cfg evs o) t (inr e) ->
  exists t0 c, t = t0 ++ [OErr c e] /\ existsb is_err t0 = false.
Proof. intros cfg evs o t e H. eapply handler_only_failure; [apply ho_send_interactive|exact H]. Qed.

(* outcome and trace determine each other: success iff no read-until was handed an error, and
   then the result is the whole dialogue; failure iff the last observation is the error *)
Theorem interactive_outcome : forall cfg evs o t out,
  ctrace cfg (send_interactive cfg evs o) t out ->
  match out with
  | inl r => existsb is_err t = false /\ r = process_out cfg (concat (read_bufs t)) false
  | inr e => exists t0 c, t = t0 ++ [OErr c e] /\ existsb is_err t0 = false
  end.
Proof.
  intros cfg evs o t [r|e] H.
  - split; [eapply handler_only_success; [apply ho_send_interactive|exact H]|].
    eapply interactive_result_whole; exact H.
  - eapply interactive_error_no_result; exact H.
Qed.

(* the same for SendInput and GetPrompt *)
Theorem send_input_error_no_result : forall cfg cmd o t e,
  ctrace cfg (send_input cfg cmd o) t (inr e) ->
  exists t0 c, t = t0 ++ [OErr c e] /\ existsb is_err t0 = false.
Proof. intros cfg cmd o t e H. eapply handler_only_failure; [apply ho_send_input|exact H]. Qed.

Theorem get_prompt_error_no_result : forall cfg t e,
  ctrace cfg (get_prompt cfg) t (inr e) ->
  exists t0 c, t = t0 ++ [OErr c e] /\ existsb is_err t0 = false.
Proof. intros cfg t e H. eapply handler_only_failure; [apply ho_get_prompt|exact H]. Qed.

(* ====================================================================== *)
(* 3.  SendInput                                                           *)
(* ====================================================================== *)

(* the echo stage of a command: no read at all for an empty input *)
Definition echo_obs (o : op_opts) (cmd : bytes) (rb : bytes) : list obs :=
  match cmd with
  | [] => []
  | _ => [ORead (echo_cond o cmd) rb]
  end.

(* the shape of a successful SendInput and its result: the command (not redacted), its echo read,
   the return, and — unless eager — the prompt read, whose buffer alone makes the result *)
Theorem send_input_shape_result : forall cfg cmd o t r,
  ctrace cfg (send_input cfg cmd o) t (inl r) ->
  exists rb1,
    (echo_obs o cmd rb1 = [] \/ cond_holds cfg (echo_cond o cmd) rb1 = true) /\
    if o_eager o
    then t = OWrite cmd false :: echo_obs o cmd rb1 ++ [OWrite (c_ret cfg) false]
         /\ r = process_out cfg [] (o_strip o)
    else exists rb2,
         t = OWrite cmd false :: echo_obs o cmd rb1 ++ [OWrite (c_ret cfg) false; ORead (prompt_cond cfg o) rb2]
         /\ cond_holds cfg (prompt_cond cfg o) rb2 = true
         /\ r = process_out cfg rb2 (o_strip o).
Proof.
  intros cfg cmd o t r H. unfold send_input in H. pinv H. fold (prompt_cond cfg o) in H.
  assert (K : forall t2,
     ctrace cfg (Write (c_ret cfg) false
        (if o_eager o then Ret (process_out cfg [] (o_strip o))
         else Until (prompt_cond cfg o) (fun nb => Ret (process_out cfg nb (o_strip o))) Fail)) t2 (inl r) ->
     if o_eager o
     then t2 = [OWrite (c_ret cfg) false] /\ r = process_out cfg [] (o_strip o)
     else exists rb2, t2 = [OWrite (c_ret cfg) false; ORead (prompt_cond cfg o) rb2]
                      /\ cond_holds cfg (prompt_cond cfg o) rb2 = true
                      /\ r = process_out cfg rb2 (o_strip o)).
  { intros t2 H2. pinv H2. destruct (o_eager o).
    - pinv H2. inl_inv. auto.
    - pinv H2.
      + pinv H2. inl_inv. eauto.
      + pinv H2. discriminate. }
  assert (Kecho : forall t1,
     ctrace cfg (Until (echo_cond o cmd) (fun _ => Write (c_ret cfg) false
        (if o_eager o then Ret (process_out cfg [] (o_strip o))
         else Until (prompt_cond cfg o) (fun nb => Ret (process_out cfg nb (o_strip o))) Fail)) Fail) t1 (inl r) ->
     exists rb1 t2, t1 = ORead (echo_cond o cmd) rb1 :: t2 /\ cond_holds cfg (echo_cond o cmd) rb1 = true /\
       ctrace cfg (Write (c_ret cfg) false
        (if o_eager o then Ret (process_out cfg [] (o_strip o))
         else Until (prompt_cond cfg o) (fun nb => Ret (process_out cfg nb (o_strip o))) Fail)) t2 (inl r)).
  { intros t1 H1. pinv H1.
    - eauto.
    - pinv H1. discriminate. }
  unfold until_echo in H. unfold echo_obs.
  destruct cmd as [|x cmd].
  - apply K in H. exists []. split; [left; reflexivity|].
    destruct (o_eager o).
    + destruct H as [-> ->]. auto.
    + destruct H as [rb2 [-> [Hc2 ->]]]. exists rb2. auto.
  - assert (H' : ctrace cfg (Until (echo_cond o (x :: cmd)) (fun _ => Write (c_ret cfg) false
        (if o_eager o then Ret (process_out cfg [] (o_strip o))
         else Until (prompt_cond cfg o) (fun nb => Ret (process_out cfg nb (o_strip o))) Fail)) Fail) t0 (inl r))
      by exact H.
    clear H. apply Kecho in H'. destruct H' as [rb1 [t2 [-> [Hc H]]]]. apply K in H.
    exists rb1. split; [right; exact Hc|].
    destruct (o_eager o).
    + destruct H as [-> ->]. auto.
    + destruct H as [rb2 [-> [Hc2 ->]]]. exists rb2. auto.
Qed.

(* the writes are the command (not redacted) and the return, in this order — eager or not; the
   result is processOut of the buffer of the LAST read-until (the prompt read) alone — the echo
   read's buffer is discarded —, and of the empty buffer for an eager send (which reads no prompt) *)
Theorem send_input_result : forall cfg cmd o t r,
  ctrace cfg (send_input cfg cmd o) t (inl r) ->
  writes_of t = [(cmd, false); (c_ret cfg, false)] /\
  r = process_out cfg (if o_eager o then [] else last (read_bufs t) []) (o_strip o).
Proof.
  intros cfg cmd o t r H. apply send_input_shape_result in H. destruct H as [rb1 [_ H]].
  assert (Ew : forall tl, writes_of tl = [(c_ret cfg, false)] ->
            writes_of (OWrite cmd false :: echo_obs o cmd rb1 ++ tl) = [(cmd, false); (c_ret cfg, false)]).
  { intros tl Etl. change (writes_of (OWrite cmd false :: echo_obs o cmd rb1 ++ tl))
      with ((cmd, false) :: writes_of (echo_obs o cmd rb1 ++ tl)).
    rewrite writes_of_app, Etl. unfold echo_obs. destruct cmd; destruct (o_exact o); reflexivity. }
  destruct (o_eager o).
  - destruct H as [-> ->]. split; [apply Ew; reflexivity|reflexivity].
  - destruct H as [rb2 [-> [_ ->]]]. split; [apply Ew; reflexivity|].
    rewrite read_bufs_write, read_bufs_app.
    change (read_bufs [OWrite (c_ret cfg) false; ORead (prompt_cond cfg o) rb2]) with [rb2].
    rewrite last_last. reflexivity.
Qed.

(* ====================================================================== *)
(* 4.  GetPrompt                                                           *)
(* ====================================================================== *)

(* one write — the return —, one read until the prompt; the result is the leftmost match of the
   prompt pattern in the buffer read (empty when it has none: the condition tests a window of the
   buffer cut at a line feed, Find the whole buffer) *)
Theorem get_prompt_result : forall cfg t r,
  ctrace cfg (get_prompt cfg) t (inl r) ->
  exists rb, t = [OWrite (c_ret cfg) false; ORead CPrompt rb]
             /\ cond_holds cfg CPrompt rb = true
             /\ writes_of t = [(c_ret cfg, false)]
             /\ read_bufs t = [rb]
             /\ r = match rx_find (c_prompt cfg) rb with Some p => p | None => [] end.
Proof.
  intros cfg t r H. unfold get_prompt in H. pinv H. pinv H.
  - pinv H. inl_inv. exists rb. repeat split; auto.
  - pinv H. discriminate.
Qed.

(* ====================================================================== *)
(* 5.  A concrete dialogue                                                 *)
(* ====================================================================== *)

Definition ex_cfg : chan_cfg := mkCfg 1000 rx_prompt_pattern [10] 0%Z.
Definition ex_enable : bytes := [101;110;97;98;108;101].                           (* enable *)
Definition ex_secret : bytes := [115;51;99;114;101;116].                           (* s3cret *)
Definition ex_pw_prompt : re := re_lit [80;97;115;115;119;111;114;100;58].         (* Password: *)
Definition ex_events : list ievent :=
  [mkEv ex_enable (Some ex_pw_prompt) false;      (* visible input, expected response given: echo read *)
   mkEv ex_secret None true].                     (* hidden input, no response given: no echo read, wait for the prompt *)
Definition ex_rb_echo : bytes := [101;110;97;98;108;101].                          (* enable *)
Definition ex_rb_pw : bytes := [10;80;97;115;115;119;111;114;100;58;32].           (* \nPassword:_ *)
Definition ex_rb_prompt : bytes := [10;114;111;117;116;101;114;35].                (* \nrouter# *)
Definition ex_trace : list obs :=
  [OWrite ex_enable false; ORead (CFuzzy ex_enable) ex_rb_echo;
   OWrite [10] false; ORead (CAnyPrompt [ex_pw_prompt]) ex_rb_pw;
   OWrite ex_secret true;
   OWrite [10] false; ORead (CAnyPrompt [rx_prompt_pattern]) ex_rb_prompt].
(* enable\nPassword:\nrouter# : the echo, the password prompt (its trailing blank trimmed by
   processOut) and the final prompt — the hidden input itself was never read back *)
Definition ex_result : bytes :=
  [101;110;97;98;108;101; 10; 80;97;115;115;119;111;114;100;58; 10; 114;111;117;116;101;114;35].

(* it is a complete successful path of the two-event interactive send *)
Example ex_is_ctrace :
  ctrace ex_cfg (send_interactive ex_cfg ex_events default_opts) ex_trace
         (inl (process_out ex_cfg (((([] ++ ex_rb_echo) ++ ex_rb_pw) ++ []) ++ ex_rb_prompt) false)).
Proof.
  unfold send_interactive, ex_events, ex_trace.
  cbn [interactive_loop ev_input ev_response ev_hidden until_echo ex_enable default_opts o_exact
       default_exact o_complete app c_ret ex_cfg echo_cond].
  apply ct_write.
  apply ct_read; [vm_compute; reflexivity|].
  apply ct_write.
  apply ct_read; [vm_compute; reflexivity|].
  cbn [existsb].
  apply ct_write.
  apply ct_write.
  apply ct_read; [vm_compute; reflexivity|].
  apply ct_ret.
Qed.

(* [interactive_result_whole] applies to it and yields the whole dialogue *)
Example ex_result_whole : forall r,
  ctrace ex_cfg (send_interactive ex_cfg ex_events default_opts) ex_trace (inl r) -> r = ex_result.
Proof.
  intros r H. apply interactive_result_whole in H. rewrite H. vm_compute. reflexivity.
Qed.

Example ex_result_is_returned :
  ctrace ex_cfg (send_interactive ex_cfg ex_events default_opts) ex_trace (inl ex_result).
Proof.
  replace ex_result
    with (process_out ex_cfg (((([] ++ ex_rb_echo) ++ ex_rb_pw) ++ []) ++ ex_rb_prompt) false)
    by (vm_compute; reflexivity).
  exact ex_is_ctrace.
Qed.

(* the reads of the example, echo read included *)
Example ex_read_bufs : read_bufs ex_trace = [ex_rb_echo; ex_rb_pw; ex_rb_prompt].
Proof. reflexivity. Qed.

(* the secret is written redacted and is no part of the result *)
Example ex_secret_redacted : writes_of ex_trace
  = [(ex_enable, false); ([10], false); (ex_secret, true); ([10], false)].
Proof. reflexivity. Qed.

Print Assumptions interactive_result_whole.
Print Assumptions interactive_result_reads_of.
Print Assumptions interactive_error_no_result.
Print Assumptions interactive_outcome.
Print Assumptions send_input_error_no_result.
Print Assumptions get_prompt_error_no_result.
Print Assumptions send_input_shape_result.
Print Assumptions send_input_result.
Print Assumptions get_prompt_result.
Print Assumptions ex_is_ctrace.
Print Assumptions ex_result_whole.
Print Assumptions ex_result_is_returned.
