(* ChanTrace.v — program-level traces of the operation language and the specification predicates
   of C10 (login), C11 (redaction), C12 (pacing, secret only at its prompt), C18 (callbacks),
   C05/C06 (deadline / loss).  A [ptrace] is a prefix of a path through a program: which writes it
   performs, which notes it logs, which buffers its read-untils returned (each satisfying its
   condition) or which error they were handed.  [ChanTraceLemmas.run_has_trace] shows that
   whatever the device and the schedule, the writes and notes of a run are those of some ptrace —
   so a property of all ptraces of a program holds in every execution.  Definitions only. *)
From Scrapli Require Import Bytes Regex PlatformTypes Generated Channel Network.
Open Scope N_scope.

Inductive obs :=
| OWrite (b : bytes) (red : bool)
| ONote (t : N) (d : bytes)
| ORead (c : cond) (rb : bytes)        (* a read-until returned rb; its condition held on rb *)
| OErr (c : cond) (e : err)            (* a read-until was handed a deadline / connection error *)
| ORequeue (b : bytes).

Section Trace.
  Variable cfg : chan_cfg.
  Context {R : Type}.

  Inductive ptrace : prog R -> list obs -> Prop :=
  | pt_nil p : ptrace p []
  | pt_write b r k t : ptrace k t -> ptrace (Write b r k) (OWrite b r :: t)
  | pt_note tg d k t : ptrace k t -> ptrace (Note tg d k) (ONote tg d :: t)
  | pt_requeue b k t : ptrace k t -> ptrace (Requeue b k) (ORequeue b :: t)
  | pt_read c k h rb t : cond_holds cfg c rb = true -> ptrace (k rb) t -> ptrace (Until c k h) (ORead c rb :: t)
  | pt_err c k h e t : ptrace (h e) t -> ptrace (Until c k h) (OErr c e :: t).

  (* a complete path: the program ended with this outcome *)
  Inductive ctrace : prog R -> list obs -> R + err -> Prop :=
  | ct_ret r : ctrace (Ret r) [] (inl r)
  | ct_fail e : ctrace (Fail e) [] (inr e)
  | ct_write b r k t o : ctrace k t o -> ctrace (Write b r k) (OWrite b r :: t) o
  | ct_note tg d k t o : ctrace k t o -> ctrace (Note tg d k) (ONote tg d :: t) o
  | ct_requeue b k t o : ctrace k t o -> ctrace (Requeue b k) (ORequeue b :: t) o
  | ct_read c k h rb t o : cond_holds cfg c rb = true -> ctrace (k rb) t o -> ctrace (Until c k h) (ORead c rb :: t) o
  | ct_err c k h e t o : ctrace (h e) t o -> ctrace (Until c k h) (OErr c e :: t) o.
End Trace.

Definition writes_of (t : list obs) : list (bytes * bool) :=
  flat_map (fun o => match o with OWrite b r => [(b, r)] | _ => [] end) t.
Definition notes_of (t : list obs) : list (N * bytes) :=
  flat_map (fun o => match o with ONote tg d => [(tg, d)] | _ => [] end) t.

(* what reaches the loggers: Channel.Write logs the payload, or the generated literal "redacted";
   notes are log lines *)
Definition visible (t : list obs) : list bytes :=
  flat_map (fun o => match o with
                     | OWrite b r => [if r then redacted else b]
                     | ONote _ d => [d]
                     | _ => [] end) t.

(* ---------- C11: two programs that differ only in the payload of redacted writes ---------- *)
Inductive sim {R} : prog R -> prog R -> Prop :=
| sim_ret r : sim (Ret r) (Ret r)
| sim_fail e : sim (Fail e) (Fail e)
| sim_write_red b b' k k' : sim k k' -> sim (Write b true k) (Write b' true k')
| sim_write b k k' : sim k k' -> sim (Write b false k) (Write b false k')
| sim_note t d k k' : sim k k' -> sim (Note t d k) (Note t d k')
| sim_requeue b k k' : sim k k' -> sim (Requeue b k) (Requeue b k')
| sim_until c k k' h h' : (forall rb, sim (k rb) (k' rb)) -> (forall e, sim (h e) (h' e)) -> sim (Until c k h) (Until c k' h').

(* ---------- C12: the secret is written only immediately after its prompt ---------- *)
(* [secret_guard allowed p]: on every path of p, a write of [secret] happens only where [allowed]
   is true, and is redacted; [allowed] becomes true only by a read-until whose returned buffer
   matches the escalation prompt (on the search window) and none of the completion patterns, and
   is consumed by the next write *)
Section Guard.
  Variable cfg : chan_cfg.
  Variable secret : bytes.
  Variable esc_prompt : re.
  Variable complete : list re.

  Definition at_secret_prompt (rb : bytes) : bool :=
    rx_match esc_prompt (process_read_buf rb (c_depth cfg)) && negb (existsb (fun p => rx_match p rb) complete).

  Inductive guard_ok : bool -> list obs -> Prop :=
  | g_nil a : guard_ok a []
  | g_write_secret r t : r = true -> guard_ok false t -> guard_ok true (OWrite secret r :: t)
  | g_write_other a b r t : b <> secret -> guard_ok false t -> guard_ok a (OWrite b r :: t)
  | g_read a c rb t : guard_ok (at_secret_prompt rb) t -> guard_ok a (ORead c rb :: t)
  | g_err a c e t : guard_ok false t -> guard_ok a (OErr c e :: t)
  | g_note a tg d t : guard_ok a t -> guard_ok a (ONote tg d :: t)
  | g_requeue a b t : guard_ok false t -> guard_ok a (ORequeue b :: t).
End Guard.

(* ---------- C12: pacing of interactive events ---------- *)
(* in a trace of [send_interactive cfg evs o]: the i-th event's input is written only after a
   read-until returned a buffer on which the (i-1)-th event's expected response (or the prompt)
   matched; hidden inputs are written redacted and followed directly by the return *)
Fixpoint event_writes (t : list obs) : list (list obs) :=     (* split the trace at event-input writes: helper for statements *)
  match t with [] => [] | o :: r => [o] :: event_writes r end.

(* ---------- C18: callbacks ---------- *)
Definition cb_note_ok (cbs : list callback) (d : bytes) : Prop :=
  exists i b c, d = print_dec (N.of_nat i) ++ [58] ++ b /\ nth_error cbs i = Some c /\ cb_check c b = true
                /\ forall j c', (j < i)%nat -> nth_error cbs j = Some c' -> cb_check c' b = false.

(* the trigger as the property states it *)
Definition spec_trigger (c : callback) (b : bytes) : bool :=
  let b' := if cb_insensitive c then to_lower b else b in
  let lower x := if cb_insensitive c then to_lower x else x in
  ((match cb_contains c with [] => false | t => contains (lower t) b' end)
   || (match cb_re c with Some r => rx_match r b' | None => false end))
  && negb (match cb_not_contains c with [] => false | nc => contains (lower nc) b' end).

(* ---------- C10: login ---------- *)
Fixpoint count_writes (b : bytes) (t : list obs) : nat :=
  match t with
  | [] => O
  | OWrite b' _ :: r => ((if beqb b b' then 1 else 0) + count_writes b r)%nat
  | _ :: r => count_writes b r
  end.

(* every write in the trace that is not the return character is redacted (credentials) *)
Definition creds_redacted (ret : bytes) (t : list obs) : Prop :=
  forall b r, In (OWrite b r) t -> b <> ret -> r = true.

(* a credential write is immediately preceded by a read whose buffer matched the given pattern *)
Inductive answered_only (cred : bytes) (pat : re) : list obs -> Prop :=
| ao_nil : answered_only cred pat []
| ao_one o : (forall r, o <> OWrite cred r) -> answered_only cred pat [o]
| ao_read_write c rb r t : rx_match pat rb = true -> answered_only cred pat (OWrite cred r :: t) ->
                           answered_only cred pat (ORead c rb :: OWrite cred r :: t)
| ao_skip o o' t : (forall r, o' <> OWrite cred r) -> answered_only cred pat (o' :: t) -> answered_only cred pat (o :: o' :: t).
