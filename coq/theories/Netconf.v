(* Netconf.v — NETCONF framing, decoding, request templates, version negotiation and the message
   store, mirroring response/netconf.go and driver/netconf/*.go.  Definitions only. *)
From Scrapli Require Import Bytes Regex PlatformTypes Generated.
Open Scope N_scope.

Inductive ncver := V10 | V11.

(* ================================================================================================
   Decoding (C02): response/netconf.go *)

Inductive dec_result :=
| DOk (r : bytes)
| DFail (code : nat)     (* parse error -> response marked failed; codes name the Go return site *)
| DPanic.                (* a Go run-time panic (index / slice out of range) *)

Definition E_NO_MARKER_START := 1%nat.
Definition E_MARKER_MISSING := 2%nat.
Definition E_TRUNCATED_AFTER_MARKER := 3%nat.
Definition E_CHUNK_SIZE := 4%nat.
Definition E_ATOI := 5%nat.
Definition E_SIZE_RANGE := 6%nat.
Definition E_NO_TERMINATOR := 7%nat.

(* record1dot0: TrimPrefix header, TrimSpace, TrimSuffix delim, TrimSpace *)
Definition record10 (raw : bytes) : bytes :=
  go_trim_space (trim_suffix nc_v1dot0_delim (go_trim_space (trim_prefix nc_xml_header raw))).

Definition finish11 (joined : bytes) : bytes := go_trim_space (trim_prefix nc_xml_header joined).

(* --- functional specification of record1dot1Chunks: consumes the trimmed input structurally --- *)

(* position (< = limit) of the first LF among the first [limit+1] bytes *)
Fixpoint find_lf (limit : nat) (s : bytes) : option nat :=
  match s with
  | [] => None
  | b :: t => if b =? 10 then Some 0%nat
              else match limit with
                   | O => None
                   | S l => match find_lf l t with Some i => Some (S i) | None => None end
                   end
  end.

(* length l < n, without computing the length (sizes may be astronomically large) *)
Fixpoint shorter_than (l : bytes) (n : N) : bool :=
  match l with
  | [] => 0 <? n
  | _ :: t => if n =? 0 then false else shorter_than t (N.pred n)
  end.

Fixpoint chunks_spec (fuel : nat) (rest : bytes) (joined : bytes) : dec_result :=
  match fuel with
  | O => DFail E_NO_TERMINATOR
  | S f =>
      match rest with
      | [] => DFail E_NO_TERMINATOR
      | c :: t =>
          if c =? 10 then chunks_spec f t joined
          else if negb (c =? 35) then DFail E_MARKER_MISSING
          else match t with
               | [] => DFail E_TRUNCATED_AFTER_MARKER
               | c2 :: _ =>
                   if c2 =? 35 then DOk (finish11 joined)
                   else match find_lf nc_max_chunk_size_char_len t with
                        | None => DFail E_CHUNK_SIZE
                        | Some i =>
                            let size_str := firstn i t in
                            let rest' := skipn (S i) t in
                            match size_str with
                            | [] => DFail E_CHUNK_SIZE
                            | _ =>
                                match go_atoi size_str with
                                | None => DFail E_ATOI
                                | Some z =>
                                    if (z <? 0)%Z || shorter_than rest' (Z.to_N z) then DFail E_SIZE_RANGE
                                    else chunks_spec f (skipn (Z.to_nat z) rest') (joined ++ firstn (Z.to_nat z) rest')
                                end
                            end
                        end
               end
      end
  end.

Definition record11_spec (raw : bytes) : dec_result :=
  let d := go_trim_space raw in
  match d with
  | [] => DFail E_NO_MARKER_START
  | c :: _ => if c =? 35 then chunks_spec (S (length d)) d [] else DFail E_NO_MARKER_START
  end.

(* --- cursor-level transcription of the Go loop: every d[i] / d[i:j] is a checked access that
       yields DPanic where Go would panic --- *)

Definition idx (d : bytes) (i : nat) : option N := nth_error d i.

(* the inner `for chunkSizeLen := 0; chunkSizeLen <= max && cursor+chunkSizeLen < len(d)` loop;
   returns (found?, chunkSizeLen) *)
Fixpoint scan_size (d : bytes) (cursor : nat) (n : nat) (k : nat) : option nat :=
  (* n = iterations left, k = current chunkSizeLen *)
  match n with
  | O => None
  | S n' =>
      if Nat.leb (length d) (cursor + k) then None
      else match idx d (cursor + k) with
           | Some b => if b =? 10 then Some k else scan_size d cursor n' (S k)
           | None => None    (* excluded by the guard above *)
           end
  end.

Inductive loop_out := LBreak (joined : bytes) | LExit (joined : bytes) | LErr (code : nat) | LPanic.

Fixpoint chunks_go (fuel : nat) (d : bytes) (cursor : nat) (joined : bytes) : loop_out :=
  match fuel with
  | O => LExit joined
  | S f =>
      if negb (Nat.ltb cursor (length d)) then LExit joined
      else match idx d cursor with
           | None => LPanic
           | Some c =>
               if c =? 10 then chunks_go f d (S cursor) joined
               else if negb (c =? 35) then LErr E_MARKER_MISSING
               else
                 let cursor := S cursor in
                 if Nat.leb (length d) cursor then LErr E_TRUNCATED_AFTER_MARKER
                 else match idx d cursor with
                      | None => LPanic
                      | Some c2 =>
                          if c2 =? 35 then LBreak joined
                          else match scan_size d cursor (S nc_max_chunk_size_char_len) 0 with
                               | None => LErr E_CHUNK_SIZE
                               | Some k =>
                                   let size_str := firstn k (skipn cursor d) in
                                   let cursor := (cursor + k + 1)%nat in
                                   match size_str with
                                   | [] => LErr E_CHUNK_SIZE
                                   | _ =>
                                       match go_atoi size_str with
                                       | None => LErr E_ATOI
                                       | Some z =>
                                           if (z <? 0)%Z || (Z.of_nat (length d - cursor) <? z)%Z then LErr E_SIZE_RANGE
                                           else
                                             let n := Z.to_nat z in
                                             (* d[cursor:cursor+n]: panics unless cursor <= cursor+n <= len(d) *)
                                             if Nat.ltb (length d) (cursor + n) then LPanic
                                             else chunks_go f d (cursor + n) (joined ++ firstn n (skipn cursor d))
                                       end
                                   end
                               end
                      end
           end
  end.

Definition record11_go (raw : bytes) : dec_result :=
  let d := go_trim_space raw in
  match d with
  | [] => DFail E_NO_MARKER_START
  | c :: _ =>
      if negb (c =? 35) then DFail E_NO_MARKER_START
      else match chunks_go (S (length d)) d 0 [] with
           | LBreak j => DOk (finish11 j)
           | LExit _ => DFail E_NO_TERMINATOR
           | LErr e => DFail e
           | LPanic => DPanic
           end
  end.

(* util.ByteContainsAny over the generated marker list *)
Definition carries_marker (b : bytes) : bool := existsb (fun mk => contains mk b) nc_failed_markers.

(* NetconfResponse.Record: (result, failed-because-rpc-error, failed-because-parse-error) *)
Inductive rec_out := RecOut (result : bytes) (rpc_error : bool) (parse_error : bool) | RecPanic.

Definition record_with (dec : bytes -> dec_result) (v : ncver) (raw : bytes) : rec_out :=
  match v with
  | V10 => RecOut (record10 raw) (carries_marker raw) false
  | V11 =>
      match dec raw with
      | DOk r => RecOut r (carries_marker raw || carries_marker r) false
      | DFail _ => RecOut [] false true
      | DPanic => RecPanic
      end
  end.
Definition record := record_with record11_go.
(* same function through the functional decoder (equal by NetconfLemmas.record11_go_refines) *)
Definition record_fast := record_with record11_spec.

(* --- the independent side: RFC 6242 encoder used to state the round-trip --- *)
Definition encode_chunk (c : bytes) : bytes := [10; 35] ++ print_dec (N.of_nat (length c)) ++ [10] ++ c.
Definition end_of_chunks : bytes := [10; 35; 35; 10].
Definition encode11 (chunks : list bytes) : bytes := concat (map encode_chunk chunks) ++ end_of_chunks.
Definition max_chunk : N := 4294967295.
Definition chunk_ok (c : bytes) : Prop := c <> [] /\ (N.of_nat (length c) <= max_chunk).

(* ================================================================================================
   Requests (C03): driver/netconf/message.go, rpc.go, elements.go and the per-operation files *)

Definition LT : N := 60. Definition GT : N := 62. Definition QUOT : N := 34. Definition SLASH : N := 47.

(* encoding/xml escapeText with escapeNewline = true (attribute values and character data) *)
Definition xml_escape_byte (b : N) : bytes :=
  if b =? 34 then bs "&#34;" else if b =? 39 then bs "&#39;" else if b =? 38 then bs "&amp;"
  else if b =? 60 then bs "&lt;" else if b =? 62 then bs "&gt;" else if b =? 9 then bs "&#x9;"
  else if b =? 10 then bs "&#xA;" else if b =? 13 then bs "&#xD;" else [b].
Definition xml_escape (s : bytes) : bytes := flat_map xml_escape_byte s.

Definition elem (name attrs inner : bytes) : bytes :=
  [LT] ++ name ++ attrs ++ [GT] ++ inner ++ [LT; SLASH] ++ name ++ [GT].
Definition attr (name v : bytes) : bytes := [SP] ++ name ++ [61; QUOT] ++ xml_escape v ++ [QUOT].

Definition rpc_xml (id : N) (payload : bytes) : bytes :=
  elem (bs "rpc") (attr (bs "xmlns") ncd_base_namespace ++ attr (bs "message-id") (print_dec id)) payload.

Definition datastore (wrapper ds : bytes) : bytes := elem wrapper [] (elem ds [] []).

Inductive build_result := BOk (payload : bytes) | BErr.      (* BErr: util.ErrNetconfError before sending *)

Definition filter_elem (filter ftype : bytes) : build_result :=
  match filter, ftype with
  | [], _ => BOk []
  | _, [] => BOk []
  | _, _ =>
      if beqb ftype ncd_filter_subtree then BOk (elem (bs "filter") (attr (bs "type") ftype) filter)
      else if beqb ftype ncd_filter_xpath then
             BOk (elem (bs "filter") (attr (bs "type") ftype ++ attr (bs "select") filter) [])
      else BErr
  end.

Definition defaults_elem (dt : bytes) : build_result :=
  match dt with
  | [] => BOk []
  | _ => if existsb (beqb dt) ncd_defaults_types
         then BOk (elem (bs "with-defaults") (attr (bs "xmlns") ncd_default_namespace) dt)
         else BErr
  end.

Inductive nc_op :=
| OGet (filter ftype : bytes)
| OGetConfig (source filter ftype defaults : bytes)
| OEditConfig (target config : bytes)
| OCopyConfig (source target : bytes)
| ODeleteConfig (target : bytes)
| OLock (target : bytes)
| OUnlock (target : bytes)
| OValidate (source : bytes)
| OCommit (confirmed : bool) (timeout : N) (persist persist_id : bytes)
| ODiscard
| ORaw (payload : bytes).

Definition opt_text_elem (name v : bytes) : bytes :=
  match v with [] => [] | _ => elem name [] (xml_escape v) end.

Definition op_payload (o : nc_op) : build_result :=
  match o with
  | OGet f ft =>
      match filter_elem f ft with BOk fe => BOk (elem (bs "get") [] fe) | BErr => BErr end
  | OGetConfig s f ft dt =>
      match filter_elem f ft with
      | BErr => BErr
      | BOk fe => match defaults_elem dt with
                  | BErr => BErr
                  | BOk de => BOk (elem (bs "get-config") [] (datastore (bs "source") s ++ fe ++ de))
                  end
      end
  | OEditConfig t c => BOk (elem (bs "edit-config") [] (datastore (bs "target") t ++ c))
  | OCopyConfig s t => BOk (elem (bs "copy-config") [] (datastore (bs "target") t ++ datastore (bs "source") s))
  | ODeleteConfig t => BOk (elem (bs "delete-config") [] (datastore (bs "target") t))
  | OLock t => BOk (elem (bs "lock") [] (datastore (bs "target") t))
  | OUnlock t => BOk (elem (bs "unlock") [] (datastore (bs "target") t))
  | OValidate s => BOk (elem (bs "validate") [] (datastore (bs "source") s))
  | OCommit c tmo p pid =>
      BOk (elem (bs "commit") []
                ((if c then elem (bs "confirmed") [] [] else [])
                   ++ (if 0 <? tmo then elem (bs "confirm-timeout") [] (print_dec tmo) else [])
                   ++ opt_text_elem (bs "persist") p ++ opt_text_elem (bs "persist-id") pid))
  | ODiscard => BOk (elem (bs "discard-changes") [] [])
  | ORaw p => BOk p
  end.

(* does this operation consume a message id even when it fails to build?  buildPayload is called
   after the element builders succeeded, so a build error consumes none. *)

(* ForceSelfClosingTags: matches of the generated emptyTags pattern on the ORIGINAL bytes; for each
   whose opening and closing names are equal, bytes.ReplaceAll of the full match text *)
Fixpoint replace_all_lit_fuel (fuel : nat) (old new s : bytes) : bytes :=
  match fuel with
  | O => s
  | S f =>
      match s with
      | [] => []
      | b :: t => if is_prefix old s then new ++ replace_all_lit_fuel f old new (skipn (length old) s)
                  else b :: replace_all_lit_fuel f old new t
      end
  end.
Definition replace_all_lit (old new s : bytes) : bytes :=
  match old with [] => s | _ => replace_all_lit_fuel (S (length s)) old new s end.

Definition cap_bytes (c : caps) (i : nat) (s : bytes) : bytes :=
  match cap_lookup i c with Some (st, e) => slice st e s | None => [] end.

Definition force_self_closing (b : bytes) : bytes :=
  fold_left
    (fun acc m =>
       let '(st, e, c) := m in
       let full := slice st e b in
       let open_tag := cap_bytes c 1 b in
       let contents := cap_bytes c 2 b in
       let close_tag := cap_bytes c 3 b in
       (* same names, and the opening tag is not itself a self-closed tag whose slash ended up in
          the attribute group (`<a k="v"/></a>` inside an enclosing <a>: repaired in a25e5cc) *)
       if beqb open_tag close_tag && negb (is_suffix [SLASH] contents)
       then replace_all_lit full ([LT] ++ open_tag ++ contents ++ [SLASH; GT]) acc
       else acc)
    (rx_find_all rx_ncd_emptyTags b) b.

Definition frame (v : ncver) (msg : bytes) : bytes :=
  match v with
  | V10 => msg ++ nc_v1dot0_delim
  | V11 => [HASH] ++ print_dec (N.of_nat (length msg)) ++ [LF] ++ msg ++ [LF; HASH; HASH]
  end.

Record serialized := mkSer { ser_raw : bytes; ser_framed : bytes }.

Definition serialize (v : ncver) (force exclude_header : bool) (id : N) (payload : bytes) : serialized :=
  let msg := rpc_xml id payload in
  let msg := if exclude_header then msg else ncd_xml_header ++ msg in
  let msg := if force then force_self_closing msg else msg in
  mkSer msg (frame v msg).

(* what sendRPC hands to Channel.Write, in order: framed, return, (1.1: second return) *)
Definition rpc_writes (v : ncver) (framed : bytes) : list bytes :=
  match v with
  | V10 => [framed; default_return_char]
  | V11 => [framed; default_return_char; default_return_char]
  end.

(* a session of requests: ids start at the generated initial id and only successful builds
   consume one *)
Fixpoint session_writes (v : ncver) (force xh : bool) (id : N) (ops : list nc_op) : list bytes :=
  match ops with
  | [] => []
  | o :: rest =>
      match op_payload o with
      | BErr => session_writes v force xh id rest
      | BOk p => rpc_writes v (ser_framed (serialize v force xh id p)) ++ session_writes v force xh (id + 1) rest
      end
  end.

(* strict decoders used to state C03 (independent of the encoder above) *)
(* 1.0: split at the first end-of-message marker *)
Fixpoint split_at_delim_fuel (fuel : nat) (delim s acc : bytes) : option (bytes * bytes) :=
  match fuel with
  | O => None
  | S f =>
      if is_prefix delim s then Some (rev acc, skipn (length delim) s)
      else match s with
           | [] => None
           | b :: t => split_at_delim_fuel f delim t (b :: acc)
           end
  end.
Definition split_eom (s : bytes) : option (bytes * bytes) :=
  split_at_delim_fuel (S (length s)) nc_v1dot0_delim s [].

(* 1.1 strict RFC 6242 chunk stream: LF '#' size LF data ... LF '#' '#' LF ; size = [1-9][0-9]{0,9} *)
Fixpoint take_digits (n : nat) (s : bytes) : bytes * bytes :=
  match n, s with
  | S n', b :: t => if is_digit b then let '(d, r) := take_digits n' t in (b :: d, r) else ([], s)
  | _, _ => ([], s)
  end.

Fixpoint strict_chunks (fuel : nat) (s : bytes) (acc : bytes) : option (bytes * bytes) :=
  (* s begins at LF '#' ... ; returns (message, rest after the end-of-chunks LF) *)
  match fuel with
  | O => None
  | S f =>
      match s with
      | 10 :: 35 :: 35 :: 10 :: rest => match acc with [] => None | _ => Some (acc, rest) end
      | 10 :: 35 :: t =>
          let '(ds, r) := take_digits 10 t in
          match ds with
          | [] => None
          | d0 :: _ =>
              if d0 =? 48 then None
              else match r with
                   | 10 :: data =>
                       match parse_dec ds with
                       | Some n =>
                           if (max_chunk <? n) || (N.of_nat (length data) <? n) then None
                           else strict_chunks f (skipn (N.to_nat n) data) (acc ++ firstn (N.to_nat n) data)
                       | None => None
                       end
                   | _ => None
                   end
          end
      | _ => None
      end
  end.
Definition strict_decode11 (s : bytes) : option (bytes * bytes) := strict_chunks (S (length s)) s [].

(* ================================================================================================
   Version negotiation (C09): driver/netconf/capabilities.go *)

Inductive pref := PrefNone | Pref10 | Pref11 | PrefOther.

Definition has_cap (c : bytes) (caps : list bytes) : bool := existsb (beqb c) caps.

Definition determine_version (caps : list bytes) (p : pref) : option ncver :=
  let has11 := has_cap ncd_v1dot1_cap caps in
  let has10 := has_cap ncd_v1dot0_cap caps in
  match (if has11 then Some V11 else if has10 then Some V10 else None) with
  | None => None
  | Some sel =>
      match p with
      | Pref10 => if has10 then Some V10 else None
      | Pref11 => if has11 then Some V11 else None
      | _ => Some sel
      end
  end.

Definition client_hello (v : ncver) : bytes := match v with V10 => ncd_v1dot0_caps | V11 => ncd_v1dot1_caps end.

(* processServerCapabilities on the bytes read up to the 1.0 delimiter *)
Inductive hello_result :=
| HelloOk (caps : list bytes) (session_id : option Z)
| HelloNoHello
| HelloBadSessionID.

Definition parse_hello (b : bytes) : hello_result :=
  if negb (rx_match rx_ncd_hello b) then HelloNoHello
  else
    let caps := map (fun m => cap_bytes (snd m) 1 b) (rx_find_all rx_ncd_capability b) in
    match rx_find_group rx_ncd_sessionID 1 b with
    | None => HelloOk caps None
    | Some ds => match go_atoi ds with
                 | Some z => HelloOk caps (Some z)
                 | None => HelloBadSessionID
                 end
    end.
