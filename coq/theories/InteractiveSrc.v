(* InteractiveSrc.v — channel/sendinteractive.go Channel.sendInteractive as the source has it on this
   run (translated statement by statement: a range loop over the events, with a nested range loop
   over the completion patterns and two `break`s) invokes, when every primitive succeeds, exactly
   the primitives [InteractiveSrcDefs.iacts] lists — for every event list, every number of
   completion patterns and every pattern of matches (C12).  InteractiveSrcModel.v shows the model's
   interactive_loop invokes the same. *)
From Scrapli Require Import Bytes Regex PlatformTypes Generated Channel DecideLang GeneratedSkel DecideLemmas InteractiveSrcDefs.
From Coq Require Import String List Bool Arith Lia.
Import ListNotations.
Open Scope nat_scope.
Open Scope string_scope.

(* an event as the source's tests see it: (has an expected response, hidden, which completion
   patterns match what its prompt read returned) *)
Definition sev := (bool * bool * list bool)%type.
Definition sev_flags (e : sev) : bool * bool * bool := let '(r, h, row) := e in (r, h, existsb (fun x => x) row).

Definition idx_of (st : store) (v : string) : option nat := option_map String.length (sget st v).

Definition si_env (npats : nat) (evs : list sev) : denv :=
  mkEnvX (fun _ => false) (fun _ _ => false) (fun _ => "") (fun _ => None)
         (fun st a b =>
            if String.eqb a "err" && String.eqb b "nil" then Some (Some true)
            else if String.eqb a "e.ChannelResponse" && String.eqb b """""" then
              match idx_of st "e" with
              | Some i => match nth_error evs i with Some (r, _, _) => Some (Some (negb r)) | None => Some None end
              | None => Some None
              end
            else None)
         (fun x => if String.eqb x "events" then List.length evs
                   else if String.eqb x "op.CompletePatterns" then npats else O)
         (fun st a =>
            if String.eqb a "e.HideInput" then
              match idx_of st "e" with
              | Some i => match nth_error evs i with Some (_, h, _) => Some (Some h) | None => Some None end
              | None => Some None
              end
            else if String.eqb a "i < len(events)-1" then
              match sget st "i", idx_of st "e" with
              | Some "index of e", Some i => Some (Some (Nat.ltb (S i) (List.length evs)))
              | _, _ => Some None
              end
            else if String.eqb a "len(op.CompletePatterns) > 0" then Some (Some (Nat.ltb 0 npats))
            else if String.eqb a "p.Match(pb)" then
              match idx_of st "e", idx_of st "p" with
              | Some i, Some j => match nth_error evs i with
                                  | Some (_, _, row) => match nth_error row j with Some m => Some (Some m) | None => Some None end
                                  | None => Some None
                                  end
              | _, _ => Some None
              end
            else if String.eqb a "done" then
              match sget st "done" with
              | Some "true" => Some (Some true)
              | Some "false" => Some (Some false)
              | _ => Some None
              end
            else None).

(* ---------- reading the primitives off a run ---------- *)

(* state of the reader: acts so far (oldest first), current event, what `prompts` holds
   (0 = the completion patterns, 1 = + the event's response, 2 = + the channel's prompt, 3 = unknown),
   and a read whose result has not been appended to b yet (0 none, 1 echo read, 2 prompt read) *)
Record wst := mkW { w_acts : list act; w_cur : nat; w_pr : nat; w_pend : nat }.

Definition w_step (hid : nat -> bool) (s : option wst) (kv : string * string) : option wst :=
  match s with
  | None => None
  | Some w =>
      let k := fst kv in let v := snd kv in
      if String.eqb k "e" then (if Nat.eqb (w_pend w) 0 then Some (mkW (w_acts w) (String.length v) 3 0) else None)
      else if String.eqb k "i" || String.eqb k "p" || String.eqb k "done" then Some w
      else if String.eqb k "prompts" then
        if String.eqb v "op.CompletePatterns" then Some (mkW (w_acts w) (w_cur w) 0 (w_pend w))
        else if String.eqb v "append(prompts, regexp.MustCompile(e.ChannelResponse))" && Nat.eqb (w_pr w) 0
             then Some (mkW (w_acts w) (w_cur w) 1 (w_pend w))
        else if String.eqb v "append(prompts, c.PromptPattern)" && Nat.eqb (w_pr w) 0
             then Some (mkW (w_acts w) (w_cur w) 2 (w_pend w))
        else None
      else if String.eqb k "err" then
        if negb (Nat.eqb (w_pend w) 0) then None
        else if String.eqb v "c.Write([]byte(e.ChannelInput), e.HideInput)"
             then Some (mkW (w_acts w ++ [AWrite (w_cur w) (hid (w_cur w))]) (w_cur w) (w_pr w) 0)
        else if String.eqb v "c.WriteReturn()" then Some (mkW (w_acts w ++ [AReturn]) (w_cur w) (w_pr w) 0)
        else None
      else if String.eqb k "b" then
        if String.eqb v "append(b, nb...)" && Nat.eqb (w_pend w) 1 then Some (mkW (w_acts w) (w_cur w) (w_pr w) 0)
        else if String.eqb v "append(b, pb...)" && Nat.eqb (w_pend w) 2 then Some (mkW (w_acts w) (w_cur w) (w_pr w) 0)
        else None
      else if String.eqb k "!call" then
        if String.eqb v "defer close(cr)" then Some w
        else if negb (Nat.eqb (w_pend w) 0) then None
        else if String.eqb v "readUntilF(ctx, []byte(e.ChannelInput))"
             then Some (mkW (w_acts w ++ [AEcho (w_cur w)]) (w_cur w) (w_pr w) 1)
        else if String.eqb v "c.ReadUntilAnyPrompt(ctx, prompts)" then
          (if Nat.eqb (w_pr w) 1 then Some (mkW (w_acts w ++ [APrompt (w_cur w) true]) (w_cur w) (w_pr w) 2)
           else if Nat.eqb (w_pr w) 2 then Some (mkW (w_acts w ++ [APrompt (w_cur w) false]) (w_cur w) (w_pr w) 2)
           else None)
        else if String.eqb v "cr <- &result{b: c.processOut(b, false), err: nil}"
             then Some (mkW (w_acts w ++ [ADone]) (w_cur w) (w_pr w) 0)
        else None
      else None
  end.

(* the store is newest first: the reader's state after a store is the step of its newest entry on
   the state after the older ones *)
Fixpoint w_of (hid : nat -> bool) (st : store) : option wst :=
  match st with
  | []%list => Some (mkW [] 0 3 0)
  | (kv :: rest)%list => w_step hid (w_of hid rest) kv
  end.

Definition hid_of (evs : list sev) (i : nat) : bool :=
  match nth_error evs i with Some (_, h, _) => h | None => false end.

Definition si_run (npats : nat) (evs : list sev) : option (list act) :=
  match DecideLang.exec 40 (si_env npats evs) send_interactive_code [] with
  | Running st => match w_of (hid_of evs) st with
                  | Some w => if Nat.eqb (w_pend w) 0 then Some (w_acts w) else None
                  | None => None
                  end
  | _ => None
  end.

(* ---------- the proof ---------- *)

Definition inertb (junk : store) : bool :=
  forallb (fun kv => String.eqb (fst kv) "p" || String.eqb (fst kv) "done") junk.

Lemma w_of_inert : forall hid junk X, inertb junk = true -> w_of hid (junk ++ X)%list = w_of hid X.
Proof.
  intros hid junk X. induction junk as [|[k v] t IH]; intros H; [reflexivity|].
  cbn [inertb forallb fst] in H. apply andb_true_iff in H. destruct H as [Hk Ht].
  cbn [app w_of]. rewrite (IH Ht). destruct (w_of hid X) as [w|]; [|reflexivity].
  unfold w_step. cbn [fst snd].
  apply orb_true_iff in Hk. destruct Hk as [Hk|Hk]; apply String.eqb_eq in Hk; subst k; reflexivity.
Qed.

Lemma sget_inert : forall junk X k, inertb junk = true ->
  String.eqb k "p" = false -> String.eqb k "done" = false -> sget (junk ++ X)%list k = sget X k.
Proof.
  intros junk X k. induction junk as [|[k' v] t IH]; intros H Hp Hd; [reflexivity|].
  cbn [inertb forallb fst] in H. apply andb_true_iff in H. destruct H as [Hk Ht].
  cbn [app sget]. rewrite (IH Ht Hp Hd).
  apply orb_true_iff in Hk. destruct Hk as [Hk|Hk]; apply String.eqb_eq in Hk; subst k'; [now rewrite Hp | now rewrite Hd].
Qed.

Section Proof.
  Variable npats : nat.
  Variable evs : list sev.
  Let env := si_env npats evs.

  Lemma idx_e : forall st i, sget st "e" = Some (unary i) -> idx_of st "e" = Some i.
  Proof. intros st i H. unfold idx_of. rewrite H. cbn [option_map]. now rewrite unary_length. Qed.

  Lemma ev_err : forall st, eval env st (DNot (DEq "err" "nil")) = Some false.
  Proof. reflexivity. Qed.

  Lemma ev_resp : forall st i r h row, sget st "e" = Some (unary i) -> nth_error evs i = Some (r, h, row) ->
    eval env st (DNot (DEq "e.ChannelResponse" """""")) = Some r.
  Proof.
    intros st i r h row Hi Hn. apply idx_e in Hi.
    cbn [eval env si_env e_eqs e_eq String.eqb Ascii.eqb Bool.eqb andb]. rewrite Hi, Hn.
    cbn [option_map]. now rewrite negb_involutive.
  Qed.

  Lemma ev_hide : forall st i r h row, sget st "e" = Some (unary i) -> nth_error evs i = Some (r, h, row) ->
    eval env st (DNot (DAtom "e.HideInput")) = Some (negb h).
  Proof.
    intros st i r h row Hi Hn. apply idx_e in Hi.
    cbn [eval env si_env e_atoms e_atom String.eqb Ascii.eqb Bool.eqb]. rewrite Hi, Hn. reflexivity.
  Qed.

  Lemma ev_echo : forall st i r h row, sget st "e" = Some (unary i) -> nth_error evs i = Some (r, h, row) ->
    eval env st (DAnd (DNot (DEq "e.ChannelResponse" """""")) (DNot (DAtom "e.HideInput"))) = Some (r && negb h).
  Proof.
    intros st i r h row Hi Hn.
    change (eval env st (DAnd (DNot (DEq "e.ChannelResponse" """""")) (DNot (DAtom "e.HideInput"))))
      with (match eval env st (DNot (DEq "e.ChannelResponse" """""")), eval env st (DNot (DAtom "e.HideInput")) with
            | Some x, Some y => Some (x && y) | _, _ => None end).
    now rewrite (ev_resp st i r h row Hi Hn), (ev_hide st i r h row Hi Hn).
  Qed.

  Lemma ev_more : forall st i, sget st "e" = Some (unary i) -> sget st "i" = Some "index of e" ->
    eval env st (DAnd (DAtom "i < len(events)-1") (DAtom "len(op.CompletePatterns) > 0"))
    = Some (Nat.ltb (S i) (List.length evs) && Nat.ltb 0 npats).
  Proof.
    intros st i Hi Hx. apply idx_e in Hi.
    cbn [eval env si_env e_atoms e_atom String.eqb Ascii.eqb Bool.eqb]. rewrite Hx, Hi. reflexivity.
  Qed.

  Definition inner_body : list dstmt := [DIf (DAtom "p.Match(pb)") [DAssign "done" "true"; DBreak] []].

  Lemma inner_loop : forall F i r h rrest prow st,
    sget st "e" = Some (unary i) -> nth_error evs i = Some (r, h, (prow ++ rrest)%list) ->
    exists junk, inertb junk = true
      /\ range_loop (DecideLang.exec (S (S (S F))) env inner_body) "p" (List.length rrest) (List.length prow) st = Running (junk ++ st)%list
      /\ sget (junk ++ st)%list "done" = if existsb (fun x => x) rrest then Some "true" else sget st "done".
  Proof.
    intros F i r h rrest. induction rrest as [|m t IH]; intros prow st Hi Hn.
    - exists []%list. cbn [range_loop List.length app existsb inertb forallb]. repeat split.
    - cbn [List.length range_loop].
      set (st0 := (("p", unary (List.length prow)) :: st)%list).
      assert (He : eval env st0 (DAtom "p.Match(pb)") = Some m).
      { unfold st0. cbn [eval env si_env e_atoms e_atom String.eqb Ascii.eqb Bool.eqb].
        unfold idx_of. cbn [sget String.eqb Ascii.eqb Bool.eqb option_map]. rewrite Hi. cbn [option_map].
        rewrite !unary_length, Hn, nth_error_app2, Nat.sub_diag by lia. reflexivity. }
      assert (Hb : DecideLang.exec (S (S (S F))) env inner_body st0
                   = if m then Brk (("done", "true") :: st0)%list else Running st0).
      { unfold inner_body. rewrite exec_step_if, He. destruct m.
        - rewrite exec_step_assign. reflexivity.
        - rewrite exec_step_nil. reflexivity. }
      rewrite Hb. destruct m; cbn [existsb orb].
      + exists [("done", "true"); ("p", unary (List.length prow))]%list. repeat split.
      + assert (Hi' : sget st0 "e" = Some (unary i)) by (unfold st0; cbn [sget String.eqb Ascii.eqb Bool.eqb]; exact Hi).
        assert (Hn' : nth_error evs i = Some (r, h, ((prow ++ [false]) ++ t)%list)) by (rewrite <- app_assoc; exact Hn).
        destruct (IH (prow ++ [false])%list st0 Hi' Hn') as [junk [Hj [E Hd]]].
        rewrite app_length in E. cbn [List.length] in E. rewrite Nat.add_1_r in E.
        exists (junk ++ [("p", unary (List.length prow))])%list. split; [|split].
        * unfold inertb in *. rewrite forallb_app, Hj. reflexivity.
        * rewrite <- app_assoc. exact E.
        * rewrite <- app_assoc. cbn [app]. fold st0. rewrite Hd.
          destruct (existsb (fun x => x) t); [reflexivity|]. unfold st0. reflexivity.
  Qed.
End Proof.

(* the acts of the loop, without the final ADone *)
Fixpoint jacts (cn : bool) (evs : list (bool * bool * bool)) (i : nat) : list act :=
  match evs with
  | []%list => []%list
  | ((r, h, cm) :: rest)%list =>
      (AWrite i h :: (if r && negb h then [AEcho i] else []) ++ [AReturn; APrompt i r]
       ++ match rest with
          | []%list => []
          | (_ :: _)%list => if cn && cm then [] else jacts cn rest (S i)
          end)%list
  end.

Lemma iacts_jacts : forall cn evs i, evs <> []%list -> iacts cn evs i = (jacts cn evs i ++ [ADone])%list.
Proof.
  intros cn evs. induction evs as [|[[r h] cm] rest IH]; intros i Hne; [contradiction|].
  cbn [iacts jacts]. rewrite <- !app_comm_cons, <- !app_assoc. f_equal. f_equal. cbn [app]. f_equal. f_equal.
  destruct rest as [|e' rest']; [reflexivity|].
  destruct (cn && cm); [reflexivity|]. apply IH. discriminate.
Qed.

Definition si_body : list dstmt :=
  [DAssign "i" "index of e"; DAssign "prompts" "op.CompletePatterns";
   DIf (DNot (DEq "e.ChannelResponse" """""")) [DAssign "prompts" "append(prompts, regexp.MustCompile(e.ChannelResponse))"] [DAssign "prompts" "append(prompts, c.PromptPattern)"];
   DAssign "err" "c.Write([]byte(e.ChannelInput), e.HideInput)";
   DIf (DNot (DEq "err" "nil")) [DCall "cr <- &result{b: nil, err: err}"; DReturn ""] [];
   DIf (DAnd (DNot (DEq "e.ChannelResponse" """""")) (DNot (DAtom "e.HideInput")))
       [DCall "readUntilF(ctx, []byte(e.ChannelInput))"; DIf (DNot (DEq "err" "nil")) [DCall "cr <- &result{b: nil, err: err}"; DReturn ""] []; DAssign "b" "append(b, nb...)"] [];
   DAssign "err" "c.WriteReturn()";
   DIf (DNot (DEq "err" "nil")) [DCall "cr <- &result{b: nil, err: err}"; DReturn ""] [];
   DCall "c.ReadUntilAnyPrompt(ctx, prompts)";
   DIf (DNot (DEq "err" "nil")) [DCall "cr <- &result{b: nil, err: err}"; DReturn ""] [];
   DAssign "b" "append(b, pb...)";
   DIf (DAnd (DAtom "i < len(events)-1") (DAtom "len(op.CompletePatterns) > 0"))
       [DAssign "done" "false"; DRange "p" "op.CompletePatterns" inner_body; DIf (DAtom "done") [DBreak] []] []].

(* what one iteration leaves on the store (newest first), above the loop variable's binding *)
Definition it_entries (r h : bool) : store :=
  ([("b", "append(b, pb...)"); ("!call", "c.ReadUntilAnyPrompt(ctx, prompts)"); ("err", "c.WriteReturn()")]
   ++ (if r && negb h then [("b", "append(b, nb...)"); ("!call", "readUntilF(ctx, []byte(e.ChannelInput))")] else [])
   ++ [("err", "c.Write([]byte(e.ChannelInput), e.HideInput)");
       ("prompts", if r then "append(prompts, regexp.MustCompile(e.ChannelResponse))" else "append(prompts, c.PromptPattern)");
       ("prompts", "op.CompletePatterns"); ("i", "index of e")])%list.

Ltac t_if_err := rewrite exec_step_if, ev_err, exec_step_nil; cbn [cont].

Lemma si_iter : forall npats evs i r h row st,
  nth_error evs i = Some (r, h, row) -> List.length row = npats ->
  let st0 := (("e", unary i) :: st)%list in
  let more := Nat.ltb (S i) (List.length evs) && Nat.ltb 0 npats in
  exists junk, inertb junk = true /\
    DecideLang.exec 38 (si_env npats evs) si_body st0
    = if more && existsb (fun x => x) row then Brk (junk ++ it_entries r h ++ st0)%list
      else Running (junk ++ it_entries r h ++ st0)%list.
Proof.
  intros npats evs i r h row st Hn Hlen st0 more. unfold si_body.
  rewrite !exec_step_assign.
  rewrite exec_step_if. erewrite ev_resp by (reflexivity || exact Hn).
  assert (Hr : forall X rest,
     match Some r with
     | Some true => cont 35 (si_env npats evs) rest (DecideLang.exec 35 (si_env npats evs) [DAssign "prompts" "append(prompts, regexp.MustCompile(e.ChannelResponse))"] X)
     | Some false => cont 35 (si_env npats evs) rest (DecideLang.exec 35 (si_env npats evs) [DAssign "prompts" "append(prompts, c.PromptPattern)"] X)
     | None => Stuck
     end
     = DecideLang.exec 35 (si_env npats evs) rest
         (("prompts", if r then "append(prompts, regexp.MustCompile(e.ChannelResponse))" else "append(prompts, c.PromptPattern)") :: X)%list).
  { intros X rest. destruct r; rewrite exec_step_assign, exec_step_nil; reflexivity. }
  rewrite Hr. clear Hr.
  rewrite exec_step_assign. t_if_err.
  rewrite exec_step_if. erewrite ev_echo by (reflexivity || exact Hn).
  set (ent6 := (("err", "c.Write([]byte(e.ChannelInput), e.HideInput)")
                :: ("prompts", if r then "append(prompts, regexp.MustCompile(e.ChannelResponse))" else "append(prompts, c.PromptPattern)")
                :: ("prompts", "op.CompletePatterns") :: ("i", "index of e") :: st0)%list).
  assert (He : forall rest,
     match Some (r && negb h) with
     | Some true => cont 32 (si_env npats evs) rest
                      (DecideLang.exec 32 (si_env npats evs)
                         [DCall "readUntilF(ctx, []byte(e.ChannelInput))"; DIf (DNot (DEq "err" "nil")) [DCall "cr <- &result{b: nil, err: err}"; DReturn ""] []; DAssign "b" "append(b, nb...)"] ent6)
     | Some false => cont 32 (si_env npats evs) rest (DecideLang.exec 32 (si_env npats evs) [] ent6)
     | None => Stuck
     end
     = DecideLang.exec 32 (si_env npats evs) rest
         ((if r && negb h then [("b", "append(b, nb...)"); ("!call", "readUntilF(ctx, []byte(e.ChannelInput))")] else []) ++ ent6)%list).
  { intros rest. destruct (r && negb h).
    - rewrite exec_step_call. t_if_err. rewrite exec_step_assign, exec_step_nil. reflexivity.
    - rewrite exec_step_nil. reflexivity. }
  rewrite He. clear He.
  set (ent8 := ((if r && negb h then [("b", "append(b, nb...)"); ("!call", "readUntilF(ctx, []byte(e.ChannelInput))")] else []) ++ ent6)%list).
  rewrite exec_step_assign. t_if_err. rewrite exec_step_call. t_if_err. rewrite exec_step_assign.
  assert (Hent : (("b", "append(b, pb...)") :: ("!call", "c.ReadUntilAnyPrompt(ctx, prompts)") :: ("err", "c.WriteReturn()") :: ent8)%list
                 = (it_entries r h ++ st0)%list).
  { unfold it_entries, ent8, ent6. rewrite <- !app_assoc. reflexivity. }
  rewrite Hent. clear Hent. set (X := (it_entries r h ++ st0)%list).
  assert (HXe : sget X "e" = Some (unary i)).
  { unfold X, it_entries. destruct (r && negb h); reflexivity. }
  assert (HXi : sget X "i" = Some "index of e").
  { unfold X, it_entries. destruct (r && negb h); reflexivity. }
  rewrite exec_step_if, (ev_more npats evs X i HXe HXi). subst more.
  unfold sev in *.
  remember (Nat.ltb (S i) (List.length evs) && Nat.ltb 0 npats) as mb eqn:Hmb. clear Hmb.
  destruct mb.
  - cbn [andb]. rewrite exec_step_assign, exec_step_range.
    change (e_len (si_env npats evs) "op.CompletePatterns") with npats.
    assert (HXe' : sget (("done", "false") :: X)%list "e" = Some (unary i)) by exact HXe.
    destruct (inner_loop npats evs 21 i r h row []%list (("done", "false") :: X)%list HXe' Hn) as [junk [Hj [E Hd]]].
    cbn [List.length] in E. rewrite Hlen in E. rewrite E. cbn [cont].
    rewrite exec_step_if.
    assert (Hev : eval (si_env npats evs) (junk ++ ("done", "false") :: X)%list (DAtom "done") = Some (existsb (fun x => x) row)).
    { cbn [eval si_env e_atoms e_atom String.eqb Ascii.eqb Bool.eqb]. rewrite Hd.
      destruct (existsb (fun x => x) row); reflexivity. }
    rewrite Hev.
    exists (junk ++ [("done", "false")])%list. split.
    { unfold inertb in *. rewrite forallb_app, Hj. reflexivity. }
    rewrite <- app_assoc. cbn [app].
    destruct (existsb (fun x => x) row).
    + reflexivity.
    + rewrite exec_step_nil. cbn [cont]. rewrite exec_step_nil. reflexivity.
  - cbn [andb]. rewrite exec_step_nil. cbn [cont]. rewrite exec_step_nil.
    exists []%list. split; reflexivity.
Qed.

Lemma w_iter : forall hid st A c p i r h,
  w_of hid st = Some (mkW A c p 0) -> hid i = h ->
  w_of hid (it_entries r h ++ ("e", unary i) :: st)%list
  = Some (mkW (A ++ AWrite i h :: (if r && negb h then [AEcho i] else []) ++ [AReturn; APrompt i r])%list i (if r then 1 else 2) 0).
Proof.
  intros hid st A c p i r h H Hh. unfold it_entries.
  destruct r, h; cbn [andb negb app w_of]; rewrite H; unfold w_step;
    cbn [fst snd String.eqb Ascii.eqb Bool.eqb orb andb negb Nat.eqb w_acts w_cur w_pr w_pend];
    rewrite unary_length, Hh, <- ?app_assoc; reflexivity.
Qed.

Lemma si_loop : forall npats evs rest pre st A c p,
  evs = (pre ++ rest)%list ->
  Forall (fun e : sev => List.length (snd e) = npats) evs ->
  w_of (hid_of evs) st = Some (mkW A c p 0) ->
  exists st' c' p',
    range_loop (DecideLang.exec 38 (si_env npats evs) si_body) "e" (List.length rest) (List.length pre) st = Running st'
    /\ w_of (hid_of evs) st' = Some (mkW (A ++ jacts (Nat.ltb 0 npats) (map sev_flags rest) (List.length pre))%list c' p' 0).
Proof.
  intros npats evs rest. induction rest as [|[[r h] row] t IH]; intros pre st A c p Hev Hrows Hw.
  - exists st, c, p. cbn [List.length range_loop map jacts]. rewrite app_nil_r. split; [reflexivity | exact Hw].
  - cbn [List.length range_loop].
    assert (Hn : nth_error evs (List.length pre) = Some (r, h, row)).
    { rewrite Hev, nth_error_app2, Nat.sub_diag by lia. reflexivity. }
    assert (Hlen : List.length row = npats).
    { rewrite Forall_forall in Hrows. apply (Hrows (r, h, row)). rewrite Hev. apply in_or_app. right. left. reflexivity. }
    assert (Hh : hid_of evs (List.length pre) = h) by (unfold hid_of; now rewrite Hn).
    destruct (si_iter npats evs (List.length pre) r h row st Hn Hlen) as [junk [Hj E]].
    cbv zeta in E. rewrite E. clear E.
    assert (Hmore : Nat.ltb (S (List.length pre)) (List.length evs) = match t with []%list => false | _ => true end).
    { rewrite Hev, app_length. cbn [List.length]. destruct t; cbn [List.length].
      - apply Nat.ltb_ge. lia.
      - apply Nat.ltb_lt. lia. }
    match goal with |- context [Nat.ltb (S (List.length pre)) ?L] =>
      remember (Nat.ltb (S (List.length pre)) L) as mb eqn:Hmb end.
    assert (Hmb' : mb = match t with []%list => false | _ => true end) by (subst mb; exact Hmore).
    clear Hmb Hmore.
    assert (Hw1 : w_of (hid_of evs) (junk ++ it_entries r h ++ ("e", unary (List.length pre)) :: st)%list
                  = Some (mkW (A ++ AWrite (List.length pre) h :: (if r && negb h then [AEcho (List.length pre)] else []) ++ [AReturn; APrompt (List.length pre) r])%list
                              (List.length pre) (if r then 1 else 2) 0)).
    { rewrite (w_of_inert _ _ _ Hj). apply (w_iter _ _ _ _ _ _ _ _ Hw Hh). }
    cbn [map sev_flags jacts].
    destruct t as [|e2 t2]; subst mb.
    + (* last event: the loop ends *)
      cbn [andb List.length range_loop map].
      do 3 eexists. split; [reflexivity|]. rewrite Hw1. rewrite ?app_nil_r. reflexivity.
    + destruct (Nat.ltb 0 npats && existsb (fun x => x) row) eqn:Hstop.
      * (* a completion pattern matched: break *)
        assert (Hs : (true && Nat.ltb 0 npats && existsb (fun x => x) row) = true) by (cbn [andb]; exact Hstop).
        rewrite Hs. do 3 eexists. split; [reflexivity|]. rewrite Hw1.
        cbn [map]. rewrite ?app_nil_r. reflexivity.
      * assert (Hs : (true && Nat.ltb 0 npats && existsb (fun x => x) row) = false) by (cbn [andb]; exact Hstop).
        rewrite Hs.
        assert (Hev' : evs = ((pre ++ [(r, h, row)]) ++ e2 :: t2)%list) by (rewrite <- app_assoc; exact Hev).
        destruct (IH (pre ++ [(r, h, row)])%list _ _ _ _ Hev' Hrows Hw1) as [st' [c' [p' [E2 Hw2]]]].
        rewrite app_length in E2, Hw2. cbn [List.length] in E2, Hw2. rewrite Nat.add_1_r in E2, Hw2.
        exists st', c', p'. split; [exact E2|]. rewrite Hw2. cbn [map].
        rewrite <- ?app_assoc, <- ?app_comm_cons, <- ?app_assoc. reflexivity.
Qed.

(* THE TIE (source side): for every list of events, every number of completion patterns and every
   pattern of matches, the translated sendInteractive invokes exactly the primitives of [iacts] *)
Theorem send_interactive_is_source : forall npats evs,
  Forall (fun e : sev => List.length (snd e) = npats) evs ->
  si_run npats evs = Some (iacts (Nat.ltb 0 npats) (map sev_flags evs) 0).
Proof.
  intros npats evs Hrows. unfold si_run, send_interactive_code. fold inner_body. fold si_body.
  rewrite exec_step_call, exec_step_range.
  change (e_len (si_env npats evs) "events") with (List.length evs).
  destruct (si_loop npats evs evs []%list [("!call", "defer close(cr)")]%list []%list 0 3 eq_refl Hrows eq_refl)
    as [st' [c' [p' [E Hw]]]].
  cbn [List.length app] in E, Hw. rewrite E. cbn [cont].
  rewrite exec_step_call, exec_step_nil.
  cbn [w_of]. rewrite Hw. unfold w_step.
  cbn [fst snd String.eqb Ascii.eqb Bool.eqb orb andb negb Nat.eqb w_acts w_cur w_pr w_pend].
  destruct evs as [|e evs'].
  - reflexivity.
  - rewrite iacts_jacts by discriminate. reflexivity.
Qed.
