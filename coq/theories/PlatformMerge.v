(* PlatformMerge.v — ties the hand-written [Platform.merge_variant] to the statement list of
   Platform.mergeVariant (platform/definition.go) as the translator reads it from the Go AST on every run
   ([Generated.merge_variant_clauses]: one (guard field, assigned field, source field) triple per
   statement `if <test on v.G> { p.A = v.S }`).  The model replaces a section of the base definition
   exactly when the variant defines that same section; the code does the same iff every statement
   tests, assigns and reads ONE field and the assigned fields are exactly the eight sections, in the
   model's order.  A statement of any other shape is translated to ("?","?","?") and fails the check. *)
From Scrapli Require Import Bytes Regex PlatformTypes Generated Platform.

Lemma beqb_eq (a b : bytes) : beqb a b = true -> a = b.
Proof.
  revert b. induction a as [|x a IH]; intros [|y b]; cbn [beqb]; intro H; try discriminate; try reflexivity.
  apply andb_true_iff in H. destruct H as [H1 H2]. apply N.eqb_eq in H1. apply IH in H2. congruence.
Qed.

Definition merge_sections : list bytes :=
  [bs "DriverType"; bs "FailedWhenContains"; bs "OnOpen"; bs "OnClose"; bs "PrivilegeLevels";
   bs "DefaultDesiredPrivilegeLevel"; bs "NetworkOnOpen"; bs "NetworkOnClose"].

Definition clause_ok (c : bytes * bytes * bytes) : bool :=
  let '(g, a, s) := c in beqb g a && beqb a s.

Fixpoint same_list (l1 l2 : list bytes) : bool :=
  match l1, l2 with
  | [], [] => true
  | x :: t1, y :: t2 => beqb x y && same_list t1 t2
  | _, _ => false
  end.

Definition merge_code_ok (cs : list (bytes * bytes * bytes)) : bool :=
  forallb clause_ok cs && same_list (map (fun c => snd (fst c)) cs) merge_sections.

(* what a statement list means: the set of base sections it overwrites and from where, given which
   sections the variant defines *)
Definition overwritten (cs : list (bytes * bytes * bytes)) (defined : bytes -> bool) : list (bytes * bytes) :=
  flat_map (fun c => let '(g, a, s) := c in if defined g then [(a, s)] else []) cs.

(* a well-shaped statement list overwrites exactly the defined sections, each from itself *)
Lemma merge_code_ok_overwrites : forall cs defined,
  merge_code_ok cs = true ->
  overwritten cs defined = flat_map (fun x => if defined x then [(x, x)] else []) merge_sections.
Proof.
  intros cs defined H. unfold merge_code_ok in H. apply andb_true_iff in H. destruct H as [Hc Hs].
  revert Hc Hs. generalize merge_sections as secs.
  induction cs as [|[[g a] s] cs IH]; intros secs Hc Hs.
  - destruct secs; [reflexivity|discriminate].
  - destruct secs as [|x secs]; [discriminate|].
    cbn [map fst snd same_list] in Hs. apply andb_true_iff in Hs. destruct Hs as [Hx Hs].
    cbn [forallb] in Hc. apply andb_true_iff in Hc. destruct Hc as [Hc1 Hc].
    unfold clause_ok in Hc1. apply andb_true_iff in Hc1. destruct Hc1 as [Hga Has].
    apply beqb_eq in Hga. apply beqb_eq in Has. apply beqb_eq in Hx. subst.
    unfold overwritten in *. cbn [flat_map]. rewrite (IH secs Hc Hs). reflexivity.
Qed.

(* the current source has that shape (re-decided on the regenerated clause list on every run) *)
Lemma merge_variant_code_ok : merge_code_ok merge_variant_clauses = true.
Proof. vm_compute. reflexivity. Qed.

Lemma merge_variant_code_overwrites : forall defined,
  overwritten merge_variant_clauses defined
  = flat_map (fun x => if defined x then [(x, x)] else []) merge_sections.
Proof. intro defined. apply merge_code_ok_overwrites. exact merge_variant_code_ok. Qed.

(* non-vacuity: the seeded slip (`if v.NetworkOnOpen != nil { p.NetworkOnClose = v.NetworkOnClose }`) is rejected *)
Example merge_slip_rejected :
  merge_code_ok [(bs "DriverType", bs "DriverType", bs "DriverType"); (bs "FailedWhenContains", bs "FailedWhenContains", bs "FailedWhenContains");
                 (bs "OnOpen", bs "OnOpen", bs "OnOpen"); (bs "OnClose", bs "OnClose", bs "OnClose");
                 (bs "PrivilegeLevels", bs "PrivilegeLevels", bs "PrivilegeLevels");
                 (bs "DefaultDesiredPrivilegeLevel", bs "DefaultDesiredPrivilegeLevel", bs "DefaultDesiredPrivilegeLevel");
                 (bs "NetworkOnOpen", bs "NetworkOnOpen", bs "NetworkOnOpen");
                 (bs "NetworkOnOpen", bs "NetworkOnClose", bs "NetworkOnClose")] = false.
Proof. vm_compute. reflexivity. Qed.
