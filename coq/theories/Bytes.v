(* Bytes.v — byte strings as [list N] and the Go [bytes]/[strings]/[strconv] functions the
   scrapligo models use.  Definitions only (lemmas live in BytesLemmas.v) so that the executable
   model still builds when a proof breaks. *)
From Coq Require Export List NArith ZArith Bool Arith Lia.
Export ListNotations.
Open Scope N_scope.

Definition byte := N.
Definition bytes := list N.

(* ---------- equality, prefix, search ---------- *)

Fixpoint beqb (a b : bytes) : bool :=
  match a, b with
  | [], [] => true
  | x :: a', y :: b' => N.eqb x y && beqb a' b'
  | _, _ => false
  end.

Fixpoint is_prefix (p s : bytes) : bool :=
  match p, s with
  | [], _ => true
  | x :: p', y :: s' => N.eqb x y && is_prefix p' s'
  | _ :: _, [] => false
  end.

(* linear-time reverse (List.rev is quadratic); equal to [rev] by [rev_alt] *)
Definition frev {A} (l : list A) : list A := rev_append l [].

Definition is_suffix (p s : bytes) : bool := is_prefix (frev p) (frev s).

(* Go bytes.Contains(s, sub): the empty [sub] is contained in everything. *)
Fixpoint contains (sub s : bytes) : bool :=
  is_prefix sub s ||
  match s with
  | [] => false
  | _ :: t => contains sub t
  end.

(* Go bytes.Index(s, sub) *)
Fixpoint index_of (sub s : bytes) : option nat :=
  if is_prefix sub s then Some 0%nat
  else match s with
       | [] => None
       | _ :: t => match index_of sub t with Some i => Some (S i) | None => None end
       end.

Fixpoint mem_byte (b : N) (l : bytes) : bool :=
  match l with [] => false | x :: t => N.eqb b x || mem_byte b t end.

(* ---------- split / join ---------- *)

(* bytes.Split(s, sep) for a single-byte separator: always at least one field. *)
Fixpoint split_on (sep : N) (s : bytes) : list bytes :=
  match s with
  | [] => [[]]
  | x :: t =>
      if N.eqb x sep then [] :: split_on sep t
      else match split_on sep t with
           | [] => [[x]]        (* unreachable: split_on never returns [] *)
           | f :: fs => (x :: f) :: fs
           end
  end.

Fixpoint join (sep : bytes) (parts : list bytes) : bytes :=
  match parts with
  | [] => []
  | [p] => p
  | p :: ps => p ++ sep ++ join sep ps
  end.

(* ---------- trimming ---------- *)

Fixpoint trim_left_set (cut : bytes) (s : bytes) : bytes :=
  match s with
  | [] => []
  | x :: t => if mem_byte x cut then trim_left_set cut t else s
  end.

Definition trim_right_set (cut s : bytes) : bytes := frev (trim_left_set cut (frev s)).
Definition trim_set (cut s : bytes) : bytes := trim_right_set cut (trim_left_set cut s).

Definition trim_prefix (p s : bytes) : bytes :=
  if is_prefix p s then skipn (length p) s else s.
Definition trim_suffix (p s : bytes) : bytes :=
  if is_suffix p s then firstn (length s - length p) s else s.

(* Go bytes.TrimSpace: Unicode White_Space on UTF-8.  ASCII: \t \n \v \f \r space.  Non-ASCII
   spaces as their (unique, valid) UTF-8 encodings; an invalid or other sequence stops the trim. *)
Definition ascii_space (b : N) : bool :=
  (b =? 9) || (b =? 10) || (b =? 11) || (b =? 12) || (b =? 13) || (b =? 32).

Definition uni_space_seqs : list bytes :=
  [ [194; 133]; [194; 160]; [225; 154; 128];
    [226; 128; 128]; [226; 128; 129]; [226; 128; 130]; [226; 128; 131]; [226; 128; 132];
    [226; 128; 133]; [226; 128; 134]; [226; 128; 135]; [226; 128; 136]; [226; 128; 137];
    [226; 128; 138]; [226; 128; 168]; [226; 128; 169]; [226; 128; 175]; [226; 129; 159];
    [227; 128; 128] ].

Fixpoint first_prefix_of (cands : list bytes) (s : bytes) : option bytes :=
  match cands with
  | [] => None
  | c :: cs => if is_prefix c s then Some c else first_prefix_of cs s
  end.

(* fuel = length s is always enough: every step removes at least one byte *)
Fixpoint go_trim_left_fuel (fuel : nat) (s : bytes) : bytes :=
  match fuel with
  | O => s
  | S f =>
      match s with
      | [] => []
      | x :: t =>
          if ascii_space x then go_trim_left_fuel f t
          else match first_prefix_of uni_space_seqs s with
               | Some c => go_trim_left_fuel f (skipn (length c) s)
               | None => s
               end
      end
  end.
Definition go_trim_left (s : bytes) : bytes := go_trim_left_fuel (length s) s.

(* right side: same on the reversed string with reversed sequences *)
Fixpoint go_trim_leftr_fuel (fuel : nat) (s : bytes) : bytes :=
  match fuel with
  | O => s
  | S f =>
      match s with
      | [] => []
      | x :: t =>
          if ascii_space x then go_trim_leftr_fuel f t
          else match first_prefix_of (map (@frev N) uni_space_seqs) s with
               | Some c => go_trim_leftr_fuel f (skipn (length c) s)
               | None => s
               end
      end
  end.
Definition go_trim_right (s : bytes) : bytes := frev (go_trim_leftr_fuel (length s) (frev s)).
Definition go_trim_space (s : bytes) : bytes := go_trim_right (go_trim_left s).

(* ---------- case ---------- *)
Definition to_lower_b (b : N) : N := if (65 <=? b) && (b <=? 90) then b + 32 else b.
(* bytes.ToLower is ASCII-exact on pure-ASCII input; non-ASCII input is outside the modelled
   domain of the callers (generators keep trigger texts ASCII). *)
Definition to_lower (s : bytes) : bytes := map to_lower_b s.

(* ---------- decimal ---------- *)
Definition digit_of (b : N) : option N := if (48 <=? b) && (b <=? 57) then Some (b - 48) else None.
Definition is_digit (b : N) : bool := (48 <=? b) && (b <=? 57).

(* print_dec: fmt.Sprintf("%d", n) for n >= 0 *)
Fixpoint print_dec_fuel (fuel : nat) (n : N) (acc : bytes) : bytes :=
  match fuel with
  | O => acc
  | S f => let d := (48 + n mod 10) in
           if n <? 10 then d :: acc else print_dec_fuel f (n / 10) (d :: acc)
  end.
Definition print_dec (n : N) : bytes := print_dec_fuel (S (N.to_nat (N.log2 n))) n [].

Fixpoint parse_digits (s : bytes) (acc : N) : option N :=
  match s with
  | [] => Some acc
  | x :: t => match digit_of x with
              | Some d => parse_digits t (acc * 10 + d)
              | None => None
              end
  end.
Definition parse_dec (s : bytes) : option N :=
  match s with [] => None | _ => parse_digits s 0 end.

(* strconv.Atoi on a 64-bit platform: optional sign, then digits only (underscores are NOT
   accepted by Atoi), range check against int64.  Result as Z. *)
Definition max_int64 : N := 9223372036854775807.
Definition go_atoi (s : bytes) : option Z :=
  match s with
  | [] => None
  | x :: t =>
      if x =? 45 (* - *) then
        match parse_dec t with
        | Some n => if n <=? max_int64 + 1 then Some (- Z.of_N n)%Z else None
        | None => None
        end
      else if x =? 43 (* + *) then
        match parse_dec t with
        | Some n => if n <=? max_int64 then Some (Z.of_N n) else None
        | None => None
        end
      else
        match parse_dec s with
        | Some n => if n <=? max_int64 then Some (Z.of_N n) else None
        | None => None
        end
  end.

(* ---------- hex (runner I/O) ---------- *)
Definition hex_digit (n : N) : N := if n <? 10 then 48 + n else 87 + n.
Fixpoint to_hex (s : bytes) : bytes :=
  match s with
  | [] => []
  | b :: t => hex_digit (b / 16) :: hex_digit (b mod 16) :: to_hex t
  end.
Definition unhex_digit (c : N) : N :=
  if (48 <=? c) && (c <=? 57) then c - 48
  else if (97 <=? c) && (c <=? 102) then c - 87
  else if (65 <=? c) && (c <=? 70) then c - 55 else 0.
Fixpoint of_hex (s : bytes) : bytes :=
  match s with
  | a :: b :: t => (unhex_digit a * 16 + unhex_digit b) :: of_hex t
  | _ => []
  end.

(* ---------- misc ---------- *)
Definition bytes_all (p : N -> bool) (s : bytes) : bool := forallb p s.
Fixpoint count_byte (b : N) (s : bytes) : nat :=
  match s with [] => O | x :: t => (if N.eqb x b then 1 else 0)%nat + count_byte b t end.

Definition LF : N := 10.
Definition CR : N := 13.
Definition SP : N := 32.
Definition HASH : N := 35.

(* last n elements *)
Definition lastn {A} (n : nat) (l : list A) : list A := skipn (length l - n) l.

(* string literal helper: bytes of a Coq string *)
Require Coq.Strings.String Coq.Strings.Ascii.
Export Coq.Strings.String.StringSyntax.
Delimit Scope string_scope with string.
Fixpoint bytes_of_string (s : String.string) : bytes :=
  match s with
  | String.EmptyString => []
  | String.String a t => Ascii.N_of_ascii a :: bytes_of_string t
  end.
Definition bs (s : String.string) : bytes := bytes_of_string s.
Arguments bs s%string.
