(* ReadUntilSrc.v — channel/read.go ReadUntilFuzzy / ReadUntilExplicit / ReadUntilPrompt /
   ReadUntilAnyPrompt as the source has them on this run (C01, C05, C06, C12): the early return for
   an empty input, and ONE round of each loop for every combination of what can happen in it — the
   deadline is looked at first, a read error is passed on as it is, an empty read sleeps and goes
   round, a chunk is appended to everything read, and the round returns EVERYTHING READ exactly when
   the function's condition holds on the search window of everything read — the conditions being,
   text for text, the model's Channel.cond_holds for CFuzzy / CExplicit / CPrompt / CAnyPrompt. *)
From Scrapli Require Import Bytes Regex PlatformTypes Generated Channel DecideLang DecideLemmas GeneratedSkel.
From Coq Require Import String List Bool Arith Lia.
Import ListNotations.
Open Scope nat_scope.
Open Scope string_scope.

Definition ru_code (name : string) : list dstmt :=
  match find (fun e => String.eqb (fst e) name) read_until_code with Some e => snd e | None => [DOther "no such function"] end.

Inductive ru_out := ZEmpty | ZDeadline | ZReadErr | ZIdle | ZFound | ZAgain | ZBad.
Definition ru_eqb (a b : ru_out) : bool :=
  match a, b with
  | ZEmpty, ZEmpty | ZDeadline, ZDeadline | ZReadErr, ZReadErr | ZIdle, ZIdle | ZFound, ZFound | ZAgain, ZAgain => true
  | _, _ => false
  end.

(* [cond_text]: the function's own condition, as its source text *)
Definition ru_env (cond_text : string) (empty done read_ok nb_nil cond : bool) : denv :=
  mkEnvX (fun _ => false)
         (fun a b => String.eqb a "len(b)" && String.eqb b "0" && empty)
         (fun _ => "") (fun _ => None)
         (fun st a b =>
            match st with
            | ("!call", "c.Read()") :: _ =>
                if String.eqb a "err" && String.eqb b "nil" then Some (Some read_ok)
                else if String.eqb a "nb" && String.eqb b "nil" then Some (Some nb_nil)
                else None
            | _ => if (String.eqb a "err" || String.eqb a "nb") && String.eqb b "nil" then Some None else None
            end)
         (fun x => if String.eqb x "forever" then 1 else O)
         (fun st a =>
            if String.eqb a "ready <-ctx.Done()" then Some (Some done)
            else if String.eqb a cond_text then
              match st with
              | ("rb", "append(rb, nb...)") :: _ => Some (Some cond)
              | _ => Some None
              end
            else None).

Definition ru_run (name cond_text : string) (empty done read_ok nb_nil cond : bool) : ru_out :=
  match DecideLang.exec 30 (ru_env cond_text empty done read_ok nb_nil cond) (ru_code name) [] with
  | Returned st v =>
      if String.eqb v "nil, nil" then (match st with [] => ZEmpty | _ => ZBad end)
      else if String.eqb v "nil, ctx.Err()" then (match calls_of st with [] => ZDeadline | _ => ZBad end)
      else if String.eqb v "nil, err" then (match st with ("!call", "c.Read()") :: _ => ZReadErr | _ => ZBad end)
      else if String.eqb v "rb, nil" then (match st with ("rb", "append(rb, nb...)") :: ("!call", "c.Read()") :: _ => ZFound | _ => ZBad end)
      else ZBad
  | Running st =>
      match st with
      | ("!call", "time.Sleep(c.ReadDelay)") :: ("!call", "c.Read()") :: _ => ZIdle
      | ("rb", "append(rb, nb...)") :: ("!call", "c.Read()") :: _ => ZAgain
      | _ => ZBad
      end
  | _ => ZBad
  end.

Definition ru_expected (has_empty_test : bool) (empty done read_ok nb_nil cond : bool) : ru_out :=
  if has_empty_test && empty then ZEmpty
  else if done then ZDeadline
  else if negb read_ok then ZReadErr
  else if nb_nil then ZIdle
  else if cond then ZFound else ZAgain.

Definition fuzzy_text : string := "util.BytesRoughlyContains( b, processReadBuf(rb, getProcessReadBufSearchDepth(c.PromptSearchDepth, len(b))), )".
Definition explicit_text : string := "bytes.Contains( processReadBuf(rb, getProcessReadBufSearchDepth(c.PromptSearchDepth, len(b))), b, )".
Definition prompt_text : string := "c.PromptPattern.Match(processReadBuf(rb, c.PromptSearchDepth))".

Definition tf : list bool := [true; false].
Definition ru_table (name text : string) (has_empty : bool) : bool :=
  forallb (fun e => forallb (fun d => forallb (fun r => forallb (fun n => forallb (fun c =>
    ru_eqb (ru_run name text e d r n c) (ru_expected has_empty e d r n c)) tf) tf) tf) tf) tf.

Definition ru_table_ok : bool :=
  ru_table "Channel.ReadUntilFuzzy" fuzzy_text true
  && ru_table "Channel.ReadUntilExplicit" explicit_text true
  && ru_table "Channel.ReadUntilPrompt" prompt_text false
  && tests_known (ru_code "Channel.ReadUntilFuzzy") ["len(b) == 0"; "ready <-ctx.Done()"; "err == nil"; "nb == nil"; fuzzy_text]
  && tests_known (ru_code "Channel.ReadUntilExplicit") ["len(b) == 0"; "ready <-ctx.Done()"; "err == nil"; "nb == nil"; explicit_text]
  && tests_known (ru_code "Channel.ReadUntilPrompt") ["ready <-ctx.Done()"; "err == nil"; "nb == nil"; prompt_text]
  && tests_known (ru_code "Channel.ReadUntilAnyPrompt") ["ready <-ctx.Done()"; "err == nil"; "nb == nil"; "p.Match(prb)"].

Theorem read_until_is_source : ru_table_ok = true.
Proof. vm_compute. reflexivity. Qed.

(* ---------- ReadUntilAnyPrompt: the inner loop over the patterns (any number of them) ---------- *)

Definition any_env (done read_ok nb_nil : bool) (ms : list bool) : denv :=
  mkEnvX (fun _ => false) (fun _ _ => false) (fun _ => "") (fun _ => None)
         (fun st a b =>
            match st with
            | ("!call", "c.Read()") :: _ =>
                if String.eqb a "err" && String.eqb b "nil" then Some (Some read_ok)
                else if String.eqb a "nb" && String.eqb b "nil" then Some (Some nb_nil)
                else None
            | _ => if (String.eqb a "err" || String.eqb a "nb") && String.eqb b "nil" then Some None else None
            end)
         (fun x => if String.eqb x "forever" then 1 else if String.eqb x "prompts" then List.length ms else O)
         (fun st a =>
            if String.eqb a "ready <-ctx.Done()" then Some (Some done)
            else if String.eqb a "p.Match(prb)" then
              match sget st "p", sget st "prb", sget st "rb" with
              | Some u, Some "processReadBuf(rb, c.PromptSearchDepth)", Some "append(rb, nb...)" =>
                  match nth_error ms (String.length u) with Some m => Some (Some m) | None => Some None end
              | _, _, _ => Some None
              end
            else None).

Definition any_inner : list dstmt := [DIf (DAtom "p.Match(prb)") [DReturn "rb, nil"] []].

Lemma any_inner_loop : forall F done read_ok nb_nil rest pre st,
  sget st "prb" = Some "processReadBuf(rb, c.PromptSearchDepth)" -> sget st "rb" = Some "append(rb, nb...)" ->
  if existsb (fun x => x) rest
  then exists st', range_loop (DecideLang.exec (S (S F)) (any_env done read_ok nb_nil (pre ++ rest)) any_inner) "p" (List.length rest) (List.length pre) st
                   = Returned st' "rb, nil"
  else exists st', range_loop (DecideLang.exec (S (S F)) (any_env done read_ok nb_nil (pre ++ rest)) any_inner) "p" (List.length rest) (List.length pre) st
                   = Running st' /\ sget st' "prb" = sget st "prb" /\ sget st' "rb" = sget st "rb".
Proof.
  intros F done read_ok nb_nil rest. induction rest as [|m t IH]; intros pre st Hp Hr.
  - cbn [existsb List.length range_loop]. exists st. repeat split.
  - cbn [existsb List.length range_loop].
    set (st0 := (("p", unary (List.length pre)) :: st)%list).
    assert (He : eval (any_env done read_ok nb_nil (pre ++ m :: t)) st0 (DAtom "p.Match(prb)") = Some m).
    { unfold st0. cbn [eval any_env e_atoms e_atom String.eqb Ascii.eqb Bool.eqb sget]. rewrite Hp, Hr.
      rewrite unary_length, nth_error_app2, Nat.sub_diag by lia. reflexivity. }
    assert (Hb : DecideLang.exec (S (S F)) (any_env done read_ok nb_nil (pre ++ m :: t)) any_inner st0
                 = if m then Returned st0 "rb, nil" else Running st0).
    { unfold any_inner. rewrite exec_step_if, He. destruct m.
      - rewrite exec_step_return. reflexivity.
      - rewrite exec_step_nil. reflexivity. }
    rewrite Hb. destruct m; cbn [orb].
    + eexists; reflexivity.
    + assert (Hp0 : sget st0 "prb" = Some "processReadBuf(rb, c.PromptSearchDepth)") by (unfold st0; cbn [sget String.eqb Ascii.eqb Bool.eqb]; exact Hp).
      assert (Hr0 : sget st0 "rb" = Some "append(rb, nb...)") by (unfold st0; cbn [sget String.eqb Ascii.eqb Bool.eqb]; exact Hr).
      specialize (IH (pre ++ [false])%list st0 Hp0 Hr0).
      rewrite <- app_assoc, app_length in IH. cbn [app List.length] in IH. rewrite Nat.add_1_r in IH.
      destruct (existsb (fun x => x) t); [exact IH|].
      destruct IH as [st' [E [H1 H2]]]. exists st'. split; [exact E|]. rewrite H1, H2. unfold st0. split; reflexivity.
Qed.

Definition any_run (done read_ok nb_nil : bool) (ms : list bool) : ru_out :=
  match DecideLang.exec 30 (any_env done read_ok nb_nil ms) (ru_code "Channel.ReadUntilAnyPrompt") [] with
  | Returned st v =>
      if String.eqb v "nil, ctx.Err()" then (match calls_of st with [] => ZDeadline | _ => ZBad end)
      else if String.eqb v "nil, err" then (match st with ("!call", "c.Read()") :: _ => ZReadErr | _ => ZBad end)
      else if String.eqb v "rb, nil" then ZFound
      else ZBad
  | Running st =>
      match sget st "prb", sget st "rb" with
      | Some "processReadBuf(rb, c.PromptSearchDepth)", Some "append(rb, nb...)" => ZAgain
      | None, None => match st with
                      | ("!call", "time.Sleep(c.ReadDelay)") :: ("!call", "c.Read()") :: _ => ZIdle
                      | _ => ZBad
                      end
      | _, _ => ZBad
      end
  | _ => ZBad
  end.

(* THE TIE for ReadUntilAnyPrompt: for every number of patterns and every pattern of matches, a round
   returns everything read exactly when SOME pattern matches the search window of everything read *)
Theorem read_until_any_is_source : forall done read_ok nb_nil ms,
  any_run done read_ok nb_nil ms = ru_expected false false done read_ok nb_nil (existsb (fun x => x) ms).
Proof.
  intros done read_ok nb_nil ms. unfold any_run, ru_expected. cbn [andb].
  change (ru_code "Channel.ReadUntilAnyPrompt")
    with [DRange "_" "forever" [DIf (DAtom "ready <-ctx.Done()") [DReturn "nil, ctx.Err()"] []; DCall "c.Read()";
            DIf (DNot (DEq "err" "nil")) [DReturn "nil, err"] []; DIf (DEq "nb" "nil") [DCall "time.Sleep(c.ReadDelay)"; DContinue] [];
            DAssign "rb" "append(rb, nb...)"; DAssign "prb" "processReadBuf(rb, c.PromptSearchDepth)";
            DRange "p" "prompts" any_inner]].
  rewrite exec_step_range.
  replace (e_len (any_env done read_ok nb_nil ms) "forever") with 1 by reflexivity.
  cbn [range_loop]. rewrite exec_step_if.
  replace (eval (any_env done read_ok nb_nil ms) [("_", unary 0)]%list (DAtom "ready <-ctx.Done()")) with (Some done) by reflexivity.
  destruct done.
  - rewrite exec_step_return. reflexivity.
  - rewrite exec_step_nil. cbn [cont]. rewrite exec_step_call, exec_step_if.
    replace (eval (any_env false read_ok nb_nil ms) [("!call", "c.Read()"); ("_", unary 0)]%list (DNot (DEq "err" "nil")))
      with (Some (negb read_ok)) by reflexivity.
    destruct read_ok; cbn [negb].
    + rewrite exec_step_nil. cbn [cont]. rewrite exec_step_if.
      replace (eval (any_env false true nb_nil ms) [("!call", "c.Read()"); ("_", unary 0)]%list (DEq "nb" "nil"))
        with (Some nb_nil) by reflexivity.
      destruct nb_nil.
      * rewrite exec_step_call. reflexivity.
      * rewrite exec_step_nil. cbn [cont]. rewrite !exec_step_assign, exec_step_range.
        replace (e_len (any_env false true false ms) "prompts") with (List.length ms) by reflexivity.
        match goal with |- context [range_loop (DecideLang.exec (S (S ?F)) _ any_inner)] =>
          pose proof (any_inner_loop F false true false ms []%list
                        [("prb", "processReadBuf(rb, c.PromptSearchDepth)"); ("rb", "append(rb, nb...)"); ("!call", "c.Read()"); ("_", unary 0)]%list
                        eq_refl eq_refl) as HL end.
        cbn [app List.length] in HL.
        destruct (existsb (fun x => x) ms).
        -- destruct HL as [st' ->]. reflexivity.
        -- destruct HL as [st' [-> [H1 H2]]]. repeat (cbn [cont range_loop]; rewrite ?exec_step_nil).
           cbn [sget String.eqb Ascii.eqb Bool.eqb] in H1, H2. rewrite H1, H2. reflexivity.
    + rewrite exec_step_return. reflexivity.
Qed.

