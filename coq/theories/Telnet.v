(* Telnet.v — transport/telnet.go: the byte-at-a-time option negotiation of the opening phase
   (handleControlCharResponse), and the RFC 854 token view used as its specification (C15). *)
From Scrapli Require Import Bytes Regex PlatformTypes Generated.
Open Scope N_scope.

Record tstate := mkT {
  t_ctrl : bytes;            (* ctrlBuf *)
  t_data : bytes;            (* initialBuf: bytes the first Read will return *)
  t_replies : list bytes     (* what was written to the socket, one entry per Write *)
}.

Definition is_verb (c : N) : bool :=
  (c =? telnet_do) || (c =? telnet_dont) || (c =? telnet_will) || (c =? telnet_wont).

(* handleControlCharResponse, after the fix of the "IAC + non-verb" case (see KNOWN_FINDINGS) *)
Definition handle (s : tstate) (c : N) : tstate :=
  match t_ctrl s with
  | [] => if c =? telnet_iac then mkT [c] (t_data s) (t_replies s)
          else mkT [] (t_data s ++ [c]) (t_replies s)
  | [_] =>
      if is_verb c then mkT (t_ctrl s ++ [c]) (t_data s) (t_replies s)
      else if c =? telnet_iac then mkT [] (t_data s ++ [c]) (t_replies s)
      else mkT [] (t_data s) (t_replies s)
  | [_; cmd] =>
      let reply :=
        if (cmd =? telnet_do) && (c =? telnet_sga) then [[telnet_iac; telnet_will; c]]
        else if (cmd =? telnet_do) || (cmd =? telnet_dont) then [[telnet_iac; telnet_wont; c]]
        else if cmd =? telnet_will then [[telnet_iac; telnet_do; c]]
        else if cmd =? telnet_wont then [[telnet_iac; telnet_dont; c]]
        else [] in
      mkT [] (t_data s) (t_replies s ++ reply)
  | _ => s
  end.

Definition t_init : tstate := mkT [] [] [].
Definition run_telnet (opening : bytes) : tstate := fold_left handle opening t_init.

(* the same function before the fix (kept to state what was wrong): IAC followed by a non-verb
   leaves ctrlBuf = [IAC] and the byte is dropped *)
Definition handle_unfixed (s : tstate) (c : N) : tstate :=
  match t_ctrl s with
  | [_] => if is_verb c then handle s c else s
  | _ => handle s c
  end.

(* ---------- RFC 854 view ---------- *)
Inductive verb := DO | DONT | WILL | WONT.
Definition verb_byte (v : verb) : N := match v with DO => 253 | DONT => 254 | WILL => 251 | WONT => 252 end.

Inductive token :=
| TData (b : N)              (* a data byte other than IAC *)
| TEscIAC                    (* IAC IAC: one data byte 255 *)
| TNeg (v : verb) (opt : N)  (* IAC verb option *)
| TCmd (c : N).              (* IAC c for a two-byte command (NOP, GA, ...): c is neither a verb nor IAC *)

Definition token_ok (t : token) : Prop :=
  match t with
  | TData b => b <> 255
  | TCmd c => c <> 255 /\ c <> 251 /\ c <> 252 /\ c <> 253 /\ c <> 254
  | _ => True
  end.

Definition render (t : token) : bytes :=
  match t with
  | TData b => [b]
  | TEscIAC => [255; 255]
  | TNeg v o => [255; verb_byte v; o]
  | TCmd c => [255; c]
  end.

Definition spec_data (t : token) : bytes :=
  match t with TData b => [b] | TEscIAC => [255] | _ => [] end.

(* DO suppress-go-ahead is accepted; every other DO and every DONT is answered WONT; WILL and WONT
   are acknowledged with DO and DONT *)
Definition spec_reply (t : token) : list bytes :=
  match t with
  | TNeg DO o => if o =? 3 then [[255; 251; o]] else [[255; 252; o]]
  | TNeg DONT o => [[255; 252; o]]
  | TNeg WILL o => [[255; 253; o]]
  | TNeg WONT o => [[255; 254; o]]
  | _ => []
  end.
