(* BytesLemmas.v — machine-checked facts about Bytes.v: reverse, decimal printing / parsing,
   prefix / contains, Go TrimSpace, and the order-preserving embedding [subseq].
   No axioms; every main theorem is followed by Print Assumptions at the end of the file. *)
From Scrapli Require Import Bytes.
From Coq Require Import ZifyBool ZifyN ZifyNat.
Open Scope N_scope.

(* ================================================================================================
   generic list helpers *)

Lemma frev_rev : forall A (l : list A), frev l = rev l.
Proof. intros A l. unfold frev. rewrite rev_append_rev. apply app_nil_r. Qed.

Lemma skipn_len_app {A} (a b : list A) : skipn (length a) (a ++ b) = b.
Proof. induction a as [|x a IH]; cbn [length skipn app]; [reflexivity|exact IH]. Qed.

Lemma firstn_len_app {A} (a b : list A) : firstn (length a) (a ++ b) = a.
Proof. induction a as [|x a IH]; cbn [length firstn app]; [reflexivity|now rewrite IH]. Qed.

Lemma skipn_skipn {A} (n m : nat) (l : list A) : skipn n (skipn m l) = skipn (m + n) l.
Proof.
  revert l; induction m as [|m IH]; intros l; [reflexivity|].
  destruct l as [|x l]; cbn [skipn Nat.add]; [now destruct n|apply IH].
Qed.

Lemma skipn_app_le {A} (n : nat) (a b : list A) :
  (n <= length a)%nat -> skipn n (a ++ b) = skipn n a ++ b.
Proof.
  intros H. rewrite skipn_app. replace (n - length a)%nat with 0%nat by lia. reflexivity.
Qed.

Lemma firstn_app_le {A} (n : nat) (a b : list A) :
  (n <= length a)%nat -> firstn n (a ++ b) = firstn n a.
Proof.
  intros H. rewrite firstn_app. replace (n - length a)%nat with 0%nat by lia.
  cbn [firstn]. apply app_nil_r.
Qed.

Lemma nth_error_skipn {A} (l : list A) (n : nat) (x : A) :
  nth_error l n = Some x -> skipn n l = x :: skipn (S n) l.
Proof.
  revert l; induction n as [|n IH]; intros l H; destruct l as [|y l]; try discriminate.
  - cbn in H. injection H as ->. reflexivity.
  - cbn [nth_error] in H. cbn [skipn]. rewrite (IH l H). reflexivity.
Qed.

Lemma nth_error_skipn_hd {A} (l : list A) (n : nat) : nth_error l n = hd_error (skipn n l).
Proof.
  revert l; induction n as [|n IH]; intros l; destruct l as [|y l]; try reflexivity.
  cbn [nth_error skipn]. apply IH.
Qed.

(* ================================================================================================
   prefix / contains *)

Lemma is_prefix_refl_app (p r : bytes) : is_prefix p (p ++ r) = true.
Proof.
  induction p as [|x p IH]; cbn [is_prefix app]; [reflexivity|].
  rewrite N.eqb_refl, IH. reflexivity.
Qed.

Lemma is_prefix_true_iff (p s : bytes) : is_prefix p s = true <-> exists r, s = p ++ r.
Proof.
  split.
  - revert s; induction p as [|x p IH]; intros s H.
    + exists s. reflexivity.
    + destruct s as [|y s]; cbn [is_prefix] in H; [discriminate|].
      apply andb_true_iff in H. destruct H as [Hxy Hp]. apply N.eqb_eq in Hxy. subst y.
      destruct (IH s Hp) as [r ->]. exists r. reflexivity.
  - intros [r ->]. apply is_prefix_refl_app.
Qed.

(* is_prefix only inspects the first [length p] bytes *)
Lemma is_prefix_app_long (p x r : bytes) :
  (length p <= length x)%nat -> is_prefix p (x ++ r) = is_prefix p x.
Proof.
  revert x; induction p as [|a p IH]; intros x H; [reflexivity|].
  destruct x as [|b x]; cbn [length] in H; [lia|].
  cbn [is_prefix app]. rewrite IH by lia. reflexivity.
Qed.

Lemma is_prefix_nil_r (p : bytes) : is_prefix p [] = true -> p = [].
Proof. destruct p; [reflexivity|discriminate]. Qed.

Lemma contains_app_intro (sub a b : bytes) : contains sub (a ++ sub ++ b) = true.
Proof.
  induction a as [|x a IH]; cbn [app].
  - destruct (sub ++ b) eqn:E; cbn [contains]; rewrite <- E, is_prefix_refl_app; reflexivity.
  - cbn [contains]. rewrite IH. apply orb_true_r.
Qed.

Lemma contains_true_iff (sub s : bytes) :
  contains sub s = true <-> exists a b, s = a ++ sub ++ b.
Proof.
  split.
  - induction s as [|x s IH]; cbn [contains]; intros H.
    + rewrite orb_false_r in H. apply is_prefix_true_iff in H. destruct H as [r Hr].
      exists [], r. exact Hr.
    + apply orb_true_iff in H. destruct H as [H|H].
      * apply is_prefix_true_iff in H. destruct H as [r Hr]. exists [], r. exact Hr.
      * destruct (IH H) as (a & b & ->). exists (x :: a), b. reflexivity.
  - intros (a & b & ->). apply contains_app_intro.
Qed.

Lemma first_prefix_of_some (cands : list bytes) (s c : bytes) :
  first_prefix_of cands s = Some c -> In c cands /\ is_prefix c s = true.
Proof.
  induction cands as [|c0 cs IH]; cbn [first_prefix_of]; [discriminate|].
  destruct (is_prefix c0 s) eqn:E; intros H.
  - injection H as <-. split; [now left|exact E].
  - destruct (IH H) as [Hin Hp]. split; [now right|exact Hp].
Qed.

(* a prefix that does not contain the sentinel [y] lies entirely before it *)
Lemma is_prefix_sentinel (c u : bytes) (y : N) :
  is_prefix c (u ++ [y]) = true -> ~ In y c -> exists t, u = c ++ t.
Proof.
  revert u; induction c as [|a c IH]; intros u H Hy.
  - exists u. reflexivity.
  - destruct u as [|b u]; cbn [app is_prefix] in H.
    + apply andb_true_iff in H. destruct H as [Hay _]. apply N.eqb_eq in Hay.
      exfalso. apply Hy. left. exact Hay.
    + apply andb_true_iff in H. destruct H as [Hab Hp]. apply N.eqb_eq in Hab. subst b.
      destruct (IH u Hp) as [t ->]; [intros Hin; apply Hy; now right|].
      exists t. reflexivity.
Qed.

(* ================================================================================================
   subseq: order-preserving embedding *)

Inductive subseq : bytes -> bytes -> Prop :=
| subseq_nil : subseq [] []
| subseq_cons : forall x a b, subseq a b -> subseq (x :: a) (x :: b)
| subseq_skip : forall x a b, subseq a b -> subseq a (x :: b).

Lemma subseq_nil_l (l : bytes) : subseq [] l.
Proof. induction l; constructor; assumption. Qed.

Lemma subseq_refl (l : bytes) : subseq l l.
Proof. induction l; constructor; assumption. Qed.

Lemma subseq_app (a b c d : bytes) : subseq a b -> subseq c d -> subseq (a ++ c) (b ++ d).
Proof. intros Hab Hcd. induction Hab; cbn [app]; [exact Hcd| |]; constructor; assumption. Qed.

Lemma subseq_app_r (q a : bytes) : subseq a (q ++ a).
Proof. induction q; cbn [app]; [apply subseq_refl|constructor; assumption]. Qed.

Lemma subseq_app_l (a q : bytes) : subseq a (a ++ q).
Proof.
  rewrite <- (app_nil_r a) at 1. apply subseq_app; [apply subseq_refl|apply subseq_nil_l].
Qed.

Lemma subseq_trans (a b c : bytes) : subseq a b -> subseq b c -> subseq a c.
Proof.
  intros Hab Hbc. revert a Hab. induction Hbc as [|x b c Hbc IH|x b c Hbc IH]; intros a Hab.
  - exact Hab.
  - inversion Hab as [|y a' b' Hab'|y a' b' Hab']; subst.
    + constructor. apply IH. exact Hab'.
    + apply subseq_skip. apply IH. exact Hab'.
  - apply subseq_skip. apply IH. exact Hab.
Qed.

Lemma subseq_skipn (n : nat) (l : bytes) : subseq (skipn n l) l.
Proof. rewrite <- (firstn_skipn n l) at 2. apply subseq_app_r. Qed.

Lemma subseq_firstn (n : nat) (l : bytes) : subseq (firstn n l) l.
Proof. rewrite <- (firstn_skipn n l) at 2. apply subseq_app_l. Qed.

Lemma subseq_length (a b : bytes) : subseq a b -> (length a <= length b)%nat.
Proof. induction 1; cbn [length]; lia. Qed.

(* ================================================================================================
   decimal printing / parsing *)

Lemma parse_digits_app (s t : bytes) (a : N) :
  parse_digits (s ++ t) a =
  match parse_digits s a with Some a' => parse_digits t a' | None => None end.
Proof.
  revert a; induction s as [|x s IH]; intros a; cbn [app parse_digits]; [reflexivity|].
  destruct (digit_of x); [apply IH|reflexivity].
Qed.

Lemma digit_of_small (n : N) : n < 10 -> digit_of (48 + n) = Some n.
Proof.
  intros H. unfold digit_of.
  destruct ((48 <=? 48 + n) && (48 + n <=? 57)) eqn:E; [f_equal; lia|lia].
Qed.

Lemma is_digit_small (n : N) : n < 10 -> is_digit (48 + n) = true.
Proof. intros H. unfold is_digit. lia. Qed.

Lemma print_dec_fuel_spec : forall (fuel : nat) (n : N) (acc : bytes),
  fuel <> 0%nat -> n < 2 ^ N.of_nat fuel ->
  exists ds, print_dec_fuel fuel n acc = ds ++ acc /\
             parse_digits ds 0 = Some n /\
             Forall (fun b => is_digit b = true) ds /\
             ds <> [] /\
             (0 < n -> exists d t, ds = d :: t /\ d <> 48).
Proof.
  induction fuel as [|f IH]; intros n acc Hf Hn; [congruence|].
  pose proof (N.div_mod' n 10) as Hdm.
  pose proof (N.mod_lt n 10 ltac:(lia)) as Hml.
  cbn [print_dec_fuel]. cbv zeta.
  destruct (n <? 10) eqn:E.
  - assert (Hn10 : n < 10) by lia.
    exists [48 + n mod 10]. rewrite (N.mod_small n 10 Hn10).
    split; [reflexivity|]. split.
    { cbn [parse_digits]. rewrite (digit_of_small n Hn10). f_equal. }
    split. { constructor; [apply is_digit_small; exact Hn10|constructor]. }
    split. { discriminate. }
    intros Hpos. exists (48 + n), []. split; [reflexivity|lia].
  - assert (Hn10 : 10 <= n) by lia.
    rewrite Nat2N.inj_succ, N.pow_succ_r' in Hn.
    assert (Hf0 : f <> 0%nat).
    { intros ->. cbn in Hn. lia. }
    assert (Hq : n / 10 < 2 ^ N.of_nat f) by lia.
    destruct (IH (n / 10) ((48 + n mod 10) :: acc) Hf0 Hq) as (ds & Heq & Hparse & Hall & Hne & Hlead).
    exists (ds ++ [48 + n mod 10]). split.
    { rewrite Heq, <- app_assoc. reflexivity. }
    split.
    { rewrite parse_digits_app, Hparse. cbn [parse_digits].
      rewrite (digit_of_small _ Hml). f_equal. lia. }
    split.
    { apply Forall_app. split; [exact Hall|].
      constructor; [apply is_digit_small; exact Hml|constructor]. }
    split.
    { intros Habs. apply app_eq_nil in Habs. destruct Habs as [_ Habs]. discriminate. }
    intros _. destruct Hlead as (d & t & -> & Hd); [lia|].
    exists d, (t ++ [48 + n mod 10]). split; [reflexivity|exact Hd].
Qed.

Lemma print_dec_spec (n : N) :
  exists ds, print_dec n = ds /\
             parse_digits ds 0 = Some n /\
             Forall (fun b => is_digit b = true) ds /\
             ds <> [] /\
             (0 < n -> exists d t, ds = d :: t /\ d <> 48).
Proof.
  unfold print_dec.
  destruct (print_dec_fuel_spec (S (N.to_nat (N.log2 n))) n []) as (ds & Heq & H).
  - discriminate.
  - rewrite Nat2N.inj_succ, N2Nat.id.
    destruct (N.eq_dec n 0) as [->|Hnz]; [reflexivity|].
    apply N.log2_spec. lia.
  - exists ds. rewrite Heq, app_nil_r. split; [reflexivity|exact H].
Qed.

Theorem print_dec_digits :
  forall n, Forall (fun b => is_digit b = true) (print_dec n) /\ print_dec n <> [].
Proof.
  intros n. destruct (print_dec_spec n) as (ds & -> & _ & Hall & Hne & _). split; assumption.
Qed.

Theorem parse_print_dec : forall n, parse_dec (print_dec n) = Some n.
Proof.
  intros n. destruct (print_dec_spec n) as (ds & -> & Hparse & _ & Hne & _).
  unfold parse_dec. destruct ds as [|d t]; [congruence|exact Hparse].
Qed.

Theorem print_dec_no_leading_zero :
  forall n, 0 < n -> exists d t, print_dec n = d :: t /\ d <> 48.
Proof.
  intros n Hn. destruct (print_dec_spec n) as (ds & -> & _ & _ & _ & Hlead). exact (Hlead Hn).
Qed.

Lemma print_dec_fuel_length : forall (fuel : nat) (n : N) (acc : bytes) (k : nat),
  n < 10 ^ N.of_nat (S k) ->
  (length (print_dec_fuel fuel n acc) <= S k + length acc)%nat.
Proof.
  induction fuel as [|f IH]; intros n acc k Hn; cbn [print_dec_fuel]; [lia|].
  cbv zeta. destruct (n <? 10) eqn:E; [cbn [length]; lia|].
  destruct k as [|k].
  - cbn in Hn. lia.
  - pose proof (N.div_mod' n 10) as Hdm.
    pose proof (N.mod_lt n 10 ltac:(lia)) as Hml.
    rewrite Nat2N.inj_succ, N.pow_succ_r' in Hn.
    assert (Hq : n / 10 < 10 ^ N.of_nat (S k)) by lia.
    specialize (IH (n / 10) ((48 + n mod 10) :: acc) k Hq). cbn [length] in IH. lia.
Qed.

Theorem print_dec_length_le : forall n, n <= 4294967295 -> (length (print_dec n) <= 10)%nat.
Proof.
  intros n Hn. unfold print_dec.
  pose proof (print_dec_fuel_length (S (N.to_nat (N.log2 n))) n [] 9) as H.
  cbn [length] in H. rewrite Nat.add_0_r in H. apply H.
  change (10 ^ N.of_nat 10) with 10000000000. lia.
Qed.

Lemma is_digit_range (b : N) : is_digit b = true -> 48 <= b <= 57.
Proof. unfold is_digit. lia. Qed.

Theorem go_atoi_print_dec : forall n, n <= 4294967295 -> go_atoi (print_dec n) = Some (Z.of_N n).
Proof.
  intros n Hn. pose proof (parse_print_dec n) as Hparse.
  destruct (print_dec_digits n) as [Hall Hne].
  destruct (print_dec n) as [|d t] eqn:E; [congruence|].
  inversion Hall as [|? ? Hd _]; subst. apply is_digit_range in Hd.
  unfold go_atoi.
  destruct (d =? 45) eqn:E45; [lia|]. destruct (d =? 43) eqn:E43; [lia|].
  rewrite Hparse. unfold max_int64.
  destruct (n <=? 9223372036854775807) eqn:Ele; [reflexivity|lia].
Qed.

(* digits are never LF, '#', '-' ... *)
Lemma print_dec_not_in (b : N) (n : N) : ~ (48 <= b <= 57) -> ~ In b (print_dec n).
Proof.
  intros Hb Hin. destruct (print_dec_digits n) as [Hall _].
  rewrite Forall_forall in Hall. apply Hall in Hin. apply is_digit_range in Hin. lia.
Qed.

(* ================================================================================================
   Go TrimSpace *)

Section TrimGen.
  Variable cands : list bytes.

  Fixpoint trimgen (fuel : nat) (s : bytes) : bytes :=
    match fuel with
    | O => s
    | S f =>
        match s with
        | [] => []
        | x :: t =>
            if ascii_space x then trimgen f t
            else match first_prefix_of cands s with
                 | Some c => trimgen f (skipn (length c) s)
                 | None => s
                 end
        end
    end.

  Lemma trimgen_suffix : forall f s, exists q, s = q ++ trimgen f s.
  Proof.
    induction f as [|f IH]; intros s; [exists []; reflexivity|].
    destruct s as [|x t]; [exists []; reflexivity|]. cbn [trimgen].
    destruct (ascii_space x) eqn:Ex.
    - destruct (IH t) as [q Hq]. exists (x :: q). cbn [app]. rewrite <- Hq. reflexivity.
    - destruct (first_prefix_of cands (x :: t)) as [c|] eqn:Ec; [|exists []; reflexivity].
      destruct (IH (skipn (length c) (x :: t))) as [q Hq].
      exists (firstn (length c) (x :: t) ++ q). rewrite <- app_assoc, <- Hq.
      symmetry. apply firstn_skipn.
  Qed.

  Lemma trimgen_ws : forall pre f x rest,
    Forall (fun b => ascii_space b = true) pre -> (length pre < f)%nat ->
    ascii_space x = false -> first_prefix_of cands (x :: rest) = None ->
    trimgen f (pre ++ x :: rest) = x :: rest.
  Proof.
    induction pre as [|p pre IH]; intros f x rest Hws Hlen Hx Hnone.
    - destruct f as [|f]; [cbn in Hlen; lia|]. cbn [app trimgen]. rewrite Hx, Hnone. reflexivity.
    - destruct f as [|f]; [cbn in Hlen; lia|]. cbn [length] in Hlen.
      inversion Hws as [|? ? Hp Hws']; subst. cbn [app trimgen]. rewrite Hp.
      apply IH; [exact Hws'|lia|exact Hx|exact Hnone].
  Qed.

  Lemma trimgen_sentinel (y : N) :
    ascii_space y = false -> (forall c, In c cands -> ~ In y c) ->
    forall f u, exists q u', u = q ++ u' /\ trimgen f (u ++ [y]) = u' ++ [y].
  Proof.
    intros Hy Hc. induction f as [|f IH]; intros u; [exists [], u; split; reflexivity|].
    destruct u as [|x t].
    - cbn [app trimgen]. rewrite Hy.
      destruct (first_prefix_of cands [y]) as [c|] eqn:Ec;
        [|exists [], []; split; reflexivity].
      apply first_prefix_of_some in Ec. destruct Ec as [Hin Hp].
      destruct (is_prefix_sentinel c [] y Hp (Hc c Hin)) as [t Ht].
      symmetry in Ht. apply app_eq_nil in Ht. destruct Ht as [-> _]. cbn [length skipn].
      exact (IH []).
    - cbn [app trimgen]. destruct (ascii_space x) eqn:Ex.
      + destruct (IH t) as (q & u' & Hq & Hr). exists (x :: q), u'. split; [|exact Hr].
        cbn [app]. rewrite <- Hq. reflexivity.
      + destruct (first_prefix_of cands (x :: t ++ [y])) as [c|] eqn:Ec;
          [|exists [], (x :: t); split; reflexivity].
        apply first_prefix_of_some in Ec. destruct Ec as [Hin Hp].
        destruct (is_prefix_sentinel c (x :: t) y Hp (Hc c Hin)) as [t' Ht'].
        change (x :: t ++ [y]) with ((x :: t) ++ [y]). rewrite Ht', <- app_assoc, skipn_len_app.
        destruct (IH t') as (q & u' & Hq & Hr). exists (c ++ q), u'. split; [|exact Hr].
        rewrite <- app_assoc, <- Hq. reflexivity.
  Qed.
End TrimGen.

Lemma go_trim_left_fuel_gen : forall f s, go_trim_left_fuel f s = trimgen uni_space_seqs f s.
Proof.
  induction f as [|f IH]; intros s; [reflexivity|].
  destruct s as [|x t]; [reflexivity|]. cbn [go_trim_left_fuel trimgen].
  rewrite !IH. reflexivity.
Qed.

Lemma go_trim_leftr_fuel_gen :
  forall f s, go_trim_leftr_fuel f s = trimgen (map (@frev N) uni_space_seqs) f s.
Proof.
  induction f as [|f IH]; intros s; [reflexivity|].
  destruct s as [|x t]; [reflexivity|]. cbn [go_trim_leftr_fuel trimgen].
  rewrite !IH. reflexivity.
Qed.

Definition ws (s : bytes) : Prop := Forall (fun b => ascii_space b = true) s.

Lemma ws_app (a b : bytes) : ws a -> ws b -> ws (a ++ b).
Proof. intros Ha Hb. apply Forall_app. split; assumption. Qed.

Lemma ws_rev (a : bytes) : ws a -> ws (rev a).
Proof. apply Forall_rev. Qed.

Lemma ws_lf : ws [10].
Proof. constructor; [reflexivity|constructor]. Qed.

(* TrimLeft / TrimRight only ever remove a prefix / suffix *)
Lemma go_trim_left_suffix (s : bytes) : exists q, s = q ++ go_trim_left s.
Proof. unfold go_trim_left. rewrite go_trim_left_fuel_gen. apply trimgen_suffix. Qed.

Lemma go_trim_right_prefix (s : bytes) : exists q, s = go_trim_right s ++ q.
Proof.
  unfold go_trim_right. rewrite go_trim_leftr_fuel_gen.
  destruct (trimgen_suffix (map (@frev N) uni_space_seqs) (length s) (frev s)) as [q Hq].
  set (T := trimgen _ _ _) in *.
  exists (rev q). rewrite (frev_rev _ T), <- rev_app_distr, <- Hq, frev_rev, rev_involutive.
  reflexivity.
Qed.

Lemma go_trim_left_subseq (s : bytes) : subseq (go_trim_left s) s.
Proof. destruct (go_trim_left_suffix s) as [q Hq]. rewrite Hq at 2. apply subseq_app_r. Qed.

Lemma go_trim_right_subseq (s : bytes) : subseq (go_trim_right s) s.
Proof. destruct (go_trim_right_prefix s) as [q Hq]. rewrite Hq at 2. apply subseq_app_l. Qed.

Lemma go_trim_space_subseq (s : bytes) : subseq (go_trim_space s) s.
Proof.
  unfold go_trim_space. eapply subseq_trans; [apply go_trim_right_subseq|apply go_trim_left_subseq].
Qed.

(* general form: leading ASCII whitespace is removed up to a byte that starts no space sequence *)
Lemma go_trim_left_ws (pre : bytes) (x : N) (rest : bytes) :
  ws pre -> ascii_space x = false -> first_prefix_of uni_space_seqs (x :: rest) = None ->
  go_trim_left (pre ++ x :: rest) = x :: rest.
Proof.
  intros Hws Hx Hnone. unfold go_trim_left. rewrite go_trim_left_fuel_gen.
  apply trimgen_ws; [exact Hws| |exact Hx|exact Hnone].
  rewrite app_length. cbn [length]. lia.
Qed.

Lemma go_trim_right_ws (u : bytes) (y : N) (post : bytes) :
  ws post -> ascii_space y = false ->
  first_prefix_of (map (@frev N) uni_space_seqs) (y :: rev u) = None ->
  go_trim_right (u ++ y :: post) = u ++ [y].
Proof.
  intros Hws Hy Hnone. unfold go_trim_right. rewrite go_trim_leftr_fuel_gen.
  rewrite (frev_rev _ (u ++ y :: post)), rev_app_distr. cbn [rev]. rewrite <- app_assoc. cbn [app].
  rewrite trimgen_ws; [|apply ws_rev; exact Hws| |exact Hy|exact Hnone].
  - rewrite frev_rev. cbn [rev]. rewrite rev_involutive. reflexivity.
  - rewrite rev_length, app_length. cbn [length]. lia.
Qed.

(* specialisations to '#' (35): it is not whitespace, starts no Unicode space sequence and ends
   none *)
Lemma go_trim_left_ws_hash (pre rest : bytes) :
  ws pre -> go_trim_left (pre ++ 35 :: rest) = 35 :: rest.
Proof. intros Hws. apply go_trim_left_ws; [exact Hws|reflexivity|reflexivity]. Qed.

Lemma go_trim_right_ws_hash (u post : bytes) :
  ws post -> go_trim_right (u ++ 35 :: post) = u ++ [35].
Proof. intros Hws. apply go_trim_right_ws; [exact Hws|reflexivity|reflexivity]. Qed.

Theorem go_trim_space_hash (pre mid post : bytes) :
  ws pre -> ws post ->
  go_trim_space (pre ++ 35 :: mid ++ [35] ++ post) = 35 :: mid ++ [35].
Proof.
  intros Hpre Hpost. unfold go_trim_space. rewrite go_trim_left_ws_hash by exact Hpre.
  change (35 :: mid ++ [35] ++ post) with ((35 :: mid) ++ 35 :: post).
  rewrite go_trim_right_ws_hash by exact Hpost. reflexivity.
Qed.

(* TrimRight never removes a leading '#' (whatever follows it) *)
Lemma revseqs_no_hash : forall c, In c (map (@frev N) uni_space_seqs) -> ~ In 35 c.
Proof.
  assert (H : forallb (fun c => negb (mem_byte 35 c)) (map (@frev N) uni_space_seqs) = true)
    by reflexivity.
  rewrite forallb_forall in H. intros c Hin Hc. specialize (H c Hin).
  apply negb_true_iff in H.
  assert (Hm : forall l, In 35 l -> mem_byte 35 l = true).
  { induction l as [|a l IH]; cbn [In mem_byte]; [tauto|].
    intros [->|Hl]; [reflexivity|]. rewrite (IH Hl). apply orb_true_r. }
  rewrite (Hm c Hc) in H. discriminate.
Qed.

Lemma go_trim_right_keeps_hash (X : bytes) :
  exists X' q, go_trim_right (35 :: X) = 35 :: X' /\ X = X' ++ q.
Proof.
  unfold go_trim_right. rewrite go_trim_leftr_fuel_gen.
  rewrite (frev_rev _ (35 :: X)). cbn [rev].
  destruct (trimgen_sentinel (map (@frev N) uni_space_seqs) 35 eq_refl revseqs_no_hash
              (length (35 :: X)) (rev X)) as (q & u' & Hq & Hr).
  rewrite Hr. exists (rev u'), (rev q). split.
  - rewrite frev_rev, rev_app_distr. reflexivity.
  - rewrite <- rev_app_distr, <- Hq, rev_involutive. reflexivity.
Qed.

(* ================================================================================================
   non-vacuity *)
Example print_dec_ex : print_dec 4294967295 = bs "4294967295". Proof. vm_compute. reflexivity. Qed.
Example print_dec_0 : print_dec 0 = bs "0". Proof. vm_compute. reflexivity. Qed.
Example trim_ex : go_trim_space (bs "  #ab#  ") = bs "#ab#". Proof. vm_compute. reflexivity. Qed.
Example trim_nbsp_ex : go_trim_space ([194; 160] ++ bs "#ab#" ++ [226; 128; 168; 10]) = bs "#ab#".
Proof. vm_compute. reflexivity. Qed.

Print Assumptions frev_rev.
Print Assumptions print_dec_digits.
Print Assumptions parse_print_dec.
Print Assumptions print_dec_no_leading_zero.
Print Assumptions print_dec_length_le.
Print Assumptions go_atoi_print_dec.
Print Assumptions go_trim_space_hash.
Print Assumptions go_trim_right_keeps_hash.
Print Assumptions go_trim_space_subseq.
Print Assumptions contains_true_iff.
