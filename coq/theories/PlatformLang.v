(* PlatformLang.v — C17: "each level's canonical prompt matches that level's pattern and the joined
   prompt pattern", stated against the DECLARATIVE semantics of the patterns (RegexLemmas.matches),
   not merely against the answer of the backtracking engine: by RegexLemmas.rx_match_sound the
   engine's `true` (evaluated on the regenerated definitions, PlatformLemmas.all_platforms_wf) is
   a real match of the pattern's language somewhere in the prompt. *)
From Scrapli Require Import Bytes Regex RegexLemmas PlatformTypes Generated Channel Network Platform PlatformLemmas.
From Coq Require Import List Bool Arith.
Import ListNotations.

Definition prompts_of (pd : platform_def) : list (bytes * bytes) :=
  match lookup_bytes (pd_file pd) platform_prompts with Some l => l | None => [] end.

(* somewhere in s, the pattern's language has a match *)
Definition in_language (r : re) (s : bytes) : Prop :=
  exists st n, (st <= length s)%nat /\ matches r (last_byte_before st s) (skipn st s) n.

Theorem canonical_prompts_in_language : forall pd,
  In pd real_platforms -> pf_driver_type (pd_default pd) = bs "network" ->
  forall kl, In kl (pf_levels (pd_default pd)) ->
  exists pr, lookup_bytes (fst kl) (prompts_of pd) = Some pr /\
             in_language (lv_pattern (snd kl)) pr /\ in_language (pd_joined pd) pr.
Proof.
  intros pd Hin Hnet kl Hkl.
  pose proof (proj1 (forallb_forall platform_wf real_platforms) all_platforms_wf pd Hin) as W.
  unfold platform_wf in W. rewrite Hnet in W.
  change (beqb (bs "network") (bs "generic")) with false in W.
  change (beqb (bs "network") (bs "network")) with true in W. cbv iota in W.
  repeat (apply andb_true_iff in W; destruct W as [W ?]).
  match goal with
  | H : forallb (level_prompt_ok _ _ _) _ = true |- _ =>
      pose proof (proj1 (forallb_forall _ _) H kl Hkl) as L
  end.
  unfold level_prompt_ok in L. fold (prompts_of pd) in L.
  destruct (lookup_bytes (fst kl) (prompts_of pd)) as [pr|] eqn:E; [|discriminate].
  repeat (apply andb_true_iff in L; destruct L as [L ?]).
  exists pr. split; [reflexivity|]. split.
  - apply rx_match_sound. exact L.
  - apply rx_match_sound. assumption.
Qed.

(* not vacuous: there are network platforms with levels *)
Example some_network_platform :
  existsb (fun pd => beqb (pf_driver_type (pd_default pd)) (bs "network")
                     && Nat.ltb 2 (length (pf_levels (pd_default pd)))) real_platforms = true.
Proof. vm_compute. reflexivity. Qed.
