(* CallbackSrc.v — generic.Driver.executeCallback as the source has it on this run takes the
   decisions of the model's Channel.cb_loop when a callback fires (C18): a once-callback that has
   already run ends the operation with the operation error and is not run; otherwise it is marked
   (once), run with the output accumulated since the last reset, and then either ends the operation
   returning the whole dialogue (complete) or the scan goes on — with the accumulated output dropped
   exactly when reset-output is set, the whole dialogue kept, and the callback's next-timeout in
   force exactly when it has one. *)
From Scrapli Require Import Bytes Regex PlatformTypes Generated Channel DecideLang GeneratedSkel.
From Coq Require Import String List Bool NArith.
Import ListNotations.
Open Scope string_scope.

Definition xc_env (once triggered has_fn fn_ok complete reset has_nt : bool) : denv :=
  mkEnvX (fun _ => false)
         (fun a b => (String.eqb a "cb.Callback" && String.eqb b "nil" && negb has_fn)
                     || (String.eqb a "cb.NextTimeout" && String.eqb b "0" && negb has_nt))
         (fun _ => "")
         (fun a => if String.eqb a "cb.Once" then Some once
                   else if String.eqb a "cb.triggered" then Some triggered
                   else if String.eqb a "cb.Complete" then Some complete
                   else if String.eqb a "cb.ResetOutput" then Some reset
                   else None)
         (fun st a b => if String.eqb a "err" && String.eqb b "nil" then
                          match sget st "err" with
                          | Some "cb.Callback(d, string(b))" => Some (Some fn_ok)
                          | _ => Some None
                          end
                        else None)
         (fun _ => O) (fun _ _ => None).

(* what a run does *)
Inductive xc_out :=
| XOnceError                                             (* operation error, nothing else done *)
| XFnError (marked : bool)                               (* the user's function failed *)
| XComplete (marked invoked : bool)                      (* returns fb *)
| XRecurse (marked invoked b_reset own_timeout : bool)   (* handleCallbacks(callbacks, b, fb, nt) *)
| XBad.

Definition xc_run (once triggered has_fn fn_ok complete reset has_nt : bool) : xc_out :=
  match DecideLang.exec 30 (xc_env once triggered has_fn fn_ok complete reset has_nt) execute_callback_code [] with
  | Returned st v =>
      let marked := match sget st "cb.triggered" with Some "true" => true | _ => false end in
      let invoked := match sget st "err" with Some "cb.Callback(d, string(b))" => true | _ => false end in
      let fired_this := match sget st "cb" with Some "callbacks[i]" => true | _ => false end in
      if negb fired_this then XBad
      else if String.eqb v "nil, fmt.Errorf( ""%w: callback once set, and callback already triggered"", util.ErrOperationError, )"
           then (if marked || invoked then XBad else XOnceError)
      else if String.eqb v "nil, err" then (if invoked then XFnError marked else XBad)
      else if String.eqb v "fb, nil" then XComplete marked invoked
      else if String.eqb v "d.handleCallbacks(callbacks, b, fb, nt)" then
        match sget st "nt" with
        | Some "t" => XRecurse marked invoked (match sget st "b" with Some "nil" => true | None => false | _ => false end) false
        | Some "cb.NextTimeout" => XRecurse marked invoked (match sget st "b" with Some "nil" => true | _ => false end) true
        | _ => XBad
        end
      else XBad
  | _ => XBad
  end.

Definition xc_expected (once triggered has_fn fn_ok complete reset has_nt : bool) : xc_out :=
  if once && triggered then XOnceError
  else if has_fn && negb fn_ok then XFnError once
  else if complete then XComplete once has_fn
  else XRecurse once has_fn reset has_nt.

Definition all_bool : list bool := [true; false].
Definition xc_table_ok : bool :=
  forallb (fun a => forallb (fun b => forallb (fun c => forallb (fun d => forallb (fun e => forallb (fun f => forallb (fun g =>
    match xc_run a b c d e f g, xc_expected a b c d e f g with
    | XOnceError, XOnceError => true
    | XFnError m, XFnError m' => Bool.eqb m m'
    | XComplete m i, XComplete m' i' => Bool.eqb m m' && Bool.eqb i i'
    | XRecurse m i r t, XRecurse m' i' r' t' => Bool.eqb m m' && Bool.eqb i i' && Bool.eqb r r' && Bool.eqb t t'
    | _, _ => false
    end) all_bool) all_bool) all_bool) all_bool) all_bool) all_bool) all_bool.

(* the model's step when callback i fires, in the same terms: [fired] holds the indices of the
   once-callbacks that have run (the source's cb.triggered) *)
Lemma cb_loop_fire : forall f cfg cbs b fb fired i c,
  first_firing cbs b 0 = Some (i, c) ->
  cb_loop (S f) cfg cbs b fb fired
  = if cb_once c && existsb (Nat.eqb i) fired then Fail EOperation
    else Note TAG_CB (print_dec (N.of_nat i) ++ [58%N] ++ b)%list
           ((match cb_answer c with
             | Some a => fun k => Write a false (Write (c_ret cfg) false k)
             | None => fun k => k
             end)
              (if cb_complete c then Ret fb
               else cb_loop f cfg cbs (if cb_reset c then []%list else b) fb (if cb_once c then (i :: fired)%list else fired))).
Proof. intros f cfg cbs b fb fired i c H. cbn [cb_loop]. rewrite H. reflexivity. Qed.

(* THE TIE: the decision table of the translated source is [xc_expected] (128 runs evaluated); and
   [cb_loop_fire] is the model's step with the same tests: once && already-run -> operation error;
   complete -> the whole dialogue; otherwise the scan goes on with b dropped iff reset *)
Theorem execute_callback_is_source : xc_table_ok = true.
Proof. vm_compute. reflexivity. Qed.

(* ---------- the scan over the callbacks in handleCallbacks: the FIRST one whose check holds ---------- *)
From Scrapli Require Import DecideLemmas.
From Coq Require Import Arith Lia.
Open Scope nat_scope.

Definition scan_env (checks : list bool) : denv :=
  mkEnvX (fun _ => false) (fun _ _ => false) (fun _ => "") (fun _ => None) (fun _ _ _ => None)
         (fun x => if String.eqb x "callbacks" then List.length checks else O)
         (fun st a => if String.eqb a "cb.check(b)" then
                        match sget st "i", sget st "cb" with
                        | Some "index of cb", Some u => match nth_error checks (String.length u) with
                                                        | Some c => Some (Some c)
                                                        | None => Some None
                                                        end
                        | _, _ => Some None
                        end
                      else None).

(* Some (Some i): callback i's result was sent (i, callbacks, b, fb) and the scan ended; Some None: nobody fired *)
Definition scan_run (checks : list bool) : option (option nat) :=
  match DecideLang.exec 12 (scan_env checks) [callback_scan_code] [] with
  | Returned st "" =>
      match st with
      | (("!call", "c <- &callbackResult{ i: i, callbacks: callbacks, b: b, fb: fb, err: nil, }") :: ("i", "index of cb") :: ("cb", u) :: _)%list =>
          Some (Some (String.length u))
      | _ => None
      end
  | Running _ => Some None
  | _ => None
  end.

Fixpoint first_true (l : list bool) (i : nat) : option nat :=
  match l with []%list => None | (true :: _)%list => Some i | (false :: t)%list => first_true t (S i) end.

Definition scan_body : list dstmt :=
  [DAssign "i" "index of cb";
   DIf (DAtom "cb.check(b)") [DCall "c <- &callbackResult{ i: i, callbacks: callbacks, b: b, fb: fb, err: nil, }"; DReturn ""] []].

Lemma scan_loop : forall rest pre st,
  match first_true rest (List.length pre) with
  | Some j => exists st0,
      range_loop (DecideLang.exec 11 (scan_env (pre ++ rest)) scan_body) "cb" (List.length rest) (List.length pre) st
      = Returned (("!call", "c <- &callbackResult{ i: i, callbacks: callbacks, b: b, fb: fb, err: nil, }") :: ("i", "index of cb") :: ("cb", unary j) :: st0)%list ""
  | None => exists st', range_loop (DecideLang.exec 11 (scan_env (pre ++ rest)) scan_body) "cb" (List.length rest) (List.length pre) st = Running st'
  end.
Proof.
  induction rest as [|c t IH]; intros pre st.
  - cbn [first_true List.length range_loop]. eexists; reflexivity.
  - cbn [List.length range_loop].
    assert (Hb : DecideLang.exec 11 (scan_env (pre ++ c :: t)) scan_body (("cb", unary (List.length pre)) :: st)%list
                 = if c then Returned (("!call", "c <- &callbackResult{ i: i, callbacks: callbacks, b: b, fb: fb, err: nil, }") :: ("i", "index of cb") :: ("cb", unary (List.length pre)) :: st)%list ""
                   else Running (("i", "index of cb") :: ("cb", unary (List.length pre)) :: st)%list).
    { unfold scan_body. rewrite exec_step_assign, exec_step_if.
      replace (eval (scan_env (pre ++ c :: t)) (("i", "index of cb") :: ("cb", unary (List.length pre)) :: st)%list (DAtom "cb.check(b)"))
        with (Some c).
      2:{ cbn [eval scan_env e_atoms e_atom String.eqb Ascii.eqb Bool.eqb sget fst snd].
          rewrite unary_length, nth_error_app2, Nat.sub_diag by lia. reflexivity. }
      destruct c.
      - rewrite exec_step_call, exec_step_return. reflexivity.
      - rewrite exec_step_nil. cbn [cont]. rewrite exec_step_nil. reflexivity. }
    rewrite Hb. destruct c; cbn [first_true].
    + eexists; reflexivity.
    + specialize (IH (pre ++ [false])%list (("i", "index of cb") :: ("cb", unary (List.length pre)) :: st)%list).
      rewrite <- app_assoc, app_length in IH. cbn [app List.length] in IH. rewrite Nat.add_1_r in IH. exact IH.
Qed.

(* THE TIE: for every list of check outcomes the scan reports the FIRST callback in list order whose
   check holds, and none when no check holds; [first_firing_first_true]: so does the model *)
Theorem callback_scan_is_source : forall checks, scan_run checks = Some (first_true checks 0).
Proof.
  intros checks. unfold scan_run, callback_scan_code. fold scan_body.
  rewrite exec_step_range.
  replace (e_len (scan_env checks) "callbacks") with (List.length checks) by reflexivity.
  pose proof (scan_loop checks []%list []%list) as HL. cbn [app List.length] in HL.
  destruct (first_true checks 0) as [j|].
  - destruct HL as [st0 ->]. cbn [cont]. now rewrite unary_length.
  - destruct HL as [st' ->]. cbn [cont]. rewrite exec_step_nil. reflexivity.
Qed.

Lemma first_firing_first_true : forall cbs b i,
  option_map fst (first_firing cbs b i) = first_true (map (fun c => cb_check c b) cbs) i.
Proof.
  induction cbs as [|c t IH]; intros b i; [reflexivity|].
  cbn [first_firing map first_true]. destruct (cb_check c b); [reflexivity | apply IH].
Qed.

(* every test the translated code makes is one the environment above was written for (an unknown
   equality would otherwise evaluate to false without notice) *)
Definition execute_callback_known : list string := "cb.Once" :: "cb.triggered" :: "cb.Callback == nil" :: "err == nil" :: "cb.Complete" :: "cb.ResetOutput" :: "cb.NextTimeout == 0" :: nil.
Lemma execute_callback_tests_known : tests_known execute_callback_code execute_callback_known = true.
Proof. vm_compute. reflexivity. Qed.
