(* RpcSrc.v — netconf Driver.sendRPC as the source has it on this run (C03 writes, C05 timeout,
   C06 loss, C08 own reply): what is written and in which order, and how the call ends, for every
   combination of what can happen in it. *)
From Scrapli Require Import Bytes Regex PlatformTypes Generated Netconf DecideLang GeneratedSkel.
From Coq Require Import String List Bool.
Import ListNotations.
Open Scope string_scope.

Inductive sel := SelErrs | SelTimer | SelDone.

Definition rpc_env (ser_ok w1_ok v11 w2_ok : bool) (s : sel) : denv :=
  mkEnvX (fun _ => false)
         (fun a b => String.eqb a "d.SelectedVersion" && String.eqb b "V1Dot1" && v11)
         (fun f => if String.eqb f "select" then
                     match s with SelErrs => "err = <-d.errs" | SelTimer => "<-timer.C" | SelDone => "data := <-done" end
                   else "")
         (fun a => if String.eqb a "d.ForceSelfClosingTags" then Some false else None)
         (fun st a b =>
            if String.eqb a "err" && String.eqb b "nil" then
              match st with
              | ("!call", "m.serialize(d.SelectedVersion, d.ForceSelfClosingTags, d.ExcludeHeader)") :: _ => Some (Some ser_ok)
              | ("err", "d.Channel.WriteAndReturn(serialized.framedXML, false)") :: _ => Some (Some w1_ok)
              | ("err", "d.Channel.WriteReturn()") :: _ => Some (Some w2_ok)
              | _ => Some None
              end
            else None)
         (fun _ => O) (fun _ _ => None).

Inductive rpc_out :=
| RSerErr | RWriteErr (second : bool)
| RLost                       (* the error the read loop forwarded, as it is *)
| RTimeout                    (* the timeout error (wrapping util.ErrTimeoutError) *)
| ROk                         (* the reply taken under THIS message's id is recorded into the response built from the
                                 serialized request; the response is returned *)
| RBadOut.

(* the writes made, in order: true = framed + return (WriteAndReturn), false = a bare return *)
Definition rpc_writes_of (st : store) : list bool :=
  flat_map (fun kv => if String.eqb (fst kv) "err" then
                        if String.eqb (snd kv) "d.Channel.WriteAndReturn(serialized.framedXML, false)" then [true]
                        else if String.eqb (snd kv) "d.Channel.WriteReturn()" then [false] else []
                      else []) (rev st).

Definition poll_text : string :=
  "go func() { defer close(done) var data []byte for { if ctx.Err() != nil { return } data = d.getMessage(m.MessageID) if data != nil { break } time.Sleep(5 * time.Microsecond) } select { case done <- data: case <-ctx.Done(): } }()".

Definition rpc_run (ser_ok w1_ok v11 w2_ok : bool) (s : sel) : rpc_out * list bool :=
  match DecideLang.exec 40 (rpc_env ser_ok w1_ok v11 w2_ok s) send_rpc_code [] with
  | Returned st v =>
      let polled := existsb (String.eqb poll_text) (calls_of st) in
      let resp_ok := match sget st "r" with
                     | Some "response.NewNetconfResponse( serialized.rawXML, serialized.framedXML, d.Transport.GetHost(), d.Transport.GetPort(), d.SelectedVersion, )" => true
                     | _ => false
                     end in
      let out :=
        if String.eqb v "nil, err" then
          match st with
          | ("!call", "m.serialize(d.SelectedVersion, d.ForceSelfClosingTags, d.ExcludeHeader)") :: _ => RSerErr
          | ("err", "d.Channel.WriteAndReturn(serialized.framedXML, false)") :: _ => RWriteErr false
          | ("err", "d.Channel.WriteReturn()") :: _ => RWriteErr true
          | ("timer", _) :: _ => if polled then RLost else RBadOut
          | _ => RBadOut
          end
        else if String.eqb v "nil, fmt.Errorf(""%w: channel timeout sending input to device"", util.ErrTimeoutError)"
             then (if polled then RTimeout else RBadOut)
        else if String.eqb v "r, nil" then
          match st with
          | ("!call", "r.Record(data)") :: _ => if polled && resp_ok then ROk else RBadOut
          | _ => RBadOut
          end
        else RBadOut in
      (out, rpc_writes_of st)
  | _ => (RBadOut, [])
  end.

Definition rpc_expected (ser_ok w1_ok v11 w2_ok : bool) (s : sel) : rpc_out * list bool :=
  if negb ser_ok then (RSerErr, [])
  else if negb w1_ok then (RWriteErr false, [true])
  else if v11 && negb w2_ok then (RWriteErr true, [true; false])
  else (match s with SelErrs => RLost | SelTimer => RTimeout | SelDone => ROk end,
        if v11 then [true; false] else [true]).

Definition rpc_eqb (a b : rpc_out * list bool) : bool :=
  match fst a, fst b with
  | RSerErr, RSerErr | RLost, RLost | RTimeout, RTimeout | ROk, ROk => true
  | RWriteErr x, RWriteErr y => Bool.eqb x y
  | _, _ => false
  end
  && Nat.eqb (List.length (snd a)) (List.length (snd b))
  && forallb (fun p => Bool.eqb (fst p) (snd p)) (combine (snd a) (snd b)).

Definition rpc_table_ok : bool :=
  forallb (fun a => forallb (fun b => forallb (fun c => forallb (fun d => forallb (fun s =>
    rpc_eqb (rpc_run a b c d s) (rpc_expected a b c d s))
    [SelErrs; SelTimer; SelDone]) [true; false]) [true; false]) [true; false]) [true; false].

Definition send_rpc_known : list string :=
  ["d.ForceSelfClosingTags"; "err == nil"; "d.SelectedVersion == V1Dot1"; "switch select"].

(* THE TIE (48 runs): the framed request and a return are written, a second return under 1.1 (the
   model's rpc_writes); a forwarded read-loop error ends the call with that error, the timer with
   the timeout error, and otherwise the reply the polling goroutine took under m.MessageID is
   recorded into the response built from the serialized request *)
Theorem send_rpc_is_source : rpc_table_ok = true /\ tests_known send_rpc_code send_rpc_known = true.
Proof. split; vm_compute; reflexivity. Qed.

Lemma rpc_writes_shape : forall v framed,
  rpc_writes v framed = match v with V10 => [framed; default_return_char] | V11 => [framed; default_return_char; default_return_char] end.
Proof. intros [|] framed; reflexivity. Qed.
