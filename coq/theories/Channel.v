(* Channel.v — the channel layer: read-buffer windowing, fuzzy matching, output post-processing,
   timeouts (pure functions, transcribed from channel/read.go, util/bytes.go, channel/channel.go),
   the operation language [prog] with its interpreter over an explicit event schedule, and the
   programs SendInput / GetPrompt / SendInteractive.  Definitions only. *)
From Scrapli Require Import Bytes Regex PlatformTypes Generated.
Open Scope N_scope.

(* ---------- read.go ---------- *)

Definition search_depth (prompt_search_depth input_len : nat) : nat :=
  let possible := (input_search_depth_multiplier * input_len)%nat in
  if Nat.ltb prompt_search_depth possible then possible else prompt_search_depth.

(* processReadBuf: the last [sd] bytes, cut at the first LF when its index is > 0 *)
Definition process_read_buf (rb : bytes) (sd : nat) : bytes :=
  if Nat.leb (length rb) sd then rb
  else
    let prb := skipn (length rb - sd) rb in
    match index_of [LF] prb with
    | Some (S i) => skipn (S i) prb
    | _ => prb
    end.

(* util.BytesRoughlyContains *)
Fixpoint iter_output_for_char (c : N) (output : bytes) : option bytes :=
  match output with
  | [] => None
  | o :: t => if N.eqb c o then Some t else iter_output_for_char c t
  end.

Fixpoint roughly_loop (input output : bytes) : bool :=
  match input with
  | [] => true
  | c :: rest => match iter_output_for_char c output with
                 | Some out' => roughly_loop rest out'
                 | None => false
                 end
  end.

Definition roughly_contains (input output : bytes) : bool :=
  if contains input output then true
  else if Nat.ltb (length output) (length input) then false
  else roughly_loop input output.

(* ---------- channel.go ---------- *)

Record chan_cfg := mkCfg {
  c_depth : nat;                 (* PromptSearchDepth *)
  c_prompt : re;                 (* PromptPattern *)
  c_ret : bytes;                 (* ReturnChar *)
  c_timeout_ops : Z              (* TimeoutOps in ns (only used by get_timeout) *)
}.

(* processOut *)
Definition process_out (cfg : chan_cfg) (b : bytes) (strip : bool) : bytes :=
  let lines := split_on LF b in
  let b1 := join [LF] (map (trim_right_set [SP]) lines) in
  let b2 := if strip then rx_remove_all (c_prompt cfg) b1 else b1 in
  trim_set [LF] (trim_set (c_ret cfg) b2).

(* GetTimeout: -1 -> connection-wide, 0 -> maximum, else the given one (durations in ns) *)
Definition ns_per_s : Z := 1000000000%Z.
Definition get_timeout (timeout_ops t : Z) : Z :=
  if (t =? -1)%Z then timeout_ops
  else if (t =? 0)%Z then (Z.of_N max_timeout_seconds * ns_per_s)%Z
  else t.

(* reader goroutine: per-chunk normalisation (drop CR; strip ANSI when an ESC is present) *)
Definition drop_cr (b : bytes) : bytes := filter (fun x => negb (x =? CR)) b.
Definition normalize_chunk (b : bytes) : bytes :=
  let b1 := drop_cr b in
  if mem_byte 27 b1 then rx_remove_all rx_ansi_pattern b1 else b1.

(* ---------- callbacks (driver/generic/sendwithcallbacks.go) ---------- *)

Record callback := mkCb {
  cb_contains : bytes; cb_not_contains : bytes; cb_re : option re;
  cb_insensitive : bool; cb_reset : bool; cb_once : bool; cb_complete : bool;
  cb_has_next_timeout : bool;
  cb_answer : option bytes       (* what the user's function does: WriteAndReturn(answer), or nothing *)
}.

(* Callback.check, after the fix of the inverted not-contains test (see KNOWN_FINDINGS):
   contains (lower-cased buffer and needle unless case-sensitive) or regex match, and not
   containing the not-contains text *)
Definition cb_check (c : callback) (b : bytes) : bool :=
  let b' := if cb_insensitive c then to_lower b else b in
  let lower x := if cb_insensitive c then to_lower x else x in
  let blocked := match cb_not_contains c with
                 | [] => false
                 | nc => contains (lower nc) b'
                 end in
  let by_text := match cb_contains c with [] => false | t => contains (lower t) b' end in
  let by_re := match cb_re c with Some r => rx_match r b' | None => false end in
  (by_text && negb blocked) || (by_re && negb blocked).

(* the same with the original (inverted) test, kept to state what was wrong *)
Definition cb_check_unfixed (c : callback) (b : bytes) : bool :=
  let b' := if cb_insensitive c then to_lower b else b in
  let lower x := if cb_insensitive c then to_lower x else x in
  let blocked := match cb_not_contains c with
                 | [] => false
                 | nc => negb (contains (lower nc) b')
                 end in
  let by_text := match cb_contains c with [] => false | t => contains (lower t) b' end in
  let by_re := match cb_re c with Some r => rx_match r b' | None => false end in
  (by_text && negb blocked) || (by_re && negb blocked).

Fixpoint first_firing (cbs : list callback) (b : bytes) (i : nat) : option (nat * callback) :=
  match cbs with
  | [] => None
  | c :: t => if cb_check c b then Some (i, c) else first_firing t b (S i)
  end.

(* ---------- in-channel ssh error messages (channel/auth.go sshMessageHandler) ---------- *)
(* the first clause of the generated switch whose literal occurs in the lower-cased buffer decides;
   the clause with the nested switch ("no matching ...") yields an error only if one of its nested
   literals occurs or the "their offer" pattern matches the original buffer *)
Fixpoint ssh_error_scan (cases : list (list bytes * bool * list bytes)) (lower orig : bytes) : bool :=
  match cases with
  | [] => false
  | (lits, nested, nlits) :: rest =>
      if existsb (fun l => contains l lower) lits then
        if nested then existsb (fun l => contains l lower) nlits || rx_match rx_ssh_offeredOptions orig
        else true
      else ssh_error_scan rest lower orig
  end.
Definition ssh_error (b : bytes) : bool := ssh_error_scan ssh_error_cases (to_lower b) b.

(* ---------- the four ReadUntil conditions ---------- *)

Inductive cond :=
| CFuzzy (input : bytes)
| CExplicit (input : bytes)
| CPrompt
| CAnyPrompt (pats : list re)
| CWholeAny (pats : list re)     (* login loops: patterns on the whole buffer, no window *)
| CCallbacks (cbs : list callback) (prefix : bytes)    (* some callback fires on prefix ++ buffer *)
| CSshAuth (prefix : bytes) (pats : list re).          (* authenticateSSH: an ssh error message or one of the patterns, on prefix ++ buffer (whole) *)

Definition cond_holds (cfg : chan_cfg) (c : cond) (rb : bytes) : bool :=
  match c with
  | CFuzzy input => roughly_contains input (process_read_buf rb (search_depth (c_depth cfg) (length input)))
  | CExplicit input => contains input (process_read_buf rb (search_depth (c_depth cfg) (length input)))
  | CPrompt => rx_match (c_prompt cfg) (process_read_buf rb (c_depth cfg))
  | CAnyPrompt pats => let prb := process_read_buf rb (c_depth cfg) in existsb (fun p => rx_match p prb) pats
  | CWholeAny pats => existsb (fun p => rx_match p rb) pats
  | CCallbacks cbs prefix => match first_firing cbs (prefix ++ rb) 0 with Some _ => true | None => false end
  | CSshAuth prefix pats => ssh_error (prefix ++ rb) || existsb (fun p => rx_match p (prefix ++ rb)) pats
  end.

(* ---------- operation language ---------- *)

Inductive err := ETimeout | EConnection | EAuth | EPrivilege | ETransport | EWrite | EOperation | ENetconf | ENoOp.

Inductive prog (R : Type) : Type :=
| Ret (r : R)
| Fail (e : err)
| Write (b : bytes) (redacted : bool) (k : prog R)
| Until (c : cond) (k : bytes -> prog R) (h : err -> prog R)   (* h: what a deadline / connection loss at this read continues with *)
| Note (tag : N) (data : bytes) (k : prog R)      (* a log line (tag = call site, data = payload) *)
| Requeue (b : bytes) (k : prog R).               (* Q.Requeue: put bytes back at the front of the queue *)
Arguments Ret {R}. Arguments Fail {R}. Arguments Write {R}. Arguments Until {R}. Arguments Note {R}. Arguments Requeue {R}.

Fixpoint bind {A B} (p : prog A) (f : A -> prog B) : prog B :=
  match p with
  | Ret r => f r
  | Fail e => Fail e
  | Write b red k => Write b red (bind k f)
  | Until c k h => Until c (fun rb => bind (k rb) f) (fun e => bind (h e) f)
  | Note t d k => Note t d (bind k f)
  | Requeue b k => Requeue b (bind k f)
  end.

(* error handler: run [h] when [p] fails (used for "implicit privilege change failed") *)
Fixpoint catch {A} (p : prog A) (h : err -> prog A) : prog A :=
  match p with
  | Ret r => Ret r
  | Fail e => h e
  | Write b red k => Write b red (catch k h)
  | Until c k h0 => Until c (fun rb => catch (k rb) h) (fun e => catch (h0 e) h)
  | Note t d k => Note t d (catch k h)
  | Requeue b k => Requeue b (catch k h)
  end.

(* ---------- programs ---------- *)

Record op_opts := mkOpts {
  o_strip : bool; o_eager : bool; o_exact : bool;
  o_interim : list re;             (* InterimPromptPatterns *)
  o_complete : list re             (* CompletePatterns *)
}.
Definition default_opts : op_opts := mkOpts default_strip_prompt default_eager default_exact [] [].

Definition echo_cond (o : op_opts) (input : bytes) : cond :=
  if o_exact o then CExplicit input else CFuzzy input.

(* ReadUntilFuzzy and (since the fix of F30) ReadUntilExplicit return at once for an empty input *)
Definition until_echo {R} (o : op_opts) (input : bytes) (k : bytes -> prog R) : prog R :=
  match input with
  | [] => k []
  | _ => Until (echo_cond o input) k Fail
  end.

(* Channel.SendInputB *)
Definition send_input (cfg : chan_cfg) (input : bytes) (o : op_opts) : prog bytes :=
  Write input false
    (until_echo o input (fun _ =>
       Write (c_ret cfg) false
         (if o_eager o then Ret (process_out cfg [] (o_strip o))
          else
            let c := match o_interim o with
                     | [] => CPrompt
                     | ps => CAnyPrompt (c_prompt cfg :: ps)
                     end in
            Until c (fun nb => Ret (process_out cfg nb (o_strip o))) Fail))).

(* Channel.GetPrompt: write return, read until prompt, Find the prompt in what was read *)
Definition get_prompt (cfg : chan_cfg) : prog bytes :=
  Write (c_ret cfg) false
    (Until CPrompt (fun b => Ret (match rx_find (c_prompt cfg) b with Some p => p | None => [] end)) Fail).

Record ievent := mkEv { ev_input : bytes; ev_response : option re; ev_hidden : bool }.

(* Channel.sendInteractive *)
Fixpoint interactive_loop (cfg : chan_cfg) (o : op_opts) (events : list ievent) (acc : bytes) : prog bytes :=
  match events with
  | [] => Ret (process_out cfg acc false)
  | e :: rest =>
      let prompts := o_complete o ++ [match ev_response e with Some r => r | None => c_prompt cfg end] in
      Write (ev_input e) (ev_hidden e)
        ((match ev_response e, ev_hidden e with
          | Some _, false => fun k => until_echo o (ev_input e) k
          | _, _ => fun k => k []
          end)
           (fun nb =>
              let acc := acc ++ nb in
              Write (c_ret cfg) false
                (Until (CAnyPrompt prompts)
                   (fun pb =>
                      let acc := acc ++ pb in
                      match rest with
                      | [] => Ret (process_out cfg acc false)
                      | _ :: _ =>
                          if existsb (fun p => rx_match p pb) (o_complete o)
                          then Ret (process_out cfg acc false)
                          else interactive_loop cfg o rest acc
                      end) Fail)))
  end.
Definition send_interactive (cfg : chan_cfg) (events : list ievent) (o : op_opts) : prog bytes :=
  interactive_loop cfg o events [].

(* SendWithCallbacks / handleCallbacks / executeCallback.  [b] is the output accumulated since the
   last reset, [fb] the whole dialogue, [fired] the indices of once-callbacks already triggered.
   Each handleCallbacks call scans the callbacks on the current buffer even before new bytes
   arrive (the poll returns nothing and the scan runs anyway), then after every chunk.
   TAG_CB notes record (index, argument) of every callback that ran. *)
Definition TAG_CB : N := 2.
Fixpoint cb_loop (fuel : nat) (cfg : chan_cfg) (cbs : list callback) (b fb : bytes) (fired : list nat) : prog bytes :=
  match fuel with
  | O => Fail EOperation
  | S f =>
      let exec (i : nat) (c : callback) (b fb : bytes) : prog bytes :=
        if cb_once c && existsb (Nat.eqb i) fired then Fail EOperation
        else
          let fired' := if cb_once c then i :: fired else fired in
          Note TAG_CB (print_dec (N.of_nat i) ++ [58] ++ b)
            ((match cb_answer c with
              | Some a => fun k => Write a false (Write (c_ret cfg) false k)
              | None => fun k => k
              end)
               (if cb_complete c then Ret fb
                else cb_loop f cfg cbs (if cb_reset c then [] else b) fb fired')) in
      match first_firing cbs b 0 with
      | Some (i, c) => exec i c b fb
      | None =>
          Until (CCallbacks cbs b)
                (fun rb => match first_firing cbs (b ++ rb) 0 with
                           | Some (i, c) => exec i c (b ++ rb) (fb ++ rb)
                           | None => Fail EOperation      (* unreachable: the condition held *)
                           end) Fail
      end
  end.

Definition send_with_callbacks (cfg : chan_cfg) (input : bytes) (cbs : list callback) : prog bytes :=
  (match input with
   | [] => fun k => k
   | _ => fun k => Write input false (Write (c_ret cfg) false k)
   end) (cb_loop 64 cfg cbs [] [] []).

(* ---------- in-channel authentication (channel/auth.go) and Channel.Open (channel.go) ---------- *)
Record auth_pats := mkAuthPats { ap_user : re; ap_pass : re; ap_passphrase : re }.
Definition default_auth_pats : auth_pats := mkAuthPats rx_username_pattern rx_password_pattern rx_passphrase_pattern.

(* authenticateSSH: after every chunk: error messages, then prompt, password, passphrase — on the
   whole buffer accumulated since the last reset *)
Fixpoint auth_ssh_loop (fuel : nat) (cfg : chan_cfg) (ap : auth_pats) (pw pp : bytes) (b : bytes) (pcount ppcount : nat) : prog bytes :=
  match fuel with
  | O => Fail EOperation
  | S f =>
      Until (CSshAuth b [c_prompt cfg; ap_pass ap; ap_passphrase ap])
            (fun nb =>
               let b := b ++ nb in
               if ssh_error b then Fail EConnection
               else if rx_match (c_prompt cfg) b then Ret b
               else if rx_match (ap_pass ap) b then
                      if Nat.ltb password_seen_max (S pcount) then Fail EAuth
                      else Write pw true (Write (c_ret cfg) false (auth_ssh_loop f cfg ap pw pp [] (S pcount) ppcount))
               else if rx_match (ap_passphrase ap) b then
                      if Nat.ltb passphrase_seen_max (S ppcount) then Fail EAuth
                      else Write pp true (Write (c_ret cfg) false (auth_ssh_loop f cfg ap pw pp [] pcount (S ppcount)))
               else auth_ssh_loop f cfg ap pw pp b pcount ppcount)
            Fail
  end.
Definition auth_fuel : nat := (password_seen_max + passphrase_seen_max + username_seen_max + 6)%nat.
Definition auth_ssh (cfg : chan_cfg) (ap : auth_pats) (pw pp : bytes) : prog bytes :=
  auth_ssh_loop auth_fuel cfg ap pw pp [] 0 0.

(* authenticateTelnet: ReadUntilAnyPrompt (windowed) then the tests on the accumulated buffer *)
Fixpoint auth_telnet_loop (fuel : nat) (cfg : chan_cfg) (ap : auth_pats) (user pw : bytes) (b : bytes) (ucount pcount : nat) : prog bytes :=
  match fuel with
  | O => Fail EOperation
  | S f =>
      Until (CAnyPrompt [c_prompt cfg; ap_user ap; ap_pass ap])
            (fun nb =>
               let b := b ++ nb in
               if rx_match (c_prompt cfg) b then Ret b
               else if rx_match (ap_user ap) b then
                      if Nat.ltb username_seen_max (S ucount) then Fail EAuth
                      else Write user true (Write (c_ret cfg) false (auth_telnet_loop f cfg ap user pw [] (S ucount) pcount))
               else if rx_match (ap_pass ap) b then
                      if Nat.ltb password_seen_max (S pcount) then Fail EAuth
                      else Write pw true (Write (c_ret cfg) false (auth_telnet_loop f cfg ap user pw [] ucount (S pcount)))
               else auth_telnet_loop f cfg ap user pw b ucount pcount)
            Fail
  end.
Definition auth_telnet (cfg : chan_cfg) (ap : auth_pats) (user pw : bytes) : prog bytes :=
  auth_telnet_loop auth_fuel cfg ap user pw [] 0 0.

(* Channel.Open after the transport is up: run the login, put what it read back on the queue *)
Inductive auth_kind := AuthNone | AuthSSH (pw pp : bytes) | AuthTelnet (user pw : bytes).
Definition channel_open (cfg : chan_cfg) (ap : auth_pats) (a : auth_kind) : prog bytes :=
  match a with
  | AuthNone => Ret []
  | AuthSSH pw pp => bind (auth_ssh cfg ap pw pp) (fun b => match b with [] => Ret [] | _ => Requeue b (Ret b) end)
  | AuthTelnet u pw => bind (auth_telnet cfg ap u pw) (fun b => match b with [] => Ret [] | _ => Requeue b (Ret b) end)
  end.

(* ---------- interpreter over an explicit schedule ---------- *)

(* The environment: what the device has emitted and the transport has not yet read ([pending],
   raw device bytes), the queue of normalised chunks, the buffer of the read-until in progress.
   Events:
     Rd n     the reader goroutine obtains min(n, |pending|) >= 1 bytes from the transport,
              normalises them and enqueues them as ONE chunk (never empty chunks);
     Op       the operation goroutine takes one step: performs the Write it is at (the device
              reacts: its emission is appended to [pending]), or dequeues one chunk into the
              buffer of its read-until and tests the condition;
     Deadline the context / timer of the operation in flight fires;
     Eof / Ioerr  the transport reports end-of-stream / a persistent error to the reader.  *)

Inductive ev := Rd (n : nat) | Op | Deadline | Eof | Ioerr.

Inductive rstate := RRun | RExited | RErr.    (* reader: running / exited on EOF / has an error to hand over *)

Section Run.
  Variable D : Type.                       (* device state *)
  Variable feed : D -> bytes -> D * bytes. (* device reaction to written bytes *)
  Variable R : Type.
  Variable cfg : chan_cfg.

  Record sys := mkSys {
    s_dev : D; s_pending : bytes; s_queue : list bytes; s_acc : bytes;
    s_pc : prog R; s_wlog : list (bytes * bool); s_notes : list (N * bytes);
    s_reader : rstate }.

  (* settle log notes (they take no environment step) *)
  Fixpoint skip_notes (p : prog R) (notes : list (N * bytes)) : prog R * list (N * bytes) :=
    match p with
    | Note t d k => skip_notes k (notes ++ [(t, d)])
    | _ => (p, notes)
    end.

  Definition set_pc (s : sys) (p : prog R) : sys :=
    let '(p', n') := skip_notes p (s_notes s) in
    mkSys (s_dev s) (s_pending s) (s_queue s) (s_acc s) p' (s_wlog s) n' (s_reader s).

  Definition step (s : sys) (e : ev) : sys :=
    match e with
    | Rd n =>
        match s_reader s, s_pending s with
        | RRun, _ :: _ =>
            let k := Nat.max 1 n in
            let chunk := normalize_chunk (firstn k (s_pending s)) in
            mkSys (s_dev s) (skipn k (s_pending s))
                  (match chunk with [] => s_queue s | _ => s_queue s ++ [chunk] end)
                  (s_acc s) (s_pc s) (s_wlog s) (s_notes s) (s_reader s)
        | _, _ => s
        end
    | Op =>
        match s_pc s with
        | Write b red k =>
            let '(d', out) := feed (s_dev s) b in
            set_pc (mkSys d' (s_pending s ++ out) (s_queue s) (s_acc s) k (s_wlog s ++ [(b, red)]) (s_notes s) (s_reader s)) k
        | Requeue b k =>
            set_pc (mkSys (s_dev s) (s_pending s) (b :: s_queue s) (s_acc s) k (s_wlog s) (s_notes s) (s_reader s)) k
        | Until c k h =>
            match s_reader s with
            | RErr => set_pc (mkSys (s_dev s) (s_pending s) (s_queue s) [] (h ETransport) (s_wlog s) (s_notes s) RRun) (h ETransport)
            | RExited => set_pc (mkSys (s_dev s) (s_pending s) (s_queue s) [] (h EConnection) (s_wlog s) (s_notes s) RExited) (h EConnection)
            | RRun =>
                match s_queue s with
                | [] => s
                | chunk :: q' =>
                    let rb := s_acc s ++ chunk in
                    if cond_holds cfg c rb
                    then set_pc (mkSys (s_dev s) (s_pending s) q' [] (k rb) (s_wlog s) (s_notes s) RRun) (k rb)
                    else mkSys (s_dev s) (s_pending s) q' rb (s_pc s) (s_wlog s) (s_notes s) RRun
                end
            end
        | _ => s
        end
    | Deadline =>
        match s_pc s with
        | Until _ _ h => set_pc (mkSys (s_dev s) (s_pending s) (s_queue s) [] (h ETimeout) (s_wlog s) (s_notes s) (s_reader s)) (h ETimeout)
        | _ => s
        end
    | Eof => mkSys (s_dev s) (s_pending s) (s_queue s) (s_acc s) (s_pc s) (s_wlog s) (s_notes s) RExited
    | Ioerr => match s_reader s with
               | RRun => mkSys (s_dev s) (s_pending s) (s_queue s) (s_acc s) (s_pc s) (s_wlog s) (s_notes s) RErr
               | _ => s
               end
    end.

  Definition run (sched : list ev) (s : sys) : sys := fold_left step sched s.

  Definition init_sys (d : D) (start : bytes) (p : prog R) : sys :=
    set_pc (mkSys d start [] [] p [] [] RRun) p.

  Definition outcome (s : sys) : option (R + err) :=
    match s_pc s with Ret r => Some (inl r) | Fail e => Some (inr e) | _ => None end.
End Run.

Arguments mkSys {D R}. Arguments s_dev {D R}. Arguments s_pending {D R}. Arguments s_queue {D R}.
Arguments s_acc {D R}. Arguments s_pc {D R}. Arguments s_wlog {D R}. Arguments s_notes {D R}. Arguments s_reader {D R}.
Arguments step {D} feed {R}. Arguments run {D} feed {R}. Arguments init_sys {D R}. Arguments outcome {D R}.
Arguments set_pc {D R}.
