(* OptionsSrcOk.v — the finite evaluation behind C19_options_are_source, kept apart from the
   definitions it evaluates (OptionsSrc.v) so that those still compile — and the diagnosis can still
   run them — when the source no longer passes. *)
From Scrapli Require Import OptionsSrc.

Lemma options_src_ok_true : options_src_ok = true.
Proof. vm_compute. reflexivity. Qed.
