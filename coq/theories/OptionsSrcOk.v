(* OptionsSrcOk.v — the finite evaluation behind C19_options_are_source, kept apart from the
   definitions it evaluates (OptionsSrc.v) so that those still compile — and the diagnosis can still
   run them — when the source no longer passes. *)
From Scrapli Require Import DecideLang GeneratedSkel OptionsSrc.
From Coq Require Import String List.
Open Scope string_scope.

Lemma options_src_ok_true : options_src_ok = true.
Proof. vm_compute. reflexivity. Qed.

(* every test the translated code makes is one the environment above was written for (an unknown
   equality would otherwise evaluate to false without notice) *)
Definition options_known : list string := "switch transportType" :: "switch s" :: "err == nil" :: "ok" :: nil.
Lemma options_tests_known : tests_known (flat_map (fun e => snd e) GeneratedSkel.option_code) options_known = true.
Proof. vm_compute. reflexivity. Qed.
