(* Decide.v — the hand-written models of two decision functions are EQUAL to the interpretation of
   the code translated from the Go source on this run (gen/decide.go -> GeneratedSkel.v):

     driver/netconf/capabilities.go  Driver.determineVersion   vs  Netconf.determine_version   (C09)
     channel/channel.go              Channel.GetTimeout        vs  Channel.get_timeout         (C05)

   Both functions depend on their inputs through finitely many tests only (has base:1.0 / has
   base:1.1 / the preferred version; t == -1 / t == 0), so "for every input" is a case analysis on
   those tests — which the theorems below carry out for ALL capability lists and ALL durations. *)
From Scrapli Require Import Bytes Regex PlatformTypes Generated Channel Netconf DecideLang GeneratedSkel.
From Coq Require Import String List Bool ZArith NArith.
Import ListNotations.
Open Scope string_scope.

(* ---------- determineVersion ---------- *)

Definition pref_name (p : pref) : string :=
  match p with PrefNone => "" | Pref10 => "V1Dot0" | Pref11 => "V1Dot1" | PrefOther => "2.0" end.

Definition dv_env (has10 has11 : bool) (p : pref) : denv :=
  mkEnv (fun c => if String.eqb c "v1Dot1Cap" then has11 else if String.eqb c "v1Dot0Cap" then has10 else false)
        (fun _ _ => false)
        (fun f => if String.eqb f "d.PreferredVersion" then pref_name p else "")
        (fun _ => None) (fun _ _ _ => None).

(* what a run of the translated code leaves behind: error, or (selected version, delimiter set) *)
Inductive dv_out := DvErr | DvOk (selected : string) (delimiter : option string) | DvStuck.

Definition dv_run (has10 has11 : bool) (p : pref) : dv_out :=
  match exec 50 (dv_env has10 has11 p) determine_version_code [] with
  | Returned s v =>
      if String.eqb v "nil"
      then match sget s "d.SelectedVersion" with
           | Some sel => DvOk sel (sget s "d.Channel.PromptPattern")
           | None => DvStuck
           end
      else if String.eqb v "error" then DvErr else DvStuck
  | _ => DvStuck
  end.

Definition dv_spec (caps : list bytes) (p : pref) : dv_out :=
  match determine_version caps p with
  | None => DvErr
  | Some V10 => DvOk "V1Dot0" (Some "ncPatterns.v1Dot0Delim")
  | Some V11 => DvOk "V1Dot1" (Some "ncPatterns.v1Dot1Delim")
  end.

(* the model looks at the capability list only through the two membership tests *)
Lemma determine_version_tests : forall caps p,
  determine_version caps p =
  (let has11 := has_cap ncd_v1dot1_cap caps in
   let has10 := has_cap ncd_v1dot0_cap caps in
   match (if has11 then Some V11 else if has10 then Some V10 else None) with
   | None => None
   | Some sel => match p with
                 | Pref10 => if has10 then Some V10 else None
                 | Pref11 => if has11 then Some V11 else None
                 | _ => Some sel
                 end
   end).
Proof. reflexivity. Qed.

(* THE TIE: for every capability list and every preference, the source's determineVersion (as
   translated on this run) selects what the model selects, fails when the model fails, and leaves
   the channel's prompt pattern on the delimiter of the selected version *)
Theorem determine_version_is_source : forall caps p,
  dv_run (has_cap ncd_v1dot0_cap caps) (has_cap ncd_v1dot1_cap caps) p = dv_spec caps p.
Proof.
  intros caps p. unfold dv_spec. rewrite determine_version_tests. cbv zeta.
  destruct (has_cap ncd_v1dot0_cap caps), (has_cap ncd_v1dot1_cap caps), p; vm_compute; reflexivity.
Qed.

(* ---------- GetTimeout ---------- *)

Definition gt_envb (is_m1 is_0 : bool) : denv :=
  mkEnv (fun _ => false)
        (fun a b => String.eqb a "t" && ((String.eqb b "-1" && is_m1) || (String.eqb b "0" && is_0)))
        (fun _ => "") (fun _ => None) (fun _ _ _ => None).
Definition gt_env (t : Z) : denv := gt_envb (t =? -1)%Z (t =? 0)%Z.

Definition gt_pick (env : denv) (ops t : Z) : option Z :=
  match exec 20 env get_timeout_code [] with
  | Returned _ v =>
      if String.eqb v "c.TimeoutOps" then Some ops
      else if String.eqb v "util.MaxTimeout * time.Second" then Some (Z.of_N max_timeout_seconds * ns_per_s)%Z
      else if String.eqb v "t" then Some t
      else None
  | _ => None
  end.
Definition gt_run (ops t : Z) : option Z := gt_pick (gt_env t) ops t.

Lemma gt_pick_cases : forall b1 b0 ops t,
  gt_pick (gt_envb b1 b0) ops t =
  Some (if b1 then ops else if b0 then (Z.of_N max_timeout_seconds * ns_per_s)%Z else t).
Proof. intros b1 b0 ops t. destruct b1, b0; reflexivity. Qed.

(* THE TIE: for every connection-wide timeout and every per-operation value, the source's
   GetTimeout (as translated on this run) returns what the model returns *)
Theorem get_timeout_is_source : forall ops t, gt_run ops t = Some (get_timeout ops t).
Proof. intros ops t. unfold gt_run, gt_env. rewrite gt_pick_cases. reflexivity. Qed.

(* ---------- Callback.check (C18) ---------- *)

Definition is_nilb (l : bytes) : bool := match l with [] => true | _ => false end.

(* the tests Callback.check performs, as booleans *)
Record cb_tests := mkT { t_ins : bool; t_c_empty : bool; t_c_in : bool; t_nc_empty : bool; t_nc_in : bool;
                         t_re_nil : bool; t_re_match : bool }.

Definition cb_envt (t : cb_tests) : denv :=
  mkEnv (fun _ => false)
        (fun a v => (String.eqb a "c.Contains" && String.eqb v """""" && t_c_empty t)
                    || (String.eqb a "c.NotContains" && String.eqb v """""" && t_nc_empty t)
                    || (String.eqb a "c.ContainsRe" && String.eqb v "nil" && t_re_nil t))
        (fun _ => "")
        (fun a => if String.eqb a "c.Insensitive" then Some (t_ins t)
                  else if String.eqb a "bytes.Contains(b, c.contains())" then Some (t_c_in t)
                  else if String.eqb a "bytes.Contains(b, c.notContains())" then Some (t_nc_in t)
                  else if String.eqb a "c.ContainsRe.Match(b)" then Some (t_re_match t)
                  else None)
        (fun _ _ _ => None).

(* result of a run: the boolean returned, and whether b was replaced by its lower-cased form *)
Definition cb_runt (t : cb_tests) : option (bool * bool) :=
  match exec 30 (cb_envt t) callback_check_code [] with
  | Returned s v =>
      let lowered := match sget s "b" with Some x => String.eqb x "bytes.ToLower(b)" | None => false end in
      if String.eqb v "true" then Some (true, lowered)
      else if String.eqb v "false" then Some (false, lowered) else None
  | _ => None
  end.

Definition cb_tests_of (c : callback) (b : bytes) : cb_tests :=
  let b' := if cb_insensitive c then to_lower b else b in
  let lower x := if cb_insensitive c then to_lower x else x in
  mkT (cb_insensitive c)
      (is_nilb (cb_contains c)) (contains (lower (cb_contains c)) b')
      (is_nilb (cb_not_contains c)) (contains (lower (cb_not_contains c)) b')
      (match cb_re c with None => true | Some _ => false end)
      (match cb_re c with Some r => rx_match r b' | None => false end).

Lemma cb_check_tests : forall c b, let t := cb_tests_of c b in
  cb_check c b = ((negb (t_c_empty t) && t_c_in t) && negb (negb (t_nc_empty t) && t_nc_in t))
                 || ((negb (t_re_nil t) && t_re_match t) && negb (negb (t_nc_empty t) && t_nc_in t)).
Proof.
  intros c b. unfold cb_check, cb_tests_of. cbn [t_ins t_c_empty t_c_in t_nc_empty t_nc_in t_re_nil t_re_match].
  destruct (cb_contains c) as [|x1 l1], (cb_not_contains c) as [|x2 l2], (cb_re c) as [r|]; cbn [is_nilb negb andb];
    rewrite ?andb_false_r, ?andb_true_r, ?orb_false_r; reflexivity.
Qed.

Lemma cb_runt_cases : forall t,
  cb_runt t = Some (((negb (t_c_empty t) && t_c_in t) && negb (negb (t_nc_empty t) && t_nc_in t))
                    || ((negb (t_re_nil t) && t_re_match t) && negb (negb (t_nc_empty t) && t_nc_in t)),
                    t_ins t).
Proof. intros [a b c d e f g]. destruct a, b, c, d, e, f, g; reflexivity. Qed.

(* THE TIE: for every callback and every buffer, the source's Callback.check (as translated on
   this run), given the outcomes of its tests, returns what the model returns, and lower-cases the
   buffer exactly for insensitive callbacks *)
Theorem callback_check_is_source : forall c b,
  cb_runt (cb_tests_of c b) = Some (cb_check c b, cb_insensitive c).
Proof. intros c b. rewrite cb_runt_cases, cb_check_tests. reflexivity. Qed.

(* ---------- Telnet.handleControlCharResponse (C15) ---------- *)
From Scrapli Require Import Telnet.
Open Scope list_scope.

(* the tests the function performs on (ctrlBuf, c), as booleans *)
Record tel_tests := mkTT { tt_len0 : bool; tt_len1 : bool; tt_len2 : bool; tt_c_iac : bool; tt_c_verb : bool;
                           tt_c_sga : bool; tt_cmd_do : bool; tt_cmd_dodont : bool; tt_cmd_will : bool; tt_cmd_wont : bool }.

Definition tel_env (t : tel_tests) : denv :=
  mkEnv (fun _ => false)
        (fun a v =>
           (String.eqb a "len(ctrlBuf)" && ((String.eqb v "0" && tt_len0 t) || (String.eqb v "1" && tt_len1 t) || (String.eqb v "2" && tt_len2 t)))
           || (String.eqb a "c" && ((String.eqb v "iac" && tt_c_iac t) || (String.eqb v "sga" && tt_c_sga t)))
           || (String.eqb a "cmd" && ((String.eqb v "do" && tt_cmd_do t) || (String.eqb v "will" && tt_cmd_will t) || (String.eqb v "wont" && tt_cmd_wont t)))
           || (String.eqb a "writeErr" && String.eqb v "nil"))           (* writes succeed *)
        (fun _ => "")
        (fun a => if String.eqb a "util.ByteIsAny(c, []byte{do, dont, will, wont})" then Some (tt_c_verb t)
                  else if String.eqb a "util.ByteIsAny(cmd, []byte{do, dont})" then Some (tt_cmd_dodont t)
                  else None)
        (fun _ _ _ => None).

(* what a run does to the three pieces of state *)
Inductive ctrl_act := CKeep | CAppend | CReset | CBad.
Inductive reply_act := RNone | RWill | RWont | RDo | RDont | RBad.

Definition tel_run (t : tel_tests) : option (ctrl_act * bool (* data gets c *) * reply_act) :=
  match exec 60 (tel_env t) telnet_handle_code [] with
  | Returned s v =>
      if negb (String.eqb v "ctrlBuf, nil") then None else
      let ca := match sget s "ctrlBuf" with
                | None => CKeep
                | Some x => if String.eqb x "append(ctrlBuf, c)" then CAppend
                            else if String.eqb x "make([]byte, 0)" then CReset else CBad
                end in
      let da := match sget s "t.initialBuf" with
                | None => Some false
                | Some x => if String.eqb x "append(t.initialBuf, c)" then Some true else None
                end in
      let ra := match calls_of s with
                | [] => RNone
                | [x] => if String.eqb x "t.c.Write([]byte{iac, will, c}) -> _, writeErr" then RWill
                         else if String.eqb x "t.c.Write([]byte{iac, wont, c}) -> _, writeErr" then RWont
                         else if String.eqb x "t.c.Write([]byte{iac, do, c}) -> _, writeErr" then RDo
                         else if String.eqb x "t.c.Write([]byte{iac, dont, c}) -> _, writeErr" then RDont else RBad
                | _ => RBad
                end in
      match da with Some d => Some (ca, d, ra) | None => None end
  | _ => None
  end.

Definition tel_apply (s : tstate) (c : N) (r : ctrl_act * bool * reply_act) : tstate :=
  let '(ca, d, ra) := r in
  mkT (match ca with CKeep | CBad => t_ctrl s | CAppend => (t_ctrl s ++ [c])%list | CReset => [] end)
      (if d then (t_data s ++ [c])%list else t_data s)
      (app (t_replies s) match ra with
                      | RWill => [[telnet_iac; telnet_will; c]] | RWont => [[telnet_iac; telnet_wont; c]]
                      | RDo => [[telnet_iac; telnet_do; c]] | RDont => [[telnet_iac; telnet_dont; c]]
                      | RNone | RBad => [] end).

Definition tel_tests_of (s : tstate) (c : N) : tel_tests :=
  let cmd := nth 1 (t_ctrl s) 0%N in
  mkTT (Nat.eqb (length (t_ctrl s)) 0) (Nat.eqb (length (t_ctrl s)) 1) (Nat.eqb (length (t_ctrl s)) 2)
       (c =? telnet_iac)%N (is_verb c) (c =? telnet_sga)%N
       (cmd =? telnet_do)%N ((cmd =? telnet_do) || (cmd =? telnet_dont))%N (cmd =? telnet_will)%N (cmd =? telnet_wont)%N.

(* the translated function, over all combinations of test outcomes (1024 runs of the interpreter) *)
Definition tel_expected (t : tel_tests) : ctrl_act * bool * reply_act :=
  if tt_len0 t then (if tt_c_iac t then (CAppend, false, RNone) else (CKeep, true, RNone))
  else if tt_len1 t && tt_c_verb t then (CAppend, false, RNone)
  else if tt_len1 t then (CReset, tt_c_iac t, RNone)
  else if tt_len2 t then
    (CReset, false,
     if tt_cmd_do t && tt_c_sga t then RWill
     else if tt_cmd_dodont t then RWont
     else if tt_cmd_will t then RDo
     else if tt_cmd_wont t then RDont else RNone)
  else (CKeep, false, RNone).

Lemma tel_run_cases : forall t, tel_run t = Some (tel_expected t).
Proof.
  intros [a b c d e f g h i j].
  destruct a, b, c, d, e, f, g, h, i, j; vm_compute; reflexivity.
Qed.

(* THE TIE: for every control buffer and every byte, the source's handleControlCharResponse (as
   translated on this run; writes succeeding) changes the control buffer, the data buffer and the
   replies exactly as the model's [handle] does *)
Theorem telnet_handle_is_source : forall s c,
  option_map (tel_apply s c) (tel_run (tel_tests_of s c)) = Some (handle s c).
Proof.
  intros s c. rewrite tel_run_cases. cbn [option_map]. f_equal.
  unfold tel_expected, tel_tests_of, handle, tel_apply.
  cbn [tt_len0 tt_len1 tt_len2 tt_c_iac tt_c_verb tt_c_sga tt_cmd_do tt_cmd_dodont tt_cmd_will tt_cmd_wont].
  destruct s as [ctrl data replies]. cbn [t_ctrl t_data t_replies].
  destruct ctrl as [|x [|cmd [|y l]]]; cbn [length Nat.eqb nth andb].
  - destruct (c =? telnet_iac)%N; rewrite ?app_nil_r; reflexivity.
  - destruct (is_verb c); [rewrite app_nil_r; reflexivity|].
    destruct (c =? telnet_iac)%N; rewrite ?app_nil_r; reflexivity.
  - destruct (cmd =? telnet_do)%N, (c =? telnet_sga)%N, (cmd =? telnet_dont)%N, (cmd =? telnet_will)%N, (cmd =? telnet_wont)%N;
      cbn [andb orb]; rewrite ?app_nil_r; reflexivity.
  - rewrite app_nil_r. reflexivity.
Qed.

(* ---------- Standard.openBase (C14): host-key policy and the authentication methods offered ---------- *)
From Scrapli Require Import SshArgs.

Record so_tests := mkSO { so_strict : bool; so_kh_empty : bool; so_key_empty : bool; so_pw_empty : bool;
                          so_ciphers : bool; so_kexs : bool }.

Definition so_env (t : so_tests) : denv :=
  mkEnv (fun _ => false)
        (fun a v => (String.eqb a "t.SSHArgs.KnownHostsFile" && String.eqb v """""" && so_kh_empty t)
                    || (String.eqb a "t.SSHArgs.PrivateKeyPath" && String.eqb v """""" && so_key_empty t)
                    || (String.eqb a "a.Password" && String.eqb v """""" && so_pw_empty t)
                    || (String.eqb a "err" && String.eqb v "nil"))       (* files readable, key parses *)
        (fun _ => "")
        (fun a => if String.eqb a "t.SSHArgs.StrictKey" then Some (so_strict t)
                  else if String.eqb a "len(t.ExtraCiphers) > 0" then Some (so_ciphers t)
                  else if String.eqb a "len(t.ExtraKexs) > 0" then Some (so_kexs t)
                  else None)
        (fun _ _ _ => None).

(* every value a variable was assigned, oldest first *)
Definition assigns_of (s : store) (k : string) : list string :=
  rev (flat_map (fun kv => if String.eqb (fst kv) k then [snd kv] else []) s).

Inductive so_policy := KInsecure | KKnownHosts | KNoFile.

Definition PW_METHODS : string :=
  "append(authMethods, ssh.Password(a.Password), ssh.KeyboardInteractive( func(_, _ string, questions []string, _ []bool) ([]string, error) { answers := make([]string, len(questions)) for i := range answers { answers[i] = a.Password } return answers, nil }, ))".

Fixpoint auth_of (l : list string) : option (list auth_method) :=
  match l with
  | [] => Some []
  | x :: r =>
      match auth_of r with
      | None => None
      | Some rest =>
          if String.eqb x "append(authMethods, ssh.PublicKeys(signer))" then Some (APublicKey :: rest)
          else if String.eqb x PW_METHODS then Some (APassword :: AKeyboardInteractive :: rest)
          else None
      end
  end.

Definition so_run (t : so_tests) : option (so_policy * list auth_method) :=
  match exec 80 (so_env t) standard_open_base_code [] with
  | Returned s v =>
      if String.eqb v "error" then Some (KNoFile, [])        (* refused before anything is dialled *)
      else if negb (String.eqb v "t.openSession(a, cfg)") then None
      else if negb (match sget s "cfg" with
                    | Some c => String.eqb c "&ssh.ClientConfig{ User: a.User, Auth: authMethods, Timeout: a.TimeoutSocket, HostKeyCallback: keyCallback, }"
                    | None => false end) then None
      else
        let pol := match sget s "keyCallback" with
                   | Some k => if String.eqb k "ssh.InsecureIgnoreHostKey()" then Some KInsecure
                               else if String.eqb k "knownHosts"
                                       && existsb (String.eqb "knownhosts.New(t.SSHArgs.KnownHostsFile)") (calls_of s)
                                    then Some KKnownHosts else None
                   | None => None
                   end in
        let au := match assigns_of s "authMethods" with
                  | first :: more => if String.eqb first "make([]ssh.AuthMethod, 0)" then auth_of more else None
                  | [] => None
                  end in
        match pol, au with Some p, Some a => Some (p, a) | _, _ => None end
  | _ => None
  end.

Definition so_expected (t : so_tests) : so_policy * list auth_method :=
  if so_strict t && so_kh_empty t then (KNoFile, [])
  else ((if so_strict t then KKnownHosts else KInsecure),
        (if so_key_empty t then [] else [APublicKey]) ++ (if so_pw_empty t then [] else [APassword; AKeyboardInteractive])).

Lemma so_run_cases : forall t, so_run t = Some (so_expected t).
Proof. intros [a b c d e f]. destruct a, b, c, d, e, f; vm_compute; reflexivity. Qed.

Definition policy_kind (p : policy) : so_policy :=
  match p with PInsecure => KInsecure | PKnownHosts _ => KKnownHosts | PErrNoFile => KNoFile end.

Definition so_tests_of (c : cfg) (ciphers kexs : bool) : so_tests :=
  mkSO (c_strict c) (is_empty (c_known_hosts c)) (is_empty (c_key c)) (is_empty (c_password c)) ciphers kexs.

(* THE TIE: for every configuration (and whatever extra ciphers / key exchanges are set), the
   source's openBase (as translated on this run; files readable, key parsing) installs the host-key
   policy the model says -- the insecure callback ONLY when strict checking is off, the known-hosts
   callback built from the configured file otherwise, an error before dialling when strict and no
   file -- and offers exactly the authentication methods the model says, in order *)
Theorem standard_open_base_is_source : forall c ciphers kexs,
  so_run (so_tests_of c ciphers kexs) =
  Some (policy_kind (std_policy c),
        match std_policy c with PErrNoFile => [] | _ => std_auth c end).
Proof.
  intros c ciphers kexs. rewrite so_run_cases. unfold so_expected, so_tests_of, std_policy, std_auth.
  cbn [so_strict so_kh_empty so_key_empty so_pw_empty].
  destruct (c_strict c), (is_empty (c_known_hosts c)); reflexivity.
Qed.

(* ---------- network.Driver.processAcquirePriv (C04): which level the driver believes it is at,
   and the next action ---------- *)
From Scrapli Require Import Network.

(* which of its three candidates the function took for `current` *)
Inductive cur_choice := CCached | CTName | CFirst.

(* outcomes of the tests; the current-dependent ones are given per choice; [None] for the edge
   test = evaluating it panics in Go (mapTo[1] out of range / nil map entry) *)
Record pa_tests := mkPA {
  pa_err : bool;                       (* determineCurrentPriv failed (no level matches the prompt) *)
  pa_in_cached : bool; pa_in_target : bool;
  pa_eq_c : bool; pa_eq_t : bool; pa_eq_f : bool;                          (* current == target *)
  pa_up_c : option bool; pa_up_t : option bool; pa_up_f : option bool      (* d.PrivilegeLevels[mapTo[1]].PreviousPriv == current *)
}.
Definition pa_eq (t : pa_tests) (ch : cur_choice) : bool :=
  match ch with CCached => pa_eq_c t | CTName => pa_eq_t t | CFirst => pa_eq_f t end.
Definition pa_up (t : pa_tests) (ch : cur_choice) : option bool :=
  match ch with CCached => pa_up_c t | CTName => pa_up_t t | CFirst => pa_up_f t end.

Definition choice_of (s : store) : option cur_choice :=
  match sget s "current" with
  | Some x => if String.eqb x "d.CurrentPriv" then Some CCached
              else if String.eqb x "d.PrivilegeLevels[target].Name" then Some CTName
              else if String.eqb x "possiblePrivs[0]" then Some CFirst else None
  | None => None
  end.

Definition pa_env (t : pa_tests) : denv :=
  mkEnv (fun _ => false)
        (fun a v => String.eqb a "err" && String.eqb v "nil" && negb (pa_err t))
        (fun _ => "")
        (fun a => if String.eqb a "util.StringSliceContains(possiblePrivs, d.CurrentPriv)" then Some (pa_in_cached t)
                  else if String.eqb a "util.StringSliceContains(possiblePrivs, target)" then Some (pa_in_target t)
                  else None)
        (fun s a v =>
           if String.eqb a "current" && String.eqb v "target"
           then Some (option_map (pa_eq t) (choice_of s))
           else if String.eqb a "d.PrivilegeLevels[mapTo[1]].PreviousPriv" && String.eqb v "current"
           then Some (match choice_of s, sget s "mapTo" with
                      | Some ch, Some mt => if String.eqb mt "d.buildPrivChangeMap(current, target, nil)" then pa_up t ch else None
                      | _, _ => None
                      end)
           else None).

Inductive pa_act := PNone | PDeesc | PEsc.
(* result of a run: error | panic | (choice, action, d.CurrentPriv set to the chosen level / to the sentinel) *)
Inductive pa_out := POErr | POPanic | POk (ch : cur_choice) (a : pa_act) (cached_is_current : bool) | POBad.

Definition pa_run (t : pa_tests) : pa_out :=
  match exec 60 (pa_env t) process_acquire_priv_code [] with
  | Stuck => POPanic
  | Running _ | Cont _ | Brk _ => POBad
  | Returned s v =>
      if String.eqb v """"", """", err" then POErr
      else match choice_of s, sget s "d.CurrentPriv" with
           | Some ch, Some cp =>
               if String.eqb v "noAction, current, nil" && String.eqb cp "current" then POk ch PNone true
               else if String.eqb v "deescalateAction, current, nil" && String.eqb cp "unknownPriv" then POk ch PDeesc false
               else if String.eqb v "escalateAction, d.PrivilegeLevels[mapTo[1]].Name, nil" && String.eqb cp "unknownPriv" then POk ch PEsc false
               else POBad
           | _, _ => POBad
           end
  end.

Definition pa_expected (t : pa_tests) : pa_out :=
  if pa_err t then POErr
  else
    let ch := if pa_in_cached t then CCached else if pa_in_target t then CTName else CFirst in
    if pa_eq t ch then POk ch PNone true
    else match pa_up t ch with
         | None => POPanic
         | Some true => POk ch PEsc false
         | Some false => POk ch PDeesc false
         end.

Lemma pa_run_cases : forall t, pa_run t = pa_expected t.
Proof.
  intros [e ic it q1 q2 q3 u1 u2 u3].
  destruct e, ic, it, q1, q2, q3, u1 as [[|]|], u2 as [[|]|], u3 as [[|]|]; vm_compute; reflexivity.
Qed.

(* the outcomes of the tests for given (levels, cached level, target, prompt) *)
Section PATie.
  Variable net : netcfg.
  Variables cached target prompt : bytes.

  Definition pa_possible : list bytes := determine_current net prompt.
  Definition pa_value (ch : cur_choice) : bytes :=
    match ch with
    | CCached => cached
    | CTName => match lookup_level (n_levels net) target with Some l => lv_name l | None => target end
    | CFirst => hd [] pa_possible
    end.
  Definition pa_next (ch : cur_choice) : option level :=
    match build_path (S (length (n_levels net))) net (pa_value ch) target [] with
    | Some (_ :: next :: _) => lookup_level (n_levels net) next
    | _ => None
    end.
  Definition pa_up_of (ch : cur_choice) : option bool :=
    option_map (fun nl => beqb (lv_previous nl) (pa_value ch)) (pa_next ch).

  Definition pa_tests_of : pa_tests :=
    mkPA (match pa_possible with [] => true | _ => false end)
         (mem_bytes cached pa_possible) (mem_bytes target pa_possible)
         (beqb (pa_value CCached) target) (beqb (pa_value CTName) target) (beqb (pa_value CFirst) target)
         (pa_up_of CCached) (pa_up_of CTName) (pa_up_of CFirst).

  Definition pa_interp (o : pa_out) : pa_result :=
    match o with
    | POErr => PAErr
    | POPanic | POBad => PAPanic
    | POk ch PNone _ => PAOk ANone (pa_value ch)
    | POk ch PDeesc _ => PAOk (ADeescalate (pa_value ch)) net_unknown_priv
    | POk ch PEsc _ => match pa_next ch with
                       | Some nl => PAOk (AEscalate (lv_name nl)) net_unknown_priv
                       | None => PAPanic
                       end
    end.

  (* THE TIE: for every privilege map, cached level, target and prompt, the source's
     processAcquirePriv (as translated on this run) picks the level the model picks -- the cached
     one if the prompt allows it, else the target if the prompt allows it, else the first
     candidate --, returns the action the model returns and leaves d.CurrentPriv as the model does *)
  Theorem process_acquire_is_source : pa_interp (pa_run pa_tests_of) = process_acquire net cached target prompt.
  Proof.
    rewrite pa_run_cases. unfold pa_expected, pa_tests_of, process_acquire, pa_possible.
    cbn [pa_err pa_in_cached pa_in_target pa_eq pa_up pa_eq_c pa_eq_t pa_eq_f pa_up_c pa_up_t pa_up_f].
    destruct (determine_current net prompt) as [|first rest] eqn:Hp; [reflexivity|].
    assert (Hv : forall ch, pa_value ch = match ch with
                                           | CCached => cached
                                           | CTName => match lookup_level (n_levels net) target with Some l => lv_name l | None => target end
                                           | CFirst => first end).
    { intros [| |]; unfold pa_value, pa_possible; rewrite ?Hp; reflexivity. }
    destruct (mem_bytes cached (first :: rest)) eqn:E1.
    - cbn [pa_eq pa_eq_c pa_eq_t pa_eq_f]. rewrite ?(Hv CCached).
      destruct (beqb cached target) eqn:E2; [cbn [pa_interp]; rewrite ?(Hv CCached); reflexivity|].
      cbn [pa_up pa_up_c pa_up_t pa_up_f]. unfold pa_up_of, pa_next. rewrite ?(Hv CCached).
      destruct (build_path (S (length (n_levels net))) net cached target []) as [[|x [|next l]]|] eqn:Hb; try reflexivity.
      destruct (lookup_level (n_levels net) next) as [nl|] eqn:Hl; [|reflexivity].
      cbn [option_map]. destruct (beqb (lv_previous nl) cached) eqn:E3; cbn [pa_interp];
        unfold pa_next; rewrite ?(Hv CCached), ?Hb, ?Hl; reflexivity.
    - destruct (mem_bytes target (first :: rest)) eqn:E1'.
      + cbn [pa_eq pa_eq_c pa_eq_t pa_eq_f]. rewrite ?(Hv CTName).
        set (tn := match lookup_level (n_levels net) target with Some l => lv_name l | None => target end) in *.
        destruct (beqb tn target) eqn:E2; [cbn [pa_interp]; rewrite ?(Hv CTName); reflexivity|].
        cbn [pa_up pa_up_c pa_up_t pa_up_f]. unfold pa_up_of, pa_next. rewrite ?(Hv CTName). fold tn.
        destruct (build_path (S (length (n_levels net))) net tn target []) as [[|x [|next l]]|] eqn:Hb; try reflexivity.
        destruct (lookup_level (n_levels net) next) as [nl|] eqn:Hl; [|reflexivity].
        cbn [option_map]. destruct (beqb (lv_previous nl) tn) eqn:E3; cbn [pa_interp];
          unfold pa_next; rewrite ?(Hv CTName); fold tn; rewrite ?Hb, ?Hl; reflexivity.
      + cbn [pa_eq pa_eq_c pa_eq_t pa_eq_f]. rewrite ?(Hv CFirst).
        destruct (beqb first target) eqn:E2; [cbn [pa_interp]; rewrite ?(Hv CFirst); reflexivity|].
        cbn [pa_up pa_up_c pa_up_t pa_up_f]. unfold pa_up_of, pa_next. rewrite ?(Hv CFirst).
        destruct (build_path (S (length (n_levels net))) net first target []) as [[|x [|next l]]|] eqn:Hb; try reflexivity.
        destruct (lookup_level (n_levels net) next) as [nl|] eqn:Hl; [|reflexivity].
        cbn [option_map]. destruct (beqb (lv_previous nl) first) eqn:E3; cbn [pa_interp];
          unfold pa_next; rewrite ?(Hv CFirst), ?Hb, ?Hl; reflexivity.
  Qed.
End PATie.
