(* Decide.v — the hand-written models of two decision functions are EQUAL to the interpretation of
   the code translated from the Go source on this run (gen/decide.go -> GeneratedSkel.v):

     driver/netconf/capabilities.go  Driver.determineVersion   vs  Netconf.determine_version   (C09)
     channel/channel.go              Channel.GetTimeout        vs  Channel.get_timeout         (C05)

   Both functions depend on their inputs through finitely many tests only (has base:1.0 / has
   base:1.1 / the preferred version; t == -1 / t == 0), so "for every input" is a case analysis on
   those tests — which the theorems below carry out for ALL capability lists and ALL durations. *)
From Scrapli Require Import Bytes Regex PlatformTypes Generated Channel Netconf DecideLang GeneratedSkel.
From Coq Require Import String List Bool ZArith NArith.
Import ListNotations.
Open Scope string_scope.

(* ---------- determineVersion ---------- *)

Definition pref_name (p : pref) : string :=
  match p with PrefNone => "" | Pref10 => "V1Dot0" | Pref11 => "V1Dot1" | PrefOther => "2.0" end.

Definition dv_env (has10 has11 : bool) (p : pref) : denv :=
  mkEnv (fun c => if String.eqb c "v1Dot1Cap" then has11 else if String.eqb c "v1Dot0Cap" then has10 else false)
        (fun _ _ => false)
        (fun f => if String.eqb f "d.PreferredVersion" then pref_name p else "")
        (fun _ => None).

(* what a run of the translated code leaves behind: error, or (selected version, delimiter set) *)
Inductive dv_out := DvErr | DvOk (selected : string) (delimiter : option string) | DvStuck.

Definition dv_run (has10 has11 : bool) (p : pref) : dv_out :=
  match exec 50 (dv_env has10 has11 p) determine_version_code [] with
  | Returned s v =>
      if String.eqb v "nil"
      then match sget s "d.SelectedVersion" with
           | Some sel => DvOk sel (sget s "d.Channel.PromptPattern")
           | None => DvStuck
           end
      else if String.eqb v "error" then DvErr else DvStuck
  | _ => DvStuck
  end.

Definition dv_spec (caps : list bytes) (p : pref) : dv_out :=
  match determine_version caps p with
  | None => DvErr
  | Some V10 => DvOk "V1Dot0" (Some "ncPatterns.v1Dot0Delim")
  | Some V11 => DvOk "V1Dot1" (Some "ncPatterns.v1Dot1Delim")
  end.

(* the model looks at the capability list only through the two membership tests *)
Lemma determine_version_tests : forall caps p,
  determine_version caps p =
  (let has11 := has_cap ncd_v1dot1_cap caps in
   let has10 := has_cap ncd_v1dot0_cap caps in
   match (if has11 then Some V11 else if has10 then Some V10 else None) with
   | None => None
   | Some sel => match p with
                 | Pref10 => if has10 then Some V10 else None
                 | Pref11 => if has11 then Some V11 else None
                 | _ => Some sel
                 end
   end).
Proof. reflexivity. Qed.

(* THE TIE: for every capability list and every preference, the source's determineVersion (as
   translated on this run) selects what the model selects, fails when the model fails, and leaves
   the channel's prompt pattern on the delimiter of the selected version *)
Theorem determine_version_is_source : forall caps p,
  dv_run (has_cap ncd_v1dot0_cap caps) (has_cap ncd_v1dot1_cap caps) p = dv_spec caps p.
Proof.
  intros caps p. unfold dv_spec. rewrite determine_version_tests. cbv zeta.
  destruct (has_cap ncd_v1dot0_cap caps), (has_cap ncd_v1dot1_cap caps), p; vm_compute; reflexivity.
Qed.

(* ---------- GetTimeout ---------- *)

Definition gt_envb (is_m1 is_0 : bool) : denv :=
  mkEnv (fun _ => false)
        (fun a b => String.eqb a "t" && ((String.eqb b "-1" && is_m1) || (String.eqb b "0" && is_0)))
        (fun _ => "") (fun _ => None).
Definition gt_env (t : Z) : denv := gt_envb (t =? -1)%Z (t =? 0)%Z.

Definition gt_pick (env : denv) (ops t : Z) : option Z :=
  match exec 20 env get_timeout_code [] with
  | Returned _ v =>
      if String.eqb v "c.TimeoutOps" then Some ops
      else if String.eqb v "util.MaxTimeout * time.Second" then Some (Z.of_N max_timeout_seconds * ns_per_s)%Z
      else if String.eqb v "t" then Some t
      else None
  | _ => None
  end.
Definition gt_run (ops t : Z) : option Z := gt_pick (gt_env t) ops t.

Lemma gt_pick_cases : forall b1 b0 ops t,
  gt_pick (gt_envb b1 b0) ops t =
  Some (if b1 then ops else if b0 then (Z.of_N max_timeout_seconds * ns_per_s)%Z else t).
Proof. intros b1 b0 ops t. destruct b1, b0; reflexivity. Qed.

(* THE TIE: for every connection-wide timeout and every per-operation value, the source's
   GetTimeout (as translated on this run) returns what the model returns *)
Theorem get_timeout_is_source : forall ops t, gt_run ops t = Some (get_timeout ops t).
Proof. intros ops t. unfold gt_run, gt_env. rewrite gt_pick_cases. reflexivity. Qed.

(* ---------- Callback.check (C18) ---------- *)

Definition is_nilb (l : bytes) : bool := match l with [] => true | _ => false end.

(* the tests Callback.check performs, as booleans *)
Record cb_tests := mkT { t_ins : bool; t_c_empty : bool; t_c_in : bool; t_nc_empty : bool; t_nc_in : bool;
                         t_re_nil : bool; t_re_match : bool }.

Definition cb_envt (t : cb_tests) : denv :=
  mkEnv (fun _ => false)
        (fun a v => (String.eqb a "c.Contains" && String.eqb v """""" && t_c_empty t)
                    || (String.eqb a "c.NotContains" && String.eqb v """""" && t_nc_empty t)
                    || (String.eqb a "c.ContainsRe" && String.eqb v "nil" && t_re_nil t))
        (fun _ => "")
        (fun a => if String.eqb a "c.Insensitive" then Some (t_ins t)
                  else if String.eqb a "bytes.Contains(b, c.contains())" then Some (t_c_in t)
                  else if String.eqb a "bytes.Contains(b, c.notContains())" then Some (t_nc_in t)
                  else if String.eqb a "c.ContainsRe.Match(b)" then Some (t_re_match t)
                  else None).

(* result of a run: the boolean returned, and whether b was replaced by its lower-cased form *)
Definition cb_runt (t : cb_tests) : option (bool * bool) :=
  match exec 30 (cb_envt t) callback_check_code [] with
  | Returned s v =>
      let lowered := match sget s "b" with Some x => String.eqb x "bytes.ToLower(b)" | None => false end in
      if String.eqb v "true" then Some (true, lowered)
      else if String.eqb v "false" then Some (false, lowered) else None
  | _ => None
  end.

Definition cb_tests_of (c : callback) (b : bytes) : cb_tests :=
  let b' := if cb_insensitive c then to_lower b else b in
  let lower x := if cb_insensitive c then to_lower x else x in
  mkT (cb_insensitive c)
      (is_nilb (cb_contains c)) (contains (lower (cb_contains c)) b')
      (is_nilb (cb_not_contains c)) (contains (lower (cb_not_contains c)) b')
      (match cb_re c with None => true | Some _ => false end)
      (match cb_re c with Some r => rx_match r b' | None => false end).

Lemma cb_check_tests : forall c b, let t := cb_tests_of c b in
  cb_check c b = ((negb (t_c_empty t) && t_c_in t) && negb (negb (t_nc_empty t) && t_nc_in t))
                 || ((negb (t_re_nil t) && t_re_match t) && negb (negb (t_nc_empty t) && t_nc_in t)).
Proof.
  intros c b. unfold cb_check, cb_tests_of. cbn [t_ins t_c_empty t_c_in t_nc_empty t_nc_in t_re_nil t_re_match].
  destruct (cb_contains c) as [|x1 l1], (cb_not_contains c) as [|x2 l2], (cb_re c) as [r|]; cbn [is_nilb negb andb];
    rewrite ?andb_false_r, ?andb_true_r, ?orb_false_r; reflexivity.
Qed.

Lemma cb_runt_cases : forall t,
  cb_runt t = Some (((negb (t_c_empty t) && t_c_in t) && negb (negb (t_nc_empty t) && t_nc_in t))
                    || ((negb (t_re_nil t) && t_re_match t) && negb (negb (t_nc_empty t) && t_nc_in t)),
                    t_ins t).
Proof. intros [a b c d e f g]. destruct a, b, c, d, e, f, g; reflexivity. Qed.

(* THE TIE: for every callback and every buffer, the source's Callback.check (as translated on
   this run), given the outcomes of its tests, returns what the model returns, and lower-cases the
   buffer exactly for insensitive callbacks *)
Theorem callback_check_is_source : forall c b,
  cb_runt (cb_tests_of c b) = Some (cb_check c b, cb_insensitive c).
Proof. intros c b. rewrite cb_runt_cases, cb_check_tests. reflexivity. Qed.
