(* DecideGT.v — Channel.GetTimeout as translated from the source = Channel.get_timeout (C05). *)
From Scrapli Require Import Bytes Regex PlatformTypes Generated Channel Netconf DecideLang GeneratedSkel.
From Coq Require Import String List Bool ZArith NArith.
Import ListNotations.
Open Scope string_scope.

(* ---------- GetTimeout ---------- *)

Definition gt_envb (is_m1 is_0 : bool) : denv :=
  mkEnv (fun _ => false)
        (fun a b => String.eqb a "t" && ((String.eqb b "-1" && is_m1) || (String.eqb b "0" && is_0)))
        (fun _ => "") (fun _ => None) (fun _ _ _ => None).
Definition gt_env (t : Z) : denv := gt_envb (t =? -1)%Z (t =? 0)%Z.

Definition gt_pick (env : denv) (ops t : Z) : option Z :=
  match exec 20 env get_timeout_code [] with
  | Returned _ v =>
      if String.eqb v "c.TimeoutOps" then Some ops
      else if String.eqb v "util.MaxTimeout * time.Second" then Some (Z.of_N max_timeout_seconds * ns_per_s)%Z
      else if String.eqb v "t" then Some t
      else None
  | _ => None
  end.
Definition gt_run (ops t : Z) : option Z := gt_pick (gt_env t) ops t.

Lemma gt_pick_cases : forall b1 b0 ops t,
  gt_pick (gt_envb b1 b0) ops t =
  Some (if b1 then ops else if b0 then (Z.of_N max_timeout_seconds * ns_per_s)%Z else t).
Proof. intros b1 b0 ops t. destruct b1, b0; reflexivity. Qed.

(* THE TIE: for every connection-wide timeout and every per-operation value, the source's
   GetTimeout (as translated on this run) returns what the model returns *)
Theorem get_timeout_is_source : forall ops t, gt_run ops t = Some (get_timeout ops t).
Proof. intros ops t. unfold gt_run, gt_env. rewrite gt_pick_cases. reflexivity. Qed.

(* every test the translated code makes is one the environment above was written for (an unknown
   equality would otherwise evaluate to false without notice) *)
Definition get_timeout_known : list string := "t == -1" :: "t == 0" :: nil.
Lemma get_timeout_tests_known : tests_known get_timeout_code get_timeout_known = true.
Proof. vm_compute. reflexivity. Qed.
