(* CloseRun.v — runner hooks of C07 (model side of the harness comparison).

     c07      <driver> <state> <on_close> <second> [<user>]
     c07old   <driver> <state> <on_close> <second> [<user>]       (the original code, cc33fde)
     c07prefix <driver> <state> <on_close> <second> [<user>]      (before e29178e: sendRPC's poller)
     c07system <on_close> <second> / c07prefixsystem ...          (System transport's fd field)
        -> the set of final outcomes the model allows, i.e. the observations of its quiescent
           reachable states (nobody can move any more), sorted, separated by a `|` field:
             returned=<bool> closed=<bool> leak=<n>       or       panic=<kind>
           returned: every Close call has returned;  closed: Impl.Close was called;
           leak: number of goroutines (reader, NETCONF read loop, in-flight caller, RPC waiter and
           poller, `done` sender of the old code) that are neither finished nor never started.
           `bad-input` if a field is not understood, `incomplete` if the search ran out of fuel.
     c07trace <driver> <state> <on_close> <second> <user> <label,label,...>
     c07oldtrace ...
        -> accept | reject | bad-label:<name>      (see [accepts]; Conc.accepts_trace)
     c07hooks <driver> <state> <on_close> <second> <user> <hook,hook,...>      (c07oldhooks: old code)
        -> the same for a record made of the yield points that exist in /repo (their names:
           [hook_table]); all other program points are silent
     c07thread <driver> <on_close> <thread> <label,label,...>
        -> accept | reject : is the sequence a path of that thread's control-flow graph, started
           at its first statement?  thread = reader | closer | consumer | ncreader | rpc | poller

     <driver>   generic | network | cli (all three: Channel.Close) | netconf
     <state>    idle | blocked | eof | ioerr | data-arriving | error-arriving | eof-arriving | any
                | after-op (= idle) | second-close (= idle with <second> forced to 1)
     <on_close> 0|eof  1|err  2|blocked    what a blocked Impl.Read does once the transport is closed
     <second>   0 | 1   a second Close call        <user>  0 | 1  an operation / RPC in flight *)
From Scrapli Require Import Bytes Conc Close.
From Coq Require Import List Arith Bool NArith.
Import ListNotations.
Local Open Scope nat_scope.

Definition label_name (l : label) : bytes :=
  match l with
  | L_read_check_done => bs "read.check_done"
  | L_read_check_done2 => bs "read.check_done2"
  | L_read_send_errs => bs "read.send_errs"
  | L_read_sleep => bs "read.sleep"
  | L_read_enqueue => bs "read.enqueue"
  | L_read_defer_exited => bs "read.defer_exited"
  | L_tread_lock => bs "tread.lock"
  | L_tread_impl_read => bs "tread.impl_read"
  | L_tread_unlock => bs "tread.unlock"
  | L_close_done_once => bs "close.done_once"
  | L_close_select => bs "close.select"
  | L_close_return => bs "close.return"
  | L_tclose_lock => bs "tclose.lock"
  | L_tclose_impl_close => bs "tclose.impl_close"
  | L_tclose_unlock => bs "tclose.unlock"
  | L_chread_errs => bs "chread.errs"
  | L_chread_exited => bs "chread.exited"
  | L_chread_dequeue => bs "chread.dequeue"
  | L_op_ctx_check => bs "op.ctx_check"
  | L_op_return => bs "op.return"
  | L_nclose_done_once => bs "nclose.done_once"
  | L_nclose_channel_close => bs "nclose.channel_close"
  | L_ncread_check_done => bs "ncread.check_done"
  | L_ncread_send_errs => bs "ncread.send_errs"
  | L_ncread_sleep => bs "ncread.sleep"
  | L_rpc_go_poller => bs "rpc.go_poller"
  | L_rpc_select => bs "rpc.select"
  | L_rpc_cancel => bs "rpc.cancel"
  | L_poll_ctx_err => bs "poll.ctx_err"
  | L_poll_get_message => bs "poll.get_message"
  | L_poll_send_done => bs "poll.send_done"
  | L_poll_defer_close_done => bs "poll.defer_close_done"
  | L_oread_send_errs => bs "oread.send_errs"
  | L_oread_defer_flag => bs "oread.defer_flag"
  | L_oclose_close_errs => bs "oclose.close_errs"
  | L_oclose_read_flag => bs "oclose.read_flag"
  | L_oclose_go_sender => bs "oclose.go_sender"
  | L_oclose_close_ch => bs "oclose.close_ch"
  | L_oclose_select => bs "oclose.select"
  | L_osender_send_done => bs "osender.send_done"
  | L_osender_defer_close_ch => bs "osender.defer_close_ch"
  | L_ochread_read_flag => bs "ochread.read_flag"
  | L_onclose_send_done => bs "onclose.send_done"
  | L_oncread_send_errs => bs "oncread.send_errs"
  | L_sys_load_fd => bs "sysread.load_fd"
  | L_sys_fd_nil => bs "sysclose.fd_nil"
  | L_sys_rfd_lock => bs "sysread.fd_lock"
  | L_sys_rfd_unlock => bs "sysread.fd_unlock"
  | L_sys_wfd_lock => bs "sysclose.fd_lock"
  | L_sys_wfd_unlock => bs "sysclose.fd_unlock"
  | L_sys_fd_close => bs "sysclose.fd_close"
  end.

Fixpoint label_of_name_in (n : bytes) (ls : list label) : option label :=
  match ls with
  | [] => None
  | l :: t => if beqb n (label_name l) then Some l else label_of_name_in n t
  end.
Definition label_of_name (n : bytes) : option label := label_of_name_in n all_labels.

(* The yield points that exist in /repo (build tag `verif`: channel.VerifYield /
   netconf.VerifYield) and the model label each of them stands for. *)
Definition hook_table : list (bytes * label) :=
  [ (bs "close:start", L_close_done_once);
    (bs "close:after-done", L_close_select);
    (bs "read:top", L_read_check_done);
    (bs "read:before-transport-read", L_tread_lock);
    (bs "read:after-read-error", L_read_check_done2);
    (bs "read:before-error-handoff", L_read_send_errs);
    (bs "read:before-enqueue", L_read_enqueue);
    (bs "Read:start", L_chread_errs);
    (bs "ncread:top", L_ncread_check_done);
    (bs "ncread:before-error-handoff", L_ncread_send_errs);
    (bs "ncclose:start", L_nclose_done_once);
    (bs "ncclose:after-done", L_nclose_channel_close) ].

Fixpoint hook_label (n : bytes) (t : list (bytes * label)) : option label :=
  match t with
  | [] => None
  | (h, l) :: r => if beqb n h then Some l else hook_label n r
  end.

Definition is_hook (l : label) : bool :=
  existsb (fun hl => label_eqb l (snd hl)) hook_table.

(* the system as seen through a subset of the yield points: the other labels become silent *)
Definition mask_code (vis : label -> bool) (c : code label) : code label :=
  map (fun li => (match fst li with
                  | Some l => if vis l then Some l else None
                  | None => None
                  end, snd li)) c.
Definition mask (vis : label -> bool) (sy : sys label) : sys label :=
  mkSys (map (mask_code vis) (threads sy)) (init sy).

(* ---------- scenario parsing ---------- *)

Definition is (f : bytes) (s : String.string) : bool := beqb f (bs s).
Arguments is f s%string.

Definition parse_kind (f : bytes) : option kind :=
  if is f "generic" || is f "network" || is f "cli" then Some CLI
  else if is f "netconf" then Some NETCONF else None.

Definition parse_state (f : bytes) : option (cstate * bool) :=
  if is f "idle" || is f "after-op" then Some (StIdle, false)
  else if is f "second-close" then Some (StIdle, true)
  else if is f "blocked" then Some (StBlocked, false)
  else if is f "eof" then Some (StEOF, false)
  else if is f "ioerr" then Some (StIOErr, false)
  else if is f "data-arriving" then Some (StDataArriving, false)
  else if is f "error-arriving" then Some (StErrorArriving, false)
  else if is f "eof-arriving" then Some (StEOFArriving, false)
  else if is f "any" then Some (StAny, false)
  else None.

Definition parse_tc (f : bytes) : option tcb :=
  if is f "0" || is f "eof" then Some TcEOF
  else if is f "1" || is f "err" then Some TcErr
  else if is f "2" || is f "blocked" then Some TcBlock
  else None.

Definition parse_flag (f : bytes) : bool := is f "1" || is f "true".

Definition nthf (n : nat) (fs : list bytes) : bytes := nth n fs [].

Definition parse_scenario (fs : list bytes) : option scenario :=
  match parse_kind (nthf 1 fs), parse_state (nthf 2 fs), parse_tc (nthf 3 fs) with
  | Some k, Some (st, force2), Some tc =>
      Some (mkSc k st tc (force2 || parse_flag (nthf 4 fs)) (parse_flag (nthf 5 fs)))
  | _, _, _ => None
  end.

(* ---------- outcomes ---------- *)

Definition RUN_FUEL := 4000.

Definition b2n (b : bool) : nat := if b then 1 else 0.

(* goroutines that are neither finished nor never started *)
Definition alive (sy : sys label) (s : state) (t : tid) : bool :=
  match instr_at sy s t with IExit | IIdle => false | _ => true end.

(* outcome code: panic * 1000 + returned * 100 + closed * 10 + leak *)
Definition outcome (sy : sys label) (watch closers : list tid) (s : state) : nat :=
  if Nat.eqb (panic s) 0 then
    b2n (forallb (fun t => negb (alive sy s t)) closers) * 100
    + b2n (Nat.eqb (var_of s V_TCLOSED) 1) * 10
    + length (filter (alive sy s) watch)
  else panic s * 1000.

Fixpoint insert_sorted (x : nat) (l : list nat) : list nat :=
  match l with
  | [] => [x]
  | y :: t => if Nat.eqb x y then l else if Nat.ltb x y then x :: l else y :: insert_sorted x t
  end.

Definition outcomes (sy : sys label) (watch closers : list tid) : option (list nat) :=
  let r := reach sy RUN_FUEL in
  if snd r then
    Some (fold_left (fun acc s => match succs sy s with
                                  | [] => insert_sorted (outcome sy watch closers s) acc
                                  | _ => acc
                                  end) (fst r) [])
  else None.

Definition emit_boolw (b : bool) : bytes := if b then bs "true" else bs "false".

Definition emit_outcome (o : nat) : list bytes :=
  match Nat.div o 1000 with
  | 0 =>
      [ bs "returned=" ++ emit_boolw (Nat.eqb (Nat.div o 100) 1);
        bs "closed=" ++ emit_boolw (Nat.eqb (Nat.modulo (Nat.div o 10) 10) 1);
        bs "leak=" ++ print_dec (N.of_nat (Nat.modulo o 10)) ]
  | 1 => [ bs "panic=send-on-closed-channel" ]
  | _ => [ bs "panic=close-of-closed-channel" ]
  end.

Fixpoint emit_outcomes (l : list nat) : list bytes :=
  match l with
  | [] => []
  | [o] => emit_outcome o
  | o :: t => emit_outcome o ++ [bs "|"] ++ emit_outcomes t
  end.

Definition watched : list tid := [T_READER; T_USER; T_RPC; T_POLLER].
Definition old_watched : list tid := [T_READER; T_USER; T_SENDER1; T_SENDER2].
Definition closer_tids : list tid := [T_CLOSER1; T_CLOSER2].

(* which code: 0 = current, 1 = original (cc33fde), 2 = before the repairs e29178e / 985cf8a *)
Definition run_outcomes_v (v : nat) (fs : list bytes) : list bytes :=
  match parse_scenario fs with
  | None => [bs "bad-input"]
  | Some sc =>
      let r := match v with
               | 1 => outcomes (old_sys_of sc) old_watched closer_tids
               | 2 => outcomes (prefix_sys_of sc) watched closer_tids
               | _ => outcomes (sys_of sc) watched closer_tids
               end in
      match r with
      | Some l => emit_outcomes l
      | None => [bs "incomplete"]
      end
  end.

(* ---------- traces ---------- *)

Definition TRACE_FUEL := 200.

(* is the sequence of yield-point labels a possible record of a run of the model of scenario sc?
   (arrival semantics with lag, see Conc.accepts_trace) *)
Definition accepts (sc : scenario) (tr : list label) : bool :=
  accepts_trace label_id (sys_of sc) TRACE_FUEL tr.
Definition accepts_old (sc : scenario) (tr : list label) : bool :=
  accepts_trace label_id (old_sys_of sc) TRACE_FUEL tr.

(* the same for a record that contains only the yield points present in /repo ([hook_table]) *)
Definition accepts_hooks (sc : scenario) (tr : list label) : bool :=
  accepts_trace label_id (mask is_hook (sys_of sc)) TRACE_FUEL tr.
Definition accepts_hooks_old (sc : scenario) (tr : list label) : bool :=
  accepts_trace label_id (mask is_hook (old_sys_of sc)) TRACE_FUEL tr.

Definition COMMA : N := 44%N.

Fixpoint parse_labels (names : list bytes) : list label + bytes :=
  match names with
  | [] => inl []
  | n :: t =>
      match label_of_name n with
      | None => inr n
      | Some l => match parse_labels t with inl ls => inl (l :: ls) | inr e => inr e end
      end
  end.

Definition parse_trace (f : bytes) : list label + bytes :=
  match f with
  | [] => inl []
  | _ => if is f "-" then inl [] else parse_labels (split_on COMMA f)
  end.

Fixpoint parse_hooks (names : list bytes) : list label + bytes :=
  match names with
  | [] => inl []
  | n :: t =>
      match hook_label n hook_table with
      | None => inr n
      | Some l => match parse_hooks t with inl ls => inl (l :: ls) | inr e => inr e end
      end
  end.

(* `parked-any` (records only): the reader parked in the transport read, the connection then doing
   anything — the state in which a driver-level Close finds the connection when its on-close hook
   still talks to the device.  Not one of the verified scenarios; used to judge recorded runs. *)
Fixpoint set_nth {A} (n : nat) (x : A) (l : list A) : list A :=
  match n, l with
  | _, [] => []
  | 0, _ :: t => x :: t
  | S m, y :: t => y :: set_nth m x t
  end.
Definition sys_parked_any (sc : scenario) : sys label :=
  let sy := sys_of (mkSc (sc_kind sc) StDataArriving (sc_tc sc) (sc_second sc) (sc_user sc)) in
  mkSys (set_nth T_ENV (env_code (env_allowed StAny)) (threads sy)) (init sy).

Definition subst_state (fs : list bytes) : list bytes :=
  if is (nthf 2 fs) "parked-any" then set_nth 2 (bs "data-arriving") fs else fs.

Definition run_hooks (old : bool) (fs : list bytes) : list bytes :=
  match parse_scenario (subst_state fs) with
  | None => [bs "bad-input"]
  | Some sc =>
      if is (nthf 2 fs) "parked-any" then
        let f := nthf 6 fs in
        match (match f with [] => inl [] | _ => if is f "-" then inl [] else parse_hooks (split_on COMMA f) end) with
        | inr n => [bs "bad-label:" ++ n]
        | inl tr => if accepts_trace label_id (mask is_hook (sys_parked_any sc)) TRACE_FUEL tr
                    then [bs "accept"] else [bs "reject"]
        end
      else
      let f := nthf 6 fs in
      match (match f with [] => inl [] | _ => if is f "-" then inl [] else parse_hooks (split_on COMMA f) end) with
      | inr n => [bs "bad-label:" ++ n]
      | inl tr => if (if old then accepts_hooks_old sc tr else accepts_hooks sc tr)
                  then [bs "accept"] else [bs "reject"]
      end
  end.

Definition run_trace (old : bool) (fs : list bytes) : list bytes :=
  match parse_scenario fs with
  | None => [bs "bad-input"]
  | Some sc =>
      match parse_trace (nthf 6 fs) with
      | inr n => [bs "bad-label:" ++ n]
      | inl tr => if (if old then accepts_old sc tr else accepts sc tr)
                  then [bs "accept"] else [bs "reject"]
      end
  end.

Definition thread_code (f : bytes) (tc : tcb) (nc : bool) : option (code label) :=
  if is f "reader" then Some (reader_code tc)
  else if is f "closer" then Some (closer_code nc)
  else if is f "consumer" then Some consumer_code
  else if is f "ncreader" then Some ncreader_code
  else if is f "rpc" then Some rpc_code
  else if is f "poller" then Some poller_code
  else None.

Definition run_thread (fs : list bytes) : list bytes :=
  match parse_kind (nthf 1 fs), parse_tc (nthf 2 fs) with
  | Some k, Some tc =>
      match thread_code (nthf 3 fs) tc (is_nc k), parse_trace (nthf 4 fs) with
      | Some c, inl tr =>
          (* the poller's code starts with its not-yet-started point *)
          let start := if is (nthf 3 fs) "poller" then 1 else 0 in
          if cfg_accepts label_id c start tr then [bs "accept"] else [bs "reject"]
      | _, inr n => [bs "bad-label:" ++ n]
      | None, _ => [bs "bad-input"]
      end
  | _, _ => [bs "bad-input"]
  end.

(* c07system <on_close> <second>: outcomes of the System-transport variant (fd guarded by fdLock);
   c07prefixsystem: the variant before 985cf8a.  A further field `racy=<n>` counts the reachable
   states that co-enable conflicting plain accesses of the fd field. *)
Definition run_system (prefix : bool) (fs : list bytes) : list bytes :=
  match parse_tc (nthf 1 fs) with
  | None => [bs "bad-input"]
  | Some tc =>
      let sy := if prefix then prefix_system_sys tc (parse_flag (nthf 2 fs))
                else system_sys tc (parse_flag (nthf 2 fs)) in
      match outcomes sy [T_READER] closer_tids with
      | Some l =>
          emit_outcomes l ++
          [bs "racy=" ++ print_dec (N.of_nat (length (filter (races sy) (fst (reach sy RUN_FUEL)))))]
      | None => [bs "incomplete"]
      end
  end.

(* the hook: field 0 selects the function *)
Definition run_c07 (fs : list bytes) : list bytes :=
  let name := nthf 0 fs in
  if is name "c07" then run_outcomes_v 0 fs
  else if is name "c07old" then run_outcomes_v 1 fs
  else if is name "c07prefix" then run_outcomes_v 2 fs
  else if is name "c07system" then run_system false fs
  else if is name "c07prefixsystem" then run_system true fs
  else if is name "c07trace" then run_trace false fs
  else if is name "c07oldtrace" then run_trace true fs
  else if is name "c07hooks" then run_hooks false fs
  else if is name "c07oldhooks" then run_hooks true fs
  else if is name "c07thread" then run_thread fs
  else [bs "unknown-case"].

(* ---------- readable witness schedules (used by props/C07.v and the report) ---------- *)

Fixpoint annotate (sy : sys label) (s : state) (sc : sched) : list (tid * option label) :=
  match sc with
  | [] => []
  | (t, c) :: r =>
      (t, label_at sy s t) ::
      match nth_error (step sy s t) c with
      | Some s' => annotate sy s' r
      | None => annotate sy s r
      end
  end.

Definition to_string (b : bytes) : String.string :=
  fold_right (fun n acc => String.String (Ascii.ascii_of_N n) acc) String.EmptyString b.

(* "thread:label" for every step: the statement the chosen thread executes *)
Definition show_sched (sy : sys label) (sc : sched) : list String.string :=
  map (fun tl => to_string (print_dec (N.of_nat (fst tl)) ++ [58%N] ++
                            match snd tl with Some l => label_name l | None => bs "-" end))
      (annotate sy (init sy) sc).
