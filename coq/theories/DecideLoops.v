(* DecideLoops.v — translated code with a range loop (gen/decide.go: DRange):

     util/strings.go        StringContainsAnySubStrs   vs  Generic.contains_any_substr   (C13)
     response/response.go   Response.Record            vs  Generic.record / failed_with  (C13)

   The loop runs over a slice of unbounded length, so "for every input" is an induction over the
   list, not a case analysis: the loop variable is bound to its index, the test
   `strings.Contains(s, ss)` is answered from the element at that index. *)
From Scrapli Require Import Bytes Generic DecideLang GeneratedSkel.
From Coq Require Import String List Bool Arith Lia.
Import ListNotations.
Open Scope string_scope.

Lemma unary_length : forall i, String.length (unary i) = i.
Proof. induction i as [|i IH]; cbn [unary String.length]; [reflexivity | now rewrite IH]. Qed.

Lemma exec_range_then : forall f env v lst body rest s,
  exec (S f) env (DRange v lst body :: rest) s
  = (fun r => match r with Running s' => exec f env rest s' | x => x end)
      (range_loop (exec f env body) v (e_len env lst) 0 s).
Proof. reflexivity. Qed.

(* ---------- StringContainsAnySubStrs ---------- *)

Definition sc_env (s : bytes) (l : list bytes) : denv :=
  mkEnvX (fun _ => false) (fun _ _ => false) (fun _ => "") (fun _ => None) (fun _ _ _ => None)
         (fun x => if String.eqb x "l" then List.length l else O)
         (fun st a => if String.eqb a "strings.Contains(s, ss)"
                      then match sget st "ss" with
                           | Some u => match nth_error l (String.length u) with
                                       | Some ss => Some (Some (contains ss s))
                                       | None => Some None       (* index out of range: cannot happen *)
                                       end
                           | None => Some None
                           end
                      else None).

(* the value returned: the element the loop variable points at, or "" *)
Definition sc_run (s : bytes) (l : list bytes) : option bytes :=
  match exec 10 (sc_env s l) string_contains_any_code [] with
  | Returned st v =>
      if String.eqb v "ss" then match sget st "ss" with Some u => nth_error l (String.length u) | None => None end
      else if String.eqb v """""" then Some []%list
      else None
  | _ => None
  end.

Definition sc_body : list dstmt := [DIf (DAtom "strings.Contains(s, ss)") [DReturn "ss"] []].

(* index of the first element of [rest] contained in [s], counting from [i] *)
Fixpoint first_idx (s : bytes) (rest : list bytes) (i : nat) : option nat :=
  match rest with
  | []%list => None
  | (x :: t)%list => if contains x s then Some i else first_idx s t (S i)
  end.

(* the loop from index |pre| on: it returns from inside the body at the first match, with the loop
   variable bound to that index, and falls through when there is none *)
Lemma sc_loop : forall s rest pre st,
  match first_idx s rest (List.length pre) with
  | Some j => exists st', range_loop (exec 9 (sc_env s (pre ++ rest)) sc_body) "ss" (List.length rest) (List.length pre) st
                          = Returned st' "ss" /\ sget st' "ss" = Some (unary j)
  | None => exists st', range_loop (exec 9 (sc_env s (pre ++ rest)) sc_body) "ss" (List.length rest) (List.length pre) st
                        = Running st'
  end.
Proof.
  intros s rest. induction rest as [|x t IH]; intros pre st.
  - cbn [first_idx List.length range_loop]. eexists; reflexivity.
  - cbn [first_idx List.length range_loop].
    assert (Hb : exec 9 (sc_env s (pre ++ x :: t)) sc_body (("ss", unary (List.length pre)) :: st)%list
                 = if contains x s then Returned (("ss", unary (List.length pre)) :: st)%list "ss"
                   else Running (("ss", unary (List.length pre)) :: st)%list).
    { unfold sc_body. cbn [exec eval sc_env e_atoms e_atom String.eqb Ascii.eqb Bool.eqb sget fst snd].
      rewrite unary_length, nth_error_app2, Nat.sub_diag by lia. cbn [nth_error].
      destruct (contains x s); reflexivity. }
    rewrite Hb. destruct (contains x s) eqn:Hc.
    + eexists; split; [reflexivity|]. cbn [sget String.eqb Ascii.eqb Bool.eqb]. reflexivity.
    + specialize (IH (pre ++ [x])%list (("ss", unary (List.length pre)) :: st)%list).
      rewrite <- app_assoc in IH. cbn [app] in IH. rewrite app_length in IH. cbn [List.length] in IH.
      rewrite Nat.add_1_r in IH. exact IH.
Qed.

Lemma first_idx_spec : forall s rest pre,
  match first_idx s rest (List.length pre) with
  | Some j => nth_error (pre ++ rest) j = Some (contains_any_substr s rest)
  | None => contains_any_substr s rest = []%list
  end.
Proof.
  intros s rest. induction rest as [|x t IH]; intros pre; cbn [first_idx contains_any_substr]; [reflexivity|].
  destruct (contains x s) eqn:Hc.
  - rewrite nth_error_app2, Nat.sub_diag by lia. reflexivity.
  - specialize (IH (pre ++ [x])%list). rewrite <- app_assoc, app_length in IH. cbn [app List.length] in IH.
    rewrite Nat.add_1_r in IH. exact IH.
Qed.

(* THE TIE: for every string and every list, the source's StringContainsAnySubStrs (as translated on
   this run) returns what the model returns *)
Theorem contains_any_is_source : forall s l, sc_run s l = Some (contains_any_substr s l).
Proof.
  intros s l. unfold sc_run, string_contains_any_code.
  rewrite (exec_range_then 9). fold sc_body.
  change (e_len (sc_env s l) "l") with (List.length l).
  pose proof (sc_loop s l []%list []%list) as HL. pose proof (first_idx_spec s l []%list) as HS.
  cbn [app List.length] in HL, HS.
  destruct (first_idx s l 0) as [j|].
  - destruct HL as [st' [-> Hg]]. cbn [String.eqb Ascii.eqb Bool.eqb]. rewrite Hg, unary_length. exact HS.
  - destruct HL as [st' ->]. cbn [exec String.eqb Ascii.eqb Bool.eqb]. now rewrite HS.
Qed.

(* ---------- Response.Record ---------- *)

(* the only test: s != "" where s is the result of StringContainsAnySubStrs(r.Result,
   r.FailedWhenContains) and r.Result is string(b) *)
Definition rec_env (found_empty : bool) : denv :=
  mkEnvX (fun _ => false) (fun _ _ => false) (fun _ => "") (fun _ => None)
         (fun st a b =>
            if String.eqb a "s" && String.eqb b """""" then
              match sget st "s", sget st "r.Result" with
              | Some "util.StringContainsAnySubStrs(r.Result, r.FailedWhenContains)", Some "string(b)" => Some (Some found_empty)
              | _, _ => Some None
              end
            else None)
         (fun _ => O) (fun _ _ => None).

(* what a run leaves behind: whether r.Failed was set — to an OperationError whose ErrorString is s,
   Output r.Result and Input r.Input — and that r.Result / r.RawResult were set from b *)
Definition rec_run (found_empty : bool) : option bool :=
  match exec 20 (rec_env found_empty) response_record_code [] with
  | Running st =>
      match sget st "r.Result", sget st "r.RawResult" with
      | Some "string(b)", Some "b" =>
          match sget st "r.Failed" with
          | None => Some false
          | Some "&OperationError{ Input: r.Input, Output: r.Result, ErrorString: s, }" => Some true
          | Some _ => None
          end
      | _, _ => None
      end
  | _ => None
  end.

Definition is_nilb (b : bytes) : bool := match b with []%list => true | _ => false end.

(* THE TIE: Record marks the response failed exactly when the model does *)
Theorem record_is_source : forall cmd out fws,
  rec_run (is_nilb (contains_any_substr out fws))
  = Some (match r_failed (record cmd out fws) with Some _ => true | None => false end).
Proof.
  intros cmd out fws. unfold record, failed_with. cbn [r_failed].
  destruct (contains_any_substr out fws); reflexivity.
Qed.
