(* NcBuildSrc.v — the element builders of get and get-config as the source has them on this run
   (C03): Netconf.filter_elem / defaults_elem / op_payload.
     * buildFilterElem: nothing without a filter or without a type; a subtree filter carries the
       caller's filter as its content, an xpath filter as its select attribute; ANY other type is an
       error (BErr);
     * buildDefaultsElem: nothing without a mode; the four known modes give the element, any other an error;
     * buildGetElem / buildGetConfigElem: every builder's error is examined BEFORE the next builder
       is called and ends the operation (nothing is built, so nothing is sent); otherwise the element
       holds the source, the filter and the defaults that were built. *)
From Scrapli Require Import DecideLang GeneratedSkel.
From Coq Require Import String List Bool Arith.
Import ListNotations.
Open Scope string_scope.

Fixpoint trace_eqb (a b : list (string * string)) : bool :=
  match a, b with
  | [], [] => true
  | (k, v) :: a', (k', v') :: b' => String.eqb k k' && String.eqb v v' && trace_eqb a' b'
  | _, _ => false
  end.

Definition fe_env (no_filter no_type : bool) (ftype : string) : denv :=
  mkEnvX (fun _ => false)
         (fun a b => (String.eqb a "filter" && String.eqb b """""" && no_filter)
                     || (String.eqb a "filterType" && String.eqb b """""" && no_type))
         (fun x => if String.eqb x "filterType" then ftype else "")
         (fun _ => None) (fun _ _ _ => None) (fun _ => O) (fun _ _ => None).

Definition fe_ok : bool :=
  (* nothing asked *)
  forallb (fun nf => forallb (fun nt =>
     if nf || nt
     then match DecideLang.exec 20 (fe_env nf nt "FilterSubtree") nc_filter_elem_code [] with
          | Returned st v => String.eqb v "nil, nil" && trace_eqb st []
          | _ => false end
     else true) [false; true]) [false; true]
  && match DecideLang.exec 20 (fe_env false false "FilterSubtree") nc_filter_elem_code [] with
     | Returned st v => String.eqb v "f, err"
         && trace_eqb st [("f", "&filterT{ XMLName: xml.Name{}, Type: filterType, Select: """", Payload: filter, }")]
     | _ => false end
  && match DecideLang.exec 20 (fe_env false false "FilterXpath") nc_filter_elem_code [] with
     | Returned st v => String.eqb v "f, err"
         && trace_eqb st [("f", "&filterT{ XMLName: xml.Name{}, Type: filterType, Select: filter, }")]
     | _ => false end
  && match DecideLang.exec 20 (fe_env false false "anything else") nc_filter_elem_code [] with
     | Returned st v => String.eqb v "f, err"
         && trace_eqb st [("err", "fmt.Errorf(""%w: unknown filter type '%s'"", util.ErrNetconfError, filterType)")]
     | _ => false end.

Definition de_env (none : bool) (mode : string) : denv :=
  mkEnvX (fun _ => false) (fun a b => String.eqb a "defaultsType" && String.eqb b """""" && none)
         (fun x => if String.eqb x "defaultsType" then mode else "")
         (fun _ => None) (fun _ _ _ => None) (fun _ => O) (fun _ _ => None).

Definition de_ok : bool :=
  match DecideLang.exec 20 (de_env true "") nc_defaults_elem_code [] with
  | Returned _ v => String.eqb v "nil, nil" | _ => false end
  && forallb (fun m => match DecideLang.exec 20 (de_env false m) nc_defaults_elem_code [] with
                       | Returned _ v => String.eqb v "&defaultType{ XMLName: xml.Name{}, Namespace: defaultNamespace, Type: defaultsType, }, nil"
                       | _ => false end) ["reportAll"; "reportAllTagged"; "trim"; "explicit"]
  && match DecideLang.exec 20 (de_env false "anything else") nc_defaults_elem_code [] with
     | Returned _ v => String.eqb v "nil, fmt.Errorf(""%w: unknown default type '%s'"", util.ErrNetconfError, defaultsType)"
     | _ => false end.

(* the k-th builder call (1-based) fails; 0: none *)
Definition b_env (k : nat) : denv :=
  mkEnvX (fun _ => false) (fun _ _ => false) (fun _ => "") (fun _ => None)
         (fun s a b => if String.eqb a "err" && String.eqb b "nil"
                       then Some (Some (negb (Nat.eqb (List.length (calls_of s)) k))) else None)
         (fun _ => O) (fun _ _ => None).

Fixpoint strs_eqb (a b : list string) : bool :=
  match a, b with
  | [], [] => true
  | x :: a', y :: b' => String.eqb x y && strs_eqb a' b'
  | _, _ => false
  end.

Definition get_ok : bool :=
  match DecideLang.exec 20 (b_env 1) nc_get_elem_code [] with
  | Returned st v => String.eqb v "nil, err" && strs_eqb (calls_of st) ["d.buildFilterElem(filter, filterType)"]
                     && match sget st "netconfInput" with None => true | Some _ => false end
  | _ => false end
  && match DecideLang.exec 20 (b_env 0) nc_get_elem_code [] with
     | Returned st v => String.eqb v "netconfInput, nil"
         && trace_eqb (rev st) [("!call", "d.buildFilterElem(filter, filterType)");
                                ("getElem", "&get{ XMLName: xml.Name{}, Filter: filterElem, }");
                                ("netconfInput", "d.buildPayload(getElem)")]
     | _ => false end.

Definition gc_calls := ["d.buildFilterElem(filter, filterType)"; "d.buildDefaultsElem(defaultType)"].
Definition get_config_ok : bool :=
  forallb (fun k => match DecideLang.exec 20 (b_env k) nc_get_config_elem_code [] with
                    | Returned st v => String.eqb v "nil, err" && strs_eqb (calls_of st) (firstn k gc_calls)
                                       && match sget st "netconfInput" with None => true | Some _ => false end
                    | _ => false end) [1; 2]
  && match DecideLang.exec 20 (b_env 0) nc_get_config_elem_code [] with
     | Returned st v => String.eqb v "netconfInput, nil"
         && trace_eqb (rev st) [("!call", "d.buildFilterElem(filter, filterType)"); ("!call", "d.buildDefaultsElem(defaultType)");
                                ("getConfigElem", "&getConfig{ XMLName: xml.Name{}, Source: d.buildSourceElem(source), Filter: filterElem, Defaults: defaultsElem, }");
                                ("netconfInput", "d.buildPayload(getConfigElem)")]
     | _ => false end.

Definition nc_build_src_ok : bool :=
  fe_ok && de_ok && get_ok && get_config_ok
  && tests_known nc_filter_elem_code ["filter == """""; "filterType == """""; "switch filterType"]
  && tests_known nc_defaults_elem_code ["defaultsType == """""; "switch defaultsType"]
  && tests_known nc_get_elem_code ["err == nil"] && tests_known nc_get_config_elem_code ["err == nil"].

Theorem nc_build_is_source : nc_build_src_ok = true.
Proof. vm_compute. reflexivity. Qed.
Print Assumptions nc_build_is_source.
