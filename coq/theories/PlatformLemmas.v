(* PlatformLemmas.v — facts about the embedded definitions, by computation on Generated.v (a
   finite, exhaustive domain: every advertised name, every embedded file), re-checked whenever the
   YAML or the name list changes. *)
From Scrapli Require Import Bytes BytesLemmas Regex PlatformTypes Generated Channel Network NetworkAbs NetworkLemmas Platform.

Lemma all_names_embedded : names_ok = true.
Proof. vm_compute. reflexivity. Qed.

Lemma all_platforms_wf : forallb platform_wf real_platforms = true.
Proof. vm_compute. reflexivity. Qed.

Lemma all_files_advertised_or_example :
  forallb (fun f => mem_bytes f advertised_platforms || beqb f DOC_EXAMPLE) embedded_platform_files = true.
Proof. vm_compute. reflexivity. Qed.

Lemma merge_variant_spec (b v : platform) :
  pf_driver_type (merge_variant b v) = (match pf_driver_type v with [] => pf_driver_type b | t => t end)
  /\ pf_failed_when (merge_variant b v) = (match pf_failed_when v with [] => pf_failed_when b | l => l end)
  /\ pf_levels (merge_variant b v) = (match pf_levels v with [] => pf_levels b | l => l end)
  /\ pf_default_level (merge_variant b v) = (match pf_default_level v with [] => pf_default_level b | d => d end)
  /\ pf_on_open (merge_variant b v) = (match pf_on_open v with None => pf_on_open b | o => o end)
  /\ pf_on_close (merge_variant b v) = (match pf_on_close v with None => pf_on_close b | o => o end)
  /\ pf_net_on_open (merge_variant b v) = (match pf_net_on_open v with None => pf_net_on_open b | o => o end)
  /\ pf_net_on_close (merge_variant b v) = (match pf_net_on_close v with None => pf_net_on_close b | o => o end)
  /\ pf_options (merge_variant b v) = pf_options b.
Proof. repeat split. Qed.

Lemma wf_network_tree (pd : platform_def) : platform_wf pd = true ->
  pf_driver_type (pd_default pd) = bs "network" -> tree_wf (pf_levels (pd_default pd)) = true.
Proof.
  intros Hwf Hty. unfold platform_wf in Hwf. rewrite Hty in Hwf.
  assert (Hg : beqb (bs "network") (bs "generic") = false) by reflexivity. rewrite Hg in Hwf.
  assert (Hn : beqb (bs "network") (bs "network") = true) by reflexivity. rewrite Hn in Hwf.
  do 8 (apply andb_prop in Hwf; destruct Hwf as [Hwf _]). exact Hwf.
Qed.

Lemma wf_paths : forall pd a b, In pd real_platforms -> platform_wf pd = true ->
  pf_driver_type (pd_default pd) = bs "network" ->
  forall net, n_levels net = pf_levels (pd_default pd) -> orders_ok net ->
  In a (names (n_levels net)) -> In b (names (n_levels net)) ->
  build_path (S (length (n_levels net))) net a b [] = tree_path (n_levels net) a b
  /\ exists p, tree_path (n_levels net) a b = Some p /\ hd_error p = Some a /\ last p a = b /\ NoDup p.
Proof.
  intros pd a b _ Hwf Hty net Hl Hord Ha Hb.
  assert (W : tree_wf (n_levels net) = true) by (rewrite Hl; apply wf_network_tree; assumption).
  split.
  - apply dfs_is_tree_path; assumption.
  - destruct (tree_path_spec _ a b W Ha Hb) as (p & H1 & H2 & H3 & H4 & _). exists p. auto.
Qed.
