(* QueueLemmas.v — safety, losslessness, deadlock freedom and termination of the queue model
   (Queue.v) for all chunk lists, all consumer programs and all schedules. *)
From Scrapli Require Import Queue.
From Coq Require Import List Arith Bool Lia.
Import ListNotations.

Section QL.
  Variable A : Type.

  Lemma last_and_init_spec : forall (l i : list A) b,
      last_and_init A l = Some (i, b) -> l = i ++ [b].
  Proof.
    induction l as [|x t IH]; intros i b H.
    - discriminate H.
    - destruct t as [|y t'].
      + cbn in H. inversion H. reflexivity.
      + change (last_and_init A (x :: y :: t'))
          with (match last_and_init A (y :: t') with
                | Some (i, z) => Some (x :: i, z) | None => None end) in H.
        destruct (last_and_init A (y :: t')) as [[i' z]|] eqn:E; [|discriminate H].
        inversion H; subst. cbn. f_equal. apply IH. reflexivity.
  Qed.

  (* the mailbox holds a value satisfying P *)
  Definition boxis (b : option nat) (P : nat -> Prop) : Prop :=
    match b with Some n => P n | None => False end.

  (* control invariant: which pairs of program counters coexist, who holds the lock, whether the
     mailbox is full, and how the published / peeked depth relates to the real queue length *)
  Definition ctl (s : st A) : Prop :=
    let n := length (q A s) in
    match pp A s, cp A s with
    | PIdle, CIdle => lk A s = Free /\ box A s = Some n
    | PIdle, CPeekTook _ d => lk A s = Free /\ box A s = None /\ d = n
    | PIdle, CPeekDone _ d => lk A s = Free /\ box A s = Some n /\ d <= n
    | PIdle, CHaveLock _ => lk A s = HeldBy Cons /\ boxis (box A s) (fun _ => True)
    | PIdle, CTookBox _ => lk A s = HeldBy Cons /\ box A s = None
    | PIdle, CPutBox _ => lk A s = HeldBy Cons /\ box A s = Some n
    | PIdle, CRLocked => lk A s = ReadBy Cons /\ box A s = Some n
    | PHaveLock, CIdle => lk A s = HeldBy Prod /\ boxis (box A s) (fun m => S m = n)
    | PHaveLock, CPeekTook _ d => lk A s = HeldBy Prod /\ box A s = None /\ S d = n
    | PHaveLock, CPeekDone _ d =>
        lk A s = HeldBy Prod /\ boxis (box A s) (fun m => S m = n) /\ d <= n
    | PTookBox, CIdle => lk A s = HeldBy Prod /\ box A s = None
    | PTookBox, CPeekDone _ d => lk A s = HeldBy Prod /\ box A s = None /\ d <= n
    | PPutBox, CIdle => lk A s = HeldBy Prod /\ box A s = Some n
    | PPutBox, CPeekTook _ d => lk A s = HeldBy Prod /\ box A s = None /\ d = n
    | PPutBox, CPeekDone _ d => lk A s = HeldBy Prod /\ box A s = Some n /\ d <= n
    | _, _ => False
    end.

  Definition Inv (chunks : list A) (s : st A) : Prop :=
    depth A s = length (q A s) /\
    got A s ++ q A s = produced A s /\
    produced A s ++ todo A s = chunks /\
    panicked A s = false /\
    ctl s.

  Lemma Inv_init : forall chunks ops, Inv chunks (init chunks ops).
  Proof. intros. unfold Inv, ctl; cbn. repeat split; reflexivity. Qed.

  Ltac break_match_hyp H :=
    repeat match type of H with
           | context [match ?x with _ => _ end] => destruct x eqn:?; try discriminate H
           end.

  Ltac destr_and :=
    repeat match goal with
           | H : _ /\ _ |- _ => destruct H
           | H : boxis (Some _) _ |- _ => unfold boxis in H
           | H : boxis None _ |- _ => contradiction H
           end.

  Lemma Inv_step : forall chunks s t s', Inv chunks s -> step s t = Some s' -> Inv chunks s'.
  Proof.
    intros chunks s t s' HI Hs.
    destruct s as [q0 depth0 box0 lk0 pp0 todo0 cp0 cops0 got0 produced0 seen0 nils0 pan0].
    unfold Inv in HI; cbn in HI.
    destruct HI as (Hd & Hl & Hp & Hpan & Hc).
    subst pan0.
    unfold step in Hs; cbn in Hs.
    destruct t; [unfold step_prod in Hs | unfold step_cons in Hs]; cbn in Hs;
      unfold ctl in Hc; cbn in Hc;
      destruct pp0, cp0; try contradiction Hc;
      break_match_hyp Hs; inversion Hs; subst; clear Hs;
      destr_and; try discriminate; try congruence.
    all: subst.
    all: repeat match goal with
                | H : (_ =? _) = false |- _ => apply Nat.eqb_neq in H
                | H : (_ =? _) = true |- _ => apply Nat.eqb_eq in H
                | H : last_and_init _ _ = Some _ |- _ => apply last_and_init_spec in H
                end; subst.
    all: unfold Inv, ctl, boxis in *; cbn in *; rewrite ?app_length in *; cbn in *.
    all: try (exfalso; lia).
    all: repeat split; try lia; try congruence.
    all: try assumption.
    all: rewrite <- ?app_assoc; cbn; rewrite ?app_nil_r; try reflexivity.
  Qed.

  Lemma Inv_exec : forall sched chunks s, Inv chunks s -> Inv chunks (exec s sched).
  Proof.
    induction sched as [|t rest IH]; intros chunks s HI; cbn.
    - exact HI.
    - destruct (step s t) as [s'|] eqn:E.
      + apply IH. eapply Inv_step; eassumption.
      + apply IH. exact HI.
  Qed.

  Lemma Inv_reachable : forall chunks ops s, reachable chunks ops s -> Inv chunks s.
  Proof.
    intros chunks ops s [sched ->]. apply Inv_exec. apply Inv_init.
  Qed.

  (* progress: under the invariant, an unfinished state always has an enabled thread *)
  Ltac break_match_goal :=
    repeat match goal with
           | |- context [match ?x with _ => _ end] => destruct x eqn:?
           end.

  Lemma Inv_progress : forall chunks s,
      Inv chunks s -> ~ finished s -> step s Prod <> None \/ step s Cons <> None.
  Proof.
    intros chunks s HI Hnf.
    destruct s as [q0 depth0 box0 lk0 pp0 todo0 cp0 cops0 got0 produced0 seen0 nils0 pan0].
    unfold Inv in HI; cbn in HI.
    destruct HI as (Hd & Hl & Hp & Hpan & Hc).
    subst pan0.
    unfold finished in Hnf; cbn in Hnf.
    unfold ctl in Hc; cbn in Hc.
    destruct pp0, cp0; try contradiction Hc; destr_and; subst;
      try (destruct box0 as [bn|]; [unfold boxis in *|contradiction]).
    all: destruct todo0 as [|c0 todo0]; destruct cops0 as [|o0 cops0].
    all: try (exfalso; apply Hnf; repeat split; reflexivity).
    all: first
           [ solve [ left; unfold step, step_prod; cbn; break_match_goal; discriminate ]
           | solve [ right; unfold step, step_cons; cbn; break_match_goal; discriminate ] ].
  Qed.

  (* termination measure: remaining atomic steps of each thread's current operation plus a bound
     for every operation still to be started *)
  Definition pmeas (p : ppc) : nat :=
    match p with PIdle => 0 | PHaveLock => 3 | PTookBox => 2 | PPutBox => 1 end.

  Definition cmeas (c : cpc) : nat :=
    match c with
    | CIdle => 0 | CPeekTook _ _ => 5 | CPeekDone _ _ => 4 | CHaveLock _ => 3
    | CTookBox _ => 2 | CPutBox _ => 1 | CRLocked => 1
    end.

  Definition measure (s : st A) : nat :=
    4 * length (todo A s) + pmeas (pp A s) + 6 * length (cops A s) + cmeas (cp A s).

  Lemma step_decreases : forall s t s', step s t = Some s' -> measure s' < measure s.
  Proof.
    intros s t s' Hs.
    destruct s as [q0 depth0 box0 lk0 pp0 todo0 cp0 cops0 got0 produced0 seen0 nils0 pan0].
    unfold step in Hs; cbn in Hs.
    destruct pan0; [discriminate Hs|].
    destruct t; [unfold step_prod in Hs | unfold step_cons in Hs]; cbn in Hs;
      [destruct pp0 | destruct cp0];
      break_match_hyp Hs; inversion Hs; subst; clear Hs;
      unfold measure, pmeas, cmeas; cbn; lia.
  Qed.

End QL.

Arguments measure {A}.

(* ---------------------------------------------------------------------------------------- *)
(* the numbered statements *)

Theorem q_no_panic : forall A (chunks : list A) ops s,
    reachable chunks ops s -> panicked A s = false.
Proof. intros A chunks ops s H. apply Inv_reachable in H. apply H. Qed.

Theorem q_lossless : forall A chunks ops s,
    reachable chunks ops s -> got A s ++ q A s = produced A s.
Proof. intros A chunks ops s H. apply Inv_reachable in H. apply H. Qed.

Theorem q_produced : forall A chunks ops s,
    reachable chunks ops s -> produced A s ++ todo A s = chunks.
Proof. intros A chunks ops s H. apply Inv_reachable in H. apply H. Qed.

Theorem q_depth : forall A chunks ops s,
    reachable chunks ops s -> depth A s = length (q A s).
Proof. intros A chunks ops s H. apply Inv_reachable in H. apply H. Qed.

Theorem q_box_quiescent : forall A chunks ops s,
    reachable chunks ops s -> quiescent s ->
    box A s = Some (length (q A s)) /\ lk A s = Free.
Proof.
  intros A chunks ops s H [Hp Hc]. apply Inv_reachable in H.
  destruct H as (_ & _ & _ & _ & Hctl).
  unfold ctl in Hctl. rewrite Hp, Hc in Hctl. destruct Hctl as [Hl Hb]. split; assumption.
Qed.

Theorem q_no_deadlock : forall A chunks ops (s : st A),
    reachable chunks ops s -> ~ finished s -> exists t s', step s t = Some s'.
Proof.
  intros A chunks ops s H Hnf. apply Inv_reachable in H.
  destruct (Inv_progress A chunks s H Hnf) as [Hs|Hs].
  - exists Prod. destruct (step s Prod) as [s'|]; [exists s'; reflexivity | congruence].
  - exists Cons. destruct (step s Cons) as [s'|]; [exists s'; reflexivity | congruence].
Qed.

Theorem q_step_decreases : forall A s t s',
    @step A s t = Some s' -> measure s' < measure s.
Proof. intros A s t s' H. eapply step_decreases; eassumption. Qed.

(* consequence of q_step_decreases: a schedule performs at most [measure s] effective steps *)
Fixpoint effective {A} (s : st A) (sched : list tid) : nat :=
  match sched with
  | [] => 0
  | t :: rest => match step s t with
                 | Some s' => S (effective s' rest)
                 | None => effective s rest
                 end
  end.

Theorem q_effective_bounded : forall A sched (s : st A),
    effective s sched + measure (exec s sched) <= measure s.
Proof.
  intros A. induction sched as [|t rest IH]; intros s; cbn [effective exec].
  - lia.
  - destruct (step s t) as [s'|] eqn:E.
    + specialize (IH s'). apply q_step_decreases in E. lia.
    + apply IH.
Qed.

(* with q_no_deadlock: from every reachable state some continuation of the schedule finishes, and
   by q_effective_bounded no schedule can postpone that by more than [measure s] effective steps *)
Lemma finished_dec : forall A (s : st A), {finished s} + {~ finished s}.
Proof.
  intros A s.
  destruct s as [q0 depth0 box0 lk0 pp0 todo0 cp0 cops0 got0 produced0 seen0 nils0 pan0].
  unfold finished; cbn.
  destruct pp0, todo0, cp0, cops0;
    try (left; repeat split; reflexivity);
    right; intros (H1 & H2 & H3 & H4); discriminate.
Qed.

Lemma Inv_can_finish : forall A chunks n (s : st A),
    measure s < n -> Inv A chunks s -> exists sched, finished (exec s sched).
Proof.
  intros A chunks. induction n as [|n IH]; intros s Hm HI; [lia|].
  destruct (finished_dec A s) as [F|NF].
  - exists []. exact F.
  - destruct (Inv_progress A chunks s HI NF) as [Hs|Hs].
    + destruct (step s Prod) as [s1|] eqn:E; [|congruence].
      destruct (IH s1) as [sch Hf].
      * apply q_step_decreases in E. lia.
      * eapply Inv_step; eassumption.
      * exists (Prod :: sch). cbn [exec]. rewrite E. exact Hf.
    + destruct (step s Cons) as [s1|] eqn:E; [|congruence].
      destruct (IH s1) as [sch Hf].
      * apply q_step_decreases in E. lia.
      * eapply Inv_step; eassumption.
      * exists (Cons :: sch). cbn [exec]. rewrite E. exact Hf.
Qed.

Theorem q_can_finish : forall A chunks ops (s : st A),
    reachable chunks ops s -> exists sched, finished (exec s sched).
Proof.
  intros A chunks ops s H. apply Inv_reachable in H.
  eapply Inv_can_finish; [apply Nat.lt_succ_diag_r | exact H].
Qed.

Theorem q_final : forall A chunks ops s,
    reachable chunks ops s -> finished s -> got A s ++ q A s = chunks.
Proof.
  intros A chunks ops s H (_ & Ht & _ & _).
  pose proof (q_lossless A chunks ops s H) as Hl.
  pose proof (q_produced A chunks ops s H) as Hp.
  rewrite Ht, app_nil_r in Hp. congruence.
Qed.

Theorem q_empty_nonblocking : forall A (s : st A) o,
    cp A s = CPeekDone o 0 -> panicked A s = false ->
    exists s', step s Cons = Some s' /\ cp A s' = CIdle /\ lk A s' = lk A s /\
               q A s' = q A s /\ nils A s' = S (nils A s).
Proof.
  intros A s o Hc Hp.
  destruct s as [q0 depth0 box0 lk0 pp0 todo0 cp0 cops0 got0 produced0 seen0 nils0 pan0].
  cbn in Hc, Hp. subst cp0 pan0.
  eexists. split.
  - unfold step, step_cons; cbn. reflexivity.
  - cbn. repeat split; reflexivity.
Qed.

(* non-vacuity: enqueue 1 | dequeue racing enqueue 2 (peek taken while the producer holds the lock,
   consumer then blocks on the lock) | requeue (producer blocks on the lock) | dequeue | enqueue 3
   | getDepth | dequeue-all *)
Definition ex_sched : list tid :=
  [Prod; Prod; Prod; Prod;
   Cons; Prod; Cons; Prod; Cons; Prod; Prod; Cons; Cons; Cons; Cons;
   Cons; Prod; Cons; Cons; Cons;
   Cons; Cons; Cons; Cons; Cons; Cons;
   Prod; Prod; Prod; Prod;
   Cons; Cons;
   Cons; Cons; Cons; Cons; Cons; Cons].

Definition ex_final : st nat :=
  exec (init [1; 2; 3] [CDequeue; CRequeue; CDequeue; CGetDepth; CDequeueAll]) ex_sched.

Example q_example :
  finished ex_final /\ got nat ex_final = [1; 2; 3] /\ q nat ex_final = [] /\
  produced nat ex_final = [1; 2; 3] /\ depth_seen nat ex_final = [2] /\
  nils nat ex_final = 0 /\ panicked nat ex_final = false /\
  box nat ex_final = Some 0 /\ lk nat ex_final = Free /\
  effective (init [1; 2; 3] [CDequeue; CRequeue; CDequeue; CGetDepth; CDequeueAll]) ex_sched = 36.
Proof. vm_compute. repeat split; reflexivity. Qed.

Print Assumptions q_no_panic.
Print Assumptions q_lossless.
Print Assumptions q_produced.
Print Assumptions q_depth.
Print Assumptions q_box_quiescent.
Print Assumptions q_no_deadlock.
Print Assumptions q_step_decreases.
Print Assumptions q_effective_bounded.
Print Assumptions q_can_finish.
Print Assumptions q_final.
Print Assumptions q_empty_nonblocking.
Print Assumptions q_example.
