(* GenericSrc.v — translated code with a range loop (gen/decide.go: DRange):

     util/strings.go        StringContainsAnySubStrs   vs  Generic.contains_any_substr   (C13)
     response/response.go   Response.Record            vs  Generic.record / failed_with  (C13)

   The loop runs over a slice of unbounded length, so "for every input" is an induction over the
   list, not a case analysis: the loop variable is bound to its index, the test
   `strings.Contains(s, ss)` is answered from the element at that index. *)
From Scrapli Require Import Bytes Generic DecideLang DecideLemmas GeneratedSkel.
From Coq Require Import String List Bool Arith Lia.
Import ListNotations.
Open Scope nat_scope.
Open Scope string_scope.

(* ---------- StringContainsAnySubStrs ---------- *)

Definition sc_env (s : bytes) (l : list bytes) : denv :=
  mkEnvX (fun _ => false) (fun _ _ => false) (fun _ => "") (fun _ => None) (fun _ _ _ => None)
         (fun x => if String.eqb x "l" then List.length l else O)
         (fun st a => if String.eqb a "strings.Contains(s, ss)"
                      then match sget st "ss" with
                           | Some u => match nth_error l (String.length u) with
                                       | Some ss => Some (Some (contains ss s))
                                       | None => Some None       (* index out of range: cannot happen *)
                                       end
                           | None => Some None
                           end
                      else None).

(* the value returned: the element the loop variable points at, or "" *)
Definition sc_run (s : bytes) (l : list bytes) : option bytes :=
  match exec 10 (sc_env s l) string_contains_any_code [] with
  | Returned st v =>
      if String.eqb v "ss" then match sget st "ss" with Some u => nth_error l (String.length u) | None => None end
      else if String.eqb v """""" then Some []%list
      else None
  | _ => None
  end.

Definition sc_body : list dstmt := [DIf (DAtom "strings.Contains(s, ss)") [DReturn "ss"] []].

(* index of the first element of [rest] contained in [s], counting from [i] *)
Fixpoint first_idx (s : bytes) (rest : list bytes) (i : nat) : option nat :=
  match rest with
  | []%list => None
  | (x :: t)%list => if contains x s then Some i else first_idx s t (S i)
  end.

(* the loop from index |pre| on: it returns from inside the body at the first match, with the loop
   variable bound to that index, and falls through when there is none *)
Lemma sc_loop : forall s rest pre st,
  match first_idx s rest (List.length pre) with
  | Some j => exists st', range_loop (exec 9 (sc_env s (pre ++ rest)) sc_body) "ss" (List.length rest) (List.length pre) st
                          = Returned st' "ss" /\ sget st' "ss" = Some (unary j)
  | None => exists st', range_loop (exec 9 (sc_env s (pre ++ rest)) sc_body) "ss" (List.length rest) (List.length pre) st
                        = Running st'
  end.
Proof.
  intros s rest. induction rest as [|x t IH]; intros pre st.
  - cbn [first_idx List.length range_loop]. eexists; reflexivity.
  - cbn [first_idx List.length range_loop].
    assert (Hb : exec 9 (sc_env s (pre ++ x :: t)) sc_body (("ss", unary (List.length pre)) :: st)%list
                 = if contains x s then Returned (("ss", unary (List.length pre)) :: st)%list "ss"
                   else Running (("ss", unary (List.length pre)) :: st)%list).
    { unfold sc_body. cbn [exec eval sc_env e_atoms e_atom String.eqb Ascii.eqb Bool.eqb sget fst snd].
      rewrite unary_length, nth_error_app2, Nat.sub_diag by lia. cbn [nth_error].
      destruct (contains x s); reflexivity. }
    rewrite Hb. destruct (contains x s) eqn:Hc.
    + eexists; split; [reflexivity|]. cbn [sget String.eqb Ascii.eqb Bool.eqb]. reflexivity.
    + specialize (IH (pre ++ [x])%list (("ss", unary (List.length pre)) :: st)%list).
      rewrite <- app_assoc in IH. cbn [app] in IH. rewrite app_length in IH. cbn [List.length] in IH.
      rewrite Nat.add_1_r in IH. exact IH.
Qed.

Lemma first_idx_spec : forall s rest pre,
  match first_idx s rest (List.length pre) with
  | Some j => nth_error (pre ++ rest) j = Some (contains_any_substr s rest)
  | None => contains_any_substr s rest = []%list
  end.
Proof.
  intros s rest. induction rest as [|x t IH]; intros pre; cbn [first_idx contains_any_substr]; [reflexivity|].
  destruct (contains x s) eqn:Hc.
  - rewrite nth_error_app2, Nat.sub_diag by lia. reflexivity.
  - specialize (IH (pre ++ [x])%list). rewrite <- app_assoc, app_length in IH. cbn [app List.length] in IH.
    rewrite Nat.add_1_r in IH. exact IH.
Qed.

(* THE TIE: for every string and every list, the source's StringContainsAnySubStrs (as translated on
   this run) returns what the model returns *)
Theorem contains_any_is_source : forall s l, sc_run s l = Some (contains_any_substr s l).
Proof.
  intros s l. unfold sc_run, string_contains_any_code.
  rewrite (exec_range_then 9). fold sc_body.
  change (e_len (sc_env s l) "l") with (List.length l).
  pose proof (sc_loop s l []%list []%list) as HL. pose proof (first_idx_spec s l []%list) as HS.
  cbn [app List.length] in HL, HS.
  destruct (first_idx s l 0) as [j|].
  - destruct HL as [st' [-> Hg]]. cbn [String.eqb Ascii.eqb Bool.eqb]. rewrite Hg, unary_length. exact HS.
  - destruct HL as [st' ->]. cbn [exec String.eqb Ascii.eqb Bool.eqb]. now rewrite HS.
Qed.

(* ---------- Response.Record ---------- *)

(* the only test: s != "" where s is the result of StringContainsAnySubStrs(r.Result,
   r.FailedWhenContains) and r.Result is string(b) *)
Definition rec_env (found_empty : bool) : denv :=
  mkEnvX (fun _ => false) (fun _ _ => false) (fun _ => "") (fun _ => None)
         (fun st a b =>
            if String.eqb a "s" && String.eqb b """""" then
              match sget st "s", sget st "r.Result" with
              | Some "util.StringContainsAnySubStrs(r.Result, r.FailedWhenContains)", Some "string(b)" => Some (Some found_empty)
              | _, _ => Some None
              end
            else None)
         (fun _ => O) (fun _ _ => None).

(* what a run leaves behind: whether r.Failed was set — to an OperationError whose ErrorString is s,
   Output r.Result and Input r.Input — and that r.Result / r.RawResult were set from b *)
Definition rec_run (found_empty : bool) : option bool :=
  match exec 20 (rec_env found_empty) response_record_code [] with
  | Running st =>
      match sget st "r.Result", sget st "r.RawResult" with
      | Some "string(b)", Some "b" =>
          match sget st "r.Failed" with
          | None => Some false
          | Some "&OperationError{ Input: r.Input, Output: r.Result, ErrorString: s, }" => Some true
          | Some _ => None
          end
      | _, _ => None
      end
  | _ => None
  end.

Definition is_nilb (b : bytes) : bool := match b with []%list => true | _ => false end.

(* THE TIE: Record marks the response failed exactly when the model does *)
Theorem record_is_source : forall cmd out fws,
  rec_run (is_nilb (contains_any_substr out fws))
  = Some (match r_failed (record cmd out fws) with Some _ => true | None => false end).
Proof.
  intros cmd out fws. unfold record, failed_with. cbn [r_failed].
  destruct (contains_any_substr out fws); reflexivity.
Qed.

(* ---------- MultiResponse.AppendResponse ---------- *)

(* tests: re != nil (re is r.Failed asserted to *OperationError — the only type Record stores
   there), mr.Failed == nil (nothing failed so far, unless this run has just assigned it), ok (the
   aggregate is a *MultiOperationError — the only type this function stores there) *)
Definition ar_env (r_failed agg_nil : bool) : denv :=
  mkEnvX (fun _ => false) (fun _ _ => false) (fun _ => "") (fun _ => None)
         (fun st a b =>
            if String.eqb a "re" && String.eqb b "nil" then
              match sget st "re" with
              | Some "r.Failed.(*OperationError)" => Some (Some (negb r_failed))
              | _ => Some None
              end
            else if String.eqb a "mr.Failed" && String.eqb b "nil" then
              match sget st "mr.Failed" with Some _ => Some (Some false) | None => Some (Some agg_nil) end
            else None)
         (fun _ => O)
         (fun st a => if String.eqb a "ok" then
                        match sget st "ok" with
                        | Some "ok of mr.Failed.(*MultiOperationError)" => Some (Some true)
                        | _ => Some None
                        end
                      else None).

(* what one call does: (re appended to Operations?, aggregate non-nil afterwards?); the response
   itself must have been appended to Responses *)
Definition ar_run (r_failed agg_nil : bool) : option (bool * bool) :=
  match exec 20 (ar_env r_failed agg_nil) append_response_code [] with
  | Running st =>
      match sget st "mr.Responses" with
      | Some "append(mr.Responses, r)" =>
          let app := match sget st "e.Operations" with
                     | None => Some false
                     | Some "append(e.Operations, re)" => Some true
                     | Some _ => None
                     end in
          let agg := match sget st "mr.Failed" with
                     | None => Some (negb agg_nil)
                     | Some "&MultiOperationError{}" => Some true
                     | Some _ => None
                     end in
          match app, agg with Some a, Some g => Some (a, g) | _, _ => None end
      | _ => None
      end
  | _ => None
  end.

Lemma ar_run_cases : forall rf an, ar_run rf an = Some (rf, negb an || rf).
Proof. intros [|] [|]; reflexivity. Qed.

(* the multi response as (members, listed failures, aggregate set) and one AppendResponse on it,
   as the translated source performs it *)
Definition mstate := (list resp * list resp * bool)%type.
Definition ar_step (m : mstate) (r : resp) : option mstate :=
  let '(rs, ops, agg) := m in
  match ar_run (is_failed r) (negb agg) with
  | Some (app, agg') => Some ((rs ++ [r])%list, (if app then ops ++ [r] else ops)%list, agg')
  | None => None
  end.
Fixpoint ar_steps (m : mstate) (l : list resp) : option mstate :=
  match l with
  | []%list => Some m
  | (r :: t)%list => match ar_step m r with Some m' => ar_steps m' t | None => None end
  end.

Definition nilb {A} (l : list A) : bool := match l with []%list => true | _ => false end.

Lemma nilb_app_cons : forall A (l : list A) x, nilb (l ++ [x])%list = false.
Proof. intros A [|y l] x; reflexivity. Qed.

Lemma ar_steps_gen : forall l rs ops,
  ar_steps (rs, ops, negb (nilb ops)) l
  = Some ((rs ++ l)%list, (ops ++ multi_failed l)%list, negb (nilb (ops ++ multi_failed l)%list)).
Proof.
  induction l as [|r t IH]; intros rs ops.
  - cbn [ar_steps multi_failed filter]. now rewrite !app_nil_r.
  - cbn [ar_steps ar_step]. rewrite ar_run_cases, negb_involutive.
    unfold multi_failed in *. cbn [filter]. destruct (is_failed r) eqn:Hf.
    + rewrite orb_true_r. specialize (IH (rs ++ [r])%list (ops ++ [r])%list).
      rewrite nilb_app_cons in IH. cbn [negb] in IH. rewrite IH, <- !app_assoc. reflexivity.
    + rewrite orb_false_r. specialize (IH (rs ++ [r])%list ops). rewrite IH, <- !app_assoc. reflexivity.
Qed.

(* THE TIE: appending any list of responses, one AppendResponse (as translated from the source on
   this run) each, to an empty multi response leaves exactly those members, lists exactly the
   failed ones in order, and sets the aggregate exactly when one of them failed *)
Theorem append_response_is_source : forall l,
  ar_steps ([]%list, []%list, false) l = Some (l, multi_failed l, collapse_failed l).
Proof.
  intros l. change false with (negb (nilb (@nil resp))). rewrite ar_steps_gen. cbn [app].
  unfold collapse_failed. destruct (multi_failed l); reflexivity.
Qed.

(* ---------- Driver.SendCommands ---------- *)

(* [fl]: for each command, whether its response gets marked failed.  Every exchange succeeds (err ==
   nil throughout: what errors do to an operation is C05/C06's subject). *)
Definition sc2_env (stop : bool) (fl : list bool) : denv :=
  mkEnvX (fun _ => false)
         (fun a b => String.eqb a "len(commands)" && String.eqb b "0" && nilb fl)
         (fun _ => "")
         (fun a => if String.eqb a "op.StopOnFailed" then Some stop else None)
         (fun st a b =>
            if String.eqb a "err" && String.eqb b "nil" then Some (Some true)
            else if String.eqb a "r.Failed" && String.eqb b "nil" then
              match sget st "input" with
              | Some u => match nth_error fl (String.length u) with
                          | Some f => Some (Some (negb f))
                          | None => Some None
                          end
              | None => Some None
              end
            else None)
         (fun x => if String.eqb x "commands[:len(commands)-1]" then List.length fl - 1 else O)
         (fun _ _ => None).

Definition is_send (kv : string * string) : bool :=
  String.eqb (fst kv) "!call" && String.prefix "d.sendCommand(" (snd kv).
Definition is_append (kv : string * string) : bool :=
  String.eqb (fst kv) "!call" && String.eqb (snd kv) "m.AppendResponse(r)".
Definition nsend (st : store) : nat := List.length (filter is_send st).
Definition nappend (st : store) : nat := List.length (filter is_append st).

(* (commands transmitted, responses appended, what is returned) *)
Definition sc2_run (stop : bool) (fl : list bool) : option (nat * nat * string) :=
  match exec 30 (sc2_env stop fl) send_commands_code [] with
  | Returned st v => Some (nsend st, nappend st, v)
  | _ => None
  end.

(* the model's loop, on the failure flags *)
Fixpoint loop_count (stop : bool) (fl : list bool) : nat :=
  match fl with
  | []%list => O
  | (f :: rest)%list => match rest with
                        | []%list => 1
                        | _ => if stop && f then 1 else S (loop_count stop rest)
                        end
  end.

Lemma send_loop_count : forall fws stop cmds,
  List.length (send_loop fws stop cmds)
  = loop_count stop (map (fun co => is_failed (record (fst co) (snd co) fws)) cmds).
Proof.
  intros fws stop cmds. induction cmds as [|[c o] rest IH]; [reflexivity|].
  cbn [send_loop map loop_count fst snd]. destruct rest as [|p rest']; [reflexivity|].
  cbn [map]. cbn [map] in IH.
  destruct (stop && is_failed (record c o fws)); [reflexivity|]. cbn [List.length]. now rewrite IH.
Qed.

(* index of the first flag at which the loop stops, counting from [i] *)
Fixpoint fidx (stop : bool) (rest : list bool) (i : nat) : option nat :=
  match rest with
  | []%list => None
  | (f :: t)%list => if stop && f then Some i else fidx stop t (S i)
  end.

Definition sc2_body : list dstmt :=
  [DCall "d.sendCommand( input, op, opts..., )"; DIf (DNot (DEq "err" "nil")) [DReturn "nil, err"] [];
   DCall "m.AppendResponse(r)";
   DIf (DAnd (DAtom "op.StopOnFailed") (DNot (DEq "r.Failed" "nil"))) [DReturn "m, err"] []].

Lemma sc2_loop : forall stop l rest pre st,
  match fidx stop rest (List.length pre) with
  | Some j => exists st',
      range_loop (exec 25 (sc2_env stop (pre ++ rest ++ [l])) sc2_body) "input" (List.length rest) (List.length pre) st
      = Returned st' "m, err"
      /\ nsend st' + List.length pre = nsend st + S j /\ nappend st' + List.length pre = nappend st + S j
  | None => exists st',
      range_loop (exec 25 (sc2_env stop (pre ++ rest ++ [l])) sc2_body) "input" (List.length rest) (List.length pre) st
      = Running st'
      /\ nsend st' = nsend st + List.length rest /\ nappend st' = nappend st + List.length rest
  end.
Proof.
  intros stop l rest. induction rest as [|f t IH]; intros pre st.
  - cbn [fidx List.length range_loop]. eexists; split; [reflexivity|]. now rewrite !Nat.add_0_r.
  - cbn [fidx List.length range_loop].
    set (st1 := (("!call", "m.AppendResponse(r)") :: ("!call", "d.sendCommand( input, op, opts..., )")
                 :: ("input", unary (List.length pre)) :: st)%list).
    assert (Hb : exec 25 (sc2_env stop (pre ++ (f :: t) ++ [l])) sc2_body (("input", unary (List.length pre)) :: st)%list
                 = if stop && f then Returned st1 "m, err" else Running st1).
    { unfold sc2_body, st1.
      cbn [exec eval sc2_env e_atoms e_atom e_eqs e_eq String.eqb Ascii.eqb Bool.eqb sget fst snd andb option_map negb].
      rewrite unary_length, nth_error_app2, Nat.sub_diag by lia. cbn [nth_error app].
      destruct stop, f; reflexivity. }
    rewrite Hb.
    assert (Hs : nsend st1 = S (nsend st) /\ nappend st1 = S (nappend st)) by (split; reflexivity).
    destruct Hs as [Hs Ha].
    destruct (stop && f) eqn:Hc.
    + exists st1. split; [reflexivity|]. lia.
    + specialize (IH (pre ++ [f])%list st1).
      rewrite <- app_assoc in IH. cbn [app] in IH. rewrite app_length in IH. cbn [List.length] in IH.
      rewrite Nat.add_1_r in IH.
      destruct (fidx stop t (S (List.length pre))) as [j|].
      * destruct IH as [st' [E [H1 H2]]]. exists st'. split; [exact E|]. lia.
      * destruct IH as [st' [E [H1 H2]]]. exists st'. split; [exact E|]. lia.
Qed.

Lemma loop_count_fidx : forall stop l init,
  loop_count stop (init ++ [l])
  = match fidx stop init 0 with Some j => S j | None => S (List.length init) end.
Proof.
  intros stop l init.
  assert (G : forall i, match fidx stop init i with
                        | Some j => i + loop_count stop (init ++ [l]) = S j
                        | None => loop_count stop (init ++ [l]) = S (List.length init) end).
  { induction init as [|f t IH]; intros i; [reflexivity|].
    cbn [fidx app loop_count]. destruct (t ++ [l])%list eqn:Ht; [destruct t; discriminate|]. rewrite <- Ht in *. clear Ht.
    destruct (stop && f); [lia|]. specialize (IH (S i)). cbn [List.length].
    destruct (fidx stop t (S i)); lia. }
  specialize (G 0). destruct (fidx stop init 0); lia.
Qed.

Lemma send_commands_code_shape : exists pre post,
  send_commands_code = ([DIf (DEq "len(commands)" "0") pre []; DCall "NewOperation(opts...)";
                         DIf (DNot (DEq "err" "nil")) [DReturn "nil, err"] [];
                         DAssign "m" "response.NewMultiResponse(d.Transport.GetHost())";
                         DRange "input" "commands[:len(commands)-1]" sc2_body] ++ post)%list
  /\ pre = [DReturn "nil, fmt.Errorf(""%w: no inputs provided"", util.ErrNoOp)"]
  /\ post = [DCall "d.sendCommand( commands[len(commands)-1], op, opts..., )";
             DIf (DNot (DEq "err" "nil")) [DReturn "nil, err"] []; DCall "m.AppendResponse(r)"; DReturn "m, nil"].
Proof. do 2 eexists. split; [reflexivity|]. split; reflexivity. Qed.


(* THE TIE: for every non-empty command list and every pattern of failed responses, SendCommands as
   translated from the source on this run transmits exactly as many commands as the model's loop
   (always an initial segment of the list, by construction of the loop), appends exactly one
   response per transmitted command, and returns the multi response *)
Theorem send_commands_is_source : forall stop init l,
  let fl := (init ++ [l])%list in
  sc2_run stop fl = Some (loop_count stop fl, loop_count stop fl,
                          match fidx stop init 0 with Some _ => "m, err" | None => "m, nil" end).
Proof.
  intros stop init l fl. subst fl. unfold sc2_run, send_commands_code. fold sc2_body.
  assert (Hn : nilb (init ++ [l])%list = false) by apply nilb_app_cons.
  assert (Hl : e_len (sc2_env stop (init ++ [l])) "commands[:len(commands)-1]" = List.length init).
  { cbn [sc2_env e_len String.eqb Ascii.eqb Bool.eqb]. rewrite app_length. cbn [List.length]. lia. }
  assert (Herr : forall st, eval (sc2_env stop (init ++ [l])) st (DNot (DEq "err" "nil")) = Some false) by reflexivity.
  rewrite exec_step_if.
  replace (eval (sc2_env stop (init ++ [l])) []%list (DEq "len(commands)" "0")) with (Some false)
    by (cbn [eval sc2_env e_eqs e_eq String.eqb Ascii.eqb Bool.eqb andb]; now rewrite Hn).
  rewrite exec_step_nil. cbn [cont].
  rewrite exec_step_call, exec_step_if, Herr, exec_step_nil. cbn [cont].
  rewrite exec_step_assign, exec_step_range, Hl.
  pose proof (sc2_loop stop l init []%list
                [("m", "response.NewMultiResponse(d.Transport.GetHost())"); ("!call", "NewOperation(opts...)")]%list) as HL.
  cbn [app List.length] in HL.
  rewrite (loop_count_fidx stop l init).
  destruct (fidx stop init 0) as [j|].
  - destruct HL as [st' [-> [H1 H2]]]. cbn [cont]. rewrite Nat.add_0_r in H1, H2.
    change (nsend _) with 0 in H1 at 2. change (nappend _) with 0 in H2 at 2.
    cbn [Nat.add] in H1, H2. now rewrite H1, H2.
  - destruct HL as [st' [-> [H1 H2]]]. cbn [cont].
    rewrite exec_step_call, exec_step_if, Herr, exec_step_nil. cbn [cont].
    rewrite exec_step_call, exec_step_return.
    change (nsend (?a :: ?b :: st')%list) with (S (nsend st')).
    change (nappend (?a :: ?b :: st')%list) with (S (nappend st')).
    rewrite H1, H2. reflexivity.
Qed.

(* ---------- Driver.sendCommand: which failure list is in force ---------- *)

Definition sc1_env (op_empty : bool) : denv :=
  mkEnvX (fun _ => false)
         (fun a b => String.eqb a "len(driverOpts.FailedWhenContains)" && String.eqb b "0" && op_empty)
         (fun _ => "") (fun _ => None)
         (fun st a b => if String.eqb a "err" && String.eqb b "nil" then Some (Some true) else None)
         (fun _ => O) (fun _ _ => None).

(* Some true: the response is created with the driver's list; Some false: with the operation's.
   The response must be created from driverOpts.FailedWhenContains, the input sent, the output
   recorded into that response, and the response returned *)
Definition sc1_run (op_empty : bool) : option bool :=
  match exec 20 (sc1_env op_empty) send_command_code [] with
  | Returned st "r, nil" =>
      match sget st "r", calls_of st with
      | Some "response.NewResponse( command, d.Transport.GetHost(), d.Transport.GetPort(), driverOpts.FailedWhenContains, )",
        ["d.Channel.SendInput(command, opts...)"; "r.Record(b)"]%list =>
          match sget st "driverOpts.FailedWhenContains" with
          | None => Some false
          | Some "d.FailedWhenContains" => Some true
          | Some _ => None
          end
      | _, _ => None
      end
  | _ => None
  end.

(* THE TIE: the operation-level list replaces the driver-level list only when non-empty *)
Theorem send_command_fws_is_source : forall opf drvf : list bytes,
  sc1_run (nilb opf) = Some (nilb opf)
  /\ effective_fws opf drvf = if nilb opf then drvf else opf.
Proof. intros [|x opf] drvf; split; reflexivity. Qed.

(* ---------- network Driver.SendConfig: the collapse ---------- *)

Definition cfg_env (n : nat) : denv :=
  mkEnvX (fun _ => false) (fun _ _ => false) (fun _ => "") (fun _ => None)
         (fun st a b => if String.eqb a "err" && String.eqb b "nil" then Some (Some true) else None)
         (fun x => if String.eqb x "m.Responses" then n else O) (fun _ _ => None).

(* the indices j for which `rOutputs[i] = resp.Result` ran with i the index of resp and resp the
   j-th member, newest first *)
Fixpoint outs (st : store) : list nat :=
  match st with
  | []%list => []%list
  | ((k1, v1) :: rest)%list =>
      match rest with
      | ((k2, v2) :: (k3, v3) :: _)%list =>
          if String.eqb k1 "rOutputs[i]" && String.eqb v1 "resp.Result" && String.eqb k2 "i"
             && String.eqb v2 "index of resp" && String.eqb k3 "resp"
          then (String.length v3 :: outs rest)%list else outs rest
      | _ => outs rest
      end
  end.

Definition cfg_run (n : nat) : option (list nat) :=
  match exec 30 (cfg_env n) send_config_code [] with
  | Returned st "r, nil" =>
      match sget st "r.Result", sget st "r.Failed", sget st "rOutputs" with
      | Some "strings.Join(rOutputs, ""\n"")", Some "m.Failed", Some "make([]string, len(m.Responses))" => Some (rev (outs st))
      | _, _, _ => None
      end
  | _ => None
  end.

Definition cfg_body : list dstmt := [DAssign "i" "index of resp"; DAssign "rOutputs[i]" "resp.Result"].

Lemma cfg_loop : forall n k i st,
  exists st', range_loop (exec 24 (cfg_env n) cfg_body) "resp" k i st = Running st'
              /\ outs st' = (rev (seq i k) ++ outs st)%list
              /\ (forall key, String.eqb key "resp" = false -> String.eqb key "i" = false ->
                              String.eqb key "rOutputs[i]" = false -> sget st' key = sget st key).
Proof.
  intros n k. induction k as [|k IH]; intros i st.
  - exists st. cbn [range_loop seq rev app]. repeat split; reflexivity.
  - cbn [range_loop].
    change (exec 24 (cfg_env n) cfg_body (("resp", unary i) :: st)%list)
      with (Running (("rOutputs[i]", "resp.Result") :: ("i", "index of resp") :: ("resp", unary i) :: st)%list).
    destruct (IH (S i) (("rOutputs[i]", "resp.Result") :: ("i", "index of resp") :: ("resp", unary i) :: st)%list)
      as [st' [E [Ho Hk]]].
    exists st'. split; [exact E|]. split.
    + rewrite Ho. cbn [seq rev]. rewrite <- app_assoc. f_equal.
      change (outs (("rOutputs[i]", "resp.Result") :: ("i", "index of resp") :: ("resp", unary i) :: st)%list)
        with (String.length (unary i) :: outs (("i", "index of resp") :: ("resp", unary i) :: st))%list.
      rewrite unary_length. cbn [app]. f_equal.
      destruct st as [|[k1 v1] [|[k2 v2] st2]]; reflexivity.
    + intros key H1 H2 H3. rewrite (Hk key H1 H2 H3). cbn [sget]. now rewrite H3, H2, H1.
Qed.

(* THE TIE: SendConfig as translated from the source on this run copies the result of EVERY member
   of the multi response, in order, into the slice it joins with newlines, and passes the aggregate
   on as the collapsed response's failure *)
Theorem send_config_is_source : forall n, cfg_run n = Some (seq 0 n).
Proof.
  intros n. unfold cfg_run, send_config_code. fold cfg_body.
  assert (Herr : forall st, eval (cfg_env n) st (DNot (DEq "err" "nil")) = Some false) by reflexivity.
  rewrite exec_step_assign, exec_step_call, exec_step_if, Herr, exec_step_nil. cbn [cont].
  rewrite !exec_step_assign, exec_step_range.
  change (e_len (cfg_env n) "m.Responses") with n.
  match goal with |- context [range_loop _ _ n 0 ?s] => destruct (cfg_loop n n 0 s) as [st' [E [Ho Hk]]] end.
  rewrite E. cbn [cont]. rewrite !exec_step_assign, exec_step_return.
  cbn [sget String.eqb Ascii.eqb Bool.eqb]. rewrite Hk by reflexivity.
  cbn [sget String.eqb Ascii.eqb Bool.eqb].
  match goal with |- Some (rev (outs ?s)) = _ => 
    assert (Hs : outs s = outs st') end.
  { destruct st' as [|[k1 v1] [|[k2 v2] st2]]; reflexivity. }
  rewrite Hs, Ho. cbn [outs]. now rewrite app_nil_r, rev_involutive.
Qed.

(* every test the translated code makes is one the environment above was written for (an unknown
   equality would otherwise evaluate to false without notice) *)
Definition response_record_known : list string := "s == """"" :: nil.
Lemma response_record_tests_known : tests_known response_record_code response_record_known = true.
Proof. vm_compute. reflexivity. Qed.

(* every test the translated code makes is one the environment above was written for (an unknown
   equality would otherwise evaluate to false without notice) *)
Definition append_response_known : list string := "re == nil" :: "mr.Failed == nil" :: "ok" :: nil.
Lemma append_response_tests_known : tests_known append_response_code append_response_known = true.
Proof. vm_compute. reflexivity. Qed.

(* every test the translated code makes is one the environment above was written for (an unknown
   equality would otherwise evaluate to false without notice) *)
Definition send_command_known : list string := "len(driverOpts.FailedWhenContains) == 0" :: "err == nil" :: nil.
Lemma send_command_tests_known : tests_known send_command_code send_command_known = true.
Proof. vm_compute. reflexivity. Qed.
