(* DecideTel.v — Telnet.handleControlCharResponse as translated from the source = Telnet.handle (C15). *)
From Scrapli Require Import Bytes Regex PlatformTypes Generated Channel Netconf DecideLang GeneratedSkel.
From Coq Require Import String List Bool ZArith NArith.
Import ListNotations.
Open Scope string_scope.

(* ---------- Telnet.handleControlCharResponse (C15) ---------- *)
From Scrapli Require Import Telnet.
Open Scope list_scope.

(* the tests the function performs on (ctrlBuf, c), as booleans *)
Record tel_tests := mkTT { tt_len0 : bool; tt_len1 : bool; tt_len2 : bool; tt_c_iac : bool; tt_c_verb : bool;
                           tt_c_sga : bool; tt_cmd_do : bool; tt_cmd_dodont : bool; tt_cmd_will : bool; tt_cmd_wont : bool }.

Definition tel_env (t : tel_tests) : denv :=
  mkEnv (fun _ => false)
        (fun a v =>
           (String.eqb a "len(ctrlBuf)" && ((String.eqb v "0" && tt_len0 t) || (String.eqb v "1" && tt_len1 t) || (String.eqb v "2" && tt_len2 t)))
           || (String.eqb a "c" && ((String.eqb v "iac" && tt_c_iac t) || (String.eqb v "sga" && tt_c_sga t)))
           || (String.eqb a "cmd" && ((String.eqb v "do" && tt_cmd_do t) || (String.eqb v "will" && tt_cmd_will t) || (String.eqb v "wont" && tt_cmd_wont t)))
           || (String.eqb a "writeErr" && String.eqb v "nil"))           (* writes succeed *)
        (fun _ => "")
        (fun a => if String.eqb a "util.ByteIsAny(c, []byte{do, dont, will, wont})" then Some (tt_c_verb t)
                  else if String.eqb a "util.ByteIsAny(cmd, []byte{do, dont})" then Some (tt_cmd_dodont t)
                  else None)
        (fun _ _ _ => None).

(* what a run does to the three pieces of state *)
Inductive ctrl_act := CKeep | CAppend | CReset | CBad.
Inductive reply_act := RNone | RWill | RWont | RDo | RDont | RBad.

Definition tel_run (t : tel_tests) : option (ctrl_act * bool (* data gets c *) * reply_act) :=
  match exec 60 (tel_env t) telnet_handle_code [] with
  | Returned s v =>
      if negb (String.eqb v "ctrlBuf, nil") then None else
      let ca := match sget s "ctrlBuf" with
                | None => CKeep
                | Some x => if String.eqb x "append(ctrlBuf, c)" then CAppend
                            else if String.eqb x "make([]byte, 0)" then CReset else CBad
                end in
      let da := match sget s "t.initialBuf" with
                | None => Some false
                | Some x => if String.eqb x "append(t.initialBuf, c)" then Some true else None
                end in
      let ra := match calls_of s with
                | [] => RNone
                | [x] => if String.eqb x "t.c.Write([]byte{iac, will, c}) -> _, writeErr" then RWill
                         else if String.eqb x "t.c.Write([]byte{iac, wont, c}) -> _, writeErr" then RWont
                         else if String.eqb x "t.c.Write([]byte{iac, do, c}) -> _, writeErr" then RDo
                         else if String.eqb x "t.c.Write([]byte{iac, dont, c}) -> _, writeErr" then RDont else RBad
                | _ => RBad
                end in
      match da with Some d => Some (ca, d, ra) | None => None end
  | _ => None
  end.

Definition tel_apply (s : tstate) (c : N) (r : ctrl_act * bool * reply_act) : tstate :=
  let '(ca, d, ra) := r in
  mkT (match ca with CKeep | CBad => t_ctrl s | CAppend => (t_ctrl s ++ [c])%list | CReset => [] end)
      (if d then (t_data s ++ [c])%list else t_data s)
      (app (t_replies s) match ra with
                      | RWill => [[telnet_iac; telnet_will; c]] | RWont => [[telnet_iac; telnet_wont; c]]
                      | RDo => [[telnet_iac; telnet_do; c]] | RDont => [[telnet_iac; telnet_dont; c]]
                      | RNone | RBad => [] end).

Definition tel_tests_of (s : tstate) (c : N) : tel_tests :=
  let cmd := nth 1 (t_ctrl s) 0%N in
  mkTT (Nat.eqb (length (t_ctrl s)) 0) (Nat.eqb (length (t_ctrl s)) 1) (Nat.eqb (length (t_ctrl s)) 2)
       (c =? telnet_iac)%N (is_verb c) (c =? telnet_sga)%N
       (cmd =? telnet_do)%N ((cmd =? telnet_do) || (cmd =? telnet_dont))%N (cmd =? telnet_will)%N (cmd =? telnet_wont)%N.

(* the translated function, over all combinations of test outcomes (1024 runs of the interpreter) *)
Definition tel_expected (t : tel_tests) : ctrl_act * bool * reply_act :=
  if tt_len0 t then (if tt_c_iac t then (CAppend, false, RNone) else (CKeep, true, RNone))
  else if tt_len1 t && tt_c_verb t then (CAppend, false, RNone)
  else if tt_len1 t then (CReset, tt_c_iac t, RNone)
  else if tt_len2 t then
    (CReset, false,
     if tt_cmd_do t && tt_c_sga t then RWill
     else if tt_cmd_dodont t then RWont
     else if tt_cmd_will t then RDo
     else if tt_cmd_wont t then RDont else RNone)
  else (CKeep, false, RNone).

Lemma tel_run_cases : forall t, tel_run t = Some (tel_expected t).
Proof.
  intros [a b c d e f g h i j].
  destruct a, b, c, d, e, f, g, h, i, j; vm_compute; reflexivity.
Qed.

(* THE TIE: for every control buffer and every byte, the source's handleControlCharResponse (as
   translated on this run; writes succeeding) changes the control buffer, the data buffer and the
   replies exactly as the model's [handle] does *)
Theorem telnet_handle_is_source : forall s c,
  option_map (tel_apply s c) (tel_run (tel_tests_of s c)) = Some (handle s c).
Proof.
  intros s c. rewrite tel_run_cases. cbn [option_map]. f_equal.
  unfold tel_expected, tel_tests_of, handle, tel_apply.
  cbn [tt_len0 tt_len1 tt_len2 tt_c_iac tt_c_verb tt_c_sga tt_cmd_do tt_cmd_dodont tt_cmd_will tt_cmd_wont].
  destruct s as [ctrl data replies]. cbn [t_ctrl t_data t_replies].
  destruct ctrl as [|x [|cmd [|y l]]]; cbn [length Nat.eqb nth andb].
  - destruct (c =? telnet_iac)%N; rewrite ?app_nil_r; reflexivity.
  - destruct (is_verb c); [rewrite app_nil_r; reflexivity|].
    destruct (c =? telnet_iac)%N; rewrite ?app_nil_r; reflexivity.
  - destruct (cmd =? telnet_do)%N, (c =? telnet_sga)%N, (cmd =? telnet_dont)%N, (cmd =? telnet_will)%N, (cmd =? telnet_wont)%N;
      cbn [andb orb]; rewrite ?app_nil_r; reflexivity.
  - rewrite app_nil_r. reflexivity.
Qed.

(* every test the translated code makes is one the environment above was written for (an unknown
   equality would otherwise evaluate to false without notice) *)
Definition telnet_handle_known : list string := "len(ctrlBuf) == 0" :: "util.ByteIsAny(c, []byte{do, dont, will, wont})" :: "len(ctrlBuf) == 1" :: "c == iac" :: "len(ctrlBuf) == 2" :: "cmd == do" :: "c == sga" :: "util.ByteIsAny(cmd, []byte{do, dont})" :: "cmd == will" :: "cmd == wont" :: "writeErr == nil" :: nil.
Lemma telnet_handle_tests_known : tests_known telnet_handle_code telnet_handle_known = true.
Proof. vm_compute. reflexivity. Qed.
