(* InteractiveSrcModel.v — the model side of the common ground of InteractiveSrcDefs.v: the primitives
   Channel.interactive_loop invokes when every read succeeds are those of the act sequence [iacts]
   computed from the per-event flags [mflags]. *)
From Scrapli Require Import Bytes Regex PlatformTypes Generated Channel InteractiveSrcDefs.
From Coq Require Import List Bool Arith Lia.
Import ListNotations.

Lemma complete_nonempty_and : forall o pb,
  complete_nonempty o && existsb (fun p => rx_match p pb) (o_complete o)
  = existsb (fun p => rx_match p pb) (o_complete o).
Proof.
  intros o pb. unfold complete_nonempty. destruct (o_complete o); reflexivity.
Qed.

Lemma interactive_loop_acts_gen : forall cfg o rest pre reads acc,
  pacts (interactive_loop cfg o rest acc) reads
  = flat_map (act_pacts cfg o (pre ++ rest))
      (iacts (complete_nonempty o) (mflags o rest reads) (length pre)).
Proof.
  intros cfg o rest. induction rest as [|e t IH]; intros pre reads acc.
  - reflexivity.
  - assert (Hn : nth_error (pre ++ e :: t) (length pre) = Some e).
    { rewrite nth_error_app2 by lia. rewrite Nat.sub_diag. reflexivity. }
    assert (IH' : forall reads acc,
      pacts (interactive_loop cfg o t acc) reads
      = flat_map (act_pacts cfg o (pre ++ e :: t))
          (iacts (complete_nonempty o) (mflags o t reads) (S (length pre)))).
    { intros reads0 acc0. specialize (IH (pre ++ [e]) reads0 acc0).
      rewrite <- app_assoc, app_length, Nat.add_1_r in IH. exact IH. }
    assert (Htail : forall pb reads acc,
      pacts (match t with
             | [] => Ret (process_out cfg acc false)
             | _ :: _ =>
                 if existsb (fun p => rx_match p pb) (o_complete o)
                 then Ret (process_out cfg acc false)
                 else interactive_loop cfg o t acc
             end) reads
      = flat_map (act_pacts cfg o (pre ++ e :: t))
          (match mflags o t reads with
           | [] => [ADone]
           | _ :: _ =>
               if complete_nonempty o && existsb (fun p => rx_match p pb) (o_complete o)
               then [ADone]
               else iacts (complete_nonempty o) (mflags o t reads) (S (length pre))
           end)).
    { intros pb reads0 acc0. rewrite complete_nonempty_and.
      destruct t as [|e' t'].
      - reflexivity.
      - destruct (mflags o (e' :: t') reads0) eqn:E.
        + cbn [mflags] in E. discriminate E.
        + rewrite <- E.
          destruct (existsb (fun p => rx_match p pb) (o_complete o)).
          * reflexivity.
          * apply IH'. }
    clear IH IH'.
    destruct e as [inp resp hid].
    cbn [interactive_loop mflags iacts ev_input ev_response ev_hidden].
    unfold echo_reads, until_echo.
    cbn [ev_input ev_response ev_hidden].
    destruct resp as [r|], hid, inp as [|b inp];
      cbn [is_some andb negb flat_map app act_pacts]; rewrite Hn;
      cbn [ev_input ev_response ev_hidden app];
      destruct (o_exact o) eqn:Ex;
      destruct reads as [|r1 [|r2 rs]];
      cbn [pacts tl hd negb andb app];
      rewrite Htail; reflexivity.
Qed.

Theorem interactive_loop_acts : forall cfg o events reads acc,
  pacts (interactive_loop cfg o events acc) reads
  = flat_map (act_pacts cfg o events) (iacts (complete_nonempty o) (mflags o events reads) 0).
Proof.
  intros cfg o events reads acc.
  exact (interactive_loop_acts_gen cfg o events [] reads acc).
Qed.

Print Assumptions interactive_loop_acts.
