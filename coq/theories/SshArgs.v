(* SshArgs.v — the SSH connection settings of both SSH transports (C14):
   - transport/system.go  System.buildOpenArgs + the "-s netconf" suffix of System.openNetconf:
     the argument list handed to the ssh binary;
   - transport/standard.go Standard.openBase: which host-key policy and which authentication
     methods crypto/ssh is configured with.
   Every string literal of the argument list is picked BY POSITION from the generated lists
   [sys_open_args_literals] / [sys_open_netconf_literals] (gen/ re-extracts them from the Go source
   on every run), so swapping e.g. "StrictHostKeyChecking=yes"/"no" in system.go changes this
   model and breaks the theorems of SshArgsLemmas.v. *)
From Scrapli Require Import Bytes Generated.
Open Scope N_scope.

Record cfg := mkSsh {
  c_host : bytes;             (* Args.Host *)
  c_port : N;                 (* Args.Port *)
  c_timeout : N;              (* int(Args.TimeoutSocket.Seconds()) *)
  c_user : bytes;             (* Args.User *)
  c_password : bytes;         (* Args.Password *)
  c_strict : bool;            (* SSHArgs.StrictKey *)
  c_known_hosts : bytes;      (* SSHArgs.KnownHostsFile *)
  c_config : bytes;           (* SSHArgs.ConfigFile *)
  c_key : bytes;              (* SSHArgs.PrivateKeyPath *)
  c_extra : list bytes;       (* System.ExtraArgs *)
  c_netconf : bool            (* SSHArgs.NetconfConnection *)
}.

Definition set_password (c : cfg) (p : bytes) : cfg :=
  mkSsh (c_host c) (c_port c) (c_timeout c) (c_user c) p (c_strict c) (c_known_hosts c)
        (c_config c) (c_key c) (c_extra c) (c_netconf c).

(* NewArgs / NewSSHArgs without options *)
Definition default_cfg (host : bytes) : cfg :=
  mkSsh host tr_default_port tr_default_timeout_socket_seconds [] [] tr_default_ssh_strict_key
        [] [] [] [] false.

(* k-th string literal of System.buildOpenArgs / System.openNetconf, in source order *)
Definition alit (k : nat) : bytes := nth k sys_open_args_literals [].
Definition nlit (k : nat) : bytes := nth k sys_open_netconf_literals [].

(* fmt.Sprintf with ONE verb: the first "%d" or "%s" of the format is replaced by the (already
   rendered) argument *)
Fixpoint fmt1 (f arg : bytes) : bytes :=
  match f with
  | [] => []
  | x :: t =>
      match t with
      | v :: t' => if (x =? 37) && ((v =? 100) || (v =? 115)) then arg ++ t' else x :: fmt1 t arg
      | [] => [x]
      end
  end.

(* the Go test `s != "<literal k>"` (the literal is "" in the source) *)
Definition differs (s : bytes) (k : nat) : bool := negb (beqb s (alit k)).

(* System.buildOpenArgs, literal positions:
   0 "-p" 1 "%d" 2 "-o" 3 "ConnectTimeout=%d" 4 "-o" 5 "ServerAliveInterval=%d" 6 "" 7 "-l"
   8 "-o" 9 "StrictHostKeyChecking=yes" 10 "" 11 "-o" 12 "UserKnownHostsFile=%s"
   13 "-o" 14 "StrictHostKeyChecking=no" 15 "-o" 16 "UserKnownHostsFile=/dev/null"
   17 "" 18 "-F" 19 "-F" 20 "/dev/null" 21 "" 22 "-i" *)
Definition build_open_args (c : cfg) : list bytes :=
  let secs := print_dec (c_timeout c) in
  [ c_host c; alit 0; fmt1 (alit 1) (print_dec (c_port c));
    alit 2; fmt1 (alit 3) secs; alit 4; fmt1 (alit 5) secs ]
  ++ (if differs (c_user c) 6 then [alit 7; c_user c] else [])
  ++ (if c_strict c
      then [alit 8; alit 9]
           ++ (if differs (c_known_hosts c) 10 then [alit 11; fmt1 (alit 12) (c_known_hosts c)] else [])
      else [alit 13; alit 14; alit 15; alit 16])
  ++ (if differs (c_config c) 17 then [alit 18; c_config c] else [alit 19; alit 20])
  ++ (if differs (c_key c) 21 then [alit 22; c_key c] else [])
  ++ c_extra c.

(* System.open / System.openNetconf: exec.Command(OpenBin, OpenArgs...) *)
Definition ssh_argv (c : cfg) : list bytes :=
  build_open_args c ++ (if c_netconf c then [nlit 0; nlit 1] else []).

(* ---------- Standard.openBase ---------- *)
Inductive policy :=
| PInsecure                    (* ssh.InsecureIgnoreHostKey() *)
| PKnownHosts (file : bytes)   (* knownhosts.New(file) *)
| PErrNoFile.                  (* ErrBadOption before dialling *)

Inductive auth_method := APublicKey | APassword | AKeyboardInteractive.

Definition is_empty (s : bytes) : bool := match s with [] => true | _ => false end.

Definition std_policy (c : cfg) : policy :=
  if c_strict c then
    if is_empty (c_known_hosts c) then PErrNoFile else PKnownHosts (c_known_hosts c)
  else PInsecure.

Definition std_auth (c : cfg) : list auth_method :=
  (if is_empty (c_key c) then [] else [APublicKey])
  ++ (if is_empty (c_password c) then [] else [APassword; AKeyboardInteractive]).

(* ssh.Dial("tcp", fmt.Sprintf("%s:%d", host, port), cfg{User: a.User}) *)
Definition std_addr (c : cfg) : bytes := c_host c ++ [58] ++ print_dec (c_port c).
Definition std_user (c : cfg) : bytes := c_user c.

(* whether the handshake gets past the host-key check; [kh f] is the (trusted, runtime) verdict
   of knownhosts/OpenSSH: "file f lists the key the server presents for this address" *)
Definition std_connects (kh : bytes -> bool) (c : cfg) : bool :=
  match std_policy c with
  | PInsecure => true
  | PKnownHosts f => kh f
  | PErrNoFile => false
  end.

(* ---------- runner hook ----------
   c14 sys|std port timeout-seconds d|0 netconf L:host:user:password:knownhosts:config:key L:extra... khmatch
     strictness: "d" = no option given (the generated default), "0" = WithAuthNoStrictKey
     khmatch: 1 iff the known-hosts file of the case lists the server's key (std only)
   ->  sys <argv list>
   ->  std nofile|insecure|knownhosts <connected> <auth methods offered, comma separated | -> <U<hex user> | -> *)
Definition c14_parse_list (f : bytes) : list bytes :=
  match f with
  | l :: c :: rest => if (l =? 76) && (c =? 58) then map of_hex (split_on 58 rest) else []
  | _ => []
  end.
Fixpoint c14_emit_items (l : list bytes) : bytes :=
  match l with
  | [] => []
  | x :: t => 58 :: to_hex x ++ c14_emit_items t
  end.
Definition c14_emit_list (l : list bytes) : bytes := 76 :: c14_emit_items l.
Definition c14_num (f : bytes) : N := match parse_dec f with Some n => n | None => 0 end.
Definition c14_bool (f : bytes) : bool := negb (c14_num f =? 0).

Definition c14_cfg (fs : list bytes) : cfg :=
  let f k := nth k fs [] in
  let ss := c14_parse_list (f 6%nat) in
  let s k := nth k ss [] in
  mkSsh (s 0%nat) (c14_num (f 2%nat)) (c14_num (f 3%nat)) (s 1%nat) (s 2%nat)
        (if beqb (f 4%nat) (bs "d") then tr_default_ssh_strict_key else c14_bool (f 4%nat))
        (s 3%nat) (s 4%nat) (s 5%nat) (c14_parse_list (f 7%nat)) (c14_bool (f 5%nat)).

Definition auth_name (a : auth_method) : bytes :=
  match a with
  | APublicKey => bs "publickey"
  | APassword => bs "password"
  | AKeyboardInteractive => bs "keyboard-interactive"
  end.

Definition policy_tag (p : policy) : bytes :=
  match p with
  | PInsecure => bs "insecure"
  | PKnownHosts _ => bs "knownhosts"
  | PErrNoFile => bs "nofile"
  end.

Definition run_c14 (fs : list bytes) : list bytes :=
  let c := c14_cfg fs in
  if beqb (nth 1 fs []) (bs "sys") then [bs "sys"; c14_emit_list (ssh_argv c)]
  else
    let khm := c14_bool (nth 8 fs []) in
    let conn := std_connects (fun _ => khm) c in
    [ bs "std"; policy_tag (std_policy c); (if conn then [49] else [48]);
      (if conn then match std_auth c with [] => [45] | l => join [44] (map auth_name l) end else [45]);
      (if conn then 85 :: to_hex (std_user c) else [45]) ].
