(* ChanReadSrc.v — channel/read.go Channel.read (the read loop that feeds the queue), Channel.Read and
   Channel.ReadAll as the source has them on this run (C01, C06, C07): ONE ROUND of the loop
   evaluated for every combination of what it can meet, and the whole trace of the round — every
   assignment and every effect, in order — compared with what the model says:

     * a stopped channel is noticed before the transport is read, and again after a failed read;
     * a failed read: end of stream stops the loop; any other error is handed to the next operation
       (or the loop stops, if Close comes first), then the read delay, then the next round — nothing
       is enqueued;
     * an empty read: the read delay, nothing enqueued;
     * otherwise the chunk is normalised — carriage returns removed, THEN escape sequences stripped
       when it contains an ESC (Channel.normalise) — and that is what is enqueued and what the channel
       log receives, in that order; an error of the channel log is ignored.
   Read: a pending error first, then a dead read loop (connection error), else what the queue has
   (nothing is not an error).  ReadAll the same without the dead-loop test, draining the queue. *)
From Scrapli Require Import DecideLang GeneratedSkel.
From Coq Require Import String List Bool.
Import ListNotations.
Open Scope string_scope.

Record cflags := mkCF { c_done1 : bool; c_err : bool; c_done2 : bool; c_eof : bool; c_handover : bool;
                        c_empty : bool; c_esc : bool; c_log : bool; c_logerr : bool }.

Fixpoint last_call (s : store) : string :=
  match s with
  | [] => ""
  | (k, v) :: t => if String.eqb k "!call" then v else last_call t
  end.

Definition cr_env (f : cflags) : denv :=
  mkEnvX (fun _ => false)
         (fun a b => (String.eqb a "len(b)" && String.eqb b "0" && c_empty f)
                     || (String.eqb a "c.ChannelLog" && String.eqb b "nil" && negb (c_log f)))
         (fun x => if String.eqb x "select" then (if c_handover f then "c.Errs <- err" else "<-c.done") else "")
         (fun a => if String.eqb a "errors.Is(err, io.EOF)" then Some (c_eof f)
                   else if String.eqb a "bytes.Contains(b, []byte(""\x1b""))" then Some (c_esc f)
                   else None)
         (fun s a b => if String.eqb a "err" && String.eqb b "nil"
                       then Some (Some (if String.eqb (last_call s) "c.ChannelLog.Write(b)" then negb (c_logerr f) else negb (c_err f)))
                       else None)
         (fun l => if String.eqb l "forever" then 1 else 0)
         (fun s a => if String.eqb a "ready <-c.done"
                     then Some (Some (if String.eqb (last_call s) "c.t.Read()" then c_done2 f else c_done1 f))
                     else None).

Definition call (c : string) : string * string := ("!call", c).
Definition t_defer0 := call "defer c.exitedOnce.Do(func() { close(c.exited) })".
(* (the round starts: the interpreter binds the loop variable of `for { }`, which is none) *)
Definition t_round : string * string := ("_", "").
Definition t_read := call "c.t.Read()".
Definition t_sleep := call "time.Sleep(c.ReadDelay)".
Definition t_strip_cr : string * string := ("b", "bytes.ReplaceAll(b, []byte(""\r""), []byte(""""))").
Definition t_strip_esc : string * string := ("b", "util.StripANSI(b)").

(* the model's round: (the loop ends?, the trace oldest first) *)
Definition cr_spec (f : cflags) : bool * list (string * string) :=
  if c_done1 f then (true, [t_defer0; t_round])
  else if c_err f then
    if c_done2 f then (true, [t_defer0; t_round; t_read])
    else if c_eof f then (true, [t_defer0; t_round; t_read])
    else if c_handover f then (false, [t_defer0; t_round; t_read; t_sleep])
    else (true, [t_defer0; t_round; t_read])
  else if c_empty f then (false, [t_defer0; t_round; t_read; t_sleep])
  else (false,
        app [t_defer0; t_round; t_read; t_strip_cr]
            (app (if c_esc f then [t_strip_esc] else [])
                 (app [call "c.Q.Enqueue(b)"]
                      (app (if c_log f then [call "c.ChannelLog.Write(b)"] else []) [t_sleep])))).

Fixpoint trace_eqb (a b : list (string * string)) : bool :=
  match a, b with
  | [], [] => true
  | (k, v) :: a', (k', v') :: b' => String.eqb k k' && String.eqb v v' && trace_eqb a' b'
  | _, _ => false
  end.

Definition cr_run_ok (f : cflags) : bool :=
  let '(stopped, tr) := cr_spec f in
  match DecideLang.exec 40 (cr_env f) chan_read_loop_code [] with
  | Returned st v => stopped && String.eqb v "" && trace_eqb (rev st) tr
  | Running st => negb stopped && trace_eqb (rev st) tr
  | _ => false
  end.

Definition bools := [false; true].
Definition all_cflags : list cflags :=
  flat_map (fun a => flat_map (fun b => flat_map (fun c => flat_map (fun d => flat_map (fun e =>
  flat_map (fun g => flat_map (fun h => flat_map (fun i => map (fun j => mkCF a b c d e g h i j) bools)
  bools) bools) bools) bools) bools) bools) bools) bools.

(* Channel.Read / ReadAll: pending error?, read loop dead?, queue empty? *)
Definition rd_env (pending dead empty : bool) : denv :=
  mkEnvX (fun _ => false)
         (fun a b => String.eqb a "b" && String.eqb b "nil" && empty)
         (fun x => if String.eqb x "select" then (if pending then "err := <-c.Errs" else "") else "")
         (fun a => if String.eqb a "ready <-c.exited" then Some dead else None)
         (fun _ _ _ => None) (fun _ => O) (fun _ _ => None).

Definition rd_ok (all pending dead empty : bool) : bool :=
  match DecideLang.exec 20 (rd_env pending dead empty) (if all then chan_read_all_code else chan_read_code) [] with
  | Returned st v =>
      if pending then String.eqb v "nil, err" && trace_eqb st []
      else if negb all && dead then String.eqb v "nil, util.ErrConnectionError" && trace_eqb st []
      else trace_eqb st [("b", if all then "c.Q.DequeueAll()" else "c.Q.Dequeue()")]
           && String.eqb v (if empty then "nil, nil" else "b, nil")
  | _ => false
  end.

Definition chan_read_known : list string :=
  ["ready <-c.done"; "err == nil"; "errors.Is(err, io.EOF)"; "switch select"; "len(b) == 0";
   "bytes.Contains(b, []byte(""\x1b""))"; "c.ChannelLog == nil"].

Definition chan_read_table_ok : bool :=
  forallb cr_run_ok all_cflags && Nat.eqb (List.length all_cflags) 512
  && forallb (fun a => forallb (fun p => forallb (fun d => forallb (fun e => rd_ok a p d e) bools) bools) bools) bools
  && tests_known chan_read_loop_code chan_read_known
  && tests_known chan_read_code ["switch select"; "ready <-c.exited"; "b == nil"]
  && tests_known chan_read_all_code ["switch select"; "b == nil"].

Theorem chan_read_round_is_source : chan_read_table_ok = true.
Proof. vm_compute. reflexivity. Qed.
Print Assumptions chan_read_round_is_source.
