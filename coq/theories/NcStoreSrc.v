(* NcStoreSrc.v — the NETCONF reply store as the source has it on this run (C08): a reply is filed
   under its message-id itself, and a call takes — and removes — what is filed under ITS id, both
   under the messages lock.  (The model, NcSession, keeps the replies in a map keyed by message-id.) *)
From Scrapli Require Import DecideLang GeneratedSkel.
From Coq Require Import String List Bool.
Import ListNotations.
Open Scope string_scope.

Definition nc_env : denv :=
  mkEnvX (fun _ => false) (fun _ _ => false) (fun _ => "") (fun _ => None) (fun _ _ _ => None) (fun _ => O) (fun _ _ => None).

Definition nc_store_ok : bool :=
  match DecideLang.exec 10 nc_env store_message_code [] with
  | Running [("d.messages[i]", "b"); ("!call", "defer d.messagesLock.Unlock()"); ("!call", "d.messagesLock.Lock()")] => true
  | _ => false
  end
  && match DecideLang.exec 10 nc_env get_message_code [] with
     | Returned [("!call", "delete(d.messages, i)"); ("data", "d.messages[i]"); ("!call", "defer d.messagesLock.Unlock()"); ("!call", "d.messagesLock.Lock()")] "data" => true
     | _ => false
     end
  && tests_known store_message_code [] && tests_known get_message_code [].

Theorem nc_store_is_source : nc_store_ok = true.
Proof. vm_compute. reflexivity. Qed.
