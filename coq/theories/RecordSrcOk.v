(* RecordSrcOk.v — the translated source of record1dot1Chunks resolves to RecordSrc.chunks_prog, and
   the run of that program on any reply is Netconf.record11_go of the reply. *)
From Coq Require Import List Bool NArith ZArith Lia String.
From Scrapli Require Import Bytes BytesLemmas Generated Netconf NetconfLemmas DecideLang GeneratedSkel RecordSrc.
Import ListNotations.

Lemma record_chunks_resolves : resolve 40 record_chunks_code = Some chunks_prog.
Proof. vm_compute. reflexivity. Qed.

Global Opaque cstep crun cloop.

Ltac csem := repeat (rewrite ?crun_cons, ?crun_nil, ?cstep_act, ?cstep_if, ?cstep_ret, ?cstep_brk, ?cstep_cont).

Ltac cs := repeat first [progress csem | progress cbn [cexpr_den atom_den option_map negb andb orb]].

(* one iteration of the size loop *)
Lemma inner_body_run n s :
  crun n inner_body s =
  if negb (Nat.leb (s_len s) nc_max_chunk_size_char_len && Nat.ltb (s_cur s + s_len s) (length (s_d s)))
  then CBrk s
  else match nth_error (s_d s) (s_cur s + s_len s) with
       | None => CPanic
       | Some b =>
           if N.eqb b 10
           then CBrk (upd_cur (upd_str s (firstn (s_len s) (skipn (s_cur s) (s_d s)))) (s_cur s + s_len s + 1))
           else CRun (upd_len s (S (s_len s)))
       end.
Proof.
  unfold inner_body. cs.
  destruct (Nat.leb (s_len s) nc_max_chunk_size_char_len) eqn:E1; cs; [|reflexivity].
  destruct (Nat.ltb (s_cur s + s_len s) (length (s_d s))) eqn:E2; cs; [|reflexivity].
  unfold byte_is.
  destruct (nth_error (s_d s) (s_cur s + s_len s)) as [b|]; [|reflexivity].
  destruct (N.eqb b 10); cs; [|reflexivity].
  cbn [act_den].
  apply Nat.ltb_lt in E2.
  destruct (Nat.ltb (length (s_d s)) (s_cur s + s_len s)) eqn:E3; [apply Nat.ltb_lt in E3; lia|].
  cs. cbn [act_den]. reflexivity.
Qed.

(* the size loop, against the model's scan *)
Lemma inner_loop n : forall m k fuel s,
  s_len s = k -> (m < fuel)%nat -> (m + k = S nc_max_chunk_size_char_len)%nat ->
  match scan_size (s_d s) (s_cur s) m k with
  | Some j => cloop n inner_body fuel s =
              CRun (upd_cur (upd_str (upd_len s j) (firstn j (skipn (s_cur s) (s_d s)))) (s_cur s + j + 1))
  | None => exists s', cloop n inner_body fuel s = CRun s' /\ s_str s' = s_str s
  end.
Proof.
  induction m as [|m IH]; intros k fuel s Hk Hf Hm.
  - destruct fuel as [|fuel]; [lia|]. cbn [scan_size].
    rewrite cloop_S, inner_body_run.
    replace (Nat.leb (s_len s) nc_max_chunk_size_char_len) with false
      by (symmetry; apply Nat.leb_gt; lia).
    cbn [andb negb]. exists s. split; reflexivity.
  - destruct fuel as [|fuel]; [lia|].
    rewrite scan_size_unfold, cloop_S, inner_body_run.
    replace (Nat.leb (s_len s) nc_max_chunk_size_char_len) with true
      by (symmetry; apply Nat.leb_le; lia).
    cbn [andb]. rewrite Hk. unfold idx.
    destruct (Nat.ltb (s_cur s + k) (length (s_d s))) eqn:E2; cbn [negb].
    2:{ apply Nat.ltb_ge in E2. replace (Nat.leb (length (s_d s)) (s_cur s + k)) with true
          by (symmetry; apply Nat.leb_le; lia).
        exists s. split; reflexivity. }
    apply Nat.ltb_lt in E2.
    replace (Nat.leb (length (s_d s)) (s_cur s + k)) with false by (symmetry; apply Nat.leb_gt; lia).
    destruct (nth_error (s_d s) (s_cur s + k)) as [b|] eqn:En; [|apply nth_error_None in En; lia].
    destruct (N.eqb b 10) eqn:Eb.
    + subst k. reflexivity.
    + specialize (IH (S k) fuel (upd_len s (S k)) eq_refl ltac:(lia) ltac:(lia)).
      cbn [upd_len s_d s_cur s_str] in IH.
      destruct (scan_size (s_d s) (s_cur s) m (S k)) as [j|]; exact IH.
Qed.

(* ---------------------------------------------------------------------------------------------- *)
(* the chunk loop, against the model's cursor loop *)
Definition out_rel (s : cst) (r : cres) (o : loop_out) : Prop :=
  match o with
  | LBreak j => exists s', r = CRun s' /\ s_term s' = true /\ s_joined s' = j
  | LExit j => exists s', r = CRun s' /\ s_term s' = s_term s /\ s_joined s' = j
  | LErr e => exists s', r = CRet (Some e) s'
  | LPanic => r = CPanic
  end.

Ltac cs2 := repeat first [progress csem | progress unfold byte_is | progress cbn [cexpr_den atom_den act_den byte_is option_map negb andb orb
   s_raw s_d s_cur s_joined s_term s_str s_len s_size s_err s_result
   upd_d upd_cur upd_joined upd_term upd_str upd_len upd_atoi upd_result init_st]].

Lemma scan_size_lt d c : forall m k j, scan_size d c m k = Some j -> (c + j < length d)%nat.
Proof.
  induction m as [|m IH]; intros k j H; [discriminate|].
  rewrite scan_size_unfold in H.
  destruct (Nat.leb (length d) (c + k)) eqn:E; [discriminate|]. apply Nat.leb_gt in E.
  destruct (idx d (c + k)) as [b|]; [|discriminate].
  destruct (b =? 10)%N; [injection H as <-; exact E|exact (IH _ _ H)].
Qed.

Lemma out_rel_term s s' r o : s_term s' = s_term s -> out_rel s' r o -> out_rel s r o.
Proof. intros H. unfold out_rel. destruct o; try rewrite H; exact (fun x => x). Qed.

Lemma outer_loop n : (S nc_max_chunk_size_char_len < n)%nat -> forall k f s,
  (s_cur s <= length (s_d s))%nat -> (length (s_d s) - s_cur s < k)%nat -> (length (s_d s) - s_cur s < f)%nat ->
  out_rel s (cloop n outer_body k s) (chunks_go f (s_d s) (s_cur s) (s_joined s)).
Proof.
  intros Hn. induction k as [|k IH]; intros f s Hc Hk Hf; [lia|].
  destruct f as [|f]; [lia|].
  rewrite cloop_S, chunks_go_unfold. set (L := cloop n outer_body k). unfold outer_body.
  cs2.
  destruct (Nat.ltb (s_cur s) (length (s_d s))) eqn:Elt; cs2.
  2:{ exists s. repeat split; reflexivity. }
  apply Nat.ltb_lt in Elt.
  unfold idx.
  destruct (nth_error (s_d s) (s_cur s)) as [c|] eqn:En; [|reflexivity].
  destruct (N.eqb c 10) eqn:E10; cs2.
  { subst L. eapply out_rel_term; [|apply (IH f (upd_cur s (S (s_cur s)))); cbn [upd_cur s_cur s_d]; lia].
    reflexivity. }
  rewrite En. cs2.
  destruct (N.eqb c 35) eqn:E35; cs2.
  2:{ exists s. reflexivity. }
  destruct (Nat.leb (length (s_d s)) (S (s_cur s))) eqn:Ege; cs2.
  { eexists. reflexivity. }
  apply Nat.leb_gt in Ege.
  destruct (nth_error (s_d s) (S (s_cur s))) as [c2|] eqn:En2; [|reflexivity].
  cs2.
  destruct (N.eqb c2 35) eqn:E235; cs2.
  { eexists. repeat split; reflexivity. }
  rewrite cstep_loop.
  pose proof (inner_loop n (S nc_max_chunk_size_char_len) 0 n
                (upd_len (upd_str (upd_cur s (S (s_cur s))) []) 0) eq_refl Hn ltac:(lia)) as Hin.
  cbn [s_d s_cur s_str upd_len upd_str upd_cur] in Hin.
  destruct (scan_size (s_d s) (S (s_cur s)) (S nc_max_chunk_size_char_len) 0) as [j|] eqn:Es.
  2:{ destruct Hin as [s' [Hr Hs]]. rewrite Hr. cs2. rewrite Hs. cs2. eexists. reflexivity. }
  pose proof (scan_size_lt _ _ _ _ _ Es) as Hj.
  rewrite Hin. cs2.
  destruct (firstn j (skipn (S (s_cur s)) (s_d s))) as [|b0 l0] eqn:Ef; cs2.
  { eexists. reflexivity. }
  destruct (go_atoi (b0 :: l0)) as [z|] eqn:Ea; cs2.
  2:{ eexists. reflexivity. }
  replace (Z.of_nat (length (s_d s)) - Z.of_nat (S (s_cur s) + j + 1))%Z
    with (Z.of_nat (length (s_d s) - (S (s_cur s) + j + 1))) by lia.
  destruct (z <? 0)%Z eqn:Ez; cs2.
  { eexists. reflexivity. }
  destruct (Z.of_nat (length (s_d s) - (S (s_cur s) + j + 1)) <? z)%Z eqn:Eg; cs2.
  { eexists. reflexivity. }
  rewrite Ez.
  destruct (Nat.ltb (length (s_d s)) (S (s_cur s) + j + 1 + Z.to_nat z)) eqn:Ep; cs2.
  { reflexivity. }
  apply Nat.ltb_ge in Ep.
  subst L.
  match goal with |- out_rel s (cloop n outer_body k ?st) _ =>
    eapply (out_rel_term s st); [reflexivity|];
    apply (IH f st); cbn [s_d s_cur upd_cur upd_joined upd_atoi upd_str upd_len]; lia
  end.
Qed.

Lemma trim_length raw : (length (go_trim_space raw) <= length raw)%nat.
Proof. apply subseq_length, go_trim_space_subseq. Qed.

Theorem record_chunks_is_source : forall raw, record_chunks_src raw = Some (record11_go raw).
Proof.
  intros raw. unfold record_chunks_src. rewrite record_chunks_resolves.
  set (n := (length raw + nc_max_chunk_size_char_len + 4)%nat).
  unfold record11_go, chunks_prog. cs2.
  pose proof (trim_length raw) as Hl.
  destruct (go_trim_space raw) as [|c d] eqn:Ed; cs2; [reflexivity|].
  cbn [length Nat.eqb nth_error]. cs2.
  destruct (N.eqb c 35) eqn:E35; cs2; [|reflexivity].
  rewrite cstep_loop.
  set (s0 := upd_term (upd_d (init_st raw) (c :: d)) false).
  pose proof (outer_loop n ltac:(unfold n; lia) n (S (length (c :: d))) s0) as H.
  cbn [s0 s_d s_cur s_joined upd_term upd_d init_st] in H.
  specialize (H ltac:(lia) ltac:(unfold n; lia) ltac:(lia)).
  cbn [length] in H |- *.
  destruct (chunks_go (S (S (length d))) (c :: d) 0 []) as [j|j|e|]; cbn [out_rel] in H.
  - destruct H as [s' [Hr [Ht Hj]]]. rewrite Hr. cs2. rewrite Ht. cs2. rewrite Hj. reflexivity.
  - destruct H as [s' [Hr [Ht Hj]]]. rewrite Hr. cs2. rewrite Ht. cbn [s0 s_term upd_term]. cs2. reflexivity.
  - destruct H as [s' Hr]. rewrite Hr. reflexivity.
  - rewrite H. reflexivity.
Qed.
Print Assumptions record_chunks_is_source.

(* ---------------------------------------------------------------------------------------------- *)
(* NetconfResponse.Record and record1dot1: which steps run, in which order (Netconf.record_with):
   the rpc-error scan of the raw bytes, the decoder of the session's version, and under 1.1 the
   second scan — of the decoded payload — only when nothing has failed; a decoder error marks the
   response failed *)
Open Scope string_scope.
Definition rec_env (version : string) (failed_nil err_nil : bool) : denv :=
  mkEnvX (fun _ => false)
         (fun a b => (String.eqb a "r.NetconfVersion" && String.eqb b version)
                     || (String.eqb a "r.Failed" && String.eqb b "nil" && failed_nil)
                     || (String.eqb a "err" && String.eqb b "nil" && err_nil))
         (fun f => if String.eqb f "r.NetconfVersion" then version else "")
         (fun _ => None) (fun _ _ _ => None) (fun _ => O) (fun _ _ => None).

Definition rec_calls (version : string) (failed_nil : bool) : list string :=
  match DecideLang.exec 20 (rec_env version failed_nil true) nc_record_code [] with
  | Running st => calls_of st
  | _ => ["stuck"]
  end.

Fixpoint strs_eqb (a b : list string) : bool :=
  match a, b with
  | [], [] => true
  | x :: a', y :: b' => String.eqb x y && strs_eqb a' b'
  | _, _ => false
  end.

Definition record_steps_ok : bool :=
  strs_eqb (rec_calls "v1Dot0" true) ["r.recordRPCErrors(r.RawResult)"; "r.record1dot0()"]
  && strs_eqb (rec_calls "v1Dot0" false) ["r.recordRPCErrors(r.RawResult)"; "r.record1dot0()"]
  && strs_eqb (rec_calls "v1Dot1" true)
       ["r.recordRPCErrors(r.RawResult)"; "r.record1dot1()"; "r.recordRPCErrors([]byte(r.Result))"]
  && strs_eqb (rec_calls "v1Dot1" false) ["r.recordRPCErrors(r.RawResult)"; "r.record1dot1()"]
  && match DecideLang.exec 20 (rec_env "v1Dot1" true false) record11_code [] with
     | Running st => match sget st "r.Failed" with Some _ => true | None => false end
     | _ => false
     end
  && match DecideLang.exec 20 (rec_env "v1Dot1" true true) record11_code [] with
     | Running st => match sget st "r.Failed" with Some _ => false | None => true end
     | _ => false
     end
  && tests_known nc_record_code ["switch r.NetconfVersion"; "r.Failed == nil"]
  && tests_known record11_code ["err == nil"].

Theorem record_steps_are_source : record_steps_ok = true.
Proof. vm_compute. reflexivity. Qed.
Print Assumptions record_steps_are_source.

(* ---------------------------------------------------------------------------------------------- *)
(* record1dot0 (Netconf.record10: the declaration off the front, the whitespace, the delimiter off
   the end, the whitespace again) and recordRPCErrors (Netconf.carries_marker: ANY of the failure
   markers ANYWHERE in the bytes it is given — the whole of them — marks the response failed; the
   errors and warnings found are listed by severity) *)
Fixpoint trace_eqb (a b : list (string * string)) : bool :=
  match a, b with
  | [], [] => true
  | (k, v) :: a', (k', v') :: b' => String.eqb k k' && String.eqb v v' && trace_eqb a' b'
  | _, _ => false
  end.

Definition rre_env (marker sev_error sev_warning : bool) : denv :=
  mkEnvX (fun _ => false) (fun _ _ => false) (fun _ => "")
         (fun a => if String.eqb a "util.ByteContainsAny(b, r.FailedWhenContains)" then Some marker
                   else if String.eqb a "strings.Contains(errStr, ""<error-severity>error</error-severity>"")" then Some sev_error
                   else if String.eqb a "strings.Contains(errStr, ""<error-severity>warning</error-severity>"")" then Some sev_warning
                   else None)
         (fun _ _ _ => None) (fun l => if String.eqb l "patterns.rpcSingleErrors.FindAll(b, -1)" then 1%nat else 0%nat) (fun _ _ => None).

Definition rre_ok (marker e w : bool) : bool :=
  match DecideLang.exec 30 (rre_env marker e w) record_rpc_errors_code [] with
  | Returned st v => negb marker && String.eqb v "" && trace_eqb st []
  | Running st =>
      marker
      && trace_eqb (rev st)
           (app [("r.Failed", "&OperationError{ Input: string(r.Input), Output: r.Result, ErrorString: string(patterns.rpcErrors.Find(b)), }");
                 ("rpcerr", ""); ("errStr", "string(rpcerr)")]
                (if e then [("r.ErrorMessages", "append(r.ErrorMessages, errStr)")]
                 else if w then [("r.WarningErrorMessages", "append(r.WarningErrorMessages, errStr)")] else []))
  | _ => false
  end.

Definition record_rest_ok : bool :=
  match DecideLang.exec 10 (rre_env false false false) record10_code [] with
  | Running st =>
      trace_eqb (rev st)
        [("b", "r.RawResult"); ("b", "bytes.TrimPrefix(b, []byte(xmlHeader))");
         ("b", "bytes.TrimSuffix(bytes.TrimSpace(b), []byte(v1Dot0Delim))"); ("r.Result", "string(bytes.TrimSpace(b))")]
  | _ => false
  end
  && forallb (fun m => forallb (fun e => forallb (fun w => rre_ok m e w) [false; true]) [false; true]) [false; true]
  && tests_known record10_code []
  && tests_known record_rpc_errors_code
       ["util.ByteContainsAny(b, r.FailedWhenContains)"; "strings.Contains(errStr, ""<error-severity>error</error-severity>"")";
        "strings.Contains(errStr, ""<error-severity>warning</error-severity>"")"].

Theorem record_rest_is_source : record_rest_ok = true.
Proof. vm_compute. reflexivity. Qed.
Print Assumptions record_rest_is_source.
