(* Runner.v — the single entry point [run_line] used by the correspondence check: one case per
   line, `name field field ...`; all parsing and printing is done here, in Gallina, so the OCaml
   driver only moves characters.  Field kinds: decimal number, hex byte string, and lists
   `L:hex:hex...` (`L` = empty list, `L:` = one empty string). *)
From Scrapli Require Import Bytes Regex PlatformTypes Generated Generic Netconf Channel Replay Queue Telnet NcSession Session Network SshArgs.
From Scrapli Require Pipes Options OptionsRun CloseRun.
From Scrapli Require NetworkAbs NetworkHistory.
Open Scope N_scope.

Definition COLON : N := 58.
Definition CH_L : N := 76.

Definition parse_list (f : bytes) : list bytes :=
  match f with
  | l :: c :: rest => if (l =? CH_L) && (c =? COLON) then map of_hex (split_on COLON rest) else []
  | _ => []
  end.

Fixpoint emit_items (l : list bytes) : bytes :=
  match l with
  | [] => []
  | x :: t => COLON :: to_hex x ++ emit_items t
  end.
Definition emit_list (l : list bytes) : bytes := CH_L :: emit_items l.

Definition parse_num (f : bytes) : N := match parse_dec f with Some n => n | None => 0 end.
Definition parse_bool (f : bytes) : bool := negb (parse_num f =? 0).
Definition emit_bool (b : bool) : bytes := if b then [49] else [48].

Definition fields (line : bytes) : list bytes := split_on SP line.
Definition unfields (fs : list bytes) : bytes := join [SP] fs.

Definition nthf (n : nat) (fs : list bytes) : bytes := nth n fs [].
Definition hexf (n : nat) (ps : list bytes) : bytes := of_hex (nthf n ps).

Fixpoint zip {A B} (a : list A) (b : list B) : list (A * B) :=
  match a, b with
  | x :: a', y :: b' => (x, y) :: zip a' b'
  | _, _ => []
  end.

Definition opt_bytes (o : option bytes) : bytes := match o with Some s => s | None => [] end.

(* c13 stop opf drvf cmds outs  ->  ok|noop  n  matched-per-response  failed-inputs  sent *)
Definition run_c13 (fs : list bytes) : list bytes :=
  let stop := parse_bool (nthf 1 fs) in
  let opf := parse_list (nthf 2 fs) in
  let drvf := parse_list (nthf 3 fs) in
  let cmds := parse_list (nthf 4 fs) in
  let outs := parse_list (nthf 5 fs) in
  match send_commands opf drvf stop (zip cmds outs) with
  | MNoOp => [bs "noop"]
  | MOk rs =>
      [ bs "ok"; print_dec (N.of_nat (length rs));
        emit_list (map (fun r => opt_bytes (r_failed r)) rs);
        emit_list (map r_input (multi_failed rs));
        emit_list (map r_input rs);
        emit_list (map r_result rs);
        to_hex (collapse_result rs); emit_bool (collapse_failed rs) ]
  end.

(* rx name op input -> result ; the engine against Go's regexp on the same pattern *)
Fixpoint lookup_rx (name : bytes) (t : list (bytes * re)) : option re :=
  match t with
  | [] => None
  | (n, r) :: t' => if beqb n name then Some r else lookup_rx name t'
  end.

Definition emit_opt (o : option bytes) : bytes :=
  match o with Some s => 83 :: to_hex s | None => [78] end.   (* S<hex> | N *)

Definition run_rx (fs : list bytes) : list bytes :=
  match lookup_rx (nthf 1 fs) regex_table with
  | None => [bs "no-such-regex"]
  | Some r =>
      let op := nthf 2 fs in
      let s := of_hex (nthf 3 fs) in
      if negb (rx_fuel_ok r s) then [bs "fuel"]
      else if beqb op (bs "match") then [emit_bool (rx_match r s)]
      else if beqb op (bs "find") then [emit_opt (rx_find r s)]
      else if beqb op (bs "group1") then [emit_opt (rx_find_group r 1 s)]
      else if beqb op (bs "remove") then [to_hex (rx_remove_all r s)]
      else if beqb op (bs "after") then [emit_opt (rx_after_first r s)]
      else if beqb op (bs "findall") then
        [emit_list (map (fun m => slice (fst (fst m)) (snd (fst m)) s) (rx_find_all r s))]
      else [bs "bad-op"]
  end.

(* c02 10|11 raw -> ok result rpc-error parse-error | panic *)
Definition run_c02 (fs : list bytes) : list bytes :=
  let v := if beqb (nthf 1 fs) (bs "10") then V10 else V11 in
  let raw := of_hex (nthf 2 fs) in
  let show o := match o with
                | RecOut r rpc pe => [bs "ok"; to_hex r; emit_bool rpc; emit_bool pe]
                | RecPanic => [bs "panic"]
                end in
  (* the cursor-level transcription is quadratic: run it on inputs up to 400 bytes, where it must
     agree with the functional decoder (proved equal in general); the functional one above that *)
  if Nat.ltb (length raw) 400 then
    let a := show (record v raw) in
    let b := show (record_fast v raw) in
    if beqb (unfields a) (unfields b) then a else [bs "model-internal-mismatch"]
  else show (record_fast v raw).

(* ---- channel sessions: chan depth promptname ret start calls log ---- *)
Definition BAR : N := 124. Definition COMMA : N := 44. Definition SEMI : N := 59.

Definition names_to_res (f : bytes) : list re :=
  match f with
  | [] => []
  | _ => flat_map (fun n => match lookup_rx n regex_table with Some r => [r] | None => [] end) (split_on COMMA f)
  end.

Definition parse_flags (f : bytes) : op_opts -> op_opts := fun o =>
  mkOpts (if mem_byte 110 f then false else o_strip o)     (* n *)
         (if mem_byte 101 f then true else o_eager o)      (* e *)
         (if mem_byte 120 f then true else o_exact o)      (* x *)
         (o_interim o) (o_complete o).

Definition parse_event (f : bytes) : ievent :=
  let ps := split_on SLASH f in
  let resp := nthf 1 ps in
  mkEv (of_hex (nthf 0 ps))
       (if beqb resp [45] then None else lookup_rx resp regex_table)
       (beqb (nthf 2 ps) [104]).

Definition parse_call (cfg : chan_cfg) (spec : bytes) : prog bytes :=
  let ps := split_on BAR spec in
  let kind := nthf 0 ps in
  if beqb kind (bs "in") then
    let o := parse_flags (nthf 2 ps) default_opts in
    send_input cfg (of_hex (nthf 1 ps)) (mkOpts (o_strip o) (o_eager o) (o_exact o) (names_to_res (nthf 3 ps)) [])
  else if beqb kind (bs "cb") then
    let parse_cb (f : bytes) : callback :=
      let q := split_on SLASH f in
      let fl := nthf 3 q in
      mkCb (of_hex (nthf 0 q)) (of_hex (nthf 1 q))
           (if beqb (nthf 2 q) [45] then None else lookup_rx (nthf 2 q) regex_table)
           (mem_byte 105 fl) (mem_byte 114 fl) (mem_byte 111 fl) (mem_byte 99 fl) (mem_byte 116 fl)
           (if beqb (nthf 4 q) [45] then None else Some (of_hex (nthf 4 q))) in
    send_with_callbacks cfg (of_hex (nthf 1 ps))
                        (match nthf 2 ps with [] => [] | f => map parse_cb (split_on SEMI f) end)
  else if beqb kind (bs "gp") then get_prompt cfg
  else if beqb kind (bs "ia") then
    let o := parse_flags (nthf 1 ps) default_opts in
    let evs := match nthf 3 ps with [] => [] | f => map parse_event (split_on SEMI f) end in
    send_interactive cfg evs (mkOpts (o_strip o) (o_eager o) (o_exact o) [] (names_to_res (nthf 2 ps)))
  else Fail EOperation.

Definition fun_fail : prog bytes := Fail EOperation.

Definition parse_lev (t : bytes) : list lev :=
  match t with
  | 82 :: n => [LR (N.to_nat (parse_num n))]                         (* R<n> *)
  | 87 :: r => let ps := split_on SLASH r in [LW (of_hex (nthf 0 ps)) (of_hex (nthf 1 ps))]
  | [67] => [LCall] | [68] => [LDeadline] | [69] => [LEof] | [73] => [LIoerr]
  | 74 :: h => [LInject (of_hex h)]                                   (* J<hex> *)
  | _ => []
  end.
Definition parse_log (f : bytes) : list lev :=
  if beqb f [45] then [] else flat_map parse_lev (split_on COMMA f).

Definition err_name (e : err) : bytes :=
  match e with
  | ETimeout => bs "timeout" | EConnection => bs "connection" | EAuth => bs "auth" | EPrivilege => bs "privilege"
  | ETransport => bs "io" | EWrite => bs "write" | EOperation => bs "operation" | ENetconf => bs "netconf" | ENoOp => bs "noop"
  end.

Definition emit_out (o : call_out) : bytes :=
  match o with
  | COk r => bs "ok:" ++ to_hex r
  | CErr e => bs "err:" ++ err_name e
  | CUnfinished => bs "unfinished"
  end.

Definition emit_wlog (l : list (bytes * bool)) : bytes :=
  emit_list (map (fun wr : bytes * bool => (if snd wr then [114] else [112]) ++ fst wr) l).   (* r|p + bytes *)

Definition mk_cfg (fs : list bytes) : option chan_cfg :=
  match lookup_rx (nthf 2 fs) regex_table with
  | Some r => Some (mkCfg (N.to_nat (parse_num (nthf 1 fs))) r (of_hex (nthf 3 fs)) 0%Z)
  | None => None
  end.

Definition show_chan (so : rsys * list call_out) : list bytes :=
  let '(s, outs) := so in
  [ join [COMMA] (map emit_out outs);
    (if desynced s then bs "desync" else bs "sync");
    emit_wlog (s_wlog s);
    emit_list (flat_map (fun n : N * bytes => if fst n =? TAG_CB then [snd n] else []) (s_notes s)) ].

Definition run_chan (fs : list bytes) : list bytes :=
  match mk_cfg fs with
  | None => [bs "no-such-prompt-pattern"]
  | Some cfg =>
      let calls := map (fun spec => (fun _ : list (N * bytes) => parse_call cfg spec)) (parse_list (nthf 5 fs)) in
      show_chan (replay_session cfg (of_hex (nthf 4 fs)) (parse_log (nthf 6 fs)) calls)
  end.

(* same, printing every legal outcome when a connection loss races with the operation *)
Definition dedup_lines (l : list bytes) : list bytes :=
  fold_right (fun x acc => if existsb (beqb x) acc then acc else x :: acc) [] l.

Definition run_chanalt (fs : list bytes) : list bytes :=
  match mk_cfg fs with
  | None => [bs "no-such-prompt-pattern"]
  | Some cfg =>
      let calls := map (fun spec => (fun _ : list (N * bytes) => parse_call cfg spec)) (parse_list (nthf 5 fs)) in
      [join (bs " | ") (dedup_lines (map (fun so => unfields (show_chan so))
                                   (replay_session_alts cfg (of_hex (nthf 4 fs)) (parse_log (nthf 6 fs)) calls)))]
  end.

(* ---- queue histories: q20 <history>  with tokens E<hex byte> D A R G, comma separated.
   Sequential histories: each operation runs to completion (a schedule that gives the acting
   thread enough consecutive steps). *)
Definition parse_qop (t : bytes) : list (N + cop) :=
  match t with
  | 69 :: h => match of_hex h with b :: _ => [inl b] | [] => [] end
  | [68] => [inr CDequeue] | [65] => [inr CDequeueAll] | [82] => [inr CRequeue] | [71] => [inr CGetDepth]
  | _ => []
  end.

(* run one whole operation of thread t: first step, then on until its pc is idle again *)
Fixpoint run_whole (fuel : nat) (t : tid) (s : st N) : st N :=
  match fuel with
  | O => s
  | S f => match step s t with
           | Some s' => if (match t with Prod => match pp N s' with PIdle => true | _ => false end
                                    | Cons => match cp N s' with CIdle => true | _ => false end end)
                        then s' else run_whole f t s'
           | None => s
           end
  end.

Definition run_q20 (fs : list bytes) : list bytes :=
  let h := flat_map parse_qop (split_on COMMA (nthf 1 fs)) in
  let chunks := flat_map (fun x => match x with inl b => [b] | inr _ => [] end) h in
  let ops := flat_map (fun x => match x with inl _ => [] | inr o => [o] end) h in
  let s := fold_left (fun s x => run_whole 8 (match x with inl _ => Prod | inr _ => Cons end) s) h (init chunks ops) in
  [ to_hex (got N s); to_hex (q N s); print_dec (N.of_nat (nils N s));
    join [COMMA] (map (fun d => print_dec (N.of_nat d)) (rev (depth_seen N s)));
    emit_bool (panicked N s); print_dec (N.of_nat (depth N s)) ].

(* c15 <opening> -> replies(concatenated) data *)
Definition run_c15 (fs : list bytes) : list bytes :=
  let s := run_telnet (of_hex (nthf 1 fs)) in
  [to_hex (concat (t_replies s)); to_hex (t_data s)].

(* ---- login: login depth prompt ret kind user pw pp start log -> outcome sync wlog queue-head ---- *)
Definition run_login (fs : list bytes) : list bytes :=
  match mk_cfg fs with
  | None => [bs "no-such-prompt-pattern"]
  | Some cfg =>
      let a := if beqb (nthf 4 fs) (bs "ssh") then AuthSSH (hexf 6 fs) (hexf 7 fs)
               else if beqb (nthf 4 fs) (bs "telnet") then AuthTelnet (hexf 5 fs) (hexf 6 fs) else AuthNone in
      let call : call := fun _ => channel_open cfg default_auth_pats a in
      let '(s, outs) := replay_session cfg (hexf 8 fs) (parse_log (nthf 9 fs)) [call] in
      [ join [COMMA] (map emit_out outs);
        (if desynced s then bs "desync" else bs "sync");
        emit_wlog (s_wlog s);
        (match outs with [COk _] => to_hex (hd [] (s_queue s)) | _ => [] end) ]
  end.

(* ---- network driver sessions: net depth ret start default secondary levels ops log ---- *)
Definition US : N := 31.   (* separator of multi-results *)

Definition parse_level (spec : bytes) : bytes * level :=
  let ps := split_on BAR spec in
  let name := hexf 0 ps in
  let pat := match lookup_rx (nthf 1 ps) regex_table with Some r => r | None => RFail end in
  let nc := match nthf 2 ps with [] => [] | f => map of_hex (split_on COMMA f) end in
  let ep := match lookup_rx (nthf 7 ps) regex_table with Some r => r | None => REps end in
  (name, mkLevel name (nthf 1 ps) pat nc (hexf 3 ps) (hexf 4 ps) (hexf 5 ps) (parse_bool (nthf 6 ps)) (nthf 7 ps) ep).

Fixpoint alt_all (l : list re) : re :=
  match l with [] => RFail | [r] => r | r :: t => RAlt r (alt_all t) end.

Fixpoint last_cur (notes : list (N * bytes)) (acc : bytes) : bytes :=
  match notes with [] => acc | (t, d) :: r => last_cur r (if t =? TAG_CUR then d else acc) end.

Definition hexlist (f : bytes) : list bytes := match f with [] => [] | _ => map of_hex (split_on COMMA f) end.

Definition parse_netcall (net : netcfg) (spec : bytes) : call := fun notes =>
  let cached := last_cur notes [] in
  let ps := split_on BAR spec in
  let k := nthf 0 ps in
  let join_res (p : prog (list bytes)) : prog bytes := bind p (fun rs => Ret (join [US] rs)) in
  if beqb k (bs "cmd") then net_send_command net cached (hexf 1 ps) (parse_flags (nthf 2 ps) default_opts)
  else if beqb k (bs "cmdq") then bind (net_send_command net cached (hexf 1 ps) default_opts) (fun _ => Ret [])
  else if beqb k (bs "cmds") then join_res (net_send_commands net cached (hexlist (nthf 1 ps)) (parse_flags (nthf 2 ps) default_opts))
  else if beqb k (bs "cfgs") then join_res (net_send_configs net cached (hexf 1 ps) (hexlist (nthf 2 ps)) default_opts)
  else if beqb k (bs "acq") then bind (acquire_priv net cached (hexf 1 ps)) (fun _ => Ret [])
  else if beqb k (bs "gp") then get_prompt (n_chan net)
  else if beqb k (bs "wr") then Write (hexf 1 ps) (parse_bool (nthf 2 ps)) (Ret [])
  else if beqb k (bs "rt") then Write (c_ret (n_chan net)) false (Ret [])
  else if beqb k (bs "ia") then
    let o := parse_flags (nthf 2 ps) default_opts in
    let evs := match nthf 4 ps with [] => [] | f => map parse_event (split_on SEMI f) end in
    net_send_interactive net cached (hexf 1 ps) evs (mkOpts (o_strip o) (o_eager o) (o_exact o) [] (names_to_res (nthf 3 ps)))
  else fun_fail.

Definition net_setup (fs : list bytes) : chan_cfg * list call :=
  let levels := map parse_level (parse_list (nthf 6 fs)) in
  let joined := alt_all (map (fun kl => lv_pattern (snd kl)) levels) in
  let cfg := mkCfg (N.to_nat (parse_num (nthf 1 fs))) joined (of_hex (nthf 2 fs)) 0%Z in
  let net := mkNet levels (of_hex (nthf 4 fs)) (of_hex (nthf 5 fs)) cfg (fun _ l => l) (fun l => l) in
  (cfg, map (parse_netcall net) (parse_list (nthf 7 fs))).

(* ---- network driver histories at the level of whole exchanges (NetworkHistory.run_aop, the model
   the C04 history theorems are about) against the device's own log of a real session:
     netabs <default> <levels> <ops> <start mode> <prompt per level>
       -> per-op outcome (k = done, E = acquire failed) ; device log (mode|line) ; final mode ; cached level
   An operation whose acquire fails leaves device and cache as they were (as the driver does for an
   unknown target); otherwise this is NetworkHistory.run_aops. *)
Definition parse_aop (spec : bytes) : option NetworkHistory.aop :=
  let ps := split_on BAR spec in
  let k := nthf 0 ps in
  if beqb k (bs "cmd") then Some (NetworkHistory.OCmd [hexf 1 ps])
  else if beqb k (bs "cmds") then Some (NetworkHistory.OCmd (hexlist (nthf 1 ps)))
  else if beqb k (bs "cfgs") then Some (NetworkHistory.OCfg (hexf 1 ps) (hexlist (nthf 2 ps)))
  else if beqb k (bs "acq") then Some (NetworkHistory.OAcq (hexf 1 ps))
  else None.

Fixpoint prompt_lookup (names prompts : list bytes) (m : bytes) : bytes :=
  match names, prompts with
  | n :: ns, p :: ps => if beqb n m then p else prompt_lookup ns ps m
  | _, _ => []
  end.

Fixpoint run_aops_tolerant (net : netcfg) (prompt_of : bytes -> bytes) (d : NetworkAbs.adev) (cached : bytes)
         (ops : list (option NetworkHistory.aop)) (acc : bytes) : bytes * NetworkAbs.adev * bytes :=
  match ops with
  | [] => (acc, d, cached)
  | None :: t => run_aops_tolerant net prompt_of d cached t (acc ++ [63])
  | Some o :: t =>
      match NetworkHistory.run_aop net prompt_of d cached o with
      | Some (d', c') => run_aops_tolerant net prompt_of d' c' t (acc ++ [107])
      | None => run_aops_tolerant net prompt_of d cached t (acc ++ [69])
      end
  end.

Definition run_netabs (fs : list bytes) : list bytes :=
  let levels := map parse_level (parse_list (nthf 2 fs)) in
  let cfg := mkCfg 1000 RFail [10] 0%Z in
  let net := mkNet levels (of_hex (nthf 1 fs)) [] cfg (fun _ l => l) (fun l => l) in
  let prompt_of := prompt_lookup (map fst levels) (parse_list (nthf 5 fs)) in
  let ops := map parse_aop (parse_list (nthf 3 fs)) in
  let '(outs, d, cached) :=
    run_aops_tolerant net prompt_of (NetworkAbs.mkADev (of_hex (nthf 4 fs)) []) [] ops [] in
  [ outs;
    emit_list (map (fun ml => fst ml ++ [BAR] ++ snd ml) (NetworkAbs.d_log d));
    to_hex (NetworkAbs.d_mode d); to_hex cached ].

Definition show_net (so : rsys * list call_out) : list bytes :=
  let '(s, outs) := so in
  [ join [COMMA] (map emit_out outs);
    (if desynced s then bs "desync" else bs "sync");
    emit_wlog (s_wlog s);
    to_hex (last_cur (s_notes s) []) ].

Definition run_net (fs : list bytes) : list bytes :=
  let '(cfg, calls) := net_setup fs in
  show_net (replay_session cfg (of_hex (nthf 3 fs)) (parse_log (nthf 8 fs)) calls).

Definition run_netalt (fs : list bytes) : list bytes :=
  let '(cfg, calls) := net_setup fs in
  [join (bs " | ") (dedup_lines (map (fun so => unfields (show_net so))
                               (replay_session_alts cfg (of_hex (nthf 3 fs)) (parse_log (nthf 8 fs)) calls)))].

(* ---- C01 hypotheses: c01hyp depth prompt ret start flags cmds echos resps results -> 1|0 ----
   evaluates [session_ok] (the theorem's hypothesis) on the exchanges observed in a run *)
Fixpoint first_true (f : nat -> bool) (n : nat) (i : nat) : nat :=
  match n with O => i | S n' => if f i then i else first_true f n' (S i) end.

Fixpoint zip4 (a b c d : list bytes) : list (bytes * bytes * bytes * bytes) :=
  match a, b, c, d with
  | x :: a', y :: b', z :: c', w :: d' => (x, y, z, w) :: zip4 a' b' c' d'
  | _, _, _, _ => []
  end.

Definition run_c01hyp (fs : list bytes) : list bytes :=
  match mk_cfg fs with
  | None => [bs "no-such-prompt-pattern"]
  | Some cfg =>
      let start := of_hex (nthf 4 fs) in
      let o := parse_flags (nthf 5 fs) default_opts in
      let xs := map (fun q : bytes * bytes * bytes * bytes =>
                       let '(c, e, r, res) := q in
                       let T := drop_cr r in
                       let lo := first_true (fun j => cond_holds cfg (prompt_cond cfg o) (firstn j T)) (S (length T)) 0 in
                       mkEx c e r (length (drop_cr e)) lo res)
                    (zip4 (parse_list (nthf 6 fs)) (parse_list (nthf 7 fs)) (parse_list (nthf 8 fs)) (parse_list (nthf 9 fs))) in
      [emit_bool (negb (mem_byte 27 start) && session_ok cfg o [drop_cr start] xs)]
  end.

(* ---- NETCONF sessions: nc pref force xh ops log ---- *)

Definition parse_ncop (spec : bytes) : nc_op :=
  let ps := split_on BAR spec in
  let k := nthf 0 ps in
  if beqb k (bs "get") then OGet (hexf 1 ps) (hexf 2 ps)
  else if beqb k (bs "getconfig") then OGetConfig (hexf 1 ps) (hexf 2 ps) (hexf 3 ps) (hexf 4 ps)
  else if beqb k (bs "edit") then OEditConfig (hexf 1 ps) (hexf 2 ps)
  else if beqb k (bs "copy") then OCopyConfig (hexf 1 ps) (hexf 2 ps)
  else if beqb k (bs "delete") then ODeleteConfig (hexf 1 ps)
  else if beqb k (bs "lock") then OLock (hexf 1 ps)
  else if beqb k (bs "unlock") then OUnlock (hexf 1 ps)
  else if beqb k (bs "validate") then OValidate (hexf 1 ps)
  else if beqb k (bs "commit") then OCommit (parse_bool (nthf 1 ps)) (parse_num (nthf 2 ps)) (hexf 3 ps) (hexf 4 ps)
  else if beqb k (bs "discard") then ODiscard
  else ORaw (hexf 1 ps).

Definition parse_nlev (t : bytes) : list nlev :=
  match t with
  | 82 :: h => [NR (of_hex h)]
  | 87 :: h => [NW (of_hex h)]
  | [67] => [NCall] | [68] => [NDeadline] | [88] => [NErr]
  | _ => []
  end.

Definition emit_z (z : Z) : bytes :=
  if (z <? 0)%Z then 45 :: print_dec (Z.to_N (- z)) else print_dec (Z.to_N z).

Definition emit_rpc (r : rpc_out) : bytes :=
  match r with
  | ROk id raw framed res rpce pe =>
      join [COLON] [bs "ok"; emit_z id; to_hex raw; to_hex framed; to_hex res; emit_bool rpce; emit_bool pe]
  | RTimeout _ => bs "timeout" | RError _ => bs "error" | RBuildErr => bs "builderr"
  | RNoReply _ => bs "noreply" | RPanic => bs "panic"
  end.

(* the hello phase: ReadUntilPrompt with the 1.0 delimiter over the chunks read before the first
   call; what is left over goes to the NETCONF read loop *)
Fixpoint take_hello (cfg : chan_cfg) (acc : bytes) (log : list nlev) : option bytes * list nlev :=
  match log with
  | NR c :: t => let acc' := acc ++ c in
                 if cond_holds cfg CPrompt acc' then (Some acc', t) else take_hello cfg acc' t
  | NCall :: _ => (None, log)
  | e :: t => let '(r, t') := take_hello cfg acc t in (r, e :: t')
  | [] => (None, [])
  end.

Definition run_nc (fs : list bytes) : list bytes :=
  let p := let f := nthf 1 fs in if beqb f (bs "10") then Pref10 else if beqb f (bs "11") then Pref11 else PrefNone in
  let force := parse_bool (nthf 2 fs) in
  let xh := parse_bool (nthf 3 fs) in
  let ops := map parse_ncop (parse_list (nthf 4 fs)) in
  let log := if beqb (nthf 5 fs) [45] then [] else flat_map parse_nlev (split_on COMMA (nthf 5 fs)) in
  let cfg := mkCfg default_prompt_search_depth rx_ncd_v1Dot0Delim default_return_char 0%Z in
  match take_hello cfg [] log with
  | (None, _) => [bs "open:nohello"]
  | (Some hb, rest) =>
      match nc_open hb p with
      | OpenNetconfErr => [bs "open:netconf"]
      | OpenOther => [bs "open:other"]
      | OpenOk v caps sid ch =>
          let '(s, outs) := nc_session v force xh ops rest in
          [ join [COLON] [bs "open:ok"; (match v with V10 => bs "1.0" | V11 => bs "1.1" end); emit_list caps; emit_z sid];
            join [COMMA] (map emit_rpc outs);
            emit_list (n_writes s) ]
      end
  end.

(* pure channel/util functions against the Go originals:
   pf roughly <hexinput> <hexoutput>           -> bool        (util.BytesRoughlyContains)
   pf readbuf <depth> <inputlen> <hex>         -> sd hex      (getProcessReadBufSearchDepth, processReadBuf)
   pf procout <strip> <promptname> <rethex> <hex> -> hex      (Channel.processOut)
   pf norm <hex>                               -> hex         (CR removal + ANSI stripping of one read) *)
Definition run_pf (fs : list bytes) : list bytes :=
  let op := nthf 1 fs in
  if beqb op (bs "roughly") then [emit_bool (roughly_contains (of_hex (nthf 2 fs)) (of_hex (nthf 3 fs)))]
  else if beqb op (bs "readbuf") then
    let sd := search_depth (N.to_nat (parse_num (nthf 2 fs))) (N.to_nat (parse_num (nthf 3 fs))) in
    [print_dec (N.of_nat sd); to_hex (process_read_buf (of_hex (nthf 4 fs)) sd)]
  else if beqb op (bs "procout") then
    match lookup_rx (nthf 3 fs) regex_table with
    | None => [bs "no-such-prompt-pattern"]
    | Some r => [to_hex (process_out (mkCfg 1000 r (of_hex (nthf 4 fs)) 0%Z) (of_hex (nthf 5 fs)) (parse_bool (nthf 2 fs)))]
    end
  else if beqb op (bs "norm") then [to_hex (normalize_chunk (of_hex (nthf 2 fs)))]
  else [bs "unknown-pf"].

Definition dispatch (fs : list bytes) : list bytes :=
  let name := nthf 0 fs in
  if beqb name (bs "c13") then run_c13 fs
  else if beqb name (bs "rx") then run_rx fs
  else if beqb name (bs "c02") then run_c02 fs
  else if beqb name (bs "chan") then run_chan fs
  else if beqb name (bs "q20") then run_q20 fs
  else if beqb name (bs "c15") then run_c15 fs
  else if beqb name (bs "nc") then run_nc fs
  else if beqb name (bs "c01hyp") then run_c01hyp fs
  else if beqb name (bs "net") then run_net fs
  else if beqb name (bs "chanalt") then run_chanalt fs
  else if beqb name (bs "netalt") then run_netalt fs
  else if beqb name (bs "netabs") then run_netabs fs
  else if beqb name (bs "c14") then run_c14 fs
  else if beqb name (bs "login") then run_login fs
  else if beqb name (bs "c16") then Pipes.run_c16 fs
  else if beqb name (bs "c19") then OptionsRun.run_c19 fs
  else if beqb name (bs "pf") then run_pf fs
  else if is_prefix (bs "c07") name then CloseRun.run_c07 fs
  else [bs "unknown-case"].

Definition run_line (line : bytes) : bytes := unfields (dispatch (fields line)).
