(* Runner.v — the single entry point [run_line] used by the correspondence check: one case per
   line, `name field field ...`; all parsing and printing is done here, in Gallina, so the OCaml
   driver only moves characters.  Field kinds: decimal number, hex byte string, and lists
   `L:hex:hex...` (`L` = empty list, `L:` = one empty string). *)
From Scrapli Require Import Bytes Regex PlatformTypes Generated Generic Netconf Channel Replay Queue Telnet.
Open Scope N_scope.

Definition COLON : N := 58.
Definition CH_L : N := 76.

Definition parse_list (f : bytes) : list bytes :=
  match f with
  | l :: c :: rest => if (l =? CH_L) && (c =? COLON) then map of_hex (split_on COLON rest) else []
  | _ => []
  end.

Fixpoint emit_items (l : list bytes) : bytes :=
  match l with
  | [] => []
  | x :: t => COLON :: to_hex x ++ emit_items t
  end.
Definition emit_list (l : list bytes) : bytes := CH_L :: emit_items l.

Definition parse_num (f : bytes) : N := match parse_dec f with Some n => n | None => 0 end.
Definition parse_bool (f : bytes) : bool := negb (parse_num f =? 0).
Definition emit_bool (b : bool) : bytes := if b then [49] else [48].

Definition fields (line : bytes) : list bytes := split_on SP line.
Definition unfields (fs : list bytes) : bytes := join [SP] fs.

Definition nthf (n : nat) (fs : list bytes) : bytes := nth n fs [].

Fixpoint zip {A B} (a : list A) (b : list B) : list (A * B) :=
  match a, b with
  | x :: a', y :: b' => (x, y) :: zip a' b'
  | _, _ => []
  end.

Definition opt_bytes (o : option bytes) : bytes := match o with Some s => s | None => [] end.

(* c13 stop opf drvf cmds outs  ->  ok|noop  n  matched-per-response  failed-inputs  sent *)
Definition run_c13 (fs : list bytes) : list bytes :=
  let stop := parse_bool (nthf 1 fs) in
  let opf := parse_list (nthf 2 fs) in
  let drvf := parse_list (nthf 3 fs) in
  let cmds := parse_list (nthf 4 fs) in
  let outs := parse_list (nthf 5 fs) in
  match send_commands opf drvf stop (zip cmds outs) with
  | MNoOp => [bs "noop"]
  | MOk rs =>
      [ bs "ok"; print_dec (N.of_nat (length rs));
        emit_list (map (fun r => opt_bytes (r_failed r)) rs);
        emit_list (map r_input (multi_failed rs));
        emit_list (map r_input rs);
        emit_list (map r_result rs);
        to_hex (collapse_result rs); emit_bool (collapse_failed rs) ]
  end.

(* rx name op input -> result ; the engine against Go's regexp on the same pattern *)
Fixpoint lookup_rx (name : bytes) (t : list (bytes * re)) : option re :=
  match t with
  | [] => None
  | (n, r) :: t' => if beqb n name then Some r else lookup_rx name t'
  end.

Definition emit_opt (o : option bytes) : bytes :=
  match o with Some s => 83 :: to_hex s | None => [78] end.   (* S<hex> | N *)

Definition run_rx (fs : list bytes) : list bytes :=
  match lookup_rx (nthf 1 fs) regex_table with
  | None => [bs "no-such-regex"]
  | Some r =>
      let op := nthf 2 fs in
      let s := of_hex (nthf 3 fs) in
      if negb (rx_fuel_ok r s) then [bs "fuel"]
      else if beqb op (bs "match") then [emit_bool (rx_match r s)]
      else if beqb op (bs "find") then [emit_opt (rx_find r s)]
      else if beqb op (bs "group1") then [emit_opt (rx_find_group r 1 s)]
      else if beqb op (bs "remove") then [to_hex (rx_remove_all r s)]
      else if beqb op (bs "after") then [emit_opt (rx_after_first r s)]
      else if beqb op (bs "findall") then
        [emit_list (map (fun m => slice (fst (fst m)) (snd (fst m)) s) (rx_find_all r s))]
      else [bs "bad-op"]
  end.

(* c02 10|11 raw -> ok result rpc-error parse-error | panic *)
Definition run_c02 (fs : list bytes) : list bytes :=
  let v := if beqb (nthf 1 fs) (bs "10") then V10 else V11 in
  let raw := of_hex (nthf 2 fs) in
  let show o := match o with
                | RecOut r rpc pe => [bs "ok"; to_hex r; emit_bool rpc; emit_bool pe]
                | RecPanic => [bs "panic"]
                end in
  (* the cursor-level transcription is quadratic: run it on inputs up to 400 bytes, where it must
     agree with the functional decoder (proved equal in general); the functional one above that *)
  if Nat.ltb (length raw) 400 then
    let a := show (record v raw) in
    let b := show (record_fast v raw) in
    if beqb (unfields a) (unfields b) then a else [bs "model-internal-mismatch"]
  else show (record_fast v raw).

(* ---- channel sessions: chan depth promptname ret start calls log ---- *)
Definition BAR : N := 124. Definition COMMA : N := 44. Definition SEMI : N := 59.

Definition names_to_res (f : bytes) : list re :=
  match f with
  | [] => []
  | _ => flat_map (fun n => match lookup_rx n regex_table with Some r => [r] | None => [] end) (split_on COMMA f)
  end.

Definition parse_flags (f : bytes) : op_opts -> op_opts := fun o =>
  mkOpts (if mem_byte 110 f then false else o_strip o)     (* n *)
         (if mem_byte 101 f then true else o_eager o)      (* e *)
         (if mem_byte 120 f then true else o_exact o)      (* x *)
         (o_interim o) (o_complete o).

Definition parse_event (f : bytes) : ievent :=
  let ps := split_on SLASH f in
  let resp := nthf 1 ps in
  mkEv (of_hex (nthf 0 ps))
       (if beqb resp [45] then None else lookup_rx resp regex_table)
       (beqb (nthf 2 ps) [104]).

Definition parse_call (cfg : chan_cfg) (spec : bytes) : prog bytes :=
  let ps := split_on BAR spec in
  let kind := nthf 0 ps in
  if beqb kind (bs "in") then
    let o := parse_flags (nthf 2 ps) default_opts in
    send_input cfg (of_hex (nthf 1 ps)) (mkOpts (o_strip o) (o_eager o) (o_exact o) (names_to_res (nthf 3 ps)) [])
  else if beqb kind (bs "gp") then get_prompt cfg
  else if beqb kind (bs "ia") then
    let o := parse_flags (nthf 1 ps) default_opts in
    let evs := match nthf 3 ps with [] => [] | f => map parse_event (split_on SEMI f) end in
    send_interactive cfg evs (mkOpts (o_strip o) (o_eager o) (o_exact o) [] (names_to_res (nthf 2 ps)))
  else Fail EOperation.

Definition parse_lev (t : bytes) : list lev :=
  match t with
  | 82 :: n => [LR (N.to_nat (parse_num n))]                         (* R<n> *)
  | 87 :: r => let ps := split_on SLASH r in [LW (of_hex (nthf 0 ps)) (of_hex (nthf 1 ps))]
  | [67] => [LCall] | [68] => [LDeadline] | [69] => [LEof] | [73] => [LIoerr]
  | _ => []
  end.
Definition parse_log (f : bytes) : list lev :=
  if beqb f [45] then [] else flat_map parse_lev (split_on COMMA f).

Definition err_name (e : err) : bytes :=
  match e with
  | ETimeout => bs "timeout" | EConnection => bs "connection" | EAuth => bs "auth" | EPrivilege => bs "privilege"
  | ETransport => bs "io" | EWrite => bs "write" | EOperation => bs "operation" | ENetconf => bs "netconf" | ENoOp => bs "noop"
  end.

Definition emit_out (o : call_out) : bytes :=
  match o with
  | COk r => bs "ok:" ++ to_hex r
  | CErr e => bs "err:" ++ err_name e
  | CUnfinished => bs "unfinished"
  end.

Definition emit_wlog (l : list (bytes * bool)) : bytes :=
  emit_list (map (fun wr : bytes * bool => (if snd wr then [114] else [112]) ++ fst wr) l).   (* r|p + bytes *)

Definition mk_cfg (fs : list bytes) : option chan_cfg :=
  match lookup_rx (nthf 2 fs) regex_table with
  | Some r => Some (mkCfg (N.to_nat (parse_num (nthf 1 fs))) r (of_hex (nthf 3 fs)) 0%Z)
  | None => None
  end.

Definition run_chan (fs : list bytes) : list bytes :=
  match mk_cfg fs with
  | None => [bs "no-such-prompt-pattern"]
  | Some cfg =>
      let calls := map (parse_call cfg) (parse_list (nthf 5 fs)) in
      let '(s, outs) := replay_session cfg (of_hex (nthf 4 fs)) (parse_log (nthf 6 fs)) calls in
      [ join [COMMA] (map emit_out outs);
        (if desynced s then bs "desync" else bs "sync");
        emit_wlog (s_wlog s) ]
  end.

(* ---- queue histories: q20 <history>  with tokens E<hex byte> D A R G, comma separated.
   Sequential histories: each operation runs to completion (a schedule that gives the acting
   thread enough consecutive steps). *)
Definition parse_qop (t : bytes) : list (N + cop) :=
  match t with
  | 69 :: h => match of_hex h with b :: _ => [inl b] | [] => [] end
  | [68] => [inr CDequeue] | [65] => [inr CDequeueAll] | [82] => [inr CRequeue] | [71] => [inr CGetDepth]
  | _ => []
  end.

(* run one whole operation of thread t: first step, then on until its pc is idle again *)
Fixpoint run_whole (fuel : nat) (t : tid) (s : st N) : st N :=
  match fuel with
  | O => s
  | S f => match step s t with
           | Some s' => if (match t with Prod => match pp N s' with PIdle => true | _ => false end
                                    | Cons => match cp N s' with CIdle => true | _ => false end end)
                        then s' else run_whole f t s'
           | None => s
           end
  end.

Definition run_q20 (fs : list bytes) : list bytes :=
  let h := flat_map parse_qop (split_on COMMA (nthf 1 fs)) in
  let chunks := flat_map (fun x => match x with inl b => [b] | inr _ => [] end) h in
  let ops := flat_map (fun x => match x with inl _ => [] | inr o => [o] end) h in
  let s := fold_left (fun s x => run_whole 8 (match x with inl _ => Prod | inr _ => Cons end) s) h (init chunks ops) in
  [ to_hex (got N s); to_hex (q N s); print_dec (N.of_nat (nils N s));
    join [COMMA] (map (fun d => print_dec (N.of_nat d)) (rev (depth_seen N s)));
    emit_bool (panicked N s); print_dec (N.of_nat (depth N s)) ].

(* c15 <opening> -> replies(concatenated) data *)
Definition run_c15 (fs : list bytes) : list bytes :=
  let s := run_telnet (of_hex (nthf 1 fs)) in
  [to_hex (concat (t_replies s)); to_hex (t_data s)].

Definition dispatch (fs : list bytes) : list bytes :=
  let name := nthf 0 fs in
  if beqb name (bs "c13") then run_c13 fs
  else if beqb name (bs "rx") then run_rx fs
  else if beqb name (bs "c02") then run_c02 fs
  else if beqb name (bs "chan") then run_chan fs
  else if beqb name (bs "q20") then run_q20 fs
  else if beqb name (bs "c15") then run_c15 fs
  else [bs "unknown-case"].

Definition run_line (line : bytes) : bytes := unfields (dispatch (fields line)).
