(* WindowSrc.v — channel/read.go processReadBuf as the source has it on this run is the model's
   Channel.process_read_buf (C01, C12: every prompt / echo search looks at this window). *)
From Scrapli Require Import Bytes Regex PlatformTypes Generated Channel DecideLang GeneratedSkel.
From Coq Require Import String List Bool Arith.
Import ListNotations.
Open Scope string_scope.

(* the two tests: len(rb) <= searchDepth; partitionIdx > 0, where partitionIdx is
   bytes.Index(prb, "\n") and prb the last searchDepth bytes *)
Definition prb_env (short idx_pos : bool) : denv :=
  mkEnvX (fun _ => false) (fun _ _ => false) (fun _ => "")
         (fun a => if String.eqb a "len(rb) <= searchDepth" then Some short else None)
         (fun _ _ _ => None) (fun _ => O)
         (fun st a => if String.eqb a "partitionIdx > 0" then
                        match sget st "partitionIdx", sget st "prb" with
                        | Some i, Some p =>
                            if String.eqb i "bytes.Index(prb, []byte(""\n""))" && String.eqb p "rb[len(rb)-searchDepth:]"
                            then Some (Some idx_pos) else Some None
                        | _, _ => Some None
                        end
                      else None).

Inductive window := WWhole | WTail | WTailCut.

Definition prb_run (short idx_pos : bool) : option window :=
  match DecideLang.exec 12 (prb_env short idx_pos) process_read_buf_code [] with
  | Returned st v =>
      if String.eqb v "rb" then (match st with [] => Some WWhole | _ => None end)
      else if String.eqb v "prb" then
        match st with
        | [("partitionIdx", _); ("prb", "rb[len(rb)-searchDepth:]")] => Some WTail
        | [("prb", "prb[partitionIdx:]"); ("partitionIdx", _); ("prb", "rb[len(rb)-searchDepth:]")] => Some WTailCut
        | _ => None
        end
      else None
  | _ => None
  end.

Definition tail_of (rb : bytes) (sd : nat) : bytes := skipn (List.length rb - sd) rb.
Definition lf_index_pos (b : bytes) : option nat := match index_of [LF] b with Some (S i) => Some (S i) | _ => None end.

Definition window_of (rb : bytes) (sd : nat) (w : window) : bytes :=
  match w with
  | WWhole => rb
  | WTail => tail_of rb sd
  | WTailCut => match lf_index_pos (tail_of rb sd) with Some i => skipn i (tail_of rb sd) | None => tail_of rb sd end
  end.

(* THE TIE: for every buffer and every search depth *)
Theorem process_read_buf_is_source : forall rb sd,
  exists w, prb_run (Nat.leb (List.length rb) sd)
                    (match lf_index_pos (tail_of rb sd) with Some _ => true | None => false end) = Some w
            /\ process_read_buf rb sd = window_of rb sd w.
Proof.
  intros rb sd. unfold process_read_buf. destruct (Nat.leb (List.length rb) sd).
  - exists WWhole. split; [destruct (lf_index_pos (tail_of rb sd)); reflexivity | reflexivity].
  - cbv zeta. fold (tail_of rb sd). unfold lf_index_pos.
    destruct (index_of [LF] (tail_of rb sd)) as [[|i]|] eqn:E.
    + exists WTail. split; reflexivity.
    + exists WTailCut. split; [reflexivity|]. cbn [window_of]. unfold lf_index_pos. rewrite E. reflexivity.
    + exists WTail. split; reflexivity.
Qed.


(* ---------- getProcessReadBufSearchDepth: the window in which an echo is searched ---------- *)

(* the one test: possibleSearchDepth > finalSearchDepth, with possible = multiplier * inputLen and
   final = promptSearchDepth at that point *)
Definition sd_env (gt : bool) : denv :=
  mkEnvX (fun _ => false) (fun _ _ => false) (fun _ => "") (fun _ => None) (fun _ _ _ => None) (fun _ => O)
         (fun st a => if String.eqb a "possibleSearchDepth > finalSearchDepth" then
                        match sget st "possibleSearchDepth", sget st "finalSearchDepth" with
                        | Some "inputSearchDepthMultiplier * inputLen", Some "promptSearchDepth" => Some (Some gt)
                        | _, _ => Some None
                        end
                      else None).

(* Some true: returns multiplier * inputLen; Some false: returns promptSearchDepth *)
Definition sd_run (gt : bool) : option bool :=
  match DecideLang.exec 10 (sd_env gt) search_depth_code [] with
  | Returned st "finalSearchDepth" =>
      match sget st "finalSearchDepth" with
      | Some "possibleSearchDepth" => (match sget st "possibleSearchDepth" with Some "inputSearchDepthMultiplier * inputLen" => Some true | _ => None end)
      | Some "promptSearchDepth" => Some false
      | _ => None
      end
  | _ => None
  end.

(* THE TIE: for every prompt search depth and every input length *)
Theorem search_depth_is_source : forall psd ilen,
  let gt := Nat.ltb psd (input_search_depth_multiplier * ilen)%nat in
  sd_run gt = Some gt
  /\ search_depth psd ilen = if gt then (input_search_depth_multiplier * ilen)%nat else psd.
Proof.
  intros psd ilen gt. split; [destruct gt; reflexivity|]. unfold search_depth. fold gt. reflexivity.
Qed.

Definition window_tests_known : bool :=
  tests_known search_depth_code ["possibleSearchDepth > finalSearchDepth"]
  && tests_known process_read_buf_code ["len(rb) <= searchDepth"; "partitionIdx > 0"].
Lemma window_tests_known_true : window_tests_known = true.
Proof. vm_compute. reflexivity. Qed.
