(* DecidePA.v — network Driver.processAcquirePriv as translated from the source = Network.process_acquire (C04). *)
From Scrapli Require Import Bytes Regex PlatformTypes Generated Channel Netconf DecideLang GeneratedSkel.
From Coq Require Import String List Bool ZArith NArith.
Import ListNotations.
Open Scope string_scope.

Open Scope list_scope.
(* ---------- network.Driver.processAcquirePriv (C04): which level the driver believes it is at,
   and the next action ---------- *)
From Scrapli Require Import Network.

(* which of its three candidates the function took for `current` *)
Inductive cur_choice := CCached | CTName | CFirst.

(* outcomes of the tests; the current-dependent ones are given per choice; [None] for the edge
   test = evaluating it panics in Go (mapTo[1] out of range / nil map entry) *)
Record pa_tests := mkPA {
  pa_err : bool;                       (* determineCurrentPriv failed (no level matches the prompt) *)
  pa_in_cached : bool; pa_in_target : bool;
  pa_eq_c : bool; pa_eq_t : bool; pa_eq_f : bool;                          (* current == target *)
  pa_up_c : option bool; pa_up_t : option bool; pa_up_f : option bool      (* d.PrivilegeLevels[mapTo[1]].PreviousPriv == current *)
}.
Definition pa_eq (t : pa_tests) (ch : cur_choice) : bool :=
  match ch with CCached => pa_eq_c t | CTName => pa_eq_t t | CFirst => pa_eq_f t end.
Definition pa_up (t : pa_tests) (ch : cur_choice) : option bool :=
  match ch with CCached => pa_up_c t | CTName => pa_up_t t | CFirst => pa_up_f t end.

Definition choice_of (s : store) : option cur_choice :=
  match sget s "current" with
  | Some x => if String.eqb x "d.CurrentPriv" then Some CCached
              else if String.eqb x "d.PrivilegeLevels[target].Name" then Some CTName
              else if String.eqb x "possiblePrivs[0]" then Some CFirst else None
  | None => None
  end.

Definition pa_env (t : pa_tests) : denv :=
  mkEnv (fun _ => false)
        (fun a v => String.eqb a "err" && String.eqb v "nil" && negb (pa_err t))
        (fun _ => "")
        (fun a => if String.eqb a "util.StringSliceContains(possiblePrivs, d.CurrentPriv)" then Some (pa_in_cached t)
                  else if String.eqb a "util.StringSliceContains(possiblePrivs, target)" then Some (pa_in_target t)
                  else None)
        (fun s a v =>
           if String.eqb a "current" && String.eqb v "target"
           then Some (option_map (pa_eq t) (choice_of s))
           else if String.eqb a "d.PrivilegeLevels[mapTo[1]].PreviousPriv" && String.eqb v "current"
           then Some (match choice_of s, sget s "mapTo" with
                      | Some ch, Some mt => if String.eqb mt "d.buildPrivChangeMap(current, target, nil)" then pa_up t ch else None
                      | _, _ => None
                      end)
           else None).

Inductive pa_act := PNone | PDeesc | PEsc.
(* result of a run: error | panic | (choice, action, d.CurrentPriv set to the chosen level / to the sentinel) *)
Inductive pa_out := POErr | POPanic | POk (ch : cur_choice) (a : pa_act) (cached_is_current : bool) | POBad.

Definition pa_run (t : pa_tests) : pa_out :=
  match exec 60 (pa_env t) process_acquire_priv_code [] with
  | Stuck => POPanic
  | Running _ | Cont _ | Brk _ => POBad
  | Returned s v =>
      if String.eqb v """"", """", err" then POErr
      else match choice_of s, sget s "d.CurrentPriv" with
           | Some ch, Some cp =>
               if String.eqb v "noAction, current, nil" && String.eqb cp "current" then POk ch PNone true
               else if String.eqb v "deescalateAction, current, nil" && String.eqb cp "unknownPriv" then POk ch PDeesc false
               else if String.eqb v "escalateAction, d.PrivilegeLevels[mapTo[1]].Name, nil" && String.eqb cp "unknownPriv" then POk ch PEsc false
               else POBad
           | _, _ => POBad
           end
  end.

Definition pa_expected (t : pa_tests) : pa_out :=
  if pa_err t then POErr
  else
    let ch := if pa_in_cached t then CCached else if pa_in_target t then CTName else CFirst in
    if pa_eq t ch then POk ch PNone true
    else match pa_up t ch with
         | None => POPanic
         | Some true => POk ch PEsc false
         | Some false => POk ch PDeesc false
         end.

Lemma pa_run_cases : forall t, pa_run t = pa_expected t.
Proof.
  intros [e ic it q1 q2 q3 u1 u2 u3].
  destruct e, ic, it, q1, q2, q3, u1 as [[|]|], u2 as [[|]|], u3 as [[|]|]; vm_compute; reflexivity.
Qed.

(* the outcomes of the tests for given (levels, cached level, target, prompt) *)
Section PATie.
  Variable net : netcfg.
  Variables cached target prompt : bytes.

  Definition pa_possible : list bytes := determine_current net prompt.
  Definition pa_value (ch : cur_choice) : bytes :=
    match ch with
    | CCached => cached
    | CTName => match lookup_level (n_levels net) target with Some l => lv_name l | None => target end
    | CFirst => hd [] pa_possible
    end.
  Definition pa_next (ch : cur_choice) : option level :=
    match build_path (S (length (n_levels net))) net (pa_value ch) target [] with
    | Some (_ :: next :: _) => lookup_level (n_levels net) next
    | _ => None
    end.
  Definition pa_up_of (ch : cur_choice) : option bool :=
    option_map (fun nl => beqb (lv_previous nl) (pa_value ch)) (pa_next ch).

  Definition pa_tests_of : pa_tests :=
    mkPA (match pa_possible with [] => true | _ => false end)
         (mem_bytes cached pa_possible) (mem_bytes target pa_possible)
         (beqb (pa_value CCached) target) (beqb (pa_value CTName) target) (beqb (pa_value CFirst) target)
         (pa_up_of CCached) (pa_up_of CTName) (pa_up_of CFirst).

  Definition pa_interp (o : pa_out) : pa_result :=
    match o with
    | POErr => PAErr
    | POPanic | POBad => PAPanic
    | POk ch PNone _ => PAOk ANone (pa_value ch)
    | POk ch PDeesc _ => PAOk (ADeescalate (pa_value ch)) net_unknown_priv
    | POk ch PEsc _ => match pa_next ch with
                       | Some nl => PAOk (AEscalate (lv_name nl)) net_unknown_priv
                       | None => PAPanic
                       end
    end.

  (* THE TIE: for every privilege map, cached level, target and prompt, the source's
     processAcquirePriv (as translated on this run) picks the level the model picks -- the cached
     one if the prompt allows it, else the target if the prompt allows it, else the first
     candidate --, returns the action the model returns and leaves d.CurrentPriv as the model does *)
  Theorem process_acquire_is_source : pa_interp (pa_run pa_tests_of) = process_acquire net cached target prompt.
  Proof.
    rewrite pa_run_cases. unfold pa_expected, pa_tests_of, process_acquire, pa_possible.
    cbn [pa_err pa_in_cached pa_in_target pa_eq pa_up pa_eq_c pa_eq_t pa_eq_f pa_up_c pa_up_t pa_up_f].
    destruct (determine_current net prompt) as [|first rest] eqn:Hp; [reflexivity|].
    assert (Hv : forall ch, pa_value ch = match ch with
                                           | CCached => cached
                                           | CTName => match lookup_level (n_levels net) target with Some l => lv_name l | None => target end
                                           | CFirst => first end).
    { intros [| |]; unfold pa_value, pa_possible; rewrite ?Hp; reflexivity. }
    destruct (mem_bytes cached (first :: rest)) eqn:E1.
    - cbn [pa_eq pa_eq_c pa_eq_t pa_eq_f]. rewrite ?(Hv CCached).
      destruct (beqb cached target) eqn:E2; [cbn [pa_interp]; rewrite ?(Hv CCached); reflexivity|].
      cbn [pa_up pa_up_c pa_up_t pa_up_f]. unfold pa_up_of, pa_next. rewrite ?(Hv CCached).
      destruct (build_path (S (length (n_levels net))) net cached target []) as [[|x [|next l]]|] eqn:Hb; try reflexivity.
      destruct (lookup_level (n_levels net) next) as [nl|] eqn:Hl; [|reflexivity].
      cbn [option_map]. destruct (beqb (lv_previous nl) cached) eqn:E3; cbn [pa_interp];
        unfold pa_next; rewrite ?(Hv CCached), ?Hb, ?Hl; reflexivity.
    - destruct (mem_bytes target (first :: rest)) eqn:E1'.
      + cbn [pa_eq pa_eq_c pa_eq_t pa_eq_f]. rewrite ?(Hv CTName).
        set (tn := match lookup_level (n_levels net) target with Some l => lv_name l | None => target end) in *.
        destruct (beqb tn target) eqn:E2; [cbn [pa_interp]; rewrite ?(Hv CTName); reflexivity|].
        cbn [pa_up pa_up_c pa_up_t pa_up_f]. unfold pa_up_of, pa_next. rewrite ?(Hv CTName). fold tn.
        destruct (build_path (S (length (n_levels net))) net tn target []) as [[|x [|next l]]|] eqn:Hb; try reflexivity.
        destruct (lookup_level (n_levels net) next) as [nl|] eqn:Hl; [|reflexivity].
        cbn [option_map]. destruct (beqb (lv_previous nl) tn) eqn:E3; cbn [pa_interp];
          unfold pa_next; rewrite ?(Hv CTName); fold tn; rewrite ?Hb, ?Hl; reflexivity.
      + cbn [pa_eq pa_eq_c pa_eq_t pa_eq_f]. rewrite ?(Hv CFirst).
        destruct (beqb first target) eqn:E2; [cbn [pa_interp]; rewrite ?(Hv CFirst); reflexivity|].
        cbn [pa_up pa_up_c pa_up_t pa_up_f]. unfold pa_up_of, pa_next. rewrite ?(Hv CFirst).
        destruct (build_path (S (length (n_levels net))) net first target []) as [[|x [|next l]]|] eqn:Hb; try reflexivity.
        destruct (lookup_level (n_levels net) next) as [nl|] eqn:Hl; [|reflexivity].
        cbn [option_map]. destruct (beqb (lv_previous nl) first) eqn:E3; cbn [pa_interp];
          unfold pa_next; rewrite ?(Hv CFirst), ?Hb, ?Hl; reflexivity.
  Qed.
End PATie.

(* every test the translated code makes is one the environment above was written for (an unknown
   equality would otherwise evaluate to false without notice) *)
Definition process_acquire_priv_known : list string := "err == nil" :: "util.StringSliceContains(possiblePrivs, d.CurrentPriv)" :: "util.StringSliceContains(possiblePrivs, target)" :: "current == target" :: "d.PrivilegeLevels[mapTo[1]].PreviousPriv == current" :: nil.
Lemma process_acquire_priv_tests_known : tests_known process_acquire_priv_code process_acquire_priv_known = true.
Proof. vm_compute. reflexivity. Qed.
