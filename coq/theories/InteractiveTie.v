(* InteractiveTie.v — source and model of the interactive send meet: the primitives that
   channel/sendinteractive.go (as translated on this run) invokes are the primitives the model's
   Channel.interactive_loop invokes, for every event list, every operation options and every
   sequence of read results (C12). *)
From Scrapli Require Import Bytes Regex PlatformTypes Generated Channel DecideLang GeneratedSkel DecideLemmas
                            InteractiveSrcDefs InteractiveSrc InteractiveSrcModel.
From Coq Require Import List Bool Arith Lia.
Import ListNotations.

(* the events as the source's tests see them, given what the reads return: like [mflags], with the
   match of every completion pattern spelled out *)
Fixpoint msev (o : op_opts) (events : list ievent) (reads : list bytes) : list sev :=
  match events with
  | [] => []
  | e :: rest =>
      let reads1 := if echo_reads o e then tl reads else reads in
      let pb := hd [] reads1 in
      (is_some (ev_response e), ev_hidden e, map (fun p => rx_match p pb) (o_complete o))
      :: msev o rest (tl reads1)
  end.

Lemma existsb_id_map : forall A (f : A -> bool) l, existsb (fun x => x) (map f l) = existsb f l.
Proof. intros A f l. induction l as [|a t IH]; [reflexivity|]. cbn [map existsb]. now rewrite IH. Qed.

Lemma msev_flags : forall o events reads, map sev_flags (msev o events reads) = mflags o events reads.
Proof.
  intros o events. induction events as [|e t IH]; intros reads; [reflexivity|].
  cbn [msev mflags map sev_flags]. rewrite existsb_id_map, IH. reflexivity.
Qed.

Lemma msev_rows : forall o events reads,
  Forall (fun e : sev => length (snd e) = length (o_complete o)) (msev o events reads).
Proof.
  intros o events. induction events as [|e t IH]; intros reads; [constructor|].
  cbn [msev]. constructor; [cbn [snd]; apply map_length | apply IH].
Qed.

Lemma ltb_complete : forall o, Nat.ltb 0 (length (o_complete o)) = complete_nonempty o.
Proof. intros o. unfold complete_nonempty. destruct (o_complete o); reflexivity. Qed.

Theorem interactive_source_meets_model : forall cfg o events reads acc,
  exists acts,
    si_run (length (o_complete o)) (msev o events reads) = Some acts
    /\ pacts (interactive_loop cfg o events acc) reads = flat_map (act_pacts cfg o events) acts.
Proof.
  intros cfg o events reads acc.
  exists (iacts (complete_nonempty o) (mflags o events reads) 0). split.
  - rewrite (send_interactive_is_source _ _ (msev_rows o events reads)), msev_flags, ltb_complete. reflexivity.
  - apply interactive_loop_acts.
Qed.
