(* Generic.v — failure marking, multi responses, stop-on-failed (C13) as in
   response/response.go, response/multi.go, driver/generic/sendcommand(s).go,
   driver/network/sendconfig.go.  Definitions only. *)
From Scrapli Require Import Bytes.
Open Scope N_scope.

(* util.StringContainsAnySubStrs: first substring of [l] contained in [s]; "" when none.
   Response.Record marks the response failed iff that result is non-empty — so an empty failure
   string that comes first in the list masks every later one (faithfully modelled). *)
Fixpoint contains_any_substr (s : bytes) (l : list bytes) : bytes :=
  match l with
  | [] => []
  | ss :: t => if contains ss s then ss else contains_any_substr s t
  end.

Definition failed_with (out : bytes) (fws : list bytes) : option bytes :=
  match contains_any_substr out fws with
  | [] => None
  | s => Some s
  end.

(* sendCommand: the operation-level list replaces the driver-level list only when non-empty *)
Definition effective_fws (opf drvf : list bytes) : list bytes :=
  match opf with [] => drvf | _ => opf end.

Record resp := mkResp { r_input : bytes; r_result : bytes; r_fws : list bytes; r_failed : option bytes }.

Definition record (cmd out : bytes) (fws : list bytes) : resp :=
  mkResp cmd out fws (failed_with out fws).

Definition is_failed (r : resp) : bool := match r_failed r with Some _ => true | None => false end.

(* SendCommands loop.  Each command is paired with the output the device gives to it when (and
   only when) it is sent.  The list of responses is also exactly the list of commands
   transmitted. *)
Section SendCommands.
  Variable fws : list bytes.
  Variable stop : bool.

  Fixpoint send_loop (cmds : list (bytes * bytes)) : list resp :=
    match cmds with
    | [] => []
    | (c, o) :: rest =>
        let r := record c o fws in
        match rest with
        | [] => [r]                       (* last command: no stop test after it *)
        | _ => if stop && is_failed r then [r] else r :: send_loop rest
        end
    end.
End SendCommands.

Inductive multi_result :=
| MNoOp                                   (* util.ErrNoOp: no inputs provided *)
| MOk (rs : list resp).

Definition send_commands (opf drvf : list bytes) (stop : bool)
           (cmds : list (bytes * bytes)) : multi_result :=
  match cmds with
  | [] => MNoOp
  | _ => MOk (send_loop (effective_fws opf drvf) stop cmds)
  end.

(* MultiResponse.AppendResponse: Failed aggregates exactly the failed members, in order *)
Definition multi_failed (rs : list resp) : list resp := filter is_failed rs.

(* SendConfig: collapse *)
Definition NL : bytes := [10].
Definition collapse_result (rs : list resp) : bytes := join NL (map r_result rs).
Definition collapse_failed (rs : list resp) : bool := negb (match multi_failed rs with [] => true | _ => false end).

(* specification-side notions used by the theorems *)
Fixpoint upto_first_failed (rs : list resp) : list resp :=
  match rs with
  | [] => []
  | r :: t => if is_failed r then [r] else r :: upto_first_failed t
  end.
