(* StdCloseSrc.v — transport/standard.go Standard.Close as the source has it on this run (C07): the
   session, when there is one, is closed and dropped; the CLIENT (the connection), when there is
   one, is closed whether or not closing the session failed (finding F31: a session the server had
   already ended makes session.Close fail), and dropped unless its own close failed; the error
   returned is the client's, else the session's. *)
From Scrapli Require Import DecideLang GeneratedSkel.
From Coq Require Import String List Bool.
Import ListNotations.
Open Scope string_scope.

Definition sc_env (session client client_err : bool) : denv :=
  mkEnvX (fun _ => false)
         (fun a b => (String.eqb a "t.session" && String.eqb b "nil" && negb session)
                     || (String.eqb a "t.client" && String.eqb b "nil" && negb client)
                     || (String.eqb a "err" && String.eqb b "nil" && negb client_err))
         (fun _ => "") (fun _ => None) (fun _ _ _ => None) (fun _ => O) (fun _ _ => None).

Definition opt_is (o : option string) (want : option string) : bool :=
  match o, want with
  | Some a, Some b => String.eqb a b
  | None, None => true
  | _, _ => false
  end.

Definition sc_run_ok (session client client_err : bool) : bool :=
  match DecideLang.exec 20 (sc_env session client client_err) std_close_code [] with
  | Returned st v =>
      String.eqb v (if client && client_err then "err" else "sessionErr")
      && opt_is (sget st "sessionErr") (if session then Some "t.session.Close()" else None)
      && opt_is (sget st "t.session") (if session then Some "nil" else None)
      && opt_is (sget st "err") (if client then Some "t.client.Close()" else None)
      && opt_is (sget st "t.client") (if client && negb client_err then Some "nil" else None)
  | _ => false
  end.

Definition std_close_ok : bool :=
  forallb (fun x => sc_run_ok (fst (fst x)) (snd (fst x)) (snd x))
          [(false, false, false); (false, false, true); (false, true, false); (false, true, true);
           (true, false, false); (true, false, true); (true, true, false); (true, true, true)]
  && tests_known std_close_code ["t.session == nil"; "t.client == nil"; "err == nil"].

Theorem std_close_is_source : std_close_ok = true.
Proof. vm_compute. reflexivity. Qed.
Print Assumptions std_close_is_source.
