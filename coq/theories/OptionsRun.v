(* OptionsRun.v — runner hook of C19: text encoding of an option list / platform definition and
   the canonical dump of the settings.

     c19 <g|n|c> d <opts>
     c19 <g|n>   p <fw;onopen;onclose;privs;defpriv;netonopen;netonclose> <yaml-options> <opts>

   <opts>         `-` (empty) or comma-separated items  Name | Name=arg | Name=arg/arg
                  (Name = the Go constructor's name; arg = decimal | hex string | L:hex:hex | `-`)
   <yaml-options> `-` or comma-separated  name=Kvalue  with K = i(nt) f(loat, in quarters)
                  s(tring, hex) b(ool) q(sequence of strings, L:hex..) m(ixed sequence) n(ull)
   output         ok Field=value ... (43 fields, fixed order; `-` = not reachable from the driver)
                  | badoption | notfound | panic | bad-input *)
From Scrapli Require Import Bytes Regex PlatformTypes Generated Options.
Open Scope N_scope.

Definition COLON : N := 58.
Definition CH_L : N := 76.
Definition EQ : N := 61.
Definition SLASH : N := 47.
Definition COMMA : N := 44.
Definition SEMI : N := 59.
Definition DASH : N := 45.

(* same conventions as Runner.v *)
Definition parse_list (f : bytes) : list bytes :=
  match f with
  | l :: c :: rest => if (l =? CH_L) && (c =? COLON) then map of_hex (split_on COLON rest) else []
  | _ => []
  end.
Fixpoint emit_items (l : list bytes) : bytes :=
  match l with
  | [] => []
  | x :: t => COLON :: to_hex x ++ emit_items t
  end.
Definition emit_list (l : list bytes) : bytes := CH_L :: emit_items l.
Definition parse_num (f : bytes) : N := match parse_dec f with Some n => n | None => 0 end.
Definition parse_bool (f : bytes) : bool := negb (parse_num f =? 0).
Definition emit_bool (b : bool) : bytes := if b then [49] else [48].
Definition nthf (n : nat) (fs : list bytes) : bytes := nth n fs [].

(* split at the first separator *)
Fixpoint split1 (sep : N) (s : bytes) : bytes * bytes :=
  match s with
  | [] => ([], [])
  | x :: t => if x =? sep then ([], t) else let '(a, b) := split1 sep t in (x :: a, b)
  end.

Definition parse_optpath (a : bytes) : option bytes := if beqb a [DASH] then None else Some (of_hex a).

Definition named (name : bytes) (n : String.string) : bool := beqb name (bs n).
Arguments named name n%string.

Definition parse_opt (item : bytes) : option opt :=
  let '(name, arg) := split1 EQ item in
  let args := split_on SLASH arg in
  let a0 := nthf 0 args in
  let a1 := nthf 1 args in
  if named name "WithAuthUsername" then Some (WithAuthUsername (of_hex a0))
  else if named name "WithAuthPassword" then Some (WithAuthPassword (of_hex a0))
  else if named name "WithAuthSecondary" then Some (WithAuthSecondary (of_hex a0))
  else if named name "WithAuthPassphrase" then Some (WithAuthPassphrase (of_hex a0))
  else if named name "WithAuthBypass" then Some WithAuthBypass
  else if named name "WithPromptSearchDepth" then Some (WithPromptSearchDepth (parse_num a0))
  else if named name "WithPromptPattern" then Some (WithPromptPattern (of_hex a0))
  else if named name "WithUsernamePattern" then Some (WithUsernamePattern (of_hex a0))
  else if named name "WithPasswordPattern" then Some (WithPasswordPattern (of_hex a0))
  else if named name "WithPassphrasePattern" then Some (WithPassphrasePattern (of_hex a0))
  else if named name "WithReturnChar" then Some (WithReturnChar (of_hex a0))
  else if named name "WithTimeoutOps" then Some (WithTimeoutOps (parse_num a0))
  else if named name "WithReadDelay" then Some (WithReadDelay (parse_num a0))
  else if named name "WithChannelLog" then Some (WithChannelLog (parse_num a0))
  else if named name "WithTransportType" then Some (WithTransportType (of_hex a0))
  else if named name "WithFailedWhenContains" then Some (WithFailedWhenContains (parse_list a0))
  else if named name "WithOnOpen" then Some (WithOnOpen (parse_num a0))
  else if named name "WithOnClose" then Some (WithOnClose (parse_num a0))
  else if named name "WithLogger" then Some (WithLogger (parse_num a0))
  else if named name "WithDefaultLogger" then Some WithDefaultLogger
  else if named name "WithNetconfPreferredVersion" then Some (WithNetconfPreferredVersion (of_hex a0))
  else if named name "WithNetconfForceSelfClosingTags" then Some WithNetconfForceSelfClosingTags
  else if named name "WithNetconfExcludeHeader" then Some WithNetconfExcludeHeader
  else if named name "WithNetworkOnOpen" then Some (WithNetworkOnOpen (parse_num a0))
  else if named name "WithNetworkOnClose" then Some (WithNetworkOnClose (parse_num a0))
  else if named name "WithPrivilegeLevels" then Some (WithPrivilegeLevels (parse_list a0))
  else if named name "WithDefaultDesiredPriv" then Some (WithDefaultDesiredPriv (of_hex a0))
  else if named name "WithCustomTransport" then Some (WithCustomTransport (parse_num a0))
  else if named name "WithTransportReadSize" then Some (WithTransportReadSize (parse_num a0))
  else if named name "WithPort" then Some (WithPort (parse_num a0))
  else if named name "WithTermHeight" then Some (WithTermHeight (parse_num a0))
  else if named name "WithTermWidth" then Some (WithTermWidth (parse_num a0))
  else if named name "WithTimeoutSocket" then Some (WithTimeoutSocket (parse_num a0))
  else if named name "WithFileTransportFile" then Some (WithFileTransportFile (of_hex a0))
  else if named name "WithAuthPrivateKey" then Some (WithAuthPrivateKey (of_hex a0) (of_hex a1))
  else if named name "WithAuthNoStrictKey" then Some WithAuthNoStrictKey
  else if named name "WithSSHConfigFile" then Some (WithSSHConfigFile (of_hex a0) (parse_bool a1))
  else if named name "WithSSHConfigFileSystem" then Some (WithSSHConfigFileSystem (parse_optpath a0))
  else if named name "WithSSHKnownHostsFile" then Some (WithSSHKnownHostsFile (of_hex a0) (parse_bool a1))
  else if named name "WithSSHKnownHostsFileSystem" then Some (WithSSHKnownHostsFileSystem (parse_optpath a0))
  else if named name "WithStandardTransportExtraCiphers" then Some (WithStandardTransportExtraCiphers (parse_list a0))
  else if named name "WithStandardTransportExtraKexs" then Some (WithStandardTransportExtraKexs (parse_list a0))
  else if named name "WithSystemTransportOpenBin" then Some (WithSystemTransportOpenBin (of_hex a0))
  else if named name "WithSystemTransportOpenArgs" then Some (WithSystemTransportOpenArgs (parse_list a0))
  else if named name "WithSystemTransportOpenArgsOverride" then Some (WithSystemTransportOpenArgsOverride (parse_list a0))
  else None.

Fixpoint sequence {A} (l : list (option A)) : option (list A) :=
  match l with
  | [] => Some []
  | None :: _ => None
  | Some x :: t => match sequence t with Some r => Some (x :: r) | None => None end
  end.

Definition items (f : bytes) : list bytes := if beqb f [DASH] then [] else split_on COMMA f.

Definition parse_opts (f : bytes) : option (list opt) := sequence (map parse_opt (items f)).

Definition parse_yopt (item : bytes) : bytes * yval :=
  let '(name, kv) := split1 EQ item in
  match kv with
  | 105 :: v => (name, YInt (parse_num v))          (* i *)
  | 102 :: v => (name, YFloat4 (parse_num v))       (* f *)
  | 115 :: v => (name, YStr (of_hex v))             (* s *)
  | 98 :: v => (name, YBool (parse_bool v))         (* b *)
  | 113 :: v => (name, YSeq (parse_list v))         (* q *)
  | 109 :: _ => (name, YSeqOther)                   (* m *)
  | _ => (name, YNull)
  end.

Definition parse_pdef (k : ctor_kind) (f : bytes) (yopts : bytes) : pdef :=
  let ps := split_on SEMI f in
  mkPdef k (parse_list (nthf 0 ps)) (parse_bool (nthf 1 ps)) (parse_bool (nthf 2 ps))
         (parse_list (nthf 3 ps)) (of_hex (nthf 4 ps)) (parse_bool (nthf 5 ps))
         (parse_bool (nthf 6 ps)) (map parse_yopt (items yopts)).

Definition emit_value (v : value) : bytes :=
  match v with
  | VN n => print_dec n | VB b => emit_bool b | VS s => to_hex s | VL l => emit_list l
  end.

Definition dump_field (c : ctx) (s : settings) (f : field) : bytes :=
  field_name f ++ [EQ] ++ (if visible c f then emit_value (get f s) else [DASH]).

Definition dump (c : ctx) (s : settings) : list bytes := bs "ok" :: map (dump_field c s) all_fields.

Definition show (c : ctx) (r : result settings) : list bytes :=
  match r with
  | Ok s => dump c s
  | BadOption => [bs "badoption"]
  | FileNotFound => [bs "notfound"]
  | Panic => [bs "panic"]
  end.

Definition parse_kind (f : bytes) : ctor_kind :=
  if beqb f (bs "n") then Network else if beqb f (bs "c") then Netconf else Generic.

Definition run_c19 (fs : list bytes) : list bytes :=
  let k := parse_kind (nthf 1 fs) in
  if beqb (nthf 2 fs) (bs "d") then
    match parse_opts (nthf 3 fs) with
    | None => [bs "bad-input"]
    | Some opts => show (ctx_of k opts) (build k opts)
    end
  else
    match parse_opts (nthf 5 fs) with
    | None => [bs "bad-input"]
    | Some user =>
        let p := parse_pdef k (nthf 3 fs) (nthf 4 fs) in
        match platform_opts p with
        | Ok po => show (ctx_of k (po ++ user)) (build k (po ++ user))
        | Err _ => [bs "bad-input"]
        | Panic => [bs "panic"]
        end
    end.
