(* Replay.v — drives the [Channel.run] interpreter with the event log recorded from the real
   library by the harness transport: every transport read (its size), every write (bytes handed to
   the transport and what the device emitted in reaction), API-call boundaries, and where a
   deadline / end-of-stream / transport error was observed.  The log is nothing but a schedule;
   the model must reproduce the same writes (else "desync") and the same results. *)
From Scrapli Require Import Bytes Regex PlatformTypes Generated Channel.
Open Scope N_scope.

Inductive lev :=
| LR (n : nat)                  (* a transport read returned n bytes *)
| LW (w emitted : bytes)        (* Channel.Write handed w to the transport; device emitted *)
| LCall                         (* the next API call starts *)
| LDeadline                     (* the call in flight returned a timeout *)
| LEof | LIoerr                 (* transport reported EOF / error to the reader *)
| LInject (b : bytes).          (* the device printed b unasked (log message, redrawn prompt) *)

(* replay device: the logged writes still expected; a mismatch raises the desync flag *)
Definition rdev := (list (bytes * bytes) * bool)%type.
Definition rfeed (d : rdev) (b : bytes) : rdev * bytes :=
  match fst d with
  | (w, e) :: t => if beqb w b then ((t, snd d), e) else ((t, true), [])
  | [] => (([], true), [])
  end.

Definition rsys := @sys rdev bytes.

Definition can_op (s : rsys) : bool :=
  match s_pc s with
  | Write _ _ _ => true
  | Requeue _ _ => true
  | Until _ _ _ => match s_reader s with RRun => negb (match s_queue s with [] => true | _ => false end) | _ => true end
  | _ => false
  end.

(* run operation steps until one Write has been performed (or nothing more can happen) *)
Fixpoint ops_until_write (cfg : chan_cfg) (fuel : nat) (s : rsys) : rsys :=
  match fuel with
  | O => s
  | S f =>
      match s_pc s with
      | Write _ _ _ => step rfeed cfg s Op
      | _ => if can_op s then ops_until_write cfg f (step rfeed cfg s Op) else s
      end
  end.

(* let the operation consume what is queued — but never perform a Write: writes happen exactly
   where the log says the implementation wrote *)
Definition can_consume (s : rsys) : bool :=
  match s_pc s with Write _ _ _ => false | _ => can_op s end.

Fixpoint drain (cfg : chan_cfg) (fuel : nat) (s : rsys) : rsys :=
  match fuel with
  | O => s
  | S f => if can_consume s then drain cfg f (step rfeed cfg s Op) else s
  end.

Definition fuel_of (s : rsys) : nat := (length (s_queue s) + 64)%nat.

Inductive call_out := COk (r : bytes) | CErr (e : err) | CUnfinished.

Definition out_of (s : rsys) : call_out :=
  match s_pc s with Ret r => COk r | Fail e => CErr e | _ => CUnfinished end.

Definition load (s : rsys) (p : prog bytes) : rsys :=
  set_pc (mkSys (s_dev s) (s_pending s) (s_queue s) [] p (s_wlog s) (s_notes s) (s_reader s)) p.

Definition finished_pc (s : rsys) : bool :=
  match s_pc s with Ret _ | Fail _ => true | _ => false end.

(* replay state: system, calls not yet started, outcomes so far (newest first), call in flight? *)
(* a call may depend on the notes logged so far (state the driver keeps between calls, such as the
   cached privilege level, is recovered from them) *)
Definition call := list (N * bytes) -> prog bytes.
Record rst := mkRst { r_sys : rsys; r_calls : list call; r_outs : list call_out; r_inflight : bool }.

(* close the call in flight (if finished) and start the next one *)
Definition next_call (st : rst) : option rst :=
  match r_calls st with
  | p :: calls' =>
      Some (mkRst (load (r_sys st) (p (s_notes (r_sys st)))) calls'
                  (if r_inflight st then out_of (r_sys st) :: r_outs st else r_outs st) true)
  | [] => None
  end.

(* the implementation performed a Write: advance the model until it has performed one too —
   consuming queued chunks, and moving on to the next API call when the current one is finished *)
Fixpoint advance_to_write (cfg : chan_cfg) (fuel : nat) (st : rst) : rst :=
  match fuel with
  | O => st
  | S f =>
      let s := r_sys st in
      if negb (r_inflight st) || finished_pc s then
        match next_call st with
        | Some st' => advance_to_write cfg f st'
        | None => (* a write with no call left: let the replay device flag it *)
            mkRst (step rfeed cfg (load s (Write [] false (Ret []))) Op) [] (r_outs st) (r_inflight st)
        end
      else
        match s_pc s with
        | Write _ _ _ => mkRst (step rfeed cfg s Op) (r_calls st) (r_outs st) true
        | _ => if can_op s then advance_to_write cfg f (mkRst (step rfeed cfg s Op) (r_calls st) (r_outs st) true)
               else st
        end
  end.

Definition with_sys (st : rst) (s : rsys) : rst := mkRst s (r_calls st) (r_outs st) (r_inflight st).

Fixpoint replay_gen (final : bool) (cfg : chan_cfg) (log : list lev) (st : rst) : rst :=
  match log with
  | [] =>
      if final then
        let s' := drain cfg (fuel_of (r_sys st)) (r_sys st) in
        mkRst s' (r_calls st) (if r_inflight st then out_of s' :: r_outs st else r_outs st) false
      else st
  | e :: rest =>
      let s := r_sys st in
      match e with
      | LR n => replay_gen final cfg rest (with_sys st (step rfeed cfg s (Rd n)))
      | LW _ _ => replay_gen final cfg rest (advance_to_write cfg (fuel_of s + 8 * length (r_calls st)) st)
      | LDeadline =>
          let s1 := drain cfg (fuel_of s) s in
          replay_gen final cfg rest (with_sys st (step rfeed cfg s1 Deadline))
      | LEof => replay_gen final cfg rest (with_sys st (step rfeed cfg s Eof))
      | LIoerr => replay_gen final cfg rest (with_sys st (step rfeed cfg s Ioerr))
      | LInject b =>
          replay_gen final cfg rest
            (with_sys st (mkSys (s_dev s) (s_pending s ++ b) (s_queue s) (s_acc s) (s_pc s) (s_wlog s) (s_notes s) (s_reader s)))
      | LCall =>
          let s1 := if r_inflight st then drain cfg (fuel_of s) s else s in
          match next_call (with_sys st s1) with
          | Some st' => replay_gen final cfg rest st'
          | None => with_sys st s1
          end
      end
  end.

Definition replay := replay_gen true.
(* a prefix of the log, without closing the call in flight; optionally letting the operation
   consume everything that is queued at the end *)
Definition replay_open (cfg : chan_cfg) (pre : list lev) (st : rst) (drain_first : bool) : rst :=
  let st1 := replay_gen false cfg pre st in
  if drain_first then with_sys st1 (drain cfg (fuel_of (r_sys st1)) (r_sys st1)) else st1.

(* Connection loss races with the operation: when the reader reports EOF / an error, the operation
   may or may not already have consumed the chunks queued before it (Channel.Read tests the
   error hand-off and the exited flag BEFORE the queue).  Both orders are legal executions; the
   replay therefore yields both outcomes for the FIRST loss event of a log: (a) the operation
   drained the queue first, (b) it had not. *)
Fixpoint split_at_loss (log : list lev) (acc : list lev) : option (list lev * lev * list lev) :=
  match log with
  | [] => None
  | LEof :: t => Some (rev acc, LEof, t)
  | LIoerr :: t => Some (rev acc, LIoerr, t)
  | e :: t => split_at_loss t (e :: acc)
  end.

(* branch at every loss event (up to [depth] of them; later ones are applied as logged) *)
Fixpoint replay_alts_n (depth : nat) (cfg : chan_cfg) (log : list lev) (st : rst) : list rst :=
  match depth with
  | O => [replay cfg log st]
  | S d =>
      match split_at_loss log [] with
      | None => [replay cfg log st]
      | Some (pre, loss, post) =>
          flat_map (fun drain_first =>
                      let st1 := replay_open cfg pre st drain_first in
                      let st2 := with_sys st1 (step rfeed cfg (r_sys st1) (match loss with LEof => Eof | _ => Ioerr end)) in
                      replay_alts_n d cfg post st2)
                   [true; false]
      end
  end.

Definition replay_alts (cfg : chan_cfg) (log : list lev) (st : rst) : list rst := replay_alts_n 4 cfg log st.

Fixpoint logged_writes (log : list lev) : list (bytes * bytes) :=
  match log with
  | [] => []
  | LW w e :: t => (w, e) :: logged_writes t
  | _ :: t => logged_writes t
  end.

Definition replay_session (cfg : chan_cfg) (start : bytes) (log : list lev) (calls : list call)
  : rsys * list call_out :=
  let s0 : rsys := mkSys (logged_writes log, false) start [] [] (Ret []) [] [] RRun in
  let st := replay cfg log (mkRst s0 calls [] false) in
  (r_sys st, rev (r_outs st)).

Definition replay_session_alts (cfg : chan_cfg) (start : bytes) (log : list lev) (calls : list call)
  : list (rsys * list call_out) :=
  let s0 : rsys := mkSys (logged_writes log, false) start [] [] (Ret []) [] [] RRun in
  map (fun st => (r_sys st, rev (r_outs st))) (replay_alts cfg log (mkRst s0 calls [] false)).

Definition desynced (s : rsys) : bool :=
  snd (s_dev s) || negb (match fst (s_dev s) with [] => true | _ => false end).
