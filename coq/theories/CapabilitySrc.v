(* CapabilitySrc.v — netconf Driver.ServerHasCapability as translated from the source is exact
   membership in the server's capability list (C09). *)
From Scrapli Require Import Bytes Regex PlatformTypes Generated Netconf DecideLang DecideLemmas GeneratedSkel.
From Coq Require Import String List Bool NArith Arith Lia.
Import ListNotations.
Open Scope nat_scope.
Open Scope string_scope.

(* ---------- Driver.ServerHasCapability (C09): exact membership ---------- *)

Definition shc_env (s : bytes) (caps : list bytes) : denv :=
  mkEnvX (fun _ => false) (fun _ _ => false) (fun _ => "") (fun _ => None)
         (fun st a b => if String.eqb a "serverCapability" && String.eqb b "s" then
                          match sget st "serverCapability" with
                          | Some u => match nth_error caps (String.length u) with
                                      | Some c => Some (Some (beqb c s))
                                      | None => Some None
                                      end
                          | None => Some None
                          end
                        else None)
         (fun x => if String.eqb x "d.serverCapabilities" then List.length caps else O)
         (fun _ _ => None).

Definition shc_run (s : bytes) (caps : list bytes) : option bool :=
  match DecideLang.exec 10 (shc_env s caps) server_has_capability_code [] with
  | Returned _ "true" => Some true
  | Returned _ "false" => Some false
  | _ => None
  end.

Definition shc_body : list dstmt := [DIf (DEq "serverCapability" "s") [DReturn "true"] []].

Lemma shc_loop : forall s rest pre st,
  if existsb (fun c => beqb c s) rest
  then exists st', range_loop (DecideLang.exec 9 (shc_env s (pre ++ rest)) shc_body) "serverCapability" (List.length rest) (List.length pre) st
                   = Returned st' "true"
  else exists st', range_loop (DecideLang.exec 9 (shc_env s (pre ++ rest)) shc_body) "serverCapability" (List.length rest) (List.length pre) st
                   = Running st'.
Proof.
  intros s rest. induction rest as [|c t IH]; intros pre st.
  - cbn [existsb List.length range_loop]. eexists; reflexivity.
  - cbn [existsb List.length range_loop].
    assert (Hb : DecideLang.exec 9 (shc_env s (pre ++ c :: t)) shc_body (("serverCapability", unary (List.length pre)) :: st)%list
                 = if beqb c s then Returned (("serverCapability", unary (List.length pre)) :: st)%list "true"
                   else Running (("serverCapability", unary (List.length pre)) :: st)%list).
    { unfold shc_body. cbn [DecideLang.exec eval shc_env e_eqs e_eq String.eqb Ascii.eqb Bool.eqb andb sget fst snd].
      rewrite unary_length, nth_error_app2, Nat.sub_diag by lia. cbn [nth_error].
      destruct (beqb c s); reflexivity. }
    rewrite Hb. destruct (beqb c s); cbn [orb].
    + eexists; reflexivity.
    + specialize (IH (pre ++ [c])%list (("serverCapability", unary (List.length pre)) :: st)%list).
      rewrite <- app_assoc, app_length in IH. cbn [app List.length] in IH. rewrite Nat.add_1_r in IH. exact IH.
Qed.

(* THE TIE: the capability test determineVersion relies on is exact membership in the server's list *)
Theorem server_has_capability_is_source : forall s caps,
  shc_run s caps = Some (existsb (fun c => beqb c s) caps).
Proof.
  intros s caps. unfold shc_run, server_has_capability_code. fold shc_body.
  rewrite exec_step_range.
  replace (e_len (shc_env s caps) "d.serverCapabilities") with (List.length caps) by reflexivity.
  pose proof (shc_loop s caps []%list []%list) as HL. cbn [app List.length] in HL.
  destruct (existsb (fun c => beqb c s) caps).
  - destruct HL as [st' ->]. reflexivity.
  - destruct HL as [st' ->]. cbn [cont]. rewrite exec_step_return. reflexivity.
Qed.
