(* PrivGraphSrc.v — driver/network/privilege.go buildPrivGraph, buildJoinedPromptPattern and
   UpdatePrivileges as the source has them on this run (C04, C17): the whole trace of a run over two
   levels is compared with the model's construction (Network.neighbours; the levels' compiled
   patterns are what determineCurrentPriv matches with):

     * for EVERY level, every time: its pattern is compiled from the CURRENT pattern text (so a
       second UpdatePrivileges after the patterns changed goes by the new ones), it gets a node, and
       an edge to its previous level exactly when it names one — nothing else decides an edge;
     * then every edge is mirrored (the graph is undirected);
     * the joined prompt pattern is compiled from the current pattern texts of all levels, joined by `|`;
     * UpdatePrivileges is the two, in that order. *)
From Scrapli Require Import DecideLang GeneratedSkel.
From Coq Require Import String List Bool.
Import ListNotations.
Open Scope string_scope.

(* p0, p1: level 0 / level 1 names no previous level *)
Definition pg_env (p0 p1 : bool) : denv :=
  mkEnvX (fun _ => false) (fun _ _ => false) (fun _ => "") (fun _ => None)
         (fun s a b => if String.eqb a "privLevel.PreviousPriv" && String.eqb b """"""
                       then Some (Some (match sget s "privLevel" with
                                        | Some i => if String.eqb i (unary 0) then p0 else p1
                                        | None => true end)) else None)
         (fun l => if String.eqb l "d.PrivilegeLevels" then 2 else if String.eqb l "d.privGraph" then 2
                   else if String.eqb l "keys of privLevelList" then 1 else 0)
         (fun _ _ => None).

Fixpoint trace_eqb (a b : list (string * string)) : bool :=
  match a, b with
  | [], [] => true
  | (k, v) :: a', (k', v') :: b' => String.eqb k k' && String.eqb v v' && trace_eqb a' b'
  | _, _ => false
  end.

Definition level_round (i : nat) (no_prev : bool) : list (string * string) :=
  app [("privLevel", unary i); ("privLevel.patternRe", "regexp.MustCompile(privLevel.Pattern)");
       ("d.privGraph[privLevel.Name]", "map[string]bool{}")]
      (if no_prev then [] else [("d.privGraph[privLevel.Name][privLevel.PreviousPriv]", "true")]).

Definition mirror_round (i : nat) : list (string * string) :=
  [("privLevelList", unary i); ("higherPrivLevel", "index of privLevelList"); ("privLevel", unary 0);
   ("d.privGraph[privLevel][higherPrivLevel]", "true")].

Definition pg_spec (p0 p1 : bool) : list (string * string) :=
  app [("d.privGraph", "map[string]map[string]bool{}")]
      (app (level_round 0 p0) (app (level_round 1 p1) (app (mirror_round 0) (mirror_round 1)))).

Definition pg_run_ok (p0 p1 : bool) : bool :=
  match DecideLang.exec 40 (pg_env p0 p1) build_priv_graph_code [] with
  | Running st => trace_eqb (rev st) (pg_spec p0 p1)
  | _ => false
  end.

Definition joined_ok : bool :=
  match DecideLang.exec 40 (pg_env true true) build_joined_code [] with
  | Running st =>
      trace_eqb (rev st)
        [("patterns", "make([]string, 0)"); ("priv", unary 0); ("patterns", "append(patterns, priv.Pattern)");
         ("priv", unary 1); ("patterns", "append(patterns, priv.Pattern)");
         ("joinedPattern", "strings.Join(patterns, ""|"")");
         ("d.Driver.Channel.PromptPattern", "regexp.MustCompile(joinedPattern)")]
  | _ => false
  end.

Definition update_ok : bool :=
  match update_privileges_code with
  | [DCall a; DCall b] => String.eqb a "d.buildPrivGraph()" && String.eqb b "d.buildJoinedPromptPattern()"
  | _ => false
  end.

Definition priv_graph_src_ok : bool :=
  pg_run_ok false false && pg_run_ok false true && pg_run_ok true false && pg_run_ok true true
  && joined_ok && update_ok
  && tests_known build_priv_graph_code ["privLevel.PreviousPriv == """""] && tests_known build_joined_code [].

Theorem priv_graph_is_source : priv_graph_src_ok = true.
Proof. vm_compute. reflexivity. Qed.
Print Assumptions priv_graph_is_source.
