(* DecideDV.v — netconf Driver.determineVersion as translated from the source = Netconf.determine_version (C09).
   (One file per translated function: a change to one function must not break the ties of the others.) *)
From Scrapli Require Import Bytes Regex PlatformTypes Generated Channel Netconf DecideLang GeneratedSkel.
From Coq Require Import String List Bool ZArith NArith.
Import ListNotations.
Open Scope string_scope.

(* ---------- determineVersion ---------- *)

Definition pref_name (p : pref) : string :=
  match p with PrefNone => "" | Pref10 => "V1Dot0" | Pref11 => "V1Dot1" | PrefOther => "2.0" end.

Definition dv_env (has10 has11 : bool) (p : pref) : denv :=
  mkEnv (fun c => if String.eqb c "v1Dot1Cap" then has11 else if String.eqb c "v1Dot0Cap" then has10 else false)
        (fun _ _ => false)
        (fun f => if String.eqb f "d.PreferredVersion" then pref_name p else "")
        (fun _ => None) (fun _ _ _ => None).

(* what a run of the translated code leaves behind: error, or (selected version, delimiter set) *)
Inductive dv_out := DvErr | DvOk (selected : string) (delimiter : option string) | DvStuck.

Definition dv_run (has10 has11 : bool) (p : pref) : dv_out :=
  match exec 50 (dv_env has10 has11 p) determine_version_code [] with
  | Returned s v =>
      if String.eqb v "nil"
      then match sget s "d.SelectedVersion" with
           | Some sel => DvOk sel (sget s "d.Channel.PromptPattern")
           | None => DvStuck
           end
      else if String.eqb v "error" then DvErr else DvStuck
  | _ => DvStuck
  end.

Definition dv_spec (caps : list bytes) (p : pref) : dv_out :=
  match determine_version caps p with
  | None => DvErr
  | Some V10 => DvOk "V1Dot0" (Some "ncPatterns.v1Dot0Delim")
  | Some V11 => DvOk "V1Dot1" (Some "ncPatterns.v1Dot1Delim")
  end.

(* the model looks at the capability list only through the two membership tests *)
Lemma determine_version_tests : forall caps p,
  determine_version caps p =
  (let has11 := has_cap ncd_v1dot1_cap caps in
   let has10 := has_cap ncd_v1dot0_cap caps in
   match (if has11 then Some V11 else if has10 then Some V10 else None) with
   | None => None
   | Some sel => match p with
                 | Pref10 => if has10 then Some V10 else None
                 | Pref11 => if has11 then Some V11 else None
                 | _ => Some sel
                 end
   end).
Proof. reflexivity. Qed.

(* THE TIE: for every capability list and every preference, the source's determineVersion (as
   translated on this run) selects what the model selects, fails when the model fails, and leaves
   the channel's prompt pattern on the delimiter of the selected version *)
Theorem determine_version_is_source : forall caps p,
  dv_run (has_cap ncd_v1dot0_cap caps) (has_cap ncd_v1dot1_cap caps) p = dv_spec caps p.
Proof.
  intros caps p. unfold dv_spec. rewrite determine_version_tests. cbv zeta.
  destruct (has_cap ncd_v1dot0_cap caps), (has_cap ncd_v1dot1_cap caps), p; vm_compute; reflexivity.
Qed.

(* every test the translated code makes is one the environment above was written for (an unknown
   equality would otherwise evaluate to false without notice) *)
Definition determine_version_known : list string := "switch d.PreferredVersion" :: "has v1Dot0Cap" :: "has v1Dot1Cap" :: "switch d.SelectedVersion" :: nil.
Lemma determine_version_tests_known : tests_known determine_version_code determine_version_known = true.
Proof. vm_compute. reflexivity. Qed.
