(* RecordSrc.v — response/netconf.go record1dot1Chunks, as translated from the source
   (GeneratedSkel.record_chunks_code), given its ARITHMETIC meaning and proved equal to the cursor
   model Netconf.record11_go for every input.

   The other translation ties interpret the translated code against an oracle environment; the chunk
   parser is index arithmetic over a byte slice, so here every test text and every statement text of
   the translated function is resolved to a typed primitive ([catom], [cact]) with a one-line
   denotation over the parser's variables (d, cursor, joined, terminated, chunkSizeStr,
   chunkSizeLen, chunkSize, err), an index or slice expression out of range denoting a panic.  A text
   the table does not know resolves to nothing, so no theorem can hold by ignoring a statement.
   What is trusted: the translator and the denotation table below (one line per Go expression). *)
From Coq Require Import Ascii String List Bool NArith ZArith Lia.
From Scrapli Require Import Bytes Generated Netconf DecideLang GeneratedSkel.
Import ListNotations.

(* ---------------------------------------------------------------------------------------------- *)
(* the parser's variables *)
Record cst := mkC { s_raw : bytes; s_d : bytes; s_cur : nat; s_joined : bytes; s_term : bool;
                    s_str : bytes; s_len : nat; s_size : Z; s_err : bool; s_result : bytes }.

Definition init_st (raw : bytes) : cst := mkC raw [] 0 [] false [] 0 0%Z false [].

Inductive catom :=
| LenZero      (* len(d) == 0 *)
| D0Hash       (* d[0] == byte('#') *)
| CurLt        (* cursor < len(d) *)
| CurNl        (* d[cursor] == byte('\n') *)
| CurHash      (* d[cursor] == byte('#') *)
| CurGe        (* cursor >= len(d) *)
| LenLeMax     (* chunkSizeLen <= maxChunkSizeCharLen *)
| CurLenLt     (* cursor+chunkSizeLen < len(d) *)
| CurLenNl     (* d[cursor+chunkSizeLen] == byte('\n') *)
| StrEmpty     (* chunkSizeStr == "" *)
| ErrNil       (* err == nil *)
| SizeNeg      (* chunkSize < 0 *)
| SizeGt       (* chunkSize > len(d)-cursor *)
| Term.        (* terminated *)

Inductive cact :=
| ATrim | ATermSet (b : bool) | ACurInc | ALenZero | AStrZero | AStrSlice | ACurAddLen1 | ALenInc
| AAtoi | AAppend | ACurAddSize | ATrimHeader | AResult.

(* Some (Some b): the value; Some None does not occur; None: a run-time panic (index out of range) *)
Definition byte_is (d : bytes) (i : nat) (c : N) : option bool :=
  match nth_error d i with Some b => Some (N.eqb b c) | None => None end.

Definition atom_den (a : catom) (s : cst) : option bool :=
  match a with
  | LenZero => Some (Nat.eqb (List.length (s_d s)) 0)
  | D0Hash => byte_is (s_d s) 0 35
  | CurLt => Some (Nat.ltb (s_cur s) (List.length (s_d s)))
  | CurNl => byte_is (s_d s) (s_cur s) 10
  | CurHash => byte_is (s_d s) (s_cur s) 35
  | CurGe => Some (Nat.leb (List.length (s_d s)) (s_cur s))
  | LenLeMax => Some (Nat.leb (s_len s) nc_max_chunk_size_char_len)
  | CurLenLt => Some (Nat.ltb (s_cur s + s_len s) (List.length (s_d s)))
  | CurLenNl => byte_is (s_d s) (s_cur s + s_len s) 10
  | StrEmpty => Some (match s_str s with [] => true | _ => false end)
  | ErrNil => Some (negb (s_err s))
  | SizeNeg => Some (s_size s <? 0)%Z
  | SizeGt => Some (Z.of_nat (List.length (s_d s)) - Z.of_nat (s_cur s) <? s_size s)%Z
  | Term => Some (s_term s)
  end.

Definition upd_d s v := mkC (s_raw s) v (s_cur s) (s_joined s) (s_term s) (s_str s) (s_len s) (s_size s) (s_err s) (s_result s).
Definition upd_cur s v := mkC (s_raw s) (s_d s) v (s_joined s) (s_term s) (s_str s) (s_len s) (s_size s) (s_err s) (s_result s).
Definition upd_joined s v := mkC (s_raw s) (s_d s) (s_cur s) v (s_term s) (s_str s) (s_len s) (s_size s) (s_err s) (s_result s).
Definition upd_term s v := mkC (s_raw s) (s_d s) (s_cur s) (s_joined s) v (s_str s) (s_len s) (s_size s) (s_err s) (s_result s).
Definition upd_str s v := mkC (s_raw s) (s_d s) (s_cur s) (s_joined s) (s_term s) v (s_len s) (s_size s) (s_err s) (s_result s).
Definition upd_len s v := mkC (s_raw s) (s_d s) (s_cur s) (s_joined s) (s_term s) (s_str s) v (s_size s) (s_err s) (s_result s).
Definition upd_atoi s z e := mkC (s_raw s) (s_d s) (s_cur s) (s_joined s) (s_term s) (s_str s) (s_len s) z e (s_result s).
Definition upd_result s v := mkC (s_raw s) (s_d s) (s_cur s) (s_joined s) (s_term s) (s_str s) (s_len s) (s_size s) (s_err s) v.

(* None: a run-time panic (slice bounds out of range) *)
Definition act_den (a : cact) (s : cst) : option cst :=
  match a with
  | ATrim => Some (upd_d s (go_trim_space (s_raw s)))
  | ATermSet b => Some (upd_term s b)
  | ACurInc => Some (upd_cur s (S (s_cur s)))
  | ALenZero => Some (upd_len s 0)
  | AStrZero => Some (upd_str s [])
  | AStrSlice =>                                   (* string(d[cursor : cursor+chunkSizeLen]) *)
      if Nat.ltb (List.length (s_d s)) (s_cur s + s_len s) then None
      else Some (upd_str s (firstn (s_len s) (skipn (s_cur s) (s_d s))))
  | ACurAddLen1 => Some (upd_cur s (s_cur s + s_len s + 1))
  | ALenInc => Some (upd_len s (S (s_len s)))
  | AAtoi => match go_atoi (s_str s) with
             | Some z => Some (upd_atoi s z false)
             | None => Some (upd_atoi s 0%Z true)
             end
  | AAppend =>                                     (* append(joined, d[cursor:cursor+chunkSize]...) *)
      if (s_size s <? 0)%Z then None
      else if Nat.ltb (List.length (s_d s)) (s_cur s + Z.to_nat (s_size s)) then None
      else Some (upd_joined s (app (s_joined s) (firstn (Z.to_nat (s_size s)) (skipn (s_cur s) (s_d s)))))
  | ACurAddSize => Some (upd_cur s (s_cur s + Z.to_nat (s_size s)))
  | ATrimHeader => Some (upd_joined s (trim_prefix nc_xml_header (s_joined s)))
  | AResult => Some (upd_result s (go_trim_space (s_joined s)))
  end.

(* ---------------------------------------------------------------------------------------------- *)
(* the typed program and its interpreter *)
Inductive cexpr := CA (a : catom) | CNot (e : cexpr) | CAnd (a b : cexpr) | COr (a b : cexpr).

Inductive cstmt :=
| SAct (a : cact)
| SIf (c : cexpr) (t e : list cstmt)
| SRet (code : option nat)
| SBreak | SContinue
| SLoop (body : list cstmt).

(* Go's && and || evaluate the right operand only when needed *)
Fixpoint cexpr_den (e : cexpr) (s : cst) : option bool :=
  match e with
  | CA a => atom_den a s
  | CNot e => option_map negb (cexpr_den e s)
  | CAnd a b => match cexpr_den a s with Some true => cexpr_den b s | r => r end
  | COr a b => match cexpr_den a s with Some false => cexpr_den b s | r => r end
  end.

Inductive cres := CRun (s : cst) | CRet (code : option nat) (s : cst) | CBrk (s : cst) | CCont (s : cst)
                | CPanic | CFuel.

(* [n]: the number of iterations any one loop may take before the run is abandoned ([CFuel]) *)
Section Run.
Variable n : nat.
Fixpoint cstep (c : cstmt) (s : cst) {struct c} : cres :=
  let crun := fix crun (l : list cstmt) (s : cst) {struct l} : cres :=
    match l with
    | [] => CRun s
    | c :: r => match cstep c s with CRun s' => crun r s' | x => x end
    end in
  match c with
  | SAct a => match act_den a s with Some s' => CRun s' | None => CPanic end
  | SIf c t e => match cexpr_den c s with
                 | None => CPanic
                 | Some true => crun t s
                 | Some false => crun e s
                 end
  | SRet code => CRet code s
  | SBreak => CBrk s
  | SContinue => CCont s
  | SLoop body =>
      (fix loop (k : nat) (s : cst) {struct k} : cres :=
         match k with
         | O => CFuel
         | S k' => match crun body s with
                   | CRun s' => loop k' s'
                   | CCont s' => loop k' s'
                   | CBrk s' => CRun s'
                   | x => x
                   end
         end) n s
  end.
End Run.

Definition crun (n : nat) : list cstmt -> cst -> cres :=
  fix crun (l : list cstmt) (s : cst) {struct l} : cres :=
    match l with
    | [] => CRun s
    | c :: r => match cstep n c s with CRun s' => crun r s' | x => x end
    end.

Definition cloop (n : nat) (body : list cstmt) : nat -> cst -> cres :=
  fix loop (k : nat) (s : cst) {struct k} : cres :=
    match k with
    | O => CFuel
    | S k' => match crun n body s with
              | CRun s' => loop k' s'
              | CCont s' => loop k' s'
              | CBrk s' => CRun s'
              | x => x
              end
    end.

(* ---------------------------------------------------------------------------------------------- *)
(* resolution of the translated texts *)
Open Scope string_scope.

Definition atom_of_eq (a b : string) : option catom :=
  if andb (String.eqb a "len(d)") (String.eqb b "0") then Some LenZero
  else if andb (String.eqb a "d[0]") (String.eqb b "byte('#')") then Some D0Hash
  else if andb (String.eqb a "d[cursor]") (String.eqb b "byte('\n')") then Some CurNl
  else if andb (String.eqb a "d[cursor]") (String.eqb b "byte('#')") then Some CurHash
  else if andb (String.eqb a "d[cursor+chunkSizeLen]") (String.eqb b "byte('\n')") then Some CurLenNl
  else if andb (String.eqb a "chunkSizeStr") (String.eqb b """""") then Some StrEmpty
  else if andb (String.eqb a "err") (String.eqb b "nil") then Some ErrNil
  else None.

Definition atom_of_text (a : string) : option catom :=
  if String.eqb a "cursor < len(d)" then Some CurLt
  else if String.eqb a "cursor >= len(d)" then Some CurGe
  else if String.eqb a "chunkSizeLen <= maxChunkSizeCharLen" then Some LenLeMax
  else if String.eqb a "cursor+chunkSizeLen < len(d)" then Some CurLenLt
  else if String.eqb a "chunkSize < 0" then Some SizeNeg
  else if String.eqb a "chunkSize > len(d)-cursor" then Some SizeGt
  else if String.eqb a "terminated" then Some Term
  else None.

Fixpoint resolve_expr (e : dexpr) : option cexpr :=
  match e with
  | DEq a b => option_map CA (atom_of_eq a b)
  | DAtom a => option_map CA (atom_of_text a)
  | DNot e => option_map CNot (resolve_expr e)
  | DAnd a b => match resolve_expr a, resolve_expr b with Some x, Some y => Some (CAnd x y) | _, _ => None end
  | DOr a b => match resolve_expr a, resolve_expr b with Some x, Some y => Some (COr x y) | _, _ => None end
  | DHas _ | DUnknown _ => None
  end.

Definition act_of_assign (l r : string) : option cact :=
  if andb (String.eqb l "d") (String.eqb r "bytes.TrimSpace(r.RawResult)") then Some ATrim
  else if andb (String.eqb l "terminated") (String.eqb r "false") then Some (ATermSet false)
  else if andb (String.eqb l "terminated") (String.eqb r "true") then Some (ATermSet true)
  else if andb (String.eqb l "chunkSizeLen") (String.eqb r "0") then Some ALenZero
  else if andb (String.eqb l "chunkSizeStr") (String.eqb r "zero string") then Some AStrZero
  else if andb (String.eqb l "chunkSizeStr") (String.eqb r "string(d[cursor : cursor+chunkSizeLen])") then Some AStrSlice
  else if andb (String.eqb l "joined") (String.eqb r "append(joined, d[cursor:cursor+chunkSize]...)") then Some AAppend
  else if andb (String.eqb l "joined") (String.eqb r "bytes.TrimPrefix(joined, []byte(xmlHeader))") then Some ATrimHeader
  else if andb (String.eqb l "r.Result") (String.eqb r "string(bytes.TrimSpace(joined))") then Some AResult
  else None.

Definition act_of_call (c : string) : option cact :=
  if String.eqb c "cursor++" then Some ACurInc
  else if String.eqb c "cursor += chunkSizeLen + 1" then Some ACurAddLen1
  else if String.eqb c "chunkSizeLen++" then Some ALenInc
  else if String.eqb c "strconv.Atoi(chunkSizeStr)" then Some AAtoi
  else if String.eqb c "cursor += chunkSize" then Some ACurAddSize
  else None.

(* the return sites, by the text of the error they build: the codes of Netconf.dec_result *)
Fixpoint has_sub (sub s : string) : bool :=
  if String.prefix sub s then true
  else match s with EmptyString => false | String _ t => has_sub sub t end.

Definition ret_code (v : string) : option (option nat) :=
  if String.eqb v "nil" then Some None
  else if negb (String.prefix "errNetconf1Dot1ParseError(" v) then None
  else if has_sub "no chunk marker at start of data" v then Some (Some E_NO_MARKER_START)
  else if has_sub "chunk marker missing, got" v then Some (Some E_MARKER_MISSING)
  else if has_sub "data ends after chunk marker" v then Some (Some E_TRUNCATED_AFTER_MARKER)
  else if has_sub "failed parsing chunk size" v then Some (Some E_CHUNK_SIZE)
  else if has_sub "unable to parse chunk size" v then Some (Some E_ATOI)
  else if has_sub "exceeds received data" v then Some (Some E_SIZE_RANGE)
  else if has_sub "end of chunks marker missing" v then Some (Some E_NO_TERMINATOR)
  else None.

Fixpoint resolve (f : nat) (l : list dstmt) : option (list cstmt) :=
  match f with
  | O => None
  | S f' =>
      match l with
      | [] => Some []
      | c :: r =>
          let one :=
            match c with
            | DAssign lhs rhs => option_map SAct (act_of_assign lhs rhs)
            | DCall src => option_map SAct (act_of_call src)
            | DIf c t e => match resolve_expr c, resolve f' t, resolve f' e with
                           | Some c', Some t', Some e' => Some (SIf c' t' e')
                           | _, _, _ => None
                           end
            | DReturn v => option_map SRet (ret_code v)
            | DBreak => Some SBreak
            | DContinue => Some SContinue
            | DRange v lst body =>
                if andb (String.eqb v "_") (String.eqb lst "while")
                then option_map SLoop (resolve f' body) else None
            | DSwitch _ _ | DOther _ => None
            end in
          match one, resolve f' r with
          | Some c', Some r' => Some (c' :: r')
          | _, _ => None
          end
      end
  end.

(* ---------------------------------------------------------------------------------------------- *)
(* what the source resolves to, spelled out (so that a change of the source shows here first) *)
Definition inner_body : list cstmt :=
  [SIf (CNot (CAnd (CA LenLeMax) (CA CurLenLt))) [SBreak] [];
   SIf (CA CurLenNl) [SAct AStrSlice; SAct ACurAddLen1; SBreak] [];
   SAct ALenInc].

Definition outer_body : list cstmt :=
  [SIf (CNot (CA CurLt)) [SBreak] [];
   SIf (CA CurNl) [SAct ACurInc; SContinue] [];
   SIf (CNot (CA CurHash)) [SRet (Some E_MARKER_MISSING)] [];
   SAct ACurInc;
   SIf (CA CurGe) [SRet (Some E_TRUNCATED_AFTER_MARKER)] [];
   SIf (CA CurHash) [SAct (ATermSet true); SBreak] [];
   SAct AStrZero;
   SAct ALenZero;
   SLoop inner_body;
   SIf (CA StrEmpty) [SRet (Some E_CHUNK_SIZE)] [];
   SAct AAtoi;
   SIf (CNot (CA ErrNil)) [SRet (Some E_ATOI)] [];
   SIf (COr (CA SizeNeg) (CA SizeGt)) [SRet (Some E_SIZE_RANGE)] [];
   SAct AAppend;
   SAct ACurAddSize].

Definition chunks_prog : list cstmt :=
  [SAct ATrim;
   SIf (COr (CA LenZero) (CNot (CA D0Hash))) [SRet (Some E_NO_MARKER_START)] [];
   SAct (ATermSet false);
   SLoop outer_body;
   SIf (CNot (CA Term)) [SRet (Some E_NO_TERMINATOR)] [];
   SAct ATrimHeader;
   SAct AResult;
   SRet None].

(* the result of a run, in the vocabulary of the model; None: the run did not end in a return *)
Definition res_of (r : cres) : option dec_result :=
  match r with
  | CRet None s => Some (DOk (s_result s))
  | CRet (Some e) _ => Some (DFail e)
  | CPanic => Some DPanic
  | CRun _ | CBrk _ | CCont _ | CFuel => None
  end.

(* the source, run on a reply: every loop may take as many iterations as the reply has bytes, and a few more *)
Definition record_chunks_src (raw : bytes) : option dec_result :=
  match resolve 40 record_chunks_code with
  | Some prog => res_of (crun (List.length raw + nc_max_chunk_size_char_len + 4) prog (init_st raw))
  | None => None
  end.

(* ---------------------------------------------------------------------------------------------- *)
(* the equations of the interpreter *)
Lemma crun_nil n s : crun n [] s = CRun s.  Proof. reflexivity. Qed.
Lemma crun_cons n c r s : crun n (c :: r) s = match cstep n c s with CRun s' => crun n r s' | x => x end.
Proof. reflexivity. Qed.
Lemma cstep_act n a s : cstep n (SAct a) s = match act_den a s with Some s' => CRun s' | None => CPanic end.
Proof. reflexivity. Qed.
Lemma cstep_if n c t e s : cstep n (SIf c t e) s =
  match cexpr_den c s with None => CPanic | Some true => crun n t s | Some false => crun n e s end.
Proof. reflexivity. Qed.
Lemma cstep_ret n code s : cstep n (SRet code) s = CRet code s.  Proof. reflexivity. Qed.
Lemma cstep_brk n s : cstep n SBreak s = CBrk s.  Proof. reflexivity. Qed.
Lemma cstep_cont n s : cstep n SContinue s = CCont s.  Proof. reflexivity. Qed.
Lemma cstep_loop n body s : cstep n (SLoop body) s = cloop n body n s.  Proof. reflexivity. Qed.
Lemma cloop_S n body k s : cloop n body (S k) s =
  match crun n body s with
  | CRun s' => cloop n body k s' | CCont s' => cloop n body k s' | CBrk s' => CRun s' | x => x end.
Proof. reflexivity. Qed.
