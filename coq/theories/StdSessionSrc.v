(* StdSessionSrc.v — transport/standard.go Standard.openSession as the source has it on this run
   (C14): every Open dials — ssh.Dial with the configuration openBase built (host-key callback and
   authentication methods) is the FIRST step and is unconditional — then the session, then its two
   pipes; the first step that fails ends the open with its error.  So no Open can succeed without a
   handshake under the configured policy. *)
From Scrapli Require Import DecideLang GeneratedSkel.
From Coq Require Import String List Bool Arith.
Import ListNotations.
Open Scope string_scope.

(* the k-th call (1-based) fails; 0: none does *)
Definition os_env (k : nat) : denv :=
  mkEnvX (fun _ => false) (fun _ _ => false) (fun _ => "") (fun _ => None)
         (fun s a b => if String.eqb a "err" && String.eqb b "nil"
                       then Some (Some (negb (Nat.eqb (List.length (calls_of s)) k))) else None)
         (fun _ => O) (fun _ _ => None).

Definition os_calls : list string :=
  ["ssh.Dial( tcp, fmt.Sprintf(""%s:%d"", a.Host, a.Port), cfg, )"; "t.client.NewSession()";
   "t.session.StdinPipe()"; "t.session.StdoutPipe()"].

Fixpoint strs_eqb (a b : list string) : bool :=
  match a, b with
  | [], [] => true
  | x :: a', y :: b' => String.eqb x y && strs_eqb a' b'
  | _, _ => false
  end.

Definition os_run_ok (k : nat) : bool :=
  match DecideLang.exec 20 (os_env k) std_open_session_code [] with
  | Returned st v =>
      if Nat.eqb k 0 then String.eqb v "nil" && strs_eqb (calls_of st) os_calls
      else String.eqb v "err" && strs_eqb (calls_of st) (firstn k os_calls)
  | _ => false
  end.

Definition open_session_ok : bool :=
  forallb os_run_ok [0; 1; 2; 3; 4] && tests_known std_open_session_code ["err == nil"].

Theorem open_session_is_source : open_session_ok = true.
Proof. vm_compute. reflexivity. Qed.
Print Assumptions open_session_is_source.
