(* CloseSkel.v — C07: the static tie between the shutdown-protocol model (Close.v) and the source.

   gen/skel.go re-extracts, on every run, the ordered list of synchronisation-relevant statements
   ("skeleton": select statements with their cases, channel sends / receives / closes, Once.Do,
   Lock / Unlock, go, defer, the calls into the other modelled functions, loops and control
   transfers) of every Go function that Close.v transcribes -> GeneratedSkel.sync_skeleton.

   Here the SAME tokens are computed from the instructions of the model's control-flow graphs:
   [instr_tok] renders an instruction (ISelect [(Snd CH_ERRS, _); (Rcv CH_DONE, _)] SBlock becomes
   "select[send c.Errs,recv c.done]"), and per Go function a list of items says which program
   point of which graph stands for the statement at each position ([At] / [Defer]); structure
   tokens and calls that the model inlines are literal ([Tok]).  [skeleton_matches] (by
   computation) states that the two lists are equal for every function, [skeleton_covers] that
   every labelled program point of every graph is accounted for by some item.

   So: removing a done-check, turning a select into a plain send, dropping a deferred Unlock,
   closing a channel without its Once, moving the close of `done` ... change the generated list
   and this file stops compiling — the proof obligation of C07 that ties model and code. *)
From Scrapli Require Import Bytes Conc Close GeneratedSkel.
From Coq Require Import List Arith Bool NArith String.
Import ListNotations.
Local Open Scope nat_scope.

Definition chan_name (c : chan) : bytes :=
  match c with
  | 0 => bs "c.done" | 1 => bs "c.exited" | 2 => bs "c.Errs" | 3 => bs "d.done"
  | 4 => bs "d.errs" | 5 => bs "done" | 6 => bs "ctx.Done()" | _ => bs "?"
  end.

Definition var_name (v : var) : bytes :=
  match v with
  | 0 => bs "t.implLock" | 1 => bs "c.doneOnce" | 2 => bs "c.exitedOnce" | 3 => bs "d.doneOnce"
  | 7 => bs "t.fd" | 8 => bs "t.fdLock" | _ => bs "?"
  end.

Definition chop_tok (o : chop) : bytes :=
  match o with Snd c => bs "send " ++ chan_name c | Rcv c => bs "recv " ++ chan_name c end.

(* the call a label stands for, for instructions that are opaque steps of the model
   (ISleep, IEnv, IAtomicWrite, IGo, the guarded read of the connection) *)
Definition label_call (l : label) : bytes :=
  match l with
  | L_read_enqueue => bs "call c.Q.Enqueue"
  | L_read_sleep | L_ncread_sleep => bs "call time.Sleep"
  | L_tread_impl_read => bs "call t.Impl.Read"
  | L_tclose_impl_close => bs "call t.Impl.Close"
  | L_chread_dequeue => bs "call c.Q.Dequeue"
  | L_nclose_channel_close => bs "call d.Channel.Close"
  | L_rpc_go_poller => bs "go{"
  | L_poll_get_message => bs "call d.getMessage"
  | L_sys_fd_close => bs "call t.setFd(nil).Close"
  | _ => bs "?"
  end.

(* statements whose Go form differs from the instruction that models them:
   `ctx.Err() != nil` holds exactly when ctx.Done() is closed (a non-blocking receive from it);
   `cancel()` closes ctx.Done() once *)
Definition label_override (l : label) : option bytes :=
  match l with
  | L_poll_ctx_err => Some (bs "call ctx.Err")
  | L_rpc_cancel => Some (bs "call cancel")
  | _ => None
  end.

Definition COMMA_B : bytes := [44%N].

Definition instr_tok (l : label) (i : instr) : bytes :=
  match label_override l with
  | Some t => t
  | None =>
    match i with
    | ISelect cases e =>
        bs "select[" ++
        join COMMA_B (map (fun c => chop_tok (fst c)) cases ++
                      match e with SBlock => [] | SDefault _ => [bs "default"] | STimer _ => [bs "timer"] end)
        ++ bs "]"
    | IClose c _ => bs "close " ++ chan_name c
    | IOnceClose o c _ => bs "once " ++ var_name o ++ bs " close " ++ chan_name c
    | IAtomic [([(m, 0)], [(m', 1)], _)] =>
        if Nat.eqb m m' then bs "lock " ++ var_name m else label_call l
    | IAtomic [([(m, 1)], [(m', 0)], _)] =>
        if Nat.eqb m m' then bs "unlock " ++ var_name m else label_call l
    | IPlainRead v _ => bs "load " ++ var_name v
    | IPlainWrite v _ _ => bs "store " ++ var_name v
    | _ => label_call l
    end
  end.

(* the graphs *)
Inductive graph := GReader | GCloser | GNcCloser | GConsumer | GNcReader | GRpc | GPoller
                 | GSysReader | GSysCloser.

Definition graph_code (g : graph) : code label :=
  match g with
  | GReader => reader_code TcEOF
  | GCloser => closer_code false
  | GNcCloser => closer_code true
  | GConsumer => consumer_code
  | GNcReader => ncreader_code
  | GRpc => rpc_code
  | GPoller => poller_code
  | GSysReader => system_reader_code TcEOF
  | GSysCloser => system_closer_code
  end.

Inductive item :=
| At (g : graph) (p : pc)      (* the statement modelled by the instruction at p *)
| Defer (g : graph) (p : pc)   (* the same, written as a defer statement in the source *)
| Tok (s : string).            (* structure, or a call the model inlines / leaves out *)

Definition pc_tok (g : graph) (p : pc) : bytes :=
  match fetch (graph_code g) p with
  | (Some l, i) => instr_tok l i
  | (None, _) => bs "?unlabelled"
  end.

Definition item_tok (it : item) : bytes :=
  match it with
  | At g p => pc_tok g p
  | Defer g p => bs "defer " ++ pc_tok g p
  | Tok s => bs s
  end.

Local Open Scope string_scope.

(* per Go function: (name in GeneratedSkel, items in source order).  A function that is inlined in
   two graphs (Channel.Read in the CLI consumer and in the NETCONF read loop; Transport.Close in
   both closers) is listed once per graph. *)
Definition expected : list (string * list item) :=
  [ ("channel_read_loop",
     [ Defer GReader R_DEFER; Tok "for{";
       At GReader R_CHECK; Tok "return";
       Tok "call c.t.Read";
       At GReader R_CHECK2_EOF; Tok "return"; Tok "return";
       At GReader R_SEND; Tok "return";
       At GReader R_SLEEP; Tok "continue";
       At GReader R_SLEEP; Tok "continue";
       At GReader R_ENQ; At GReader R_SLEEP; Tok "}" ]);
    ("channel_read_loop",    (* the second done-check on the error path is the same statement *)
     [ Defer GReader R_DEFER; Tok "for{";
       At GReader R_CHECK; Tok "return";
       Tok "call c.t.Read";
       At GReader R_CHECK2_ERR; Tok "return"; Tok "return";
       At GReader R_SEND; Tok "return";
       At GReader R_SLEEP; Tok "continue";
       At GReader R_SLEEP; Tok "continue";
       At GReader R_ENQ; At GReader R_SLEEP; Tok "}" ]);
    ("transport_read",      (* the deferred Unlock exists once per outcome of the read in the graph *)
     [ At GReader R_LOCK; Defer GReader R_UNL_DATA; At GReader R_IMPL; Tok "return" ]);
    ("transport_read",
     [ At GReader R_LOCK; Defer GReader R_UNL_EMPTY; At GReader R_IMPL; Tok "return" ]);
    ("transport_read",
     [ At GReader R_LOCK; Defer GReader R_UNL_EOF; At GReader R_IMPL; Tok "return" ]);
    ("transport_read",
     [ At GReader R_LOCK; Defer GReader R_UNL_ERR; At GReader R_IMPL; Tok "return" ]);
    ("channel_Read",
     [ At GConsumer 1; Tok "return"; At GConsumer 2; Tok "return"; At GConsumer 3;
       Tok "return"; Tok "return" ]);
    ("channel_Read",
     [ At GNcReader 1; Tok "return"; At GNcReader 2; Tok "return"; At GNcReader 3;
       Tok "return"; Tok "return" ]);
    ("channel_Close",
     [ At GCloser 0; At GCloser 1; Tok "call c.t.Close false"; Tok "return";
       Tok "call c.t.Close true"; Tok "return" ]);
    ("channel_Close",
     [ At GNcCloser 2; At GNcCloser 3; Tok "call c.t.Close false"; Tok "return";
       Tok "call c.t.Close true"; Tok "return" ]);
    ("transport_Close",      (* graceful: Lock; deferred Unlock; Impl.Close *)
     [ At GCloser 2; Defer GCloser 4; At GCloser 3; Tok "return" ]);
    ("transport_Close",      (* forced: the same Impl.Close call, lock skipped *)
     [ At GCloser 2; Defer GCloser 4; At GCloser 5; Tok "return" ]);
    ("transport_Close",
     [ At GNcCloser 4; Defer GNcCloser 6; At GNcCloser 5; Tok "return" ]);
    ("transport_Close",
     [ At GNcCloser 4; Defer GNcCloser 6; At GNcCloser 7; Tok "return" ]);
    ("netconf_Close",
     [ At GNcCloser 0; At GNcCloser 1; Tok "return"; Tok "return" ]);
    ("netconf_read_loop",
     [ Tok "for{"; At GNcReader 0; Tok "return"; Tok "call d.Channel.Read";
       At GNcReader N_SEND; Tok "return"; At GNcReader 5; Tok "}" ]);
    ("netconf_sendRPC",
     [ Tok "return"; Tok "return"; Tok "return";
       Defer GRpc 2; At GRpc 0;
       Defer GPoller 4; Tok "for{"; At GPoller 1; Tok "return"; At GPoller 2; Tok "break";
       Tok "call time.Sleep"; Tok "}"; At GPoller P_SEND; Tok "}";
       At GRpc 1; Tok "return"; Tok "return"; Tok "return" ]);
    ("system_getFd",
     [ At GSysReader R_LOAD_FD; Defer GSysReader 16; At GSysReader 15; Tok "return" ]);
    ("system_getFd",         (* the deferred Unlock on the nil-file path *)
     [ At GSysReader R_LOAD_FD; Defer GSysReader 17; At GSysReader 15; Tok "return" ]);
    ("system_setFd",
     [ At GSysCloser 7; Defer GSysCloser 9; Tok "load t.fd"; At GSysCloser 8; Tok "return" ]);
    ("system_setFd",
     [ At GSysCloser 11; Defer GSysCloser 13; Tok "load t.fd"; At GSysCloser 12; Tok "return" ]);
    ("system_Read",
     [ Tok "call t.getFd"; Tok "call t.getFd().Read"; Tok "return"; Tok "return" ]);
    ("system_Close",
     [ Tok "call t.setFd"; At GSysCloser 10; Tok "return"; Tok "return" ]);
    ("system_Close",
     [ Tok "call t.setFd"; At GSysCloser 14; Tok "return"; Tok "return" ]) ].

Fixpoint lookup_skel (n : bytes) (t : list (bytes * list bytes)) : option (list bytes) :=
  match t with
  | [] => None
  | (k, v) :: r => if beqb k n then Some v else lookup_skel n r
  end.

Fixpoint beq_list (a b : list bytes) : bool :=
  match a, b with
  | [], [] => true
  | x :: a', y :: b' => beqb x y && beq_list a' b'
  | _, _ => false
  end.

Definition check_entry (e : string * list item) : bool :=
  match lookup_skel (bs (fst e)) sync_skeleton with
  | Some toks => beq_list toks (map item_tok (snd e))
  | None => false
  end.

(* every generated function is expected at least once (no function of the list goes unchecked) *)
Definition all_functions_expected : bool :=
  forallb (fun kv => existsb (fun e => beqb (bs (fst e)) (fst kv)) expected) sync_skeleton.

(* entries that fail (empty on the current tree); printed by props/C07.v for the replay *)
Definition failing_entries : list (string * list bytes * option (list bytes)) :=
  flat_map (fun e => if check_entry e then []
                     else [(fst e, map item_tok (snd e), lookup_skel (bs (fst e)) sync_skeleton)])
           expected.

(* ---------- coverage: every labelled program point of every graph is some item ---------- *)

Definition all_graphs := [GReader; GCloser; GNcCloser; GConsumer; GNcReader; GRpc; GPoller;
                          GSysReader; GSysCloser].

Definition graph_eqb (a b : graph) : bool :=
  match a, b with
  | GReader, GReader | GCloser, GCloser | GNcCloser, GNcCloser | GConsumer, GConsumer
  | GNcReader, GNcReader | GRpc, GRpc | GPoller, GPoller | GSysReader, GSysReader
  | GSysCloser, GSysCloser => true
  | _, _ => false
  end.

Definition item_is (g : graph) (p : pc) (it : item) : bool :=
  match it with
  | At g' p' | Defer g' p' => graph_eqb g g' && Nat.eqb p p'
  | Tok _ => false
  end.

(* program points that are not statements of the tied functions: the caller's context check and
   return (the operation in flight is ANY ReadUntil.. loop), function returns, and the System
   reader's copy of the read loop, whose statements are those of [GReader] *)
Definition outside (g : graph) (p : pc) : bool :=
  match g with
  | GConsumer => Nat.eqb p 0 || Nat.eqb p 4
  | GCloser => Nat.eqb p 6
  | GNcCloser => Nat.eqb p 8
  | GRpc => Nat.eqb p 3
  | GSysReader => Nat.ltb p R_LOAD_FD
  | GSysCloser => Nat.ltb p 7
  | _ => false
  end.

Definition covered (g : graph) (p : pc) : bool :=
  match fetch (graph_code g) p with
  | (None, _) => true
  | (Some _, _) => outside g p || existsb (fun e => existsb (item_is g p) (snd e)) expected
  end.

Definition all_covered : bool :=
  forallb (fun g => forallb (covered g) (seq 0 (List.length (graph_code g)))) all_graphs.

(* the System reader / closer repeat the statements of the generic graphs *)
Definition system_copies_agree : bool :=
  forallb (fun p => beqb (pc_tok GSysReader p) (pc_tok GReader p)) (seq 0 R_LOAD_FD)
  && forallb (fun p => beqb (pc_tok GSysCloser p) (pc_tok GCloser p)) [0; 1; 2; 4; 6]
  && beqb (pc_tok GSysCloser 3) (bs "call t.Impl.Close")
  && beqb (pc_tok GSysCloser 5) (bs "call t.Impl.Close").

(* readable form of [failing_entries] (diagnosis when the tie breaks) *)
Definition show_bytes (b : bytes) : string :=
  fold_right (fun n acc => String (Ascii.ascii_of_N n) acc) EmptyString b.
Definition show_failing : list (string * list string * option (list string)) :=
  map (fun x => (fst (fst x), map show_bytes (snd (fst x)), option_map (map show_bytes) (snd x)))
      failing_entries.
