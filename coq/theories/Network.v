(* Network.v — the network driver: privilege graph, path search, current-level inference,
   AcquirePriv, and the SendCommand(s)/SendConfig(s)/SendInteractive wrappers, transcribed from
   driver/network/*.go as programs over the Channel interpreter.  Definitions only.
   Go's randomised map iteration is an explicit parameter ([n_order], [n_level_order]). *)
From Scrapli Require Import Bytes Regex PlatformTypes Generated Channel.
Open Scope N_scope.

Record netcfg := mkNet {
  n_levels : list (bytes * level);        (* PrivilegeLevels: map key -> level (keys unique) *)
  n_default : bytes;                      (* DefaultDesiredPriv *)
  n_secondary : bytes;                    (* AuthSecondary *)
  n_chan : chan_cfg;                      (* channel settings; c_prompt is the joined pattern *)
  n_order : bytes -> list bytes -> list bytes;   (* iteration order of a node's neighbour set *)
  n_level_order : list (bytes * level) -> list (bytes * level)  (* iteration order of the levels map *)
}.

Fixpoint lookup_level (ls : list (bytes * level)) (k : bytes) : option level :=
  match ls with
  | [] => None
  | (k', l) :: t => if beqb k k' then Some l else lookup_level t k
  end.

Definition mem_bytes (x : bytes) (l : list bytes) : bool := existsb (beqb x) l.

Fixpoint dedup (l : list bytes) : list bytes :=
  match l with [] => [] | x :: t => if mem_bytes x t then dedup t else x :: dedup t end.

(* buildPrivGraph: undirected adjacency from previous-priv links (as a set) *)
Definition neighbours (ls : list (bytes * level)) (name : bytes) : list bytes :=
  dedup ((match lookup_level ls name with
          | Some l => match lv_previous l with [] => [] | p => [p] end
          | None => []
          end)
           ++ flat_map (fun kl => match lv_previous (snd kl) with
                                  | [] => []          (* a level without previous-priv links to nobody *)
                                  | p => if beqb p name then [lv_name (snd kl)] else []
                                  end) ls).

(* buildPrivChangeMap: depth-first search; [steps] are the nodes on the current path *)
Fixpoint build_path (fuel : nat) (net : netcfg) (current target : bytes) (steps : list bytes) : option (list bytes) :=
  match fuel with
  | O => None
  | S f =>
      let working := steps ++ [current] in
      if beqb current target then Some working
      else
        (fix try (ns : list bytes) : option (list bytes) :=
           match ns with
           | [] => None
           | p :: rest =>
               if mem_bytes p working then try rest
               else match build_path f net p target working with
                    | Some (x :: xs) => Some (x :: xs)
                    | _ => try rest
                    end
           end) (n_order net current (neighbours (n_levels net) current))
  end.

Definition util_contains_any (s : bytes) (l : list bytes) : bool := existsb (fun ss => contains ss s) l.

(* determineCurrentPriv *)
Definition determine_current (net : netcfg) (prompt : bytes) : list bytes :=
  flat_map (fun kl => let l := snd kl in
                      if util_contains_any prompt (lv_not_contains l) then []
                      else if rx_match (lv_pattern l) prompt then [lv_name l] else [])
           (n_level_order net (n_levels net)).

Inductive action := ANone | AEscalate (next : bytes) | ADeescalate (cur : bytes).
Inductive pa_result := PAOk (a : action) (cur' : bytes) | PAErr | PAPanic.

(* processAcquirePriv; [cached] is d.CurrentPriv; returns the action and the new cached level *)
Definition process_acquire (net : netcfg) (cached target prompt : bytes) : pa_result :=
  match determine_current net prompt with
  | [] => PAErr
  | (first :: _) as possible =>
      let current :=
        if mem_bytes cached possible then cached
        else if mem_bytes target possible then
               match lookup_level (n_levels net) target with Some l => lv_name l | None => target end
             else first in
      if beqb current target then PAOk ANone current
      else
        match build_path (S (length (n_levels net))) net current target [] with
        | Some (_ :: next :: _) =>
            match lookup_level (n_levels net) next with
            | Some nl =>
                if beqb (lv_previous nl) current then PAOk (AEscalate (lv_name nl)) net_unknown_priv
                else PAOk (ADeescalate current) net_unknown_priv
            | None => PAPanic                      (* nil map entry dereferenced *)
            end
        | _ => PAPanic                              (* mapTo[1] out of range *)
        end
  end.

Definition TAG_CUR : N := 3.      (* note: d.CurrentPriv was set to this value *)

Definition opts_send_input_default : op_opts := default_opts.

(* escalate / deescalate *)
Definition escalate (net : netcfg) (target : bytes) : prog bytes :=
  match lookup_level (n_levels net) target with
  | None => Fail EOperation                       (* nil pointer dereference in Go: not reachable for well-formed maps *)
  | Some p =>
      if negb (lv_escalate_auth p) || (match n_secondary net with [] => true | _ => false end)
      then send_input (n_chan net) (lv_escalate p) default_opts
      else
        let prev_pat := match lookup_level (n_levels net) (lv_previous p) with
                        | Some pl => [lv_pattern pl] | None => [] end in
        send_interactive (n_chan net)
          [ mkEv (lv_escalate p) (Some (lv_escalate_prompt p)) false;
            mkEv (n_secondary net) (Some (lv_pattern p)) true ]
          (mkOpts default_strip_prompt default_eager default_exact [] (prev_pat ++ [lv_pattern p]))
  end.

Definition deescalate (net : netcfg) (target : bytes) : prog bytes :=
  match lookup_level (n_levels net) target with
  | None => Fail EOperation
  | Some p => send_input (n_chan net) (lv_deescalate p) default_opts
  end.

(* AcquirePriv loop; returns the cached level at the end.  [count] as in Go. *)
Fixpoint acquire_loop (fuel : nat) (net : netcfg) (cached target : bytes) (count : nat) : prog bytes :=
  match fuel with
  | O => Fail EPrivilege
  | S f =>
      bind (get_prompt (n_chan net)) (fun prompt =>
        match process_acquire net cached target prompt with
        | PAErr => Fail EPrivilege
        | PAPanic => Fail EOperation
        | PAOk ANone cur => Note TAG_CUR cur (Ret cur)
        | PAOk a cur =>
            Note TAG_CUR cur
              (bind (match a with
                     | AEscalate next => escalate net next
                     | ADeescalate c => deescalate net c
                     | ANone => Ret []
                     end)
                    (fun _ =>
                       let count' := S count in
                       if Nat.ltb (2 * length (n_levels net)) count' then Fail EPrivilege
                       else acquire_loop f net cur target count'))
        end)
  end.

Definition acquire_priv (net : netcfg) (cached target : bytes) : prog bytes :=
  match lookup_level (n_levels net) target with
  | None => Fail EPrivilege
  | Some _ => acquire_loop (2 * length (n_levels net) + 2) net cached target 0
  end.

(* failure of the implicit acquire is reported as a privilege error whatever it was *)
Definition acquire_default (net : netcfg) (cached : bytes) : prog bytes :=
  if beqb cached (n_default net) then Ret cached
  else catch (acquire_priv net cached (n_default net)) (fun _ => Fail EPrivilege).

(* network.Driver.SendCommand *)
Definition net_send_command (net : netcfg) (cached cmd : bytes) (o : op_opts) : prog bytes :=
  bind (acquire_default net cached) (fun _ => send_input (n_chan net) cmd o).

(* generic SendCommands over the channel: results joined by LF for the projected observable *)
Fixpoint send_inputs (cfg : chan_cfg) (o : op_opts) (cmds : list bytes) : prog (list bytes) :=
  match cmds with
  | [] => Ret []
  | c :: rest => bind (send_input cfg c o) (fun r => bind (send_inputs cfg o rest) (fun rs => Ret (r :: rs)))
  end.

Definition net_send_commands (net : netcfg) (cached : bytes) (cmds : list bytes) (o : op_opts) : prog (list bytes) :=
  bind (acquire_default net cached) (fun _ => send_inputs (n_chan net) o cmds).

(* SendConfigs: acquire the configuration (or requested) level; errors are returned as they are *)
Definition net_send_configs (net : netcfg) (cached priv : bytes) (cfgs : list bytes) (o : op_opts) : prog (list bytes) :=
  let target := match priv with [] => net_default_configuration_priv | p => p end in
  bind (acquire_priv net cached target) (fun _ => send_inputs (n_chan net) o cfgs).

Definition net_send_interactive (net : netcfg) (cached priv : bytes) (evs : list ievent) (o : op_opts) : prog bytes :=
  let target := match priv with [] => n_default net | p => p end in
  bind (acquire_priv net cached target) (fun _ => send_interactive (n_chan net) evs o).

(* ---------- well-formedness of a privilege map (what the tree theorems assume) ---------- *)
Definition names (ls : list (bytes * level)) : list bytes := map fst ls.

Definition keys_are_names (ls : list (bytes * level)) : bool :=
  forallb (fun kl => beqb (fst kl) (lv_name (snd kl))) ls.

Fixpoint nodup_b (l : list bytes) : bool :=
  match l with [] => true | x :: t => negb (mem_bytes x t) && nodup_b t end.

(* depth of a level: number of previous-links to a root, with fuel; None on a dangling link or a cycle *)
Fixpoint depth_of (fuel : nat) (ls : list (bytes * level)) (name : bytes) : option nat :=
  match fuel with
  | O => None
  | S f => match lookup_level ls name with
           | None => None
           | Some l => match lv_previous l with
                       | [] => Some O
                       | p => match depth_of f ls p with Some d => Some (S d) | None => None end
                       end
           end
  end.

Definition roots (ls : list (bytes * level)) : list bytes :=
  flat_map (fun kl => match lv_previous (snd kl) with [] => [lv_name (snd kl)] | _ => [] end) ls.

(* a single rooted tree: unique keys = names, exactly one root, every level reaches it *)
Definition tree_wf (ls : list (bytes * level)) : bool :=
  keys_are_names ls && nodup_b (names ls)
  && (match roots ls with [_] => true | _ => false end)
  && forallb (fun kl => match depth_of (S (length ls)) ls (fst kl) with Some _ => true | None => false end) ls.

(* the unique tree path between two levels (specification side): climb from both ends *)
Fixpoint ancestors (fuel : nat) (ls : list (bytes * level)) (name : bytes) : list bytes :=
  match fuel with
  | O => []
  | S f => name :: match lookup_level ls name with
                   | Some l => match lv_previous l with [] => [] | p => ancestors f ls p end
                   | None => []
                   end
  end.

(* path a -> b: a's ancestors up to (and including) the lowest common ancestor, then down to b *)
Fixpoint upto (x : bytes) (l : list bytes) : list bytes :=
  match l with [] => [] | y :: t => if beqb x y then [y] else y :: upto x t end.

Definition tree_path (ls : list (bytes * level)) (a b : bytes) : option (list bytes) :=
  let aa := ancestors (S (length ls)) ls a in
  let ab := ancestors (S (length ls)) ls b in
  match find (fun x => mem_bytes x ab) aa with
  | Some lca => Some (upto lca aa ++ tl (rev (upto lca ab)))
  | None => None
  end.
