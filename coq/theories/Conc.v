(* Conc.v — a small, generic, EXECUTABLE interleaving kernel for goroutine-level protocol models
   (C07; see Close.v for the concrete systems).

   A system is a finite list of threads (goroutines).  Every thread has its own code: a list of
   (label, instruction) pairs; its program counter is an index into that list.  One instruction =
   one atomic step.  The instruction set is the part of Go that the shutdown protocol of scrapligo
   uses:

     ISelect cases else   unbuffered channel communication.  [cases] are sends / receives, [else] is
                          SBlock (a plain blocking `select`, or a single send / receive: ISend,
                          IRecv), SDefault d (`select { ...; default: }`: non-blocking check) or
                          STimer p (`select { ...; case <-time.After(..) }`: the timer may fire at
                          any time after the select has been reached, so the timer branch is always
                          enabled).
                          Go semantics: a receive on a closed channel succeeds immediately; a send
                          on a closed channel panics — also for a sender that was already blocked
                          when the channel got closed (a blocked sender is a thread standing at its
                          send: as soon as the channel is closed its only step is the panic);
                          on an open unbuffered channel a send and a receive of two different
                          threads happen together (rendezvous: ONE transition moves both threads);
                          exactly as in the Go runtime one of the two must already be PARKED in
                          its blocking select / send / receive: a thread that executes a select
                          takes one of the cases that can proceed right now (channel closed, or a
                          partner parked on the dual operation); if there is none it takes
                          `default`, or else parks (a step that only sets its parked flag) and
                          is from then on woken by a partner, by a close, or by its timer.
     IClose c             close(c); close of a closed channel panics.
     IOnceClose o c       o.Do(func() { close(c) }) with o a sync.Once: atomic test-and-set + close.
                          (sync.Once makes other callers wait until the first call has returned;
                          the body here is one non-blocking statement, so the intermediate state
                          "once taken, channel not yet closed" differs from the state before only
                          in that other Do callers wait — i.e. are not scheduled.)
     IAtomic alts         guarded atomic command on synchronised shared variables: any alternative
                          (conds, assigns, next) whose conditions (var = value) all hold may be
                          taken; the thread blocks while none holds.  Derived forms: mutex
                          ILock / IUnlock, IEnv (pure nondeterministic choice made by the
                          environment), IAtomicWrite / IAtomicRead, IAwait.
     IPlainRead / IPlainWrite   UNSYNCHRONISED access to a shared variable (a plain Go field).
                          Two different threads standing at conflicting plain accesses of the same
                          variable in one reachable state = a data race ([races]).
     ISleep               time.Sleep: a no-op step.
     IGo t                go f(): starts thread t (which waits at IIdle until then).
     IIdle / IExit        not started yet / returned.

   A panic in any goroutine kills a Go process: [panic s <> 0] stops every thread.

   Data (chunks, error values) is abstracted away, so the state is finite: program counters,
   closed-flags of the channels, the values of the shared variables, the panic flag.

   [step sy s t] lists the successors of s when thread t is chosen (nondeterminism: which select
   case, which rendezvous partner, which environment alternative).  A schedule is a list of
   (thread, choice) pairs of ANY length; choosing a thread that cannot move, or a choice that does
   not exist, leaves the state unchanged.

   [reach] computes the reachable set by breadth-first search with fuel; [check_closed sy rs]
   re-checks by computation that rs contains the initial state and all successors of its members.
   [closed_covers_all] (proved once, by induction on the schedule) then gives:  every state of
   every schedule is in rs.  So a predicate verified on rs by [forallb .. = true] (vm_compute) holds
   for EVERY schedule of unbounded length.  Backward reachability ([check_ef] / [ef_sound]) gives
   AG EF goals, [moves_bounded] bounds the number of own steps of a loop-free thread. *)
From Coq Require Import List Arith Bool Lia NArith PArith FMapPositive.
Import ListNotations.

Definition chan := nat.
Definition var := nat.
Definition pc := nat.
Definition tid := nat.

Inductive chop := Snd (c : chan) | Rcv (c : chan).
Inductive sel_else := SBlock | SDefault (d : pc) | STimer (p : pc).

Inductive instr :=
| ISelect (cases : list (chop * pc)) (e : sel_else)
| IClose (c : chan) (next : pc)
| IOnceClose (o : var) (c : chan) (next : pc)
| IAtomic (alts : list (list (var * nat) * list (var * nat) * pc))
| IPlainRead (v : var) (branches : list pc)
| IPlainWrite (v : var) (val : nat) (next : pc)
| ISleep (next : pc)
| IGo (t : tid) (next : pc)
| IIdle
| IExit.

(* derived instructions *)
Definition ISend (c : chan) (n : pc) := ISelect [(Snd c, n)] SBlock.
Definition IRecv (c : chan) (n : pc) := ISelect [(Rcv c, n)] SBlock.
Definition ILock (m : var) (n : pc) := IAtomic [([(m, 0)], [(m, 1)], n)].
Definition IUnlock (m : var) (n : pc) := IAtomic [([(m, 1)], [(m, 0)], n)].
Definition IEnv (alts : list pc) := IAtomic (map (fun p => ([], [], p)) alts).
Definition IAtomicWrite (v : var) (x : nat) (n : pc) := IAtomic [([], [(v, x)], n)].
Definition IAwait (v : var) (x : nat) (n : pc) := IAtomic [([(v, x)], [], n)].

(* panic kinds *)
Definition PANIC_SEND_ON_CLOSED := 1.
Definition PANIC_CLOSE_OF_CLOSED := 2.

Record state := mkState {
  pcs : list pc;       (* one per thread *)
  parked : list nat;   (* one per thread: 1 = blocked inside the select it stands at *)
  closed : list nat;   (* one per channel: 1 = closed *)
  vars : list nat;     (* synchronised and plain shared variables, mutexes, onces *)
  panic : nat          (* 0 = none *)
}.

Fixpoint upd (l : list nat) (i : nat) (x : nat) : list nat :=
  match l, i with
  | [], _ => []
  | _ :: t, 0 => x :: t
  | y :: t, S j => y :: upd t j x
  end.

Definition pc_of (s : state) (t : tid) : pc := nth t (pcs s) 0.
Definition is_closed (s : state) (c : chan) : bool := Nat.eqb (nth c (closed s) 0) 1.
Definition var_of (s : state) (v : var) : nat := nth v (vars s) 0.

Definition set_pc (s : state) (t : tid) (p : pc) : state :=
  mkState (upd (pcs s) t p) (upd (parked s) t 0) (closed s) (vars s) (panic s).
Definition set_parked (s : state) (t : tid) : state :=
  mkState (pcs s) (upd (parked s) t 1) (closed s) (vars s) (panic s).
Definition is_parked (s : state) (t : tid) : bool := Nat.eqb (nth t (parked s) 0) 1.
Definition set_closed (s : state) (c : chan) : state :=
  mkState (pcs s) (parked s) (upd (closed s) c 1) (vars s) (panic s).
Definition set_var (s : state) (v : var) (x : nat) : state :=
  mkState (pcs s) (parked s) (closed s) (upd (vars s) v x) (panic s).
Definition set_panic (s : state) (k : nat) : state :=
  mkState (pcs s) (parked s) (closed s) (vars s) k.

Definition chop_eqb (a b : chop) : bool :=
  match a, b with
  | Snd c, Snd d => Nat.eqb c d
  | Rcv c, Rcv d => Nat.eqb c d
  | _, _ => false
  end.
Definition chop_chan (a : chop) : chan := match a with Snd c => c | Rcv c => c end.
Definition chop_dual (a : chop) : chop := match a with Snd c => Rcv c | Rcv c => Snd c end.
Definition is_default (e : sel_else) : bool := match e with SDefault _ => true | _ => false end.

(* ---------- state equality and sets of states ---------- *)

Fixpoint list_eqb (a b : list nat) : bool :=
  match a, b with
  | [], [] => true
  | x :: a', y :: b' => Nat.eqb x y && list_eqb a' b'
  | _, _ => false
  end.

Lemma list_eqb_eq : forall a b, list_eqb a b = true -> a = b.
Proof.
  induction a as [|x a IH]; destruct b as [|y b]; cbn; intros H; try discriminate; auto.
  apply andb_true_iff in H. destruct H as [H1 H2].
  apply Nat.eqb_eq in H1. subst. f_equal. auto.
Qed.

Lemma list_eqb_refl : forall a, list_eqb a a = true.
Proof. induction a; cbn; auto. rewrite Nat.eqb_refl. auto. Qed.

Definition state_eqb (a b : state) : bool :=
  list_eqb (pcs a) (pcs b) && list_eqb (parked a) (parked b) && list_eqb (closed a) (closed b)
  && list_eqb (vars a) (vars b) && Nat.eqb (panic a) (panic b).

Lemma state_eqb_eq : forall a b, state_eqb a b = true -> a = b.
Proof.
  intros [p1 q1 c1 v1 k1] [p2 q2 c2 v2 k2]. unfold state_eqb; cbn. intros H.
  apply andb_true_iff in H. destruct H as [H Hk].
  apply andb_true_iff in H. destruct H as [H Hv].
  apply andb_true_iff in H. destruct H as [H Hc].
  apply andb_true_iff in H. destruct H as [Hp Hq].
  apply list_eqb_eq in Hp. apply list_eqb_eq in Hq. apply list_eqb_eq in Hc.
  apply list_eqb_eq in Hv. apply Nat.eqb_eq in Hk. subst. reflexivity.
Qed.

Lemma state_eqb_refl : forall a, state_eqb a a = true.
Proof.
  intros [p q c v k]. unfold state_eqb; cbn. rewrite !list_eqb_refl, Nat.eqb_refl. reflexivity.
Qed.

(* hash key: every component in unary (x ones, then a zero), pushed onto one positive number: a
   prefix code, so different states of the same shape get different keys.  Soundness never depends
   on that: a collision could only make [check_closed] fail. *)
Fixpoint push_nat (x : nat) (p : positive) : positive :=
  match x with 0 => xO p | S k => xI (push_nat k p) end.
Definition key_list (l : list nat) (acc : positive) : positive :=
  fold_left (fun a x => push_nat x a) l acc.
Definition key (s : state) : positive :=
  push_nat (panic s)
    (key_list (vars s) (key_list (closed s) (key_list (parked s) (key_list (pcs s) xH)))).

Definition sset := PositiveMap.t state.
Definition sempty : sset := PositiveMap.empty state.
Definition smem (s : state) (m : sset) : bool :=
  match PositiveMap.find (key s) m with
  | Some s' => state_eqb s s'
  | None => false
  end.
Definition sadd (s : state) (m : sset) : sset := PositiveMap.add (key s) s m.
Definition of_list (l : list state) : sset := fold_left (fun m s => sadd s m) l sempty.

Lemma fold_sadd_inv : forall (P : state -> Prop) l m,
    (forall k x, PositiveMap.find k m = Some x -> P x) ->
    (forall x, In x l -> P x) ->
    forall k x, PositiveMap.find k (fold_left (fun m s => sadd s m) l m) = Some x -> P x.
Proof.
  intros P. induction l as [|a l IH]; cbn; intros m Hm Hl k x Hf.
  - eapply Hm; eauto.
  - eapply IH; [| |exact Hf].
    + intros k' x' Hk'. unfold sadd in Hk'.
      destruct (Pos.eq_dec k' (key a)) as [->|Hne].
      * rewrite PositiveMap.gss in Hk'. inversion Hk'; subst. apply Hl. left. reflexivity.
      * rewrite PositiveMap.gso in Hk' by exact Hne. eapply Hm; eauto.
    + intros x' Hx'. apply Hl. right. exact Hx'.
Qed.

Lemma smem_of_list : forall l s, smem s (of_list l) = true -> In s l.
Proof.
  intros l s H. unfold smem in H.
  destruct (PositiveMap.find (key s) (of_list l)) as [s'|] eqn:E; [|discriminate].
  apply state_eqb_eq in H. subst s'.
  unfold of_list in E.
  eapply (fold_sadd_inv (fun x => In x l)); [| |exact E].
  - intros k x Hk. unfold sempty in Hk. rewrite PositiveMap.gempty in Hk. discriminate.
  - auto.
Qed.

(* ---------- systems and the step function ---------- *)

Section Conc.
  Variable L : Type.   (* labels = names of the code sites *)

  Definition code := list (option L * instr).
  Record sys := mkSys { threads : list code; init : state }.

  Definition tids (sy : sys) : list tid := seq 0 (length (threads sy)).

  Definition fetch (c : code) (p : pc) : option L * instr :=
    match nth_error c p with Some li => li | None => (None, IExit) end.

  Definition instr_at (sy : sys) (s : state) (t : tid) : instr :=
    match nth_error (threads sy) t with
    | Some c => snd (fetch c (pc_of s t))
    | None => IExit
    end.

  Definition label_at (sy : sys) (s : state) (t : tid) : option L :=
    match nth_error (threads sy) t with
    | Some c => fst (fetch c (pc_of s t))
    | None => None
    end.

  (* threads u <> t PARKED in a select that offers the operation [want] *)
  Definition partners (sy : sys) (s : state) (t : tid) (want : chop) : list (tid * pc) :=
    flat_map (fun u =>
      if Nat.eqb u t || negb (is_parked s u) then [] else
      match instr_at sy s u with
      | ISelect cases _ =>
          flat_map (fun cm => if chop_eqb (fst cm) want then [(u, snd cm)] else []) cases
      | _ => []
      end) (tids sy).

  Definition holds (s : state) (conds : list (var * nat)) : bool :=
    forallb (fun vx => Nat.eqb (var_of s (fst vx)) (snd vx)) conds.
  Definition assign (s : state) (asg : list (var * nat)) : state :=
    fold_left (fun s vx => set_var s (fst vx) (snd vx)) asg s.

  Definition step_select (sy : sys) (s : state) (t : tid) (cases : list (chop * pc))
             (e : sel_else) : list state :=
    (* cases that can proceed because their channel is closed *)
    let by_close :=
      flat_map (fun cn =>
        if is_closed s (chop_chan (fst cn)) then
          match fst cn with
          | Rcv _ => [set_pc s t (snd cn)]
          | Snd _ => [set_panic s PANIC_SEND_ON_CLOSED]
          end
        else []) cases in
    let timer := match e with STimer p => [set_pc s t p] | _ => [] end in
    if is_parked s t then
      (* woken by a close or by the timer; a rendezvous is the step of the partner that arrives *)
      by_close ++ timer
    else
      let by_partner :=
        flat_map (fun cn =>
          if is_closed s (chop_chan (fst cn)) then []
          else map (fun um => set_pc (set_pc s t (snd cn)) (fst um) (snd um))
                   (partners sy s t (chop_dual (fst cn)))) cases in
      match by_close ++ by_partner with
      | [] =>
          match e with
          | SDefault d => [set_pc s t d]
          | _ => set_parked s t :: timer
          end
      | ready => ready ++ timer
      end.

  Definition step_instr (sy : sys) (s : state) (t : tid) (i : instr) : list state :=
    match i with
    | ISelect cases e => step_select sy s t cases e
    | IClose c n =>
        if is_closed s c then [set_panic s PANIC_CLOSE_OF_CLOSED]
        else [set_pc (set_closed s c) t n]
    | IOnceClose o c n =>
        if Nat.eqb (var_of s o) 0 then
          if is_closed s c then [set_panic (set_var s o 1) PANIC_CLOSE_OF_CLOSED]
          else [set_pc (set_closed (set_var s o 1) c) t n]
        else [set_pc s t n]
    | IAtomic alts =>
        flat_map (fun a =>
          let conds := fst (fst a) in let asg := snd (fst a) in
          if holds s conds then [set_pc (assign s asg) t (snd a)] else []) alts
    | IPlainRead v branches =>
        match nth_error branches (var_of s v) with
        | Some n => [set_pc s t n]
        | None => []
        end
    | IPlainWrite v x n => [set_pc (set_var s v x) t n]
    | ISleep n => [set_pc s t n]
    | IGo u n =>
        match instr_at sy s u with
        | IIdle => [set_pc (set_pc s u (S (pc_of s u))) t n]
        | _ => [set_pc s t n]
        end
    | IIdle => []
    | IExit => []
    end.

  Definition step (sy : sys) (s : state) (t : tid) : list state :=
    if Nat.eqb (panic s) 0 then
      match nth_error (threads sy) t with
      | Some c => step_instr sy s t (snd (fetch c (pc_of s t)))
      | None => []
      end
    else [].

  Definition succs (sy : sys) (s : state) : list state := flat_map (step sy s) (tids sy).

  Definition sched := list (tid * nat).

  Fixpoint exec_from (sy : sys) (s : state) (sc : sched) : state :=
    match sc with
    | [] => s
    | (t, c) :: r =>
        match nth_error (step sy s t) c with
        | Some s' => exec_from sy s' r
        | None => exec_from sy s r
        end
    end.
  Definition exec (sy : sys) (sc : sched) : state := exec_from sy (init sy) sc.

  Definition reachable (sy : sys) (s : state) : Prop := exists sc, s = exec sy sc.

  Lemma exec_from_app : forall sy a b s,
      exec_from sy s (a ++ b) = exec_from sy (exec_from sy s a) b.
  Proof.
    intros sy. induction a as [|[t c] a IH]; intros b s; cbn; auto.
    destruct (nth_error (step sy s t) c); apply IH.
  Qed.

  Lemma step_in_succs : forall sy s t s', In s' (step sy s t) -> In s' (succs sy s).
  Proof.
    intros sy s t s' H. unfold succs. apply in_flat_map. exists t. split; [|exact H].
    unfold tids. apply in_seq. split; [lia|]. cbn.
    destruct (lt_dec t (length (threads sy))) as [Hl|Hl]; [exact Hl|].
    exfalso. unfold step in H.
    assert (E : nth_error (threads sy) t = None) by (apply nth_error_None; lia).
    rewrite E in H. destruct (Nat.eqb (panic s) 0); contradiction H.
  Qed.

  Lemma succs_step : forall sy s s', In s' (succs sy s) ->
      exists t c, nth_error (step sy s t) c = Some s'.
  Proof.
    intros sy s s' H. unfold succs in H. apply in_flat_map in H. destruct H as (t & _ & H).
    apply In_nth_error in H. destruct H as [c H]. exists t, c. exact H.
  Qed.

  (* ---------- reachable set: breadth-first closure with fuel ---------- *)

  Definition visit (acc : list state * sset) (s' : state) : list state * sset :=
    if smem s' (snd acc) then acc else (s' :: fst acc, sadd s' (snd acc)).

  (* one level: all successors of the frontier that have not been seen *)
  Definition expand (sy : sys) (frontier : list state) (seen : sset) : list state * sset :=
    fold_left (fun acc s => fold_left visit (succs sy s) acc) frontier ([], seen).

  Fixpoint bfs (sy : sys) (fuel : nat) (frontier : list state) (seen : sset) (acc : list state)
    : list state * bool :=
    match frontier with
    | [] => (acc, true)
    | _ =>
        match fuel with
        | 0 => (acc, false)
        | S f =>
            let ns := expand sy frontier seen in
            bfs sy f (fst ns) (snd ns) (fst ns ++ acc)
        end
    end.

  (* all states found; the flag says whether the search finished within the fuel *)
  Definition reach (sy : sys) (fuel : nat) : list state * bool :=
    bfs sy fuel [init sy] (sadd (init sy) sempty) [init sy].

  (* every state with its successors, computed once and shared by the checkers *)
  Definition edges (sy : sys) (rs : list state) : list (state * list state) :=
    map (fun s => (s, succs sy s)) rs.

  Definition check_closed_e (sy : sys) (m : sset) (es : list (state * list state)) : bool :=
    smem (init sy) m && forallb (fun e => forallb (fun s' => smem s' m) (snd e)) es.

  Definition check_closed (sy : sys) (rs : list state) : bool :=
    check_closed_e sy (of_list rs) (edges sy rs).

  Lemma check_closed_init : forall sy rs, check_closed sy rs = true -> In (init sy) rs.
  Proof.
    intros sy rs H. unfold check_closed, check_closed_e in H. apply andb_true_iff in H.
    apply smem_of_list. apply H.
  Qed.

  Lemma check_closed_succ : forall sy rs, check_closed sy rs = true ->
      forall s s', In s rs -> In s' (succs sy s) -> In s' rs.
  Proof.
    intros sy rs H s s' Hs Hs'. unfold check_closed, check_closed_e in H.
    apply andb_true_iff in H. destruct H as [_ H].
    rewrite forallb_forall in H.
    specialize (H (s, succs sy s)).
    assert (Hin : In (s, succs sy s) (edges sy rs)).
    { unfold edges. apply in_map_iff. exists s. split; auto. }
    specialize (H Hin). cbn in H. rewrite forallb_forall in H.
    apply smem_of_list. apply H. exact Hs'.
  Qed.

  Lemma closed_from : forall sy rs, check_closed sy rs = true ->
      forall sc s, In s rs -> In (exec_from sy s sc) rs.
  Proof.
    intros sy rs H. induction sc as [|[t c] r IH]; intros s Hs; cbn.
    - exact Hs.
    - destruct (nth_error (step sy s t) c) as [s'|] eqn:E.
      + apply IH. eapply check_closed_succ; eauto.
        eapply step_in_succs. eapply nth_error_In. exact E.
      + apply IH. exact Hs.
  Qed.

  (* THE soundness lemma: a closed set contains the state reached by every schedule *)
  Theorem closed_covers_all : forall sy rs, check_closed sy rs = true ->
      forall sc : sched, In (exec sy sc) rs.
  Proof.
    intros sy rs H sc. unfold exec. apply closed_from; auto. apply check_closed_init; auto.
  Qed.

  Corollary safety_all : forall sy rs (P : state -> bool),
      check_closed sy rs = true -> forallb P rs = true ->
      forall sc, P (exec sy sc) = true.
  Proof.
    intros sy rs P Hc HP sc. rewrite forallb_forall in HP. apply HP.
    apply closed_covers_all. exact Hc.
  Qed.

  (* ---------- AG EF by backward reachability over the closed set ---------- *)

  Definition can_reach (sy : sys) (goal : state -> bool) (s : state) : Prop :=
    exists sc, goal (exec_from sy s sc) = true.

  Definition has_good_succ (good : sset) (e : state * list state) : bool :=
    existsb (fun s' => smem s' good) (snd e).

  (* [good]: states known to reach the goal; [rest]: states not yet known to.  Every round moves
     the states of [rest] that have a successor in [good] over to [good]; what remains at the end
     (fixpoint or fuel exhausted) is returned. *)
  Fixpoint ef_iter (n : nat) (rest : list (state * list state)) (good : sset)
    : list (state * list state) :=
    match n with
    | 0 => rest
    | S k =>
        let yes := filter (has_good_succ good) rest in
        match yes with
        | [] => rest
        | _ => ef_iter k (filter (fun e => negb (has_good_succ good e)) rest)
                       (fold_left (fun m s => sadd s m) (map fst yes) good)
        end
    end.

  (* the states from which the goal was NOT shown reachable *)
  Definition ef_stuck (es : list (state * list state)) (goal : state -> bool) (n : nat)
    : list (state * list state) :=
    ef_iter n (filter (fun e => negb (goal (fst e))) es)
            (of_list (map fst (filter (fun e => goal (fst e)) es))).

  Definition check_ef (es : list (state * list state)) (goal : state -> bool) (n : nat) : bool :=
    match ef_stuck es goal n with [] => true | _ => false end.

  Lemma good_succ_reach : forall sy rs goal good,
      (forall k x, PositiveMap.find k good = Some x -> can_reach sy goal x) ->
      forall e, In e (edges sy rs) -> has_good_succ good e = true -> can_reach sy goal (fst e).
  Proof.
    intros sy rs goal good Hg e Hin Hc.
    unfold edges in Hin. apply in_map_iff in Hin. destruct Hin as (s & Heq & _). subst e.
    unfold has_good_succ in Hc. cbn in *.
    apply existsb_exists in Hc. destruct Hc as (s' & Hs' & Hm).
    unfold smem in Hm. destruct (PositiveMap.find (key s') good) as [x|] eqn:E; [|discriminate].
    apply state_eqb_eq in Hm. subst x. apply Hg in E. destruct E as [sc Hsc].
    apply succs_step in Hs'. destruct Hs' as (t & c & Hn).
    exists ((t, c) :: sc). cbn. rewrite Hn. exact Hsc.
  Qed.

  Lemma ef_iter_sound : forall sy rs goal n rest good,
      (forall k x, PositiveMap.find k good = Some x -> can_reach sy goal x) ->
      (forall e, In e rest -> In e (edges sy rs)) ->
      forall e, In e rest -> can_reach sy goal (fst e) \/ In e (ef_iter n rest good).
  Proof.
    intros sy rs goal. induction n as [|n IH]; intros rest good Hg Hsub e He; cbn.
    - right. exact He.
    - destruct (filter (has_good_succ good) rest) as [|y ys] eqn:Ey.
      + right. exact He.
      + rewrite <- Ey.
        destruct (has_good_succ good e) eqn:Ec.
        * left. eapply good_succ_reach; eauto.
        * apply IH.
          -- intros k x Hk.
             eapply (fold_sadd_inv (can_reach sy goal)); [exact Hg| |exact Hk].
             intros x0 Hx0. apply in_map_iff in Hx0. destruct Hx0 as (e0 & <- & He0).
             apply filter_In in He0. destruct He0 as [He0 Hc0].
             eapply good_succ_reach; eauto.
          -- intros e0 He0. apply filter_In in He0. apply Hsub. apply He0.
          -- apply filter_In. split; [exact He|]. rewrite Ec. reflexivity.
  Qed.

  (* from the state reached by ANY schedule, some continuation reaches the goal *)
  Theorem ef_sound : forall sy rs goal n,
      check_closed sy rs = true -> check_ef (edges sy rs) goal n = true ->
      forall sc, exists sc', goal (exec sy (sc ++ sc')) = true.
  Proof.
    intros sy rs goal n Hc He sc.
    pose proof (closed_covers_all sy rs Hc sc) as Hin.
    assert (Hi : In (exec sy sc, succs sy (exec sy sc)) (edges sy rs)).
    { unfold edges. apply in_map_iff. exists (exec sy sc). split; auto. }
    assert (Hr : can_reach sy goal (exec sy sc)).
    { destruct (goal (exec sy sc)) eqn:Eg.
      - exists []. cbn. exact Eg.
      - unfold check_ef, ef_stuck in He.
        match type of He with (match ?X with _ => _ end) = true => destruct X eqn:Ex; [|discriminate] end.
        pose proof (ef_iter_sound sy rs goal n
                      (filter (fun e => negb (goal (fst e))) (edges sy rs))
                      (of_list (map fst (filter (fun e => goal (fst e)) (edges sy rs))))) as S.
        rewrite Ex in S.
        destruct (S) with (e := (exec sy sc, succs sy (exec sy sc))) as [R|R].
        + intros k x Hk. unfold of_list in Hk.
          eapply (fold_sadd_inv (can_reach sy goal)); [| |exact Hk].
          * intros k0 x0 H0. unfold sempty in H0. rewrite PositiveMap.gempty in H0. discriminate.
          * intros x0 Hx0. apply in_map_iff in Hx0. destruct Hx0 as (e0 & <- & He0).
            apply filter_In in He0. exists []. cbn. apply He0.
        + intros e0 He0. apply filter_In in He0. apply He0.
        + apply filter_In. split; [exact Hi|]. cbn. rewrite Eg. reflexivity.
        + exact R.
        + contradiction R. }
    destruct Hr as [sc' H]. exists sc'. unfold exec. rewrite exec_from_app. exact H.
  Qed.

  (* ---------- loop-free threads: bounded number of own moves ---------- *)

  (* how often thread th changes its program counter along a schedule *)
  Fixpoint moves (sy : sys) (th : tid) (s : state) (sc : sched) : nat :=
    match sc with
    | [] => 0
    | (t, c) :: r =>
        match nth_error (step sy s t) c with
        | Some s' => (if Nat.eqb (pc_of s th) (pc_of s' th) then 0 else 1) + moves sy th s' r
        | None => moves sy th s r
        end
    end.

  (* on every edge of the closed set the pc of th does not decrease *)
  Definition check_mono (es : list (state * list state)) (th : tid) : bool :=
    forallb (fun e => forallb (fun s' => Nat.leb (pc_of (fst e) th) (pc_of s' th)) (snd e)) es.

  Lemma moves_from : forall sy rs th,
      check_closed sy rs = true -> check_mono (edges sy rs) th = true ->
      forall sc s, In s rs -> moves sy th s sc + pc_of s th <= pc_of (exec_from sy s sc) th.
  Proof.
    intros sy rs th Hc Hm. induction sc as [|[t c] r IH]; intros s Hs; cbn.
    - lia.
    - destruct (nth_error (step sy s t) c) as [s'|] eqn:E.
      + assert (Hs' : In s' (succs sy s)).
        { eapply step_in_succs. eapply nth_error_In. exact E. }
        assert (Hin : In s' rs) by (eapply check_closed_succ; eauto).
        specialize (IH s' Hin).
        unfold check_mono in Hm. rewrite forallb_forall in Hm.
        assert (Hi : In (s, succs sy s) (edges sy rs)).
        { unfold edges. apply in_map_iff. exists s. split; auto. }
        specialize (Hm _ Hi). cbn in Hm. rewrite forallb_forall in Hm.
        specialize (Hm _ Hs'). apply Nat.leb_le in Hm.
        destruct (Nat.eqb (pc_of s th) (pc_of s' th)) eqn:Eq.
        * apply Nat.eqb_eq in Eq. lia.
        * apply Nat.eqb_neq in Eq. lia.
      + apply IH. exact Hs.
  Qed.

  Theorem moves_bounded : forall sy rs th bound,
      check_closed sy rs = true -> check_mono (edges sy rs) th = true ->
      forallb (fun s => Nat.leb (pc_of s th) bound) rs = true ->
      forall sc, moves sy th (init sy) sc <= bound.
  Proof.
    intros sy rs th bound Hc Hm Hb sc.
    pose proof (moves_from sy rs th Hc Hm sc (init sy) (check_closed_init _ _ Hc)) as H.
    pose proof (closed_covers_all sy rs Hc sc) as Hin.
    rewrite forallb_forall in Hb. specialize (Hb _ Hin). apply Nat.leb_le in Hb.
    unfold exec in Hb. lia.
  Qed.

  (* ---------- data races: co-enabled conflicting plain accesses ---------- *)

  Definition plain_acc (sy : sys) (s : state) (t : tid) : option (var * bool) :=
    match instr_at sy s t with
    | IPlainRead v _ => Some (v, false)
    | IPlainWrite v _ _ => Some (v, true)
    | _ => None
    end.

  Definition conflict (a b : option (var * bool)) : bool :=
    match a, b with
    | Some (v, w), Some (v', w') => Nat.eqb v v' && (w || w')
    | _, _ => false
    end.

  (* plain accesses are always enabled, so "both threads stand at them" = "co-enabled" *)
  Definition races (sy : sys) (s : state) : bool :=
    Nat.eqb (panic s) 0 &&
    existsb (fun t => existsb (fun u => Nat.ltb t u && conflict (plain_acc sy s t) (plain_acc sy s u))
                              (tids sy)) (tids sy).

  Definition is_plain (i : instr) : bool :=
    match i with IPlainRead _ _ | IPlainWrite _ _ _ => true | _ => false end.
  Definition no_plain (sy : sys) : bool :=
    forallb (fun c : code => forallb (fun li => negb (is_plain (snd li))) c) (threads sy).

  Lemma no_plain_acc : forall sy, no_plain sy = true -> forall s t, plain_acc sy s t = None.
  Proof.
    intros sy H s t. unfold plain_acc, instr_at.
    destruct (nth_error (threads sy) t) as [c|] eqn:E; [|reflexivity].
    unfold fetch. destruct (nth_error c (pc_of s t)) as [[l i]|] eqn:E2; [|reflexivity].
    cbn. unfold no_plain in H. rewrite forallb_forall in H.
    specialize (H c (nth_error_In _ _ E)). rewrite forallb_forall in H.
    specialize (H (l, i) (nth_error_In _ _ E2)). cbn in H.
    destruct i; cbn in H; try discriminate; reflexivity.
  Qed.

  (* a system without plain-access instructions has no race in any state whatsoever *)
  Theorem no_plain_no_race : forall sy, no_plain sy = true -> forall s, races sy s = false.
  Proof.
    intros sy H s. unfold races.
    destruct (Nat.eqb (panic s) 0); [|reflexivity]. cbn.
    apply not_true_is_false. intros Hc. apply existsb_exists in Hc. destruct Hc as (t & _ & Hc).
    apply existsb_exists in Hc. destruct Hc as (u & _ & Hc).
    rewrite (no_plain_acc sy H s t) in Hc. cbn in Hc. rewrite andb_false_r in Hc. discriminate.
  Qed.

  (* ---------- quiescence ---------- *)

  Definition can_move (sy : sys) (s : state) (t : tid) : bool :=
    match step sy s t with [] => false | _ => true end.
  Definition terminal (sy : sys) (s : state) : bool :=
    forallb (fun t => negb (can_move sy s t)) (tids sy).

  (* ---------- witness search: BFS with parent pointers ---------- *)

  Record pnode := mkPnode { pn_state : state; pn_from : option (positive * tid * nat) }.
  Definition pmap := PositiveMap.t pnode.

  Definition pmem (s : state) (m : pmap) : bool :=
    match PositiveMap.find (key s) m with
    | Some n => state_eqb s (pn_state n)
    | None => false
    end.

  Fixpoint number_from {A} (i : nat) (l : list A) : list (nat * A) :=
    match l with [] => [] | x :: t => (i, x) :: number_from (S i) t end.

  (* successors together with the (thread, choice) that produces them *)
  Definition succs_m (sy : sys) (s : state) : list (tid * nat * state) :=
    flat_map (fun t => map (fun cs => (t, fst cs, snd cs)) (number_from 0 (step sy s t))) (tids sy).

  Definition pvisit (from : positive) (acc : list state * pmap * option state) (goal : state -> bool)
             (m : tid * nat * state) : list state * pmap * option state :=
    let '(fr, seen, found) := acc in
    let '(t, c, s') := m in
    if pmem s' seen then acc
    else (s' :: fr, PositiveMap.add (key s') (mkPnode s' (Some (from, t, c))) seen,
          match found with Some _ => found | None => if goal s' then Some s' else None end).

  Definition pexpand (sy : sys) (goal : state -> bool) (frontier : list state) (seen : pmap)
    : list state * pmap * option state :=
    fold_left (fun acc s => fold_left (fun a m => pvisit (key s) a goal m) (succs_m sy s) acc)
              (rev frontier) ([], seen, None).

  Fixpoint pbfs (sy : sys) (goal : state -> bool) (fuel : nat) (frontier : list state) (seen : pmap)
    : option state * pmap :=
    match frontier with
    | [] => (None, seen)
    | _ =>
        match fuel with
        | 0 => (None, seen)
        | S f =>
            let '(fr, seen', found) := pexpand sy goal frontier seen in
            match found with
            | Some s => (Some s, seen')
            | None => pbfs sy goal f fr seen'
            end
        end
    end.

  Fixpoint rebuild (fuel : nat) (m : pmap) (k : positive) (acc : sched) : sched :=
    match fuel with
    | 0 => acc
    | S f =>
        match PositiveMap.find k m with
        | Some (mkPnode _ (Some (pk, t, c))) => rebuild f m pk ((t, c) :: acc)
        | _ => acc
        end
    end.

  (* a shortest schedule leading to a state that satisfies [goal], if one is found within the fuel;
     the result is never trusted: the theorems re-run [exec] on it *)
  Definition find_path (sy : sys) (goal : state -> bool) (fuel : nat) : option sched :=
    let s0 := init sy in
    if goal s0 then Some []
    else
      match pbfs sy goal fuel [s0] (PositiveMap.add (key s0) (mkPnode s0 None) (PositiveMap.empty pnode)) with
      | (Some s, m) => Some (rebuild fuel m (key s) [])
      | (None, _) => None
      end.

  (* ---------- traces of yield-point labels ---------- *)

  (* A trace event = "a thread has ARRIVED at the code site labelled l": that is what a yield hook
     placed before the statement records.  The hook of thread t runs some time after t's previous
     statement took effect and before t's next statement does, so in a free-running program the
     recorded order of arrivals may lag behind the order of the steps.  Accordingly:
       - a transition s -> s' of the model leaves, for every thread it moved (a rendezvous or a
         `go` moves two), a PENDING arrival at the label of the new program point (none if that
         point is unlabelled);
       - a trace event l consumes a pending arrival at l of some thread;
       - a thread with a pending arrival cannot move;
       - the arrivals at the initial program points are optional (the recording may start later):
         they are dropped when the thread moves on.
     Under a serialising scheduler (one goroutine released at a time) this degenerates to "the
     labels are emitted in step order".
     Implementation: a configuration is a state with one extra variable per thread
     (0 = nothing pending, S (2 * id + opt) = arrival at label id pending) so that the kernel's
     state sets can be reused; [step] never looks at these extra variables. *)
  Variable lid : L -> nat.

  Definition pbase (sy : sys) : nat := length (vars (init sy)).
  Definition pend_of (sy : sys) (c : state) (t : tid) : nat := var_of c (pbase sy + t).
  Definition mandatory (p : nat) : bool := match p with 0 => false | S q => Nat.even q end.
  Definition pend_code (l : L) (optional : bool) : nat := S (2 * lid l + (if optional then 1 else 0)).
  Definition pend_matches (p : nat) (l : L) : bool :=
    match p with 0 => false | S q => Nat.eqb (Nat.div2 q) (lid l) end.

  Definition init_config (sy : sys) : state :=
    let s := init sy in
    mkState (pcs s) (parked s) (closed s)
            (vars s ++ map (fun t => match label_at sy s t with
                                     | Some l => pend_code l true
                                     | None => 0
                                     end) (tids sy))
            (panic s).

  Definition moved (sy : sys) (c c' : state) : list tid :=
    filter (fun t => negb (Nat.eqb (pc_of c t) (pc_of c' t))) (tids sy).

  (* model transitions on configurations *)
  Definition tau_succs (sy : sys) (c : state) : list state :=
    flat_map (fun c' =>
      let ms := moved sy c c' in
      if existsb (fun t => mandatory (pend_of sy c t)) ms then []
      else [fold_left (fun c'' t =>
              set_var c'' (pbase sy + t)
                      (match label_at sy c' t with Some l => pend_code l false | None => 0 end))
              ms c']) (succs sy c).

  Fixpoint tau_close (sy : sys) (fuel : nat) (frontier : list state) (seen : sset) (acc : list state)
    : list state :=
    match frontier with
    | [] => acc
    | _ =>
        match fuel with
        | 0 => acc
        | S f =>
            let ns := fold_left (fun a c => fold_left visit (tau_succs sy c) a) frontier ([], seen) in
            tau_close sy f (fst ns) (snd ns) (fst ns ++ acc)
        end
    end.

  Definition dedup_states (l : list state) : list state * sset := fold_left visit l ([], sempty).

  Definition closure (sy : sys) (fuel : nat) (cs : list state) : list state :=
    let d := dedup_states cs in tau_close sy fuel (fst d) (snd d) (fst d).

  Definition consume (sy : sys) (cs : list state) (l : L) : list state :=
    flat_map (fun c =>
      flat_map (fun t => if pend_matches (pend_of sy c t) l then [set_var c (pbase sy + t) 0] else [])
               (tids sy)) cs.

  Fixpoint feed_all (sy : sys) (fuel : nat) (cs : list state) (tr : list L) : bool :=
    match tr with
    | [] => match cs with [] => false | _ => true end
    | l :: r =>
        match consume sy (closure sy fuel cs) l with
        | [] => false
        | cs' => feed_all sy fuel cs' r
        end
    end.

  (* is the label sequence a possible record (prefix) of a run of the system? *)
  Definition accepts_trace (sy : sys) (fuel : nat) (tr : list L) : bool :=
    feed_all sy fuel [init_config sy] tr.

  Definition leqb (a b : L) : bool := Nat.eqb (lid a) (lid b).

  (* per-thread projection: is the label sequence a path of one thread's control-flow graph
     (ignoring synchronisation)?  Sound for unserialised logs of a single goroutine. *)
  Definition targets (i : instr) : list pc :=
    match i with
    | ISelect cases e =>
        map snd cases ++ match e with SBlock => [] | SDefault d => [d] | STimer p => [p] end
    | IClose _ n | IOnceClose _ _ n | IPlainWrite _ _ n | ISleep n | IGo _ n => [n]
    | IAtomic alts => map snd alts
    | IPlainRead _ br => br
    | IIdle | IExit => []
    end.

  Definition label_matches (c : code) (p : pc) (l : L) : bool :=
    match fst (fetch c p) with Some l' => leqb l l' | None => false end.
  Definition unlabelled (c : code) (p : pc) : bool :=
    match fst (fetch c p) with Some _ => false | None => true end.

  Fixpoint dedup_nat (l : list nat) : list nat :=
    match l with
    | [] => []
    | x :: t => if existsb (Nat.eqb x) t then dedup_nat t else x :: dedup_nat t
    end.

  (* program points reachable from ps through unlabelled points (bounded) *)
  Fixpoint skip_silent (c : code) (fuel : nat) (ps : list pc) : list pc :=
    match fuel with
    | 0 => ps
    | S f =>
        let more := flat_map (fun p => if unlabelled c p then targets (snd (fetch c p)) else []) ps in
        match more with
        | [] => ps
        | _ => dedup_nat (ps ++ skip_silent c f more)
        end
    end.

  Fixpoint cfg_walk (c : code) (ps : list pc) (tr : list L) : bool :=
    match tr with
    | [] => match ps with [] => false | _ => true end
    | l :: r =>
        let here := filter (fun p => label_matches c p l) (skip_silent c (length c) ps) in
        match here with
        | [] => false
        | _ =>
            match r with
            | [] => true
            | _ => cfg_walk c (dedup_nat (flat_map (fun p => targets (snd (fetch c p))) here)) r
            end
        end
    end.

  (* the first label of the trace is the point the thread stands at (or reaches silently) *)
  Definition cfg_accepts (c : code) (start : pc) (tr : list L) : bool := cfg_walk c [start] tr.

End Conc.

Arguments mkSys {L}. Arguments threads {L}. Arguments init {L}.
Arguments tids {L}. Arguments instr_at {L}. Arguments label_at {L}. Arguments step {L}.
Arguments succs {L}. Arguments exec_from {L}. Arguments exec {L}. Arguments reachable {L}.
Arguments reach {L}. Arguments edges {L}. Arguments check_closed {L}.
Arguments moves {L}. Arguments races {L}. Arguments no_plain {L}.
Arguments terminal {L}. Arguments can_move {L}. Arguments find_path {L}.
Arguments accepts_trace {L}. Arguments cfg_accepts {L}. Arguments can_reach {L}.
Arguments fetch {L}. Arguments succs_m {L}. Arguments init_config {L}. Arguments tau_succs {L}.
Arguments closure {L}. Arguments consume {L}.
