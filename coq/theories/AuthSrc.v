(* AuthSrc.v — channel/auth.go authenticateSSH and authenticateTelnet as the source has them on
   this run (C10): ONE round of each loop, evaluated for every combination of what can happen in
   it, is the round of the model's Channel.auth_ssh_loop / auth_telnet_loop: the order of the tests
   (error messages, prompt, password prompt, passphrase / user-name prompt), which credential
   answers which prompt and that it is written redacted, the counting and the bound that turns a
   further prompt into an authentication error, the reset of the buffer after an answer. *)
From Scrapli Require Import Bytes Regex PlatformTypes Generated Channel DecideLang GeneratedSkel.
From Coq Require Import String List Bool Arith.
Import ListNotations.
Open Scope nat_scope.
Open Scope string_scope.

Inductive au_out :=
| UDeadline                      (* return nil: the context is done *)
| UReadErr | UMsgErr | UWriteErr (first : bool)   (* the error, as it is *)
| UIdle                          (* nothing read: sleep, go round *)
| USuccess                       (* &result{b, nil} *)
| UAuthErr (first : bool)        (* authentication error: the prompt was seen once too often *)
| UAnswered (first : bool)       (* the credential was written redacted, followed by a return; the buffer was reset; the count went up *)
| UNothing                       (* no test held: go round with the buffer kept *)
| UBad.

Definition au_out_eqb (a b : au_out) : bool :=
  match a, b with
  | UDeadline, UDeadline | UReadErr, UReadErr | UMsgErr, UMsgErr | UIdle, UIdle | USuccess, USuccess | UNothing, UNothing => true
  | UWriteErr x, UWriteErr y | UAuthErr x, UAuthErr y | UAnswered x, UAnswered y => Bool.eqb x y
  | _, _ => false
  end.

Definition head_is (st : store) (k v : string) : bool :=
  match st with (k', v') :: _ => String.eqb k k' && String.eqb v v' | [] => false end.

(* ---------- ssh ---------- *)
(* first = the password prompt / credential, second = the key passphrase *)
Definition as_env (done read_ok nb_nil msg_ok prompt m1 x1 write_ok m2 x2 : bool) : denv :=
  mkEnvX (fun _ => false) (fun _ _ => false) (fun _ => "") (fun _ => None)
         (fun st a b =>
            if String.eqb a "err" && String.eqb b "nil" then
              if head_is st "!call" "c.Read()" then Some (Some read_ok)
              else if head_is st "err" "c.sshMessageHandler(b)" then Some (Some msg_ok)
              else if head_is st "err" "c.WriteAndReturn(p, true)" || head_is st "err" "c.WriteAndReturn(pp, true)" then Some (Some write_ok)
              else Some None
            else if String.eqb a "nb" && String.eqb b "nil" then
              (if head_is st "!call" "c.Read()" then Some (Some nb_nil) else Some None)
            else None)
         (fun x => if String.eqb x "forever" then 1 else O)
         (fun st a =>
            let appended := match sget st "b" with Some "append(b, nb...)" => true | _ => false end in
            if String.eqb a "ready <-ctx.Done()" then Some (Some done)
            else if String.eqb a "c.PromptPattern.Match(b)" then (if appended then Some (Some prompt) else Some None)
            else if String.eqb a "c.PasswordPattern.Match(b)" then (if appended then Some (Some m1) else Some None)
            else if String.eqb a "c.PassphrasePattern.Match(b)" then (if appended then Some (Some m2) else Some None)
            else if String.eqb a "pCount > passwordSeenMax" then (if head_is st "!call" "pCount++" then Some (Some x1) else Some None)
            else if String.eqb a "ppCount > passphraseSeenMax" then (if head_is st "!call" "ppCount++" then Some (Some x2) else Some None)
            else None).

Definition answered (st : store) (cred count : string) : bool :=
  match st with
  | ("b", "[]byte{}") :: ("err", w) :: ("!call", c) :: _ => String.eqb w ("c.WriteAndReturn(" ++ cred ++ ", true)") && String.eqb c count
  | _ => false
  end.

Definition as_run (done read_ok nb_nil msg_ok prompt m1 x1 write_ok m2 x2 : bool) : au_out :=
  match DecideLang.exec 40 (as_env done read_ok nb_nil msg_ok prompt m1 x1 write_ok m2 x2) auth_ssh_code [] with
  | Returned st v =>
      if String.eqb v "nil" then (match calls_of st with [] => UDeadline | _ => UBad end)
      else if String.eqb v "&result{b, nil}" then USuccess
      else if String.eqb v "&result{ nil, fmt.Errorf( ""%w: password prompt seen multiple times, assuming authentication failed"", util.ErrAuthError, ), }"
           then (if head_is st "!call" "pCount++" then UAuthErr true else UBad)
      else if String.eqb v "&result{ nil, fmt.Errorf( ""%w: private key passphrase prompt seen multiple times,""+ "" assuming authentication failed"", util.ErrAuthError, ), }"
           then (if head_is st "!call" "ppCount++" then UAuthErr false else UBad)
      else if String.eqb v "&result{nil, err}" then
        if head_is st "!call" "c.Read()" then UReadErr
        else if head_is st "err" "c.sshMessageHandler(b)" then UMsgErr
        else if head_is st "err" "c.WriteAndReturn(p, true)" then UWriteErr true
        else if head_is st "err" "c.WriteAndReturn(pp, true)" then UWriteErr false
        else UBad
      else UBad
  | Running st =>
      (* the round ended without a return: idle, answered, or nothing *)
      if head_is st "!call" "time.Sleep(c.ReadDelay)" then UIdle
      else if answered st "p" "pCount++" then UAnswered true
      else if answered st "pp" "ppCount++" then UAnswered false
      else if head_is st "err" "c.sshMessageHandler(b)" then UNothing
      else UBad
  | _ => UBad
  end.

(* the order of the tests, as in the model *)
Definition as_expected (done read_ok nb_nil msg_ok prompt m1 x1 write_ok m2 x2 : bool) : au_out :=
  if done then UDeadline
  else if negb read_ok then UReadErr
  else if nb_nil then UIdle
  else if negb msg_ok then UMsgErr
  else if prompt then USuccess
  else if m1 then (if x1 then UAuthErr true else if write_ok then UAnswered true else UWriteErr true)
  else if m2 then (if x2 then UAuthErr false else if write_ok then UAnswered false else UWriteErr false)
  else UNothing.

Definition bools : list bool := [true; false].
Definition as_table_ok : bool :=
  forallb (fun a => forallb (fun b => forallb (fun c => forallb (fun d => forallb (fun e =>
  forallb (fun f => forallb (fun g => forallb (fun h => forallb (fun i => forallb (fun j =>
    au_out_eqb (as_run a b c d e f g h i j) (as_expected a b c d e f g h i j))
  bools) bools) bools) bools) bools) bools) bools) bools) bools) bools.

Definition auth_ssh_known : list string :=
  ["ready <-ctx.Done()"; "err == nil"; "nb == nil"; "c.PromptPattern.Match(b)"; "c.PasswordPattern.Match(b)";
   "pCount > passwordSeenMax"; "c.PassphrasePattern.Match(b)"; "ppCount > passphraseSeenMax"].

(* ---------- telnet ---------- *)
(* first = the user-name prompt / credential, second = the password *)
Definition at_env (read_ok nb_nil prompt m1 x1 write_ok m2 x2 : bool) : denv :=
  mkEnvX (fun _ => false) (fun _ _ => false) (fun _ => "") (fun _ => None)
         (fun st a b =>
            let readcall := "c.ReadUntilAnyPrompt( ctx, []*regexp.Regexp{c.PromptPattern, c.UsernamePattern, c.PasswordPattern}, )" in
            if String.eqb a "err" && String.eqb b "nil" then
              if head_is st "!call" readcall then Some (Some read_ok)
              else if head_is st "err" "c.WriteAndReturn(u, true)" || head_is st "err" "c.WriteAndReturn(p, true)" then Some (Some write_ok)
              else Some None
            else if String.eqb a "nb" && String.eqb b "nil" then
              (if head_is st "!call" readcall then Some (Some nb_nil) else Some None)
            else None)
         (fun x => if String.eqb x "forever" then 1 else O)
         (fun st a =>
            let appended := match sget st "b" with Some "append(b, nb...)" => true | _ => false end in
            if String.eqb a "c.PromptPattern.Match(b)" then (if appended then Some (Some prompt) else Some None)
            else if String.eqb a "c.UsernamePattern.Match(b)" then (if appended then Some (Some m1) else Some None)
            else if String.eqb a "c.PasswordPattern.Match(b)" then (if appended then Some (Some m2) else Some None)
            else if String.eqb a "uCount > usernameSeenMax" then (if head_is st "!call" "uCount++" then Some (Some x1) else Some None)
            else if String.eqb a "pCount > passwordSeenMax" then (if head_is st "!call" "pCount++" then Some (Some x2) else Some None)
            else None).

(* telnet resets the buffer BEFORE counting and answering *)
Definition answered_t (st : store) (cred count : string) : bool :=
  match st with
  | ("err", w) :: ("!call", c) :: ("b", "[]byte{}") :: _ => String.eqb w ("c.WriteAndReturn(" ++ cred ++ ", true)") && String.eqb c count
  | _ => false
  end.

Definition at_run (read_ok nb_nil prompt m1 x1 write_ok m2 x2 : bool) : au_out :=
  match DecideLang.exec 40 (at_env read_ok nb_nil prompt m1 x1 write_ok m2 x2) auth_telnet_code [] with
  | Returned st v =>
      if String.eqb v "&result{b, nil}" then USuccess
      else if String.eqb v "&result{ nil, fmt.Errorf( ""%w: username prompt seen multiple times, assuming authentication failed"", util.ErrAuthError, ), }"
           then (if head_is st "!call" "uCount++" then UAuthErr true else UBad)
      else if String.eqb v "&result{ nil, fmt.Errorf( ""%w: password prompt seen multiple times, assuming authentication failed"", util.ErrAuthError, ), }"
           then (if head_is st "!call" "pCount++" then UAuthErr false else UBad)
      else if String.eqb v "&result{nil, err}" then
        if head_is st "err" "c.WriteAndReturn(u, true)" then UWriteErr true
        else if head_is st "err" "c.WriteAndReturn(p, true)" then UWriteErr false
        else match st with ("!call", _) :: _ => UReadErr | _ => UBad end
      else UBad
  | Running st =>
      if head_is st "!call" "time.Sleep(c.ReadDelay)" then UIdle
      else if answered_t st "u" "uCount++" then UAnswered true
      else if answered_t st "p" "pCount++" then UAnswered false
      else if head_is st "b" "append(b, nb...)" then UNothing
      else UBad
  | _ => UBad
  end.

Definition at_expected (read_ok nb_nil prompt m1 x1 write_ok m2 x2 : bool) : au_out :=
  if negb read_ok then UReadErr
  else if nb_nil then UIdle
  else if prompt then USuccess
  else if m1 then (if x1 then UAuthErr true else if write_ok then UAnswered true else UWriteErr true)
  else if m2 then (if x2 then UAuthErr false else if write_ok then UAnswered false else UWriteErr false)
  else UNothing.

Definition at_table_ok : bool :=
  forallb (fun b => forallb (fun c => forallb (fun e =>
  forallb (fun f => forallb (fun g => forallb (fun h => forallb (fun i => forallb (fun j =>
    au_out_eqb (at_run b c e f g h i j) (at_expected b c e f g h i j))
  bools) bools) bools) bools) bools) bools) bools) bools.

Definition auth_telnet_known : list string :=
  ["err == nil"; "nb == nil"; "c.PromptPattern.Match(b)"; "c.UsernamePattern.Match(b)"; "uCount > usernameSeenMax";
   "c.PasswordPattern.Match(b)"; "pCount > passwordSeenMax"].

(* THE TIE (source side): 1024 + 256 rounds evaluated; every test known *)
Theorem auth_is_source :
  as_table_ok = true /\ at_table_ok = true
  /\ tests_known auth_ssh_code auth_ssh_known = true /\ tests_known auth_telnet_code auth_telnet_known = true.
Proof. repeat split; vm_compute; reflexivity. Qed.

(* the model's rounds, in the same terms (the read, its deadline and its losses are the Until) *)
Lemma auth_ssh_round : forall f cfg ap pw pp b pc ppc,
  auth_ssh_loop (S f) cfg ap pw pp b pc ppc
  = Until (CSshAuth b [c_prompt cfg; ap_pass ap; ap_passphrase ap])
      (fun nb =>
         let b := (b ++ nb)%list in
         if ssh_error b then Fail EConnection
         else if rx_match (c_prompt cfg) b then Ret b
         else if rx_match (ap_pass ap) b then
                if Nat.ltb password_seen_max (S pc) then Fail EAuth
                else Write pw true (Write (c_ret cfg) false (auth_ssh_loop f cfg ap pw pp []%list (S pc) ppc))
         else if rx_match (ap_passphrase ap) b then
                if Nat.ltb passphrase_seen_max (S ppc) then Fail EAuth
                else Write pp true (Write (c_ret cfg) false (auth_ssh_loop f cfg ap pw pp []%list pc (S ppc)))
         else auth_ssh_loop f cfg ap pw pp b pc ppc)
      Fail.
Proof. reflexivity. Qed.

Lemma auth_telnet_round : forall f cfg ap user pw b uc pc,
  auth_telnet_loop (S f) cfg ap user pw b uc pc
  = Until (CAnyPrompt [c_prompt cfg; ap_user ap; ap_pass ap])
      (fun nb =>
         let b := (b ++ nb)%list in
         if rx_match (c_prompt cfg) b then Ret b
         else if rx_match (ap_user ap) b then
                if Nat.ltb username_seen_max (S uc) then Fail EAuth
                else Write user true (Write (c_ret cfg) false (auth_telnet_loop f cfg ap user pw []%list (S uc) pc))
         else if rx_match (ap_pass ap) b then
                if Nat.ltb password_seen_max (S pc) then Fail EAuth
                else Write pw true (Write (c_ret cfg) false (auth_telnet_loop f cfg ap user pw []%list uc (S pc)))
         else auth_telnet_loop f cfg ap user pw b uc pc)
      Fail.
Proof. reflexivity. Qed.
