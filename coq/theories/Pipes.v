(* Pipes.v — the read/write wrapper logic of the three built-in transports (C16):
     transport/system.go   System.Read / System.Write      (pty master fd)
     transport/standard.go Standard.Read / Standard.Write  (crypto/ssh session pipes)
     transport/telnet.go   Telnet.Read / Telnet.Write      (initial buffer first, then the socket)

   The operating system (pty, ssh channel, tcp socket) is an ORACLE: a list of "kernel deliveries".
   One call of the OS-level read with a buffer of n bytes consumes the head delivery: a data
   delivery d fills the first [min n |d|] bytes of the buffer, reports that count, and leaves
   [skipn n d] at the head when d was longer than the buffer; an error delivery reports the error
   with count 0.  Every way the kernel may cut the peer's byte stream into reads is one such list,
   and the theorems quantify over all lists, so nothing is assumed about segmentation.  An empty
   oracle means "nothing more will ever arrive": the read blocks (what a blocked read does when the
   transport is closed is measured at run time, it is not a property of the wrapper code).

   Sizes are [nat]; bytes are [N] as everywhere else. *)
From Scrapli Require Import Bytes.
Open Scope nat_scope.

Inductive oserr := EEof | EIo.
Definition delivery := (bytes + oserr)%type.

(* what the OS-level Read(b) call reports: the buffer after the call and the count, or the error *)
Inductive osres :=
| OsData (buf : bytes) (k : nat)
| OsErr (buf : bytes) (e : oserr)
| OsBlock.

(* b := make([]byte, n) — zero filled; the kernel overwrites a prefix *)
Definition fill (n : nat) (got : bytes) : bytes := got ++ repeat 0%N (n - length got).

Definition os_read (n : nat) (st : list delivery) : osres * list delivery :=
  match st with
  | [] => (OsBlock, [])
  | inr e :: t => (OsErr (fill n []) e, t)
  | inl d :: t =>
      let got := firstn n d in
      (OsData (fill n got) (length got),
       match skipn n d with [] => t | rest => inl rest :: t end)
  end.

(* ---------- transport state ---------- *)
Record pipe := mkPipe {
  p_init : bytes;               (* Telnet.initialBuf: data bytes buffered while Open negotiated options *)
  p_stream : list delivery;     (* what the OS will deliver to this end, in order *)
  p_inbox : bytes               (* what the peer has received from this end *)
}.

(* what a transport's Read(n) returns: (b, nil) | (b, err) | never returns *)
Inductive rres :=
| ROk (b : bytes)
| RErr (b : bytes) (e : oserr)
| RBlock.

Definition with_stream (s : pipe) (st : list delivery) : pipe := mkPipe (p_init s) st (p_inbox s).

(* System.Read:  b := make([]byte, n); n, err := t.fd.Read(b); if err != nil { return nil, err };
                 return b[0:n], nil *)
Definition system_read (n : nat) (s : pipe) : rres * pipe :=
  match os_read n (p_stream s) with
  | (OsData buf k, st) => (ROk (firstn k buf), with_stream s st)
  | (OsErr _ e, st) => (RErr [] e, with_stream s st)
  | (OsBlock, _) => (RBlock, s)
  end.

(* Standard.Read: the same statements over t.reader (the session's stdout pipe) *)
Definition standard_read (n : nat) (s : pipe) : rres * pipe :=
  match os_read n (p_stream s) with
  | (OsData buf k, st) => (ROk (firstn k buf), with_stream s st)
  | (OsErr _ e, st) => (RErr [] e, with_stream s st)
  | (OsBlock, _) => (RBlock, s)
  end.

(* Telnet.Read:  if len(t.initialBuf) > 0 { b := t.initialBuf; t.initialBuf = nil; return b, nil }
                 b := make([]byte, n); n, err := t.c.Read(b); return b[0:n], err *)
Definition telnet_read (n : nat) (s : pipe) : rres * pipe :=
  match p_init s with
  | _ :: _ => (ROk (p_init s), mkPipe [] (p_stream s) (p_inbox s))
  | [] =>
      match os_read n (p_stream s) with
      | (OsData buf k, st) => (ROk (firstn k buf), with_stream s st)
      | (OsErr buf e, st) => (RErr (firstn 0 buf) e, with_stream s st)
      | (OsBlock, _) => (RBlock, s)
      end
  end.

Inductive tkind := KSystem | KStandard | KTelnet.

Definition tr_read (k : tkind) : nat -> pipe -> rres * pipe :=
  match k with KSystem => system_read | KStandard => standard_read | KTelnet => telnet_read end.

(* Write(b): _, err := <fd|writer|conn>.Write(b); return err — all three underlying writers write
   the whole slice or report an error (os.File, ssh channel writer, net.Conn); the error-free path
   appends b to what the peer receives *)
Definition tr_write (k : tkind) (b : bytes) (s : pipe) : pipe :=
  mkPipe (p_init s) (p_stream s) (p_inbox s ++ b).

(* ---------- sessions: any interleaving of reads (any sizes) and writes ---------- *)
Inductive op := ORead (n : nat) | OWrite (b : bytes).

Fixpoint run_ops (k : tkind) (ops : list op) (s : pipe) : list rres * pipe :=
  match ops with
  | [] => ([], s)
  | OWrite b :: t => run_ops k t (tr_write k b s)
  | ORead n :: t =>
      match tr_read k n s with
      | (RBlock, _) => ([RBlock], s)           (* the caller is stuck in this read *)
      | (r, s') => let '(rs, s'') := run_ops k t s' in (r :: rs, s'')
      end
  end.

Definition res_data (r : rres) : bytes :=
  match r with ROk b => b | RErr b _ => b | RBlock => [] end.

Definition returned (rs : list rres) : bytes := concat (map res_data rs).

Definition stream_data (st : list delivery) : bytes :=
  concat (map (fun d : delivery => match d with inl b => b | inr _ => [] end) st).

(* the bytes this end has still to see: (telnet: the initial buffer, then) everything undelivered *)
Definition pending (k : tkind) (s : pipe) : bytes :=
  (match k with KTelnet => p_init s | _ => [] end) ++ stream_data (p_stream s).

Definition writes_of (ops : list op) : list bytes :=
  flat_map (fun o => match o with OWrite b => [b] | ORead _ => [] end) ops.

Definition blocked (rs : list rres) : bool :=
  existsb (fun r => match r with RBlock => true | _ => false end) rs.

(* ---------- runner hook ----------
   c16 <kind> <initial hex | -> <deliveries> <sizes>  ->  <results> R<remaining hex>
   deliveries: L:hex:hex..., an item "." is an EOF delivery, "!" any other error;
   sizes: decimal read sizes separated by commas ("-" = none);
   results: L:<hex> per successful read, ":." / ":!" for a read that returned the error (followed by
   the hex of the bytes returned along with it, always empty), ":blocked" for a read that would not
   return. *)
Definition COLON : N := 58.
Definition COMMA : N := 44.
Definition CH_L : N := 76.
Definition DOT : N := 46.
Definition BANG : N := 33.

Definition parse_delivery (f : bytes) : delivery :=
  match f with
  | [c] => if c =? DOT then inr EEof else if c =? BANG then inr EIo else inl (of_hex f)
  | _ => inl (of_hex f)
  end%N.

Definition parse_deliveries (f : bytes) : list delivery :=
  match f with
  | l :: c :: rest => if ((l =? CH_L) && (c =? COLON))%N then map parse_delivery (split_on COLON rest) else []
  | _ => []
  end.

Definition parse_sizes (f : bytes) : list nat :=
  match f with
  | [45%N] => []
  | [] => []
  | _ => map (fun x => match parse_dec x with Some n => N.to_nat n | None => O end) (split_on COMMA f)
  end.

Definition parse_kind (f : bytes) : tkind :=
  if beqb f (bs "telnet") then KTelnet else if beqb f (bs "standard") then KStandard else KSystem.

Definition emit_res (r : rres) : bytes :=
  match r with
  | ROk b => COLON :: to_hex b
  | RErr b EEof => COLON :: DOT :: to_hex b
  | RErr b EIo => COLON :: BANG :: to_hex b
  | RBlock => COLON :: bs "blocked"
  end.

Definition run_c16 (fs : list bytes) : list bytes :=
  let k := parse_kind (nth 1 fs []) in
  let ini := nth 2 fs [] in
  let s := mkPipe (if beqb ini [45%N] then [] else of_hex ini) (parse_deliveries (nth 3 fs [])) [] in
  let '(rs, s') := run_ops k (map ORead (parse_sizes (nth 4 fs []))) s in
  [CH_L :: concat (map emit_res rs); 82%N :: to_hex (pending k s')].
