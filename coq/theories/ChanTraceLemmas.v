(* ChanTraceLemmas.v — proofs about program-level traces (ChanTrace.v):
   A  traces are sound for every execution of the interpreter ([run_has_trace]);
   B  C11 redaction as noninterference ([sim_trace], [sim_run_sfeed], instances, [secret_absent]);
   C  C12 secret only at its prompt / pacing;
   D  C18 callbacks;
   E  C10 login;
   F  C05/C06 timeouts and loss. *)
From Scrapli Require Import Bytes BytesLemmas Regex PlatformTypes Generated Channel Network Session ChanTrace.
Open Scope N_scope.

(* the matching machinery stays opaque in the general proofs *)
#[local] Opaque rx_match rx_find rx_remove_all rx_search cond_holds process_out contains ssh_error
  roughly_contains process_read_buf to_lower print_dec.

(* ---------- small facts on byte strings ---------- *)
Lemma beqb_true_eq (a b : bytes) : beqb a b = true -> a = b.
Proof.
  revert b; induction a as [|x a IH]; destruct b as [|y b]; simpl; intros H; try discriminate; auto.
  apply andb_true_iff in H; destruct H as [H1 H2]. apply N.eqb_eq in H1. f_equal; auto.
Qed.
Lemma beqb_refl (a : bytes) : beqb a a = true.
Proof. induction a; simpl; auto. rewrite N.eqb_refl; auto. Qed.
Lemma beqb_false_neq (a b : bytes) : beqb a b = false <-> a <> b.
Proof.
  split.
  - intros H E; subst. rewrite beqb_refl in H; discriminate.
  - intros H. destruct (beqb a b) eqn:E; auto. apply beqb_true_eq in E; contradiction.
Qed.
Lemma beqb_neq (a b : bytes) : a <> b -> beqb a b = false.
Proof. apply beqb_false_neq. Qed.

(* ====================================================================== *)
(* A.  Traces are sound for executions                                     *)
(* ====================================================================== *)

Section Residual.
  Variable cfg : chan_cfg.
  Context {R : Type}.

  (* following [t] from [p] leads to [q] *)
  Inductive residual : prog R -> list obs -> prog R -> Prop :=
  | rs_nil p : residual p [] p
  | rs_write b r k t q : residual k t q -> residual (Write b r k) (OWrite b r :: t) q
  | rs_note tg d k t q : residual k t q -> residual (Note tg d k) (ONote tg d :: t) q
  | rs_requeue b k t q : residual k t q -> residual (Requeue b k) (ORequeue b :: t) q
  | rs_read c k h rb t q : cond_holds cfg c rb = true -> residual (k rb) t q -> residual (Until c k h) (ORead c rb :: t) q
  | rs_err c k h e t q : residual (h e) t q -> residual (Until c k h) (OErr c e :: t) q.

  Lemma residual_app p t q t' q' : residual p t q -> residual q t' q' -> residual p (t ++ t') q'.
  Proof. induction 1; simpl; intros; auto; constructor; auto. Qed.

  Lemma residual_ptrace p t q : residual p t q -> ptrace cfg p t.
  Proof. induction 1; constructor; auto. Qed.

  Lemma residual_ptrace_app p t q t' : residual p t q -> ptrace cfg q t' -> ptrace cfg p (t ++ t').
  Proof. induction 1; simpl; intros; auto; constructor; auto. Qed.

  Lemma residual_ctrace_app p t q t' o : residual p t q -> ctrace cfg q t' o -> ctrace cfg p (t ++ t') o.
  Proof. induction 1; simpl; intros; auto; constructor; auto. Qed.

  Lemma residual_ret p t r : residual p t (Ret r) -> ctrace cfg p t (inl r).
  Proof. intros H. rewrite <- (app_nil_r t). eapply residual_ctrace_app; eauto. constructor. Qed.

  Lemma residual_fail p t e : residual p t (Fail e) -> ctrace cfg p t (inr e).
  Proof. intros H. rewrite <- (app_nil_r t). eapply residual_ctrace_app; eauto. constructor. Qed.

  Lemma ctrace_ptrace (p : prog R) t o : ctrace cfg p t o -> ptrace cfg p t.
  Proof. induction 1; constructor; auto. Qed.

  (* every prefix of a path is a residual *)
  Lemma ptrace_residual p t : ptrace cfg p t -> exists q, residual p t q.
  Proof.
    induction 1.
    - eexists; constructor.
    - destruct IHptrace as [q Hq]; eexists; constructor; eauto.
    - destruct IHptrace as [q Hq]; eexists; constructor; eauto.
    - destruct IHptrace as [q Hq]; eexists; constructor; eauto.
    - destruct IHptrace as [q Hq]; eexists; constructor; eauto.
    - destruct IHptrace as [q Hq]; eexists; apply rs_err; eauto.
  Qed.
End Residual.

Lemma writes_of_app a b : writes_of (a ++ b) = writes_of a ++ writes_of b.
Proof. unfold writes_of. apply flat_map_app. Qed.
Lemma notes_of_app a b : notes_of (a ++ b) = notes_of a ++ notes_of b.
Proof. unfold notes_of. apply flat_map_app. Qed.
Lemma visible_app a b : visible (a ++ b) = visible a ++ visible b.
Proof. unfold visible. apply flat_map_app. Qed.

(* the only errors the interpreter ever hands to a read-until *)
Definition env_ok (o : obs) : Prop :=
  match o with OErr _ e => e = ETimeout \/ e = EConnection \/ e = ETransport | _ => True end.

(* settling notes follows a trace of notes only *)
Lemma skip_notes_spec cfg R (q : prog R) : forall notes,
  exists tn, residual cfg q tn (fst (skip_notes R q notes))
             /\ snd (skip_notes R q notes) = notes ++ notes_of tn /\ writes_of tn = []
             /\ Forall env_ok tn.
Proof.
  induction q; intros notes; simpl;
    try (exists []; simpl; rewrite app_nil_r; repeat split; constructor).
  destruct (IHq (notes ++ [(tag, data)])) as [tn [H1 [H2 [H3 H4]]]].
  exists (ONote tag data :: tn). split; [constructor; auto|]. split; [|split; auto].
  - rewrite H2. simpl. rewrite <- app_assoc. reflexivity.
  - constructor; simpl; auto.
Qed.

Section Soundness.
  Variable D : Type.
  Variable feed : D -> bytes -> D * bytes.
  Variable cfg : chan_cfg.
  Variable R : Type.

  Definition tr_inv (p : prog R) (s : @sys D R) : Prop :=
    exists t, residual cfg p t (s_pc s) /\ s_wlog s = writes_of t /\ s_notes s = notes_of t
              /\ Forall env_ok t.

  Lemma set_pc_inv (p : prog R) (s : @sys D R) (q : prog R) t :
    residual cfg p t q -> s_wlog s = writes_of t -> s_notes s = notes_of t -> Forall env_ok t ->
    tr_inv p (set_pc s q).
  Proof.
    intros Hr Hw Hn He. unfold set_pc.
    destruct (skip_notes_spec cfg R q (s_notes s)) as [tn [H1 [H2 [H3 H4]]]].
    destruct (skip_notes R q (s_notes s)) as [p' n'] eqn:E. simpl in *.
    exists (t ++ tn). simpl. split; [eapply residual_app; eauto|].
    rewrite writes_of_app, notes_of_app, H3, app_nil_r, H2, Hn. repeat split; auto.
    apply Forall_app; auto.
  Qed.

  Lemma init_inv (p : prog R) d start : tr_inv p (init_sys d start p).
  Proof. unfold init_sys. eapply set_pc_inv with (t := []); simpl; auto. constructor. Qed.

  Lemma env_ok_snoc t o : Forall env_ok t -> env_ok o -> Forall env_ok (t ++ [o]).
  Proof. intros. apply Forall_app; split; auto. Qed.

  Lemma step_inv (p : prog R) s e : tr_inv p s -> tr_inv p (step feed cfg s e).
  Proof.
    intros [t [Hr [Hw [Hn He]]]].
    assert (Hsame : tr_inv p s) by (exists t; auto).
    destruct e; simpl.
    - (* Rd *)
      destruct (s_reader s); auto; destruct (s_pending s); auto; exists t; simpl; auto.
    - (* Op *)
      destruct (s_pc s) as [r|e|b red k|c k h|tg d k|b k] eqn:Epc; auto.
      + destruct (feed (s_dev s) b) as [d' out].
        eapply set_pc_inv with (t := t ++ [OWrite b red]).
        * eapply residual_app; eauto. constructor. constructor.
        * simpl. rewrite writes_of_app, Hw. reflexivity.
        * simpl. rewrite notes_of_app, Hn. simpl. rewrite ?app_nil_r; auto.
        * apply env_ok_snoc; simpl; auto.
      + destruct (s_reader s).
        * destruct (s_queue s) as [|chunk q']; auto.
          destruct (cond_holds cfg c (s_acc s ++ chunk)) eqn:Ec.
          -- eapply set_pc_inv with (t := t ++ [ORead c (s_acc s ++ chunk)]).
             ++ eapply residual_app; eauto. constructor; auto. constructor.
             ++ simpl. rewrite writes_of_app, Hw. simpl. rewrite ?app_nil_r; auto.
             ++ simpl. rewrite notes_of_app, Hn. simpl. rewrite ?app_nil_r; auto.
             ++ apply env_ok_snoc; simpl; auto.
          -- exists t; simpl. auto.
        * eapply set_pc_inv with (t := t ++ [OErr c EConnection]).
          ++ eapply residual_app; eauto. apply rs_err. constructor.
          ++ simpl. rewrite writes_of_app, Hw. simpl. rewrite ?app_nil_r; auto.
          ++ simpl. rewrite notes_of_app, Hn. simpl. rewrite ?app_nil_r; auto.
          ++ apply env_ok_snoc; simpl; auto.
        * eapply set_pc_inv with (t := t ++ [OErr c ETransport]).
          ++ eapply residual_app; eauto. apply rs_err. constructor.
          ++ simpl. rewrite writes_of_app, Hw. simpl. rewrite ?app_nil_r; auto.
          ++ simpl. rewrite notes_of_app, Hn. simpl. rewrite ?app_nil_r; auto.
          ++ apply env_ok_snoc; simpl; auto.
      + eapply set_pc_inv with (t := t ++ [ORequeue b]).
        * eapply residual_app; eauto. constructor. constructor.
        * simpl. rewrite writes_of_app, Hw. simpl. rewrite ?app_nil_r; auto.
        * simpl. rewrite notes_of_app, Hn. simpl. rewrite ?app_nil_r; auto.
        * apply env_ok_snoc; simpl; auto.
    - (* Deadline *)
      destruct (s_pc s) as [r|e|b red k|c k h|tg d k|b k] eqn:Epc; auto.
      eapply set_pc_inv with (t := t ++ [OErr c ETimeout]).
      ++ eapply residual_app; eauto. apply rs_err. constructor.
      ++ simpl. rewrite writes_of_app, Hw. simpl. rewrite ?app_nil_r; auto.
      ++ simpl. rewrite notes_of_app, Hn. simpl. rewrite ?app_nil_r; auto.
      ++ apply env_ok_snoc; simpl; auto.
    - exists t; simpl; auto.
    - destruct (s_reader s); auto; exists t; simpl; auto.
  Qed.

  Lemma run_inv (p : prog R) sched : forall s, tr_inv p s -> tr_inv p (run feed cfg sched s).
  Proof.
    induction sched as [|e l IH]; simpl; intros s H; auto.
    apply IH. apply step_inv; auto.
  Qed.
End Soundness.

(* the bridge, with the extra fact that the errors in the trace are the environment's *)
Theorem run_has_trace_env :
  forall D (feed : D -> bytes -> D * bytes) cfg R (p : prog R) d start sched,
    let st := run feed cfg sched (init_sys d start p) in
    exists t, ptrace cfg p t /\ s_wlog st = writes_of t /\ s_notes st = notes_of t
              /\ (forall r, outcome st = Some r -> ctrace cfg p t r) /\ Forall env_ok t.
Proof.
  intros D feed cfg R p d start sched st.
  destruct (run_inv D feed cfg R p sched _ (init_inv D cfg R p d start)) as [t [Hr [Hw [Hn He]]]].
  fold st in Hr, Hw, Hn.
  exists t. split; [eapply residual_ptrace; eauto|]. split; auto. split; auto. split; auto.
  intros r Ho. unfold outcome in Ho.
  destruct (s_pc st) eqn:E; inversion Ho; subst.
  - apply residual_ret; auto.
  - apply residual_fail; auto.
Qed.

Theorem run_has_trace :
  forall D (feed : D -> bytes -> D * bytes) cfg R (p : prog R) d start sched,
    let st := run feed cfg sched (init_sys d start p) in
    exists t, ptrace cfg p t /\ s_wlog st = writes_of t /\ s_notes st = notes_of t
              /\ (forall r, outcome st = Some r -> ctrace cfg p t r).
Proof.
  intros D feed cfg R p d start sched st.
  destruct (run_has_trace_env D feed cfg R p d start sched) as [t [H1 [H2 [H3 [H4 _]]]]].
  exists t. auto.
Qed.

(* ====================================================================== *)
(* inversion of traces (used everywhere below)                             *)
(* ====================================================================== *)
Section Inv.
  Variable cfg : chan_cfg.
  Context {R : Type}.
  Implicit Types (p k : prog R) (t : list obs).

  Lemma ptrace_ret_inv r t : ptrace cfg (Ret r : prog R) t -> t = [].
  Proof. inversion 1; auto. Qed.
  Lemma ptrace_fail_inv e t : ptrace cfg (Fail e : prog R) t -> t = [].
  Proof. inversion 1; auto. Qed.
  Lemma ptrace_write_inv b r k t : ptrace cfg (Write b r k) t ->
    t = [] \/ exists t', t = OWrite b r :: t' /\ ptrace cfg k t'.
  Proof. inversion 1; subst; eauto. Qed.
  Lemma ptrace_note_inv tg d k t : ptrace cfg (Note tg d k) t ->
    t = [] \/ exists t', t = ONote tg d :: t' /\ ptrace cfg k t'.
  Proof. inversion 1; subst; eauto. Qed.
  Lemma ptrace_requeue_inv b k t : ptrace cfg (Requeue b k) t ->
    t = [] \/ exists t', t = ORequeue b :: t' /\ ptrace cfg k t'.
  Proof. inversion 1; subst; eauto. Qed.
  Lemma ptrace_until_inv c (k : bytes -> prog R) h t : ptrace cfg (Until c k h) t ->
    t = [] \/ (exists rb t', t = ORead c rb :: t' /\ cond_holds cfg c rb = true /\ ptrace cfg (k rb) t')
    \/ (exists e t', t = OErr c e :: t' /\ ptrace cfg (h e) t').
  Proof. inversion 1; subst; eauto 8. Qed.

  Lemma ctrace_ret_inv r t o : ctrace cfg (Ret r : prog R) t o -> t = [] /\ o = inl r.
  Proof. inversion 1; auto. Qed.
  Lemma ctrace_fail_inv e t o : ctrace cfg (Fail e : prog R) t o -> t = [] /\ o = inr e.
  Proof. inversion 1; auto. Qed.
  Lemma ctrace_write_inv b r k t o : ctrace cfg (Write b r k) t o ->
    exists t', t = OWrite b r :: t' /\ ctrace cfg k t' o.
  Proof. inversion 1; subst; eauto. Qed.
  Lemma ctrace_note_inv tg d k t o : ctrace cfg (Note tg d k) t o ->
    exists t', t = ONote tg d :: t' /\ ctrace cfg k t' o.
  Proof. inversion 1; subst; eauto. Qed.
  Lemma ctrace_requeue_inv b k t o : ctrace cfg (Requeue b k) t o ->
    exists t', t = ORequeue b :: t' /\ ctrace cfg k t' o.
  Proof. inversion 1; subst; eauto. Qed.
  Lemma ctrace_until_inv c (k : bytes -> prog R) h t o : ctrace cfg (Until c k h) t o ->
    (exists rb t', t = ORead c rb :: t' /\ cond_holds cfg c rb = true /\ ctrace cfg (k rb) t' o)
    \/ (exists e t', t = OErr c e :: t' /\ ctrace cfg (h e) t' o).
  Proof. inversion 1; subst; eauto 8. Qed.
End Inv.

(* [pinv H]: invert a [ptrace]/[ctrace] hypothesis whose program has a visible head constructor *)
Ltac pinv H :=
  let t' := fresh "t" in let rb := fresh "rb" in let e := fresh "e" in let Hc := fresh "Hc" in
  lazymatch type of H with
  | ptrace _ (Ret _) _ => apply ptrace_ret_inv in H; subst
  | ptrace _ (Fail _) _ => apply ptrace_fail_inv in H; subst
  | ptrace _ (Write _ _ _) _ => apply ptrace_write_inv in H; destruct H as [H | [t' [? H]]]; subst
  | ptrace _ (Note _ _ _) _ => apply ptrace_note_inv in H; destruct H as [H | [t' [? H]]]; subst
  | ptrace _ (Requeue _ _) _ => apply ptrace_requeue_inv in H; destruct H as [H | [t' [? H]]]; subst
  | ptrace _ (Until _ _ _) _ =>
      apply ptrace_until_inv in H; destruct H as [H | [[rb [t' [? [Hc H]]]] | [e [t' [? H]]]]]; subst
  | ctrace _ (Ret _) _ _ => apply ctrace_ret_inv in H; destruct H; subst
  | ctrace _ (Fail _) _ _ => apply ctrace_fail_inv in H; destruct H; subst
  | ctrace _ (Write _ _ _) _ _ => apply ctrace_write_inv in H; destruct H as [t' [? H]]; subst
  | ctrace _ (Note _ _ _) _ _ => apply ctrace_note_inv in H; destruct H as [t' [? H]]; subst
  | ctrace _ (Requeue _ _) _ _ => apply ctrace_requeue_inv in H; destruct H as [t' [? H]]; subst
  | ctrace _ (Until _ _ _) _ _ =>
      apply ctrace_until_inv in H; destruct H as [[rb [t' [? [Hc H]]]] | [e [t' [? H]]]]; subst
  end.

(* ====================================================================== *)
(* D.  C18 — callbacks                                                     *)
(* ====================================================================== *)

Theorem cb_check_is_spec : forall c b, cb_check c b = spec_trigger c b.
Proof.
  intros c b. unfold cb_check, spec_trigger. cbv zeta.
  destruct (match cb_contains c with [] => false | _ :: _ => _ end);
  destruct (match cb_re c with Some _ => _ | None => false end);
  destruct (match cb_not_contains c with [] => false | _ :: _ => _ end); reflexivity.
Qed.

Lemma first_firing_some_gen : forall cbs b n i c,
  first_firing cbs b n = Some (i, c) ->
  (n <= i)%nat /\ nth_error cbs (i - n) = Some c /\ cb_check c b = true
  /\ forall j c', (j < i - n)%nat -> nth_error cbs j = Some c' -> cb_check c' b = false.
Proof.
  induction cbs as [|c0 cbs IH]; simpl; intros b n i c H; [discriminate|].
  destruct (cb_check c0 b) eqn:E.
  - inversion H; subst. rewrite Nat.sub_diag. simpl. repeat split; auto. intros; lia.
  - apply IH in H. destruct H as [H1 [H2 [H3 H4]]].
    replace (i - n)%nat with (S (i - S n)) by lia. simpl. repeat split; auto; try lia.
    intros [|j] c' Hj Hn; simpl in Hn.
    + inversion Hn; subst; auto.
    + eapply H4; eauto. lia.
Qed.

Theorem first_firing_spec : forall cbs b i c,
  first_firing cbs b 0 = Some (i, c) ->
  nth_error cbs i = Some c /\ cb_check c b = true
  /\ forall j c', (j < i)%nat -> nth_error cbs j = Some c' -> cb_check c' b = false.
Proof.
  intros cbs b i c H. apply first_firing_some_gen in H. rewrite Nat.sub_0_r in H. tauto.
Qed.

Theorem first_firing_none : forall cbs b n,
  first_firing cbs b n = None <-> (forall c, In c cbs -> cb_check c b = false).
Proof.
  induction cbs as [|c0 cbs IH]; simpl; intros b n.
  - split; auto. intros _ c [].
  - destruct (cb_check c0 b) eqn:E.
    + split; [discriminate|]. intros H. rewrite (H c0) in E; auto. discriminate.
    + rewrite IH. split.
      * intros H c [->|Hin]; auto.
      * intros H c Hin; auto.
Qed.

(* the body of one callback execution, as [cb_loop] builds it *)
Definition cb_exec (f : nat) (cfg : chan_cfg) (cbs : list callback) (fired : list nat)
           (i : nat) (c : callback) (b fb : bytes) : prog bytes :=
  if cb_once c && existsb (Nat.eqb i) fired then Fail EOperation
  else
    let fired' := if cb_once c then i :: fired else fired in
    Note TAG_CB (print_dec (N.of_nat i) ++ [58] ++ b)
      ((match cb_answer c with
        | Some a => fun k => Write a false (Write (c_ret cfg) false k)
        | None => fun k => k
        end)
         (if cb_complete c then Ret fb
          else cb_loop f cfg cbs (if cb_reset c then [] else b) fb fired')).

Lemma cb_loop_S f cfg cbs b fb fired :
  cb_loop (S f) cfg cbs b fb fired =
  match first_firing cbs b 0 with
  | Some (i, c) => cb_exec f cfg cbs fired i c b fb
  | None =>
      Until (CCallbacks cbs b)
            (fun rb => match first_firing cbs (b ++ rb) 0 with
                       | Some (i, c) => cb_exec f cfg cbs fired i c (b ++ rb) (fb ++ rb)
                       | None => Fail EOperation
                       end) Fail
  end.
Proof. reflexivity. Qed.

Lemma Forall_notes_cons P o t :
  Forall P (notes_of [o]) -> Forall P (notes_of t) -> Forall P (notes_of (o :: t)).
Proof.
  intros H1 H2. change (o :: t) with ([o] ++ t). rewrite notes_of_app. apply Forall_app; auto.
Qed.

Section CbFire.
  Variable cfg : chan_cfg.
  Variable cbs : list callback.
  Let P := fun nt : N * bytes => fst nt = TAG_CB -> cb_note_ok cbs (snd nt).

  Lemma cb_exec_fire_right f fired i c b fb :
    (forall b fb fired t, ptrace cfg (cb_loop f cfg cbs b fb fired) t -> Forall P (notes_of t)) ->
    first_firing cbs b 0 = Some (i, c) ->
    forall t, ptrace cfg (cb_exec f cfg cbs fired i c b fb) t -> Forall P (notes_of t).
  Proof.
    intros IH Hff t H. unfold cb_exec in H.
    destruct (cb_once c && existsb (Nat.eqb i) fired); [pinv H; constructor|].
    cbv zeta in H. pinv H; [constructor|].
    apply Forall_notes_cons.
    - simpl. constructor; [|constructor]. intros _. simpl.
      apply first_firing_spec in Hff. destruct Hff as [H1 [H2 H3]].
      exists i, b, c. auto.
    - assert (Hk : forall t, ptrace cfg (if cb_complete c then Ret fb
                     else cb_loop f cfg cbs (if cb_reset c then [] else b) fb
                                  (if cb_once c then i :: fired else fired)) t -> Forall P (notes_of t)).
      { intros t' Ht'. destruct (cb_complete c); [pinv Ht'; constructor | eapply IH; eauto]. }
      destruct (cb_answer c).
      + pinv H; [constructor|]. pinv H; [constructor|]. simpl. apply Hk; auto.
      + apply Hk; auto.
  Qed.

  Lemma cb_loop_fire_right : forall fuel b fb fired t,
    ptrace cfg (cb_loop fuel cfg cbs b fb fired) t -> Forall P (notes_of t).
  Proof.
    induction fuel as [|f IH]; intros b fb fired t H.
    - simpl in H. pinv H. constructor.
    - rewrite cb_loop_S in H. destruct (first_firing cbs b 0) as [[i c]|] eqn:Hff.
      + eapply cb_exec_fire_right; eauto.
      + pinv H; [constructor| |].
        * simpl. destruct (first_firing cbs (b ++ rb) 0) as [[i c]|] eqn:Hff'.
          -- eapply cb_exec_fire_right; eauto.
          -- pinv H; constructor.
        * pinv H. constructor.
  Qed.
End CbFire.

Theorem callbacks_fire_right : forall cfg input cbs t,
  ptrace cfg (send_with_callbacks cfg input cbs) t ->
  Forall (fun nt => fst nt = TAG_CB -> cb_note_ok cbs (snd nt)) (notes_of t).
Proof.
  intros cfg input cbs t H. unfold send_with_callbacks in H.
  destruct input.
  - eapply cb_loop_fire_right; eauto.
  - pinv H; [constructor|]. pinv H; [constructor|]. simpl. eapply cb_loop_fire_right; eauto.
Qed.

(* ---------- which callback a TAG_CB note belongs to ---------- *)
Lemma is_prefix_colon (a a' b : bytes) :
  ~ In 58 a -> ~ In 58 a' -> is_prefix (a ++ [58]) (a' ++ [58] ++ b) = true -> a = a'.
Proof.
  revert a'; induction a as [|x a IH]; intros [|y a'] Ha Ha'; cbn [app is_prefix]; intros H; auto.
  - apply andb_true_iff in H. destruct H as [H _]. apply N.eqb_eq in H. subst. exfalso; apply Ha'; left; auto.
  - apply andb_true_iff in H. destruct H as [H _]. apply N.eqb_eq in H. subst. exfalso; apply Ha; left; auto.
  - apply andb_true_iff in H. destruct H as [H1 H2]. apply N.eqb_eq in H1. subst. f_equal.
    apply IH; auto; intros Hin; [apply Ha | apply Ha']; right; auto.
Qed.

Lemma print_dec_no_colon n : ~ In 58 (print_dec n).
Proof. apply print_dec_not_in. lia. Qed.

Lemma print_dec_inj n n' : print_dec n = print_dec n' -> n = n'.
Proof.
  intros H. assert (E : parse_dec (print_dec n) = parse_dec (print_dec n')) by (rewrite H; auto).
  rewrite !parse_print_dec in E. inversion E; auto.
Qed.

Definition is_cb_note (i : nat) (nt : N * bytes) : bool :=
  (fst nt =? TAG_CB) && is_prefix (print_dec (N.of_nat i) ++ [58]) (snd nt).

Lemma is_cb_note_iff i j b :
  is_cb_note i (TAG_CB, print_dec (N.of_nat j) ++ [58] ++ b) = true <-> i = j.
Proof.
  unfold is_cb_note. simpl fst. simpl snd. rewrite N.eqb_refl. rewrite andb_true_l. split.
  - intros H. apply is_prefix_colon in H; try apply print_dec_no_colon.
    apply print_dec_inj in H. apply Nat2N.inj in H. auto.
  - intros ->. change (58 :: b) with ([58] ++ b). rewrite app_assoc. apply is_prefix_refl_app.
Qed.

(* how often callback [i] ran *)
Definition cb_fired_count (i : nat) (t : list obs) : nat := length (filter (is_cb_note i) (notes_of t)).

Lemma cb_fired_count_cons i o t :
  cb_fired_count i (o :: t) = (cb_fired_count i [o] + cb_fired_count i t)%nat.
Proof.
  unfold cb_fired_count. change (o :: t) with ([o] ++ t).
  rewrite notes_of_app, filter_app, app_length. reflexivity.
Qed.

Section CbOnce.
  Variable cfg : chan_cfg.
  Variable cbs : list callback.
  Let bound (i : nat) (fired : list nat) : nat := if existsb (Nat.eqb i) fired then 0%nat else 1%nat.
  Let Q (fired : list nat) (t : list obs) : Prop :=
    forall i c, nth_error cbs i = Some c -> cb_once c = true -> (cb_fired_count i t <= bound i fired)%nat.

  Lemma Q_nil fired : Q fired [].
  Proof. intros i c _ _. unfold cb_fired_count. simpl. lia. Qed.

  Lemma Q_write fired b r t : Q fired t -> Q fired (OWrite b r :: t).
  Proof. intros H i c H1 H2. rewrite cb_fired_count_cons. specialize (H i c H1 H2). unfold cb_fired_count at 1. simpl. lia. Qed.
  Lemma Q_read fired c0 rb t : Q fired t -> Q fired (ORead c0 rb :: t).
  Proof. intros H i c H1 H2. rewrite cb_fired_count_cons. specialize (H i c H1 H2). unfold cb_fired_count at 1. simpl. lia. Qed.
  Lemma Q_err fired c0 e t : Q fired t -> Q fired (OErr c0 e :: t).
  Proof. intros H i c H1 H2. rewrite cb_fired_count_cons. specialize (H i c H1 H2). unfold cb_fired_count at 1. simpl. lia. Qed.

  Lemma cb_exec_once f fired i c b fb :
    (forall b fb fired t, ptrace cfg (cb_loop f cfg cbs b fb fired) t -> Q fired t) ->
    nth_error cbs i = Some c ->
    forall t, ptrace cfg (cb_exec f cfg cbs fired i c b fb) t -> Q fired t.
  Proof.
    intros IH Hn t H. unfold cb_exec in H.
    destruct (cb_once c && existsb (Nat.eqb i) fired) eqn:Eo; [pinv H; apply Q_nil|].
    cbv zeta in H. pinv H; [apply Q_nil|].
    assert (Hk : forall t, ptrace cfg (if cb_complete c then Ret fb
                   else cb_loop f cfg cbs (if cb_reset c then [] else b) fb
                                (if cb_once c then i :: fired else fired)) t ->
                 Q (if cb_once c then i :: fired else fired) t).
    { intros t' Ht'. destruct (cb_complete c); [pinv Ht'; apply Q_nil | eapply IH; eauto]. }
    assert (Hk' : Q (if cb_once c then i :: fired else fired) t0).
    { destruct (cb_answer c).
      - pinv H; [apply Q_nil|]. pinv H; [apply Q_nil|]. apply Q_write, Q_write, Hk; auto.
      - apply Hk; auto. }
    clear Hk H. intros j cj Hj Hoj. rewrite cb_fired_count_cons.
    specialize (Hk' j cj Hj Hoj). unfold bound in *.
    unfold cb_fired_count at 1.
    change (notes_of [ONote TAG_CB (print_dec (N.of_nat i) ++ [58] ++ b)])
      with [(TAG_CB, print_dec (N.of_nat i) ++ [58] ++ b)].
    cbn [filter].
    destruct (is_cb_note j (TAG_CB, print_dec (N.of_nat i) ++ [58] ++ b)) eqn:Ej.
    - apply is_cb_note_iff in Ej. subst j. rewrite Hn in Hj. inversion Hj; subst cj.
      rewrite Hoj in *. simpl in Eo. rewrite Eo. simpl existsb in Hk'. rewrite Nat.eqb_refl in Hk'.
            simpl in *. lia.
    - assert (Hne : j <> i).
      { intros ->. rewrite (proj2 (is_cb_note_iff i i b)) in Ej; auto. discriminate. }
      destruct (cb_once c); auto. simpl existsb in Hk'.
      apply Nat.eqb_neq in Hne. rewrite Hne in Hk'. simpl in *. auto.
  Qed.

  Lemma cb_loop_once : forall fuel b fb fired t,
    ptrace cfg (cb_loop fuel cfg cbs b fb fired) t -> Q fired t.
  Proof.
    induction fuel as [|f IH]; intros b fb fired t H.
    - simpl in H. pinv H. apply Q_nil.
    - rewrite cb_loop_S in H. destruct (first_firing cbs b 0) as [[i c]|] eqn:Hff.
      + apply first_firing_spec in Hff. eapply cb_exec_once; eauto. tauto.
      + pinv H; [apply Q_nil| |].
        * apply Q_read. destruct (first_firing cbs (b ++ rb) 0) as [[i c]|] eqn:Hff'.
          -- apply first_firing_spec in Hff'. eapply cb_exec_once; eauto. tauto.
          -- pinv H; apply Q_nil.
        * pinv H. apply Q_err, Q_nil.
  Qed.
End CbOnce.

(* a once-callback appears at most once among the TAG_CB notes of any trace *)
Theorem callbacks_once : forall cfg input cbs t i c,
  ptrace cfg (send_with_callbacks cfg input cbs) t ->
  nth_error cbs i = Some c -> cb_once c = true -> (cb_fired_count i t <= 1)%nat.
Proof.
  intros cfg input cbs t i c H Hn Ho. unfold send_with_callbacks in H.
  assert (G : forall t, ptrace cfg (cb_loop 64 cfg cbs [] [] []) t -> (cb_fired_count i t <= 1)%nat).
  { intros t' H'. apply (cb_loop_once cfg cbs 64 [] [] [] t' H' i c Hn Ho). }
  destruct input.
  - apply G; auto.
  - pinv H; [unfold cb_fired_count; simpl; lia|]. pinv H; [unfold cb_fired_count; simpl; lia|].
    specialize (G _ H). unfold cb_fired_count in *. simpl. exact G.
Qed.

(* its second firing ends the operation with an error before any note is written *)
Lemma cb_exec_second_firing f cfg cbs fired i c b fb :
  cb_once c = true -> In i fired -> cb_exec f cfg cbs fired i c b fb = Fail EOperation.
Proof.
  intros Ho Hin. unfold cb_exec. rewrite Ho. simpl.
  replace (existsb (Nat.eqb i) fired) with true; auto.
  symmetry. apply existsb_exists. exists i. split; auto. apply Nat.eqb_refl.
Qed.

(* ---------- the dialogue returned ---------- *)
Definition reads_of (t : list obs) : bytes :=
  flat_map (fun o => match o with ORead _ rb => rb | _ => [] end) t.

Section CbComplete.
  Variable cfg : chan_cfg.
  Variable cbs : list callback.
  Let G (fb : bytes) (t : list obs) (r : bytes) : Prop :=
    r = fb ++ reads_of t
    /\ exists n0 i c bb, notes_of t = n0 ++ [(TAG_CB, print_dec (N.of_nat i) ++ [58] ++ bb)]
                         /\ nth_error cbs i = Some c /\ cb_complete c = true.

  Lemma G_write fb b r0 t r : G fb t r -> G fb (OWrite b r0 :: t) r.
  Proof. intros H; exact H. Qed.

  Lemma cb_exec_complete f fired i c b fb :
    (forall b fb fired t r, ctrace cfg (cb_loop f cfg cbs b fb fired) t (inl r) -> G fb t r) ->
    nth_error cbs i = Some c ->
    forall t r, ctrace cfg (cb_exec f cfg cbs fired i c b fb) t (inl r) -> G fb t r.
  Proof.
    intros IH Hn t r H. unfold cb_exec in H.
    destruct (cb_once c && existsb (Nat.eqb i) fired) eqn:Eo; [pinv H; discriminate|].
    cbv zeta in H. pinv H.
    assert (Hk : forall t, ctrace cfg (if cb_complete c then Ret fb
                   else cb_loop f cfg cbs (if cb_reset c then [] else b) fb
                                (if cb_once c then i :: fired else fired)) t (inl r) ->
                 G fb (ONote TAG_CB (print_dec (N.of_nat i) ++ [58] ++ b) :: t) r).
    { intros t' Ht'. destruct (cb_complete c) eqn:Ec.
      - pinv Ht'. inversion H1; subst. split; [simpl; rewrite app_nil_r; auto|].
        exists [], i, c, b. simpl. auto.
      - apply IH in Ht'. destruct Ht' as [E [n0 [i' [c' [bb [E1 [E2 E3]]]]]]].
        split; auto. exists ((TAG_CB, print_dec (N.of_nat i) ++ [58] ++ b) :: n0), i', c', bb.
        change (notes_of (ONote TAG_CB (print_dec (N.of_nat i) ++ [58] ++ b) :: t'))
          with ((TAG_CB, print_dec (N.of_nat i) ++ [58] ++ b) :: notes_of t').
        rewrite E1. auto. }
    destruct (cb_answer c).
    - pinv H. pinv H. apply Hk in H. exact H.
    - apply Hk; auto.
  Qed.

  Lemma cb_loop_complete : forall fuel b fb fired t r,
    ctrace cfg (cb_loop fuel cfg cbs b fb fired) t (inl r) -> G fb t r.
  Proof.
    induction fuel as [|f IH]; intros b fb fired t r H.
    - simpl in H. pinv H. discriminate.
    - rewrite cb_loop_S in H. destruct (first_firing cbs b 0) as [[i c]|] eqn:Hff.
      + apply first_firing_spec in Hff. eapply cb_exec_complete; eauto. tauto.
      + pinv H.
        * destruct (first_firing cbs (b ++ rb) 0) as [[i c]|] eqn:Hff'.
          -- apply first_firing_spec in Hff'. eapply cb_exec_complete in H; eauto; [|tauto].
             destruct H as [E Hn]. split; auto.
             rewrite E. unfold reads_of. simpl. rewrite <- app_assoc. auto.
          -- pinv H; discriminate.
        * pinv H. discriminate.
  Qed.
End CbComplete.

Theorem callbacks_complete : forall cfg input cbs t r,
  ctrace cfg (send_with_callbacks cfg input cbs) t (inl r) ->
  r = reads_of t
  /\ exists n0 i c bb, notes_of t = n0 ++ [(TAG_CB, print_dec (N.of_nat i) ++ [58] ++ bb)]
                       /\ nth_error cbs i = Some c /\ cb_complete c = true.
Proof.
  intros cfg input cbs t r H. unfold send_with_callbacks in H.
  destruct input.
  - apply cb_loop_complete in H. exact H.
  - pinv H. pinv H. apply cb_loop_complete in H. exact H.
Qed.

(* ====================================================================== *)
(* F.  C05 / C06 — deadlines and loss end the operation with that error    *)
(* ====================================================================== *)

Theorem get_timeout_precedence : forall ops t,
  get_timeout ops t = if (t =? -1)%Z then ops
                      else if (t =? 0)%Z then (Z.of_N max_timeout_seconds * 1000000000)%Z else t.
Proof. reflexivity. Qed.

(* [fails_with g p]: every read-until of [p] hands a deadline / loss error [e] on as [Fail (g e)] *)
Inductive fails_with {R} (g : err -> err) : prog R -> Prop :=
| fw_ret r : fails_with g (Ret r)
| fw_fail e : fails_with g (Fail e)
| fw_write b r k : fails_with g k -> fails_with g (Write b r k)
| fw_note tg d k : fails_with g k -> fails_with g (Note tg d k)
| fw_requeue b k : fails_with g k -> fails_with g (Requeue b k)
| fw_until c k h : (forall rb, fails_with g (k rb)) -> (forall e, h e = Fail (g e)) -> fails_with g (Until c k h).

Lemma fails_with_ctrace cfg R g (p : prog R) : fails_with g p ->
  forall t r c e, ctrace cfg p t r -> In (OErr c e) t -> r = inr (g e) /\ exists t0, t = t0 ++ [OErr c e].
Proof.
  induction 1; intros t r0 c0 e0 Hc Hin; pinv Hc.
  - destruct Hin.
  - destruct Hin.
  - destruct Hin as [Hin|Hin]; [discriminate|].
    destruct (IHfails_with _ _ _ _ Hc Hin) as [E [tz E']]. split; auto. exists (OWrite b r :: tz). rewrite E'; auto.
  - destruct Hin as [Hin|Hin]; [discriminate|].
    destruct (IHfails_with _ _ _ _ Hc Hin) as [E [tz E']]. split; auto. exists (ONote tg d :: tz). rewrite E'; auto.
  - destruct Hin as [Hin|Hin]; [discriminate|].
    destruct (IHfails_with _ _ _ _ Hc Hin) as [E [tz E']]. split; auto. exists (ORequeue b :: tz). rewrite E'; auto.
  - destruct Hin as [Hin|Hin]; [discriminate|].
    destruct (H0 _ _ _ _ _ Hc Hin) as [E [tz E']]. split; auto. exists (ORead c rb :: tz). rewrite E'; auto.
  - rewrite H1 in Hc. pinv Hc. destruct Hin as [Hin|[]]. inversion Hin; subst. split; auto. exists []; auto.
Qed.

Lemma fails_with_bind {A B} g (p : prog A) (f : A -> prog B) :
  fails_with g p -> (forall a, fails_with g (f a)) -> fails_with g (bind p f).
Proof.
  intros Hp Hf. induction Hp; simpl; auto; try (constructor; auto; fail).
  constructor; auto. intros e. rewrite H1. reflexivity.
Qed.

Lemma fails_with_catch {A} g E (p : prog A) :
  fails_with g p -> fails_with (fun _ => E) (catch p (fun _ => Fail E)).
Proof.
  intros Hp. induction Hp; simpl; try (constructor; auto; fail).
  constructor; auto. intros e. rewrite H1. reflexivity.
Qed.

Lemma fw_until_echo {R} o input (k : bytes -> prog R) :
  (forall rb, fails_with id (k rb)) -> fails_with id (until_echo o input k).
Proof.
  intros Hk. unfold until_echo. destruct input; destruct (o_exact o); auto; constructor; auto.
Qed.

Lemma fw_send_input cfg input o : fails_with id (send_input cfg input o).
Proof.
  unfold send_input. constructor. apply fw_until_echo. intros _. constructor.
  destruct (o_eager o); constructor; auto. intros; constructor.
Qed.

Lemma fw_get_prompt cfg : fails_with id (get_prompt cfg).
Proof. unfold get_prompt. constructor. constructor; auto. intros; constructor. Qed.

Lemma fw_interactive_loop cfg o : forall evs acc, fails_with id (interactive_loop cfg o evs acc).
Proof.
  induction evs as [|e rest IH]; intros acc; simpl; [constructor|].
  constructor.
  assert (K : forall nb, fails_with id
     (Write (c_ret cfg) false
        (Until (CAnyPrompt (o_complete o ++ [match ev_response e with Some r => r | None => c_prompt cfg end]))
           (fun pb => match rest with
                      | [] => Ret (process_out cfg ((acc ++ nb) ++ pb) false)
                      | _ :: _ => if existsb (fun p => rx_match p pb) (o_complete o)
                                  then Ret (process_out cfg ((acc ++ nb) ++ pb) false)
                                  else interactive_loop cfg o rest ((acc ++ nb) ++ pb)
                      end) Fail))).
  { intros nb. constructor. constructor; auto. intros pb. destruct rest; [constructor|].
    destruct (existsb _ _); [constructor | apply IH]. }
  destruct (ev_response e); destruct (ev_hidden e); try apply K. apply fw_until_echo. apply K.
Qed.

Lemma fw_send_interactive cfg evs o : fails_with id (send_interactive cfg evs o).
Proof. apply fw_interactive_loop. Qed.

Lemma fw_cb_exec f cfg cbs fired i c b fb :
  (forall b fb fired, fails_with id (cb_loop f cfg cbs b fb fired)) ->
  fails_with id (cb_exec f cfg cbs fired i c b fb).
Proof.
  intros IH. unfold cb_exec. destruct (_ && _); [constructor|]. cbv zeta. constructor.
  assert (K : fails_with id (if cb_complete c then Ret fb
              else cb_loop f cfg cbs (if cb_reset c then [] else b) fb (if cb_once c then i :: fired else fired))).
  { destruct (cb_complete c); [constructor | apply IH]. }
  destruct (cb_answer c); auto. constructor. constructor. auto.
Qed.

Lemma fw_cb_loop cfg cbs : forall fuel b fb fired, fails_with id (cb_loop fuel cfg cbs b fb fired).
Proof.
  induction fuel as [|f IH]; intros b fb fired; [constructor|].
  rewrite cb_loop_S. destruct (first_firing cbs b 0) as [[i c]|].
  - apply fw_cb_exec; auto.
  - constructor; auto. intros rb. destruct (first_firing cbs (b ++ rb) 0) as [[i c]|]; [|constructor].
    apply fw_cb_exec; auto.
Qed.

Lemma fw_send_with_callbacks cfg input cbs : fails_with id (send_with_callbacks cfg input cbs).
Proof.
  unfold send_with_callbacks. destruct input; [apply fw_cb_loop|]. constructor. constructor. apply fw_cb_loop.
Qed.

Lemma fw_auth_ssh_loop cfg ap pw pp : forall fuel b pc ppc, fails_with id (auth_ssh_loop fuel cfg ap pw pp b pc ppc).
Proof.
  induction fuel as [|f IH]; intros b pc ppc; simpl; [constructor|].
  constructor; auto. intros nb.
  destruct (ssh_error _); [constructor|]. destruct (rx_match (c_prompt cfg) _); [constructor|].
  destruct (rx_match (ap_pass ap) _).
  { destruct (Nat.ltb _ _); [constructor|]. constructor. constructor. apply IH. }
  destruct (rx_match (ap_passphrase ap) _).
  { destruct (Nat.ltb _ _); [constructor|]. constructor. constructor. apply IH. }
  apply IH.
Qed.
Lemma fw_auth_ssh cfg ap pw pp : fails_with id (auth_ssh cfg ap pw pp).
Proof. apply fw_auth_ssh_loop. Qed.

Lemma fw_auth_telnet_loop cfg ap u pw : forall fuel b uc pc, fails_with id (auth_telnet_loop fuel cfg ap u pw b uc pc).
Proof.
  induction fuel as [|f IH]; intros b uc pc; simpl; [constructor|].
  constructor; auto. intros nb.
  destruct (rx_match (c_prompt cfg) _); [constructor|].
  destruct (rx_match (ap_user ap) _).
  { destruct (Nat.ltb _ _); [constructor|]. constructor. constructor. apply IH. }
  destruct (rx_match (ap_pass ap) _).
  { destruct (Nat.ltb _ _); [constructor|]. constructor. constructor. apply IH. }
  apply IH.
Qed.
Lemma fw_auth_telnet cfg ap u pw : fails_with id (auth_telnet cfg ap u pw).
Proof. apply fw_auth_telnet_loop. Qed.

Lemma fw_channel_open cfg ap a : fails_with id (channel_open cfg ap a).
Proof.
  destruct a; unfold channel_open.
  - constructor.
  - apply fails_with_bind; [apply fw_auth_ssh|]. intros [|x l]; repeat constructor.
  - apply fails_with_bind; [apply fw_auth_telnet|]. intros [|x l]; repeat constructor.
Qed.

Lemma fw_escalate net target : fails_with id (escalate net target).
Proof.
  unfold escalate. destruct (lookup_level _ _); [|constructor].
  destruct (_ || _); [apply fw_send_input | apply fw_send_interactive].
Qed.
Lemma fw_deescalate net target : fails_with id (deescalate net target).
Proof. unfold deescalate. destruct (lookup_level _ _); [apply fw_send_input|constructor]. Qed.

Lemma acquire_loop_S f net cached target count :
  acquire_loop (S f) net cached target count =
  bind (get_prompt (n_chan net)) (fun prompt =>
    match process_acquire net cached target prompt with
    | PAErr => Fail EPrivilege
    | PAPanic => Fail EOperation
    | PAOk ANone cur => Note TAG_CUR cur (Ret cur)
    | PAOk a cur =>
        Note TAG_CUR cur
          (bind (match a with
                 | AEscalate next => escalate net next
                 | ADeescalate c => deescalate net c
                 | ANone => Ret []
                 end)
                (fun _ =>
                   let count' := S count in
                   if Nat.ltb (2 * length (n_levels net)) count' then Fail EPrivilege
                   else acquire_loop f net cur target count'))
    end).
Proof. reflexivity. Qed.

Lemma fw_acquire_loop net target : forall fuel cached count, fails_with id (acquire_loop fuel net cached target count).
Proof.
  induction fuel as [|f IH]; intros cached count; [constructor|]. rewrite acquire_loop_S.
  apply fails_with_bind; [apply fw_get_prompt|]. intros prompt.
  destruct (process_acquire net cached target prompt) as [a cur| |]; try constructor.
  destruct a.
  - repeat constructor.
  - constructor. apply fails_with_bind; [apply fw_escalate|]. intros _. cbv zeta.
    destruct (Nat.ltb (2 * length (n_levels net)) (S count)); [constructor | apply IH].
  - constructor. apply fails_with_bind; [apply fw_deescalate|]. intros _. cbv zeta.
    destruct (Nat.ltb (2 * length (n_levels net)) (S count)); [constructor | apply IH].
Qed.
Lemma fw_acquire_priv net cached target : fails_with id (acquire_priv net cached target).
Proof. unfold acquire_priv. destruct (lookup_level _ _); [apply fw_acquire_loop | constructor]. Qed.
Lemma fw_acquire_default net cached : fails_with (fun _ => EPrivilege) (acquire_default net cached).
Proof.
  unfold acquire_default. destruct (beqb _ _); [constructor|].
  eapply fails_with_catch. apply fw_acquire_priv.
Qed.

(* the programs the property speaks about *)
Inductive chan_op : prog bytes -> chan_cfg -> Prop :=
| co_send_input cfg input o : chan_op (send_input cfg input o) cfg
| co_get_prompt cfg : chan_op (get_prompt cfg) cfg
| co_send_interactive cfg evs o : chan_op (send_interactive cfg evs o) cfg
| co_send_with_callbacks cfg input cbs : chan_op (send_with_callbacks cfg input cbs) cfg
| co_auth_ssh cfg ap pw pp : chan_op (auth_ssh cfg ap pw pp) cfg
| co_auth_telnet cfg ap u pw : chan_op (auth_telnet cfg ap u pw) cfg
| co_channel_open cfg ap a : chan_op (channel_open cfg ap a) cfg
| co_escalate net target : chan_op (escalate net target) (n_chan net)
| co_deescalate net target : chan_op (deescalate net target) (n_chan net)
| co_acquire_priv net cached target : chan_op (acquire_priv net cached target) (n_chan net).

Lemma chan_op_fails_with p cfg : chan_op p cfg -> fails_with id p.
Proof.
  destruct 1; auto using fw_send_input, fw_get_prompt, fw_send_interactive, fw_send_with_callbacks,
    fw_auth_ssh, fw_auth_telnet, fw_channel_open, fw_escalate, fw_deescalate, fw_acquire_priv.
Qed.

(* any error handed to a read-until ends the operation with exactly that error, and it is the last
   observation: nothing is written or read after it *)
Theorem error_is_final : forall p cfg t r c e,
  chan_op p cfg -> ctrace cfg p t r -> In (OErr c e) t ->
  r = inr e /\ exists t0, t = t0 ++ [OErr c e].
Proof.
  intros p cfg t r c e Hp Hc Hin.
  apply (fails_with_ctrace cfg _ id p (chan_op_fails_with p cfg Hp) t r c e Hc Hin).
Qed.

Theorem timeout_is_timeout : forall p cfg t r c,
  chan_op p cfg -> ctrace cfg p t r -> In (OErr c ETimeout) t ->
  r = inr ETimeout /\ exists t0, t = t0 ++ [OErr c ETimeout].
Proof. intros; eapply error_is_final; eauto. Qed.

Theorem callbacks_timeout : forall cfg input cbs t r c,
  ctrace cfg (send_with_callbacks cfg input cbs) t r -> In (OErr c ETimeout) t -> r = inr ETimeout.
Proof. intros. eapply timeout_is_timeout; eauto. constructor. Qed.

Theorem loss_is_error : forall p cfg t r c e,
  chan_op p cfg -> ctrace cfg p t r -> In (OErr c e) t -> e = EConnection \/ e = ETransport ->
  r = inr e /\ (forall x, r <> inl x).
Proof.
  intros p cfg t r c e Hp Hc Hin _. destruct (error_is_final p cfg t r c e Hp Hc Hin) as [-> _].
  split; auto. discriminate.
Qed.

(* under the implicit acquire every failure — whatever it was — is reported as a privilege error *)
Lemma catch_const_err cfg R (p : prog R) E : forall t e,
  ctrace cfg (catch p (fun _ => Fail E)) t (inr e) -> e = E.
Proof.
  induction p; simpl; intros t e0 Hc; pinv Hc; eauto.
  - discriminate.
  - inversion H0; auto.
Qed.

Theorem implicit_acquire_failure_is_privilege : forall net cached t r,
  ctrace (n_chan net) (acquire_default net cached) t r ->
  match r with inr e => e = EPrivilege | inl _ => True end.
Proof.
  intros net cached t r Hc. destruct r as [x|e]; auto.
  unfold acquire_default in Hc. destruct (beqb _ _); [pinv Hc; discriminate|].
  eapply catch_const_err; eauto.
Qed.

Theorem loss_under_acquire_default : forall net cached t r c e,
  ctrace (n_chan net) (acquire_default net cached) t r -> In (OErr c e) t ->
  r = inr EPrivilege /\ exists t0, t = t0 ++ [OErr c e].
Proof.
  intros net cached t r c e Hc Hin.
  apply (fails_with_ctrace _ _ _ _ (fw_acquire_default net cached) t r c e Hc Hin).
Qed.

(* SendCommand: an error inside the implicit acquire is a privilege error; one in the command's own
   reads is that error *)
Theorem net_send_command_errors : forall net cached cmd o t r c e,
  ctrace (n_chan net) (net_send_command net cached cmd o) t r -> In (OErr c e) t ->
  (r = inr EPrivilege \/ r = inr e) /\ exists t0, t = t0 ++ [OErr c e].
Proof.
  intros net cached cmd o t r c e Hc Hin. unfold net_send_command in Hc.
  assert (G : forall (p : prog bytes), fails_with (fun _ => EPrivilege) p ->
            forall t r, ctrace (n_chan net) (bind p (fun _ => send_input (n_chan net) cmd o)) t r ->
                        In (OErr c e) t -> (r = inr EPrivilege \/ r = inr e) /\ exists t0, t = t0 ++ [OErr c e]).
  { clear. intros p Hp. induction Hp; simpl; intros t r0 Hc Hin.
    - destruct (fails_with_ctrace _ _ _ _ (fw_send_input (n_chan net) cmd o) _ _ _ _ Hc Hin) as [E X]. auto.
    - pinv Hc. destruct Hin.
    - pinv Hc. destruct Hin as [Hin|Hin]; [discriminate|].
      destruct (IHHp _ _ Hc Hin) as [E [tz E']]. split; auto. exists (OWrite b r :: tz); rewrite E'; auto.
    - pinv Hc. destruct Hin as [Hin|Hin]; [discriminate|].
      destruct (IHHp _ _ Hc Hin) as [E [tz E']]. split; auto. exists (ONote tg d :: tz); rewrite E'; auto.
    - pinv Hc. destruct Hin as [Hin|Hin]; [discriminate|].
      destruct (IHHp _ _ Hc Hin) as [E [tz E']]. split; auto. exists (ORequeue b :: tz); rewrite E'; auto.
    - pinv Hc.
      + destruct Hin as [Hin|Hin]; [discriminate|].
        destruct (H0 _ _ _ Hc Hin) as [E [tz E']]. split; auto. exists (ORead c0 rb :: tz); rewrite E'; auto.
      + rewrite H1 in Hc. simpl in Hc. pinv Hc. destruct Hin as [Hin|[]]. inversion Hin; subst.
        split; auto. exists []; auto. }
  apply (G _ (fw_acquire_default net cached) t r Hc Hin).
Qed.

(* ====================================================================== *)
(* B.  C11 — redaction is noninterference                                  *)
(* ====================================================================== *)

Theorem sim_trace : forall cfg R (p q : prog R) t,
  sim p q -> ptrace cfg p t ->
  exists t', ptrace cfg q t' /\ visible t' = visible t /\ length t' = length t.
Proof.
  intros cfg R p q t Hs Hp. revert q Hs.
  induction Hp; intros q Hs; [exists []; repeat split; constructor | ..];
    inversion Hs; subst;
    match goal with
    | Hk : sim ?k ?k', IH : forall q, sim ?k q -> _ |- _ => destruct (IH _ Hk) as [t' [H2' [H3' H4']]]
    | Hk : forall rb, sim (?k rb) _, IH : forall q, sim (?k ?rb) q -> _ |- _ =>
        destruct (IH _ (Hk rb)) as [t' [H2' [H3' H4']]]
    end.
  - exists (OWrite b' true :: t'). repeat split; [constructor; auto | simpl; f_equal; auto | simpl; auto].
  - exists (OWrite b false :: t'). repeat split; [constructor; auto | simpl; f_equal; auto | simpl; auto].
  - exists (ONote tg d :: t'). repeat split; [constructor; auto | simpl; f_equal; auto | simpl; auto].
  - exists (ORequeue b :: t'). repeat split; [constructor; auto | simpl; auto | simpl; auto].
  - exists (ORead c rb :: t'). repeat split; [constructor; auto | simpl; auto | simpl; auto].
  - exists (OErr c e :: t'). repeat split; [apply pt_err; auto | simpl; auto | simpl; auto].
Qed.

Lemma sim_refl {R} (p : prog R) : sim p p.
Proof. induction p; try (constructor; auto; fail). destruct redacted; constructor; auto. Qed.

Lemma sim_sym {R} (p q : prog R) : sim p q -> sim q p.
Proof. induction 1; constructor; auto. Qed.

Lemma sim_trans {R} (p q r : prog R) : sim p q -> sim q r -> sim p r.
Proof.
  intros H; revert r; induction H; intros r0 H'; inversion H'; subst; constructor; auto.
Qed.

Lemma sim_bind {A B} (p q : prog A) (f g : A -> prog B) :
  sim p q -> (forall a, sim (f a) (g a)) -> sim (bind p f) (bind q g).
Proof. intros H Hf. induction H; simpl; auto; constructor; auto. Qed.

Lemma sim_catch {A} (p q : prog A) (f g : err -> prog A) :
  sim p q -> (forall e, sim (f e) (g e)) -> sim (catch p f) (catch q g).
Proof. intros H Hf. induction H; simpl; auto; constructor; auto. Qed.

Definition redact_log (l : list (bytes * bool)) : list bytes :=
  map (fun w : bytes * bool => if snd w then redacted else fst w) l.

Lemma skip_notes_sim {R} (p q : prog R) : sim p q -> forall n,
  sim (fst (skip_notes R p n)) (fst (skip_notes R q n))
  /\ snd (skip_notes R p n) = snd (skip_notes R q n).
Proof.
  induction 1; intros n; simpl; try (split; [constructor; auto | reflexivity]).
  apply IHsim.
Qed.

Section SimRun.
  Variable cfg : chan_cfg.
  Variable R : Type.

  Definition sim_sys (a b : @sys script R) : Prop :=
    s_dev a = s_dev b /\ s_pending a = s_pending b /\ s_queue a = s_queue b /\ s_acc a = s_acc b
    /\ s_reader a = s_reader b /\ redact_log (s_wlog a) = redact_log (s_wlog b)
    /\ s_notes a = s_notes b /\ sim (s_pc a) (s_pc b).

  Lemma set_pc_sim d pe qu ac (p q p0 q0 : prog R) wl wl' nt rd :
    sim p q -> redact_log wl = redact_log wl' ->
    sim_sys (set_pc (mkSys d pe qu ac p0 wl nt rd) p) (set_pc (mkSys d pe qu ac q0 wl' nt rd) q).
  Proof.
    intros Hs Hw. unfold set_pc. simpl.
    destruct (skip_notes_sim p q Hs nt) as [H1 H2].
    destruct (skip_notes R p nt) as [p' n']. destruct (skip_notes R q nt) as [q' n'']. simpl in *. subst.
    repeat split; auto.
  Qed.

  Lemma step_sim a b e : sim_sys a b -> sim_sys (step sfeed cfg a e) (step sfeed cfg b e).
  Proof.
    destruct a as [d pe qu ac p wl nt rd]. destruct b as [d' pe' qu' ac' q wl' nt' rd'].
    intros [H1 [H2 [H3 [H4 [H5 [H6 [H7 H8]]]]]]]. simpl in *. subst d' pe' qu' ac' rd' nt'.
    assert (Hsame : sim_sys (mkSys d pe qu ac p wl nt rd) (mkSys d pe qu ac q wl' nt rd))
      by (repeat split; auto).
    destruct e; simpl.
    - destruct rd; auto. destruct pe; auto. repeat split; auto.
    - inversion H8; subst; auto.
      + destruct d as [|x d]; simpl; apply set_pc_sim; auto; unfold redact_log in *;
          rewrite !map_app, H6; reflexivity.
      + destruct d as [|x d]; simpl; apply set_pc_sim; auto; unfold redact_log in *;
          rewrite !map_app, H6; reflexivity.
      + apply set_pc_sim; auto.
      + destruct rd.
        * destruct qu as [|chunk q']; auto.
          destruct (cond_holds cfg c (ac ++ chunk)).
          -- apply set_pc_sim; auto.
          -- repeat split; auto.
        * apply set_pc_sim; auto.
        * apply set_pc_sim; auto.
    - inversion H8; subst; auto. apply set_pc_sim; auto.
    - repeat split; auto.
    - destruct rd; auto. repeat split; auto.
  Qed.

  Lemma run_sim sched : forall a b, sim_sys a b -> sim_sys (run sfeed cfg sched a) (run sfeed cfg sched b).
  Proof. induction sched as [|e l IH]; simpl; intros a b H; auto. apply IH, step_sim, H. Qed.

  Lemma init_sim (p q : prog R) script start : sim p q -> sim_sys (init_sys script start p) (init_sys script start q).
  Proof. intros H. unfold init_sys. apply set_pc_sim; auto. Qed.
End SimRun.

Theorem sim_run_sfeed : forall cfg R (p q : prog R) script start sched,
  sim p q ->
  let a := run sfeed cfg sched (init_sys script start p) in
  let b := run sfeed cfg sched (init_sys script start q) in
  map (fun w : bytes * bool => if snd w then redacted else fst w) (s_wlog a)
  = map (fun w : bytes * bool => if snd w then redacted else fst w) (s_wlog b)
  /\ s_notes a = s_notes b /\ sim (s_pc a) (s_pc b) /\ s_queue a = s_queue b /\ s_pending a = s_pending b.
Proof.
  intros cfg R p q script start sched Hs a b.
  destruct (run_sim cfg R sched _ _ (init_sim R p q script start Hs)) as [H1 [H2 [H3 [H4 [H5 [H6 [H7 H8]]]]]]].
  fold a in H1, H2, H3, H4, H5, H6, H7, H8. fold b in H1, H2, H3, H4, H5, H6, H7, H8.
  repeat split; auto.
Qed.

(* ---------- instances ---------- *)

Lemma sim_until_echo {R} o input (k k' : bytes -> prog R) :
  (forall rb, sim (k rb) (k' rb)) -> sim (until_echo o input k) (until_echo o input k').
Proof.
  intros H. unfold until_echo. destruct input; destruct (o_exact o); auto; constructor; auto; intros; apply sim_refl.
Qed.

(* events that agree except on the inputs of hidden events *)
Definition ev_agree (e1 e2 : ievent) : Prop :=
  ev_response e1 = ev_response e2 /\ ev_hidden e1 = ev_hidden e2
  /\ (ev_hidden e1 = false -> ev_input e1 = ev_input e2).

(* [interactive_loop] never reads an echo for a hidden event (its match on [ev_hidden]), so no
   further hypothesis is needed *)
Lemma sim_interactive_loop cfg o : forall evs1 evs2 acc,
  Forall2 ev_agree evs1 evs2 -> sim (interactive_loop cfg o evs1 acc) (interactive_loop cfg o evs2 acc).
Proof.
  induction evs1 as [|e1 r1 IH]; intros evs2 acc H; inversion H; subst; [apply sim_refl|].
  destruct H2 as [Hr [Hh Hi]]. cbn [interactive_loop]. rewrite <- Hr, <- Hh.
  assert (K : forall nb, sim
     (Write (c_ret cfg) false
        (Until (CAnyPrompt (o_complete o ++ [match ev_response e1 with Some r => r | None => c_prompt cfg end]))
           (fun pb => match r1 with
                      | [] => Ret (process_out cfg ((acc ++ nb) ++ pb) false)
                      | _ :: _ => if existsb (fun p => rx_match p pb) (o_complete o)
                                  then Ret (process_out cfg ((acc ++ nb) ++ pb) false)
                                  else interactive_loop cfg o r1 ((acc ++ nb) ++ pb)
                      end) Fail))
     (Write (c_ret cfg) false
        (Until (CAnyPrompt (o_complete o ++ [match ev_response e1 with Some r => r | None => c_prompt cfg end]))
           (fun pb => match l' with
                      | [] => Ret (process_out cfg ((acc ++ nb) ++ pb) false)
                      | _ :: _ => if existsb (fun p => rx_match p pb) (o_complete o)
                                  then Ret (process_out cfg ((acc ++ nb) ++ pb) false)
                                  else interactive_loop cfg o l' ((acc ++ nb) ++ pb)
                      end) Fail))).
  { intros nb. constructor. constructor; [|intros; apply sim_refl]. intros pb.
    inversion H4; subst; [apply sim_refl|].
    destruct (existsb _ _); [apply sim_refl|]. apply IH. auto. }
  destruct (ev_hidden e1) eqn:Eh.
  - constructor. destruct (ev_response e1); apply K.
  - rewrite <- (Hi eq_refl). constructor. destruct (ev_response e1); [apply sim_until_echo|]; apply K.
Qed.

Theorem sim_send_interactive : forall cfg evs1 evs2 o,
  Forall2 ev_agree evs1 evs2 -> sim (send_interactive cfg evs1 o) (send_interactive cfg evs2 o).
Proof. intros. apply sim_interactive_loop; auto. Qed.

Definition with_secondary (net : netcfg) (s : bytes) : netcfg :=
  mkNet (n_levels net) (n_default net) s (n_chan net) (n_order net) (n_level_order net).

Theorem sim_escalate : forall net s1 s2 target,
  s1 <> [] -> s2 <> [] -> sim (escalate (with_secondary net s1) target) (escalate (with_secondary net s2) target).
Proof.
  intros net s1 s2 target H1 H2. unfold escalate. cbn [with_secondary n_levels n_secondary n_chan].
  destruct (lookup_level (n_levels net) target) as [p|]; [|apply sim_refl].
  destruct s1 as [|x1 s1]; [congruence|]. destruct s2 as [|x2 s2]; [congruence|].
  rewrite !orb_false_r. destruct (negb (lv_escalate_auth p)); [apply sim_refl|].
  apply sim_send_interactive. constructor; [|constructor; [|constructor]].
  - repeat split; auto.
  - repeat split; auto. simpl. discriminate.
Qed.

Lemma sim_auth_ssh_loop cfg ap pw1 pp1 pw2 pp2 : forall fuel b pc ppc,
  sim (auth_ssh_loop fuel cfg ap pw1 pp1 b pc ppc) (auth_ssh_loop fuel cfg ap pw2 pp2 b pc ppc).
Proof.
  induction fuel as [|f IH]; intros b pc ppc; simpl; [constructor|].
  constructor; [|intros; apply sim_refl]. intros nb.
  destruct (ssh_error _); [constructor|]. destruct (rx_match (c_prompt cfg) _); [constructor|].
  destruct (rx_match (ap_pass ap) _).
  { destruct (Nat.ltb _ _); [constructor|]. constructor. constructor. apply IH. }
  destruct (rx_match (ap_passphrase ap) _).
  { destruct (Nat.ltb _ _); [constructor|]. constructor. constructor. apply IH. }
  apply IH.
Qed.
Theorem sim_auth_ssh : forall cfg ap pw1 pp1 pw2 pp2,
  sim (auth_ssh cfg ap pw1 pp1) (auth_ssh cfg ap pw2 pp2).
Proof. intros. apply sim_auth_ssh_loop. Qed.

Lemma sim_auth_telnet_loop cfg ap u1 pw1 u2 pw2 : forall fuel b uc pc,
  sim (auth_telnet_loop fuel cfg ap u1 pw1 b uc pc) (auth_telnet_loop fuel cfg ap u2 pw2 b uc pc).
Proof.
  induction fuel as [|f IH]; intros b uc pc; simpl; [constructor|].
  constructor; [|intros; apply sim_refl]. intros nb.
  destruct (rx_match (c_prompt cfg) _); [constructor|].
  destruct (rx_match (ap_user ap) _).
  { destruct (Nat.ltb _ _); [constructor|]. constructor. constructor. apply IH. }
  destruct (rx_match (ap_pass ap) _).
  { destruct (Nat.ltb _ _); [constructor|]. constructor. constructor. apply IH. }
  apply IH.
Qed.
Theorem sim_auth_telnet : forall cfg ap u1 pw1 u2 pw2,
  sim (auth_telnet cfg ap u1 pw1) (auth_telnet cfg ap u2 pw2).
Proof. intros. apply sim_auth_telnet_loop. Qed.

Theorem sim_channel_open_ssh : forall cfg ap pw1 pp1 pw2 pp2,
  sim (channel_open cfg ap (AuthSSH pw1 pp1)) (channel_open cfg ap (AuthSSH pw2 pp2)).
Proof. intros. unfold channel_open. apply sim_bind; [apply sim_auth_ssh|]. intros; apply sim_refl. Qed.
Theorem sim_channel_open_telnet : forall cfg ap u1 pw1 u2 pw2,
  sim (channel_open cfg ap (AuthTelnet u1 pw1)) (channel_open cfg ap (AuthTelnet u2 pw2)).
Proof. intros. unfold channel_open. apply sim_bind; [apply sim_auth_telnet|]. intros; apply sim_refl. Qed.

(* the privilege search does not look at the secondary password *)
Lemma build_path_secondary net s1 s2 : forall fuel cur target steps,
  build_path fuel (with_secondary net s1) cur target steps = build_path fuel (with_secondary net s2) cur target steps.
Proof.
  induction fuel as [|f IH]; intros cur target steps; simpl; auto.
  destruct (beqb cur target); auto.
  generalize (n_order net cur (neighbours (n_levels net) cur)).
  induction l as [|p rest IHl]; auto.
  destruct (mem_bytes p (steps ++ [cur])); auto. rewrite IH, IHl. reflexivity.
Qed.

Lemma process_acquire_secondary net s1 s2 cached target prompt :
  process_acquire (with_secondary net s1) cached target prompt
  = process_acquire (with_secondary net s2) cached target prompt.
Proof.
  unfold process_acquire.
  change (determine_current (with_secondary net s1) prompt) with (determine_current (with_secondary net s2) prompt).
  destruct (determine_current (with_secondary net s2) prompt); auto.
  cbn [with_secondary n_levels]. 
  match goal with |- (if ?c then _ else _) = _ => destruct c end; auto.
  rewrite (build_path_secondary net s1 s2). reflexivity.
Qed.

Lemma sim_acquire_loop net s1 s2 target : s1 <> [] -> s2 <> [] -> forall fuel cached count,
  sim (acquire_loop fuel (with_secondary net s1) cached target count)
      (acquire_loop fuel (with_secondary net s2) cached target count).
Proof.
  intros H1 H2. induction fuel as [|f IH]; intros cached count; [constructor|].
  rewrite !acquire_loop_S. apply sim_bind; [apply sim_refl|]. intros prompt.
  rewrite (process_acquire_secondary net s1 s2).
  destruct (process_acquire (with_secondary net s2) cached target prompt) as [a cur| |]; try constructor.
  destruct a.
  - apply sim_refl.
  - constructor. apply sim_bind; [apply sim_escalate; auto|]. intros _. cbv zeta.
    cbn [with_secondary n_levels].
    destruct (Nat.ltb (2 * length (n_levels net)) (S count)); [constructor | apply IH].
  - constructor. apply sim_bind; [apply sim_refl|]. intros _. cbv zeta.
    cbn [with_secondary n_levels].
    destruct (Nat.ltb (2 * length (n_levels net)) (S count)); [constructor | apply IH].
Qed.

Theorem sim_acquire_priv : forall net s1 s2 c t,
  s1 <> [] -> s2 <> [] ->
  sim (acquire_priv (with_secondary net s1) c t) (acquire_priv (with_secondary net s2) c t).
Proof.
  intros net s1 s2 c t H1 H2. unfold acquire_priv. cbn [with_secondary n_levels].
  destruct (lookup_level (n_levels net) t); [|constructor].
  apply (sim_acquire_loop net s1 s2 t H1 H2).
Qed.

Theorem sim_net_send_command : forall net s1 s2 cached cmd o,
  s1 <> [] -> s2 <> [] ->
  sim (net_send_command (with_secondary net s1) cached cmd o) (net_send_command (with_secondary net s2) cached cmd o).
Proof.
  intros. unfold net_send_command. apply sim_bind; [|intros; apply sim_refl].
  unfold acquire_default. cbn [with_secondary n_default]. destruct (beqb cached (n_default net)); [constructor|].
  apply sim_catch; [apply sim_acquire_priv; auto | intros; constructor].
Qed.

(* what reaches the loggers in a run *)
Definition vis_log {D R} (s : @sys D R) : list bytes := redact_log (s_wlog s) ++ map snd (s_notes s).

Theorem secret_absent : forall cfg R (p : bytes -> prog R),
  (forall s1 s2, s1 <> [] -> s2 <> [] -> sim (p s1) (p s2)) ->
  forall s s' script start sched, s <> [] -> s' <> [] ->
    let a := run sfeed cfg sched (init_sys script start (p s)) in
    let b := run sfeed cfg sched (init_sys script start (p s')) in
    vis_log a = vis_log b
    /\ ((forall x, In x (vis_log b) -> contains s x = false) ->
        forall x, In x (vis_log a) -> contains s x = false).
Proof.
  intros cfg R p Hp s s' script start sched Hs Hs' a b.
  destruct (sim_run_sfeed cfg R (p s) (p s') script start sched (Hp s s' Hs Hs')) as [H1 [H2 _]].
  fold a in H1, H2. fold b in H1, H2.
  assert (E : vis_log a = vis_log b).
  { unfold vis_log, redact_log. rewrite H1, H2. reflexivity. }
  split; auto. intros Hb x Hx. rewrite E in Hx. auto.
Qed.

(* ====================================================================== *)
(* E.  C10 — login                                                         *)
(* ====================================================================== *)

(* what the login loops decide on the buffer accumulated since the last reset *)
Inductive ssh_class := KErr | KPrompt | KPass | KPassphrase | KNone.
Definition ssh_cls (cfg : chan_cfg) (ap : auth_pats) (b : bytes) : ssh_class :=
  if ssh_error b then KErr
  else if rx_match (c_prompt cfg) b then KPrompt
  else if rx_match (ap_pass ap) b then KPass
  else if rx_match (ap_passphrase ap) b then KPassphrase
  else KNone.

Definition ssh_pats (cfg : chan_cfg) (ap : auth_pats) : list re := [c_prompt cfg; ap_pass ap; ap_passphrase ap].

Definition ssh_k (f : nat) (cfg : chan_cfg) (ap : auth_pats) (pw pp b : bytes) (pc ppc : nat) (nb : bytes) : prog bytes :=
  match ssh_cls cfg ap (b ++ nb) with
  | KErr => Fail EConnection
  | KPrompt => Ret (b ++ nb)
  | KPass => if Nat.ltb password_seen_max (S pc) then Fail EAuth
             else Write pw true (Write (c_ret cfg) false (auth_ssh_loop f cfg ap pw pp [] (S pc) ppc))
  | KPassphrase => if Nat.ltb passphrase_seen_max (S ppc) then Fail EAuth
                   else Write pp true (Write (c_ret cfg) false (auth_ssh_loop f cfg ap pw pp [] pc (S ppc)))
  | KNone => auth_ssh_loop f cfg ap pw pp (b ++ nb) pc ppc
  end.

Lemma ssh_k_eq f cfg ap pw pp b pc ppc nb :
  (let b := b ++ nb in
   if ssh_error b then Fail EConnection
   else if rx_match (c_prompt cfg) b then Ret b
   else if rx_match (ap_pass ap) b then
          if Nat.ltb password_seen_max (S pc) then Fail EAuth
          else Write pw true (Write (c_ret cfg) false (auth_ssh_loop f cfg ap pw pp [] (S pc) ppc))
   else if rx_match (ap_passphrase ap) b then
          if Nat.ltb passphrase_seen_max (S ppc) then Fail EAuth
          else Write pp true (Write (c_ret cfg) false (auth_ssh_loop f cfg ap pw pp [] pc (S ppc)))
   else auth_ssh_loop f cfg ap pw pp b pc ppc) = ssh_k f cfg ap pw pp b pc ppc nb.
Proof.
  unfold ssh_k, ssh_cls. cbv zeta.
  destruct (ssh_error (b ++ nb)); auto. destruct (rx_match (c_prompt cfg) (b ++ nb)); auto.
  destruct (rx_match (ap_pass ap) (b ++ nb)); auto. destruct (rx_match (ap_passphrase ap) (b ++ nb)); auto.
Qed.

Lemma ptrace_ssh_loop_inv cfg f ap pw pp b pc ppc t :
  ptrace cfg (auth_ssh_loop (S f) cfg ap pw pp b pc ppc) t ->
  t = [] \/ (exists rb t', t = ORead (CSshAuth b (ssh_pats cfg ap)) rb :: t'
                           /\ cond_holds cfg (CSshAuth b (ssh_pats cfg ap)) rb = true
                           /\ ptrace cfg (ssh_k f cfg ap pw pp b pc ppc rb) t')
  \/ (exists e, t = [OErr (CSshAuth b (ssh_pats cfg ap)) e]).
Proof.
  intros H. cbn [auth_ssh_loop] in H. pinv H; auto.
  - right; left. exists rb, t0. repeat split; auto. rewrite <- ssh_k_eq. exact H.
  - pinv H. right; right. eauto.
Qed.

Lemma ctrace_ssh_loop_inv cfg f ap pw pp b pc ppc t r :
  ctrace cfg (auth_ssh_loop (S f) cfg ap pw pp b pc ppc) t r ->
  (exists rb t', t = ORead (CSshAuth b (ssh_pats cfg ap)) rb :: t'
                 /\ cond_holds cfg (CSshAuth b (ssh_pats cfg ap)) rb = true
                 /\ ctrace cfg (ssh_k f cfg ap pw pp b pc ppc rb) t' r)
  \/ (exists e, t = [OErr (CSshAuth b (ssh_pats cfg ap)) e] /\ r = inr e).
Proof.
  intros H. cbn [auth_ssh_loop] in H. pinv H.
  - left. exists rb, t0. repeat split; auto. rewrite <- ssh_k_eq. exact H.
  - pinv H. right. eauto.
Qed.

(* telnet *)
Inductive tn_class := TPrompt | TUser | TPass | TNone.
Definition tn_cls (cfg : chan_cfg) (ap : auth_pats) (b : bytes) : tn_class :=
  if rx_match (c_prompt cfg) b then TPrompt
  else if rx_match (ap_user ap) b then TUser
  else if rx_match (ap_pass ap) b then TPass
  else TNone.
Definition tn_pats (cfg : chan_cfg) (ap : auth_pats) : list re := [c_prompt cfg; ap_user ap; ap_pass ap].

Definition tn_k (f : nat) (cfg : chan_cfg) (ap : auth_pats) (user pw b : bytes) (uc pc : nat) (nb : bytes) : prog bytes :=
  match tn_cls cfg ap (b ++ nb) with
  | TPrompt => Ret (b ++ nb)
  | TUser => if Nat.ltb username_seen_max (S uc) then Fail EAuth
             else Write user true (Write (c_ret cfg) false (auth_telnet_loop f cfg ap user pw [] (S uc) pc))
  | TPass => if Nat.ltb password_seen_max (S pc) then Fail EAuth
             else Write pw true (Write (c_ret cfg) false (auth_telnet_loop f cfg ap user pw [] uc (S pc)))
  | TNone => auth_telnet_loop f cfg ap user pw (b ++ nb) uc pc
  end.

Lemma tn_k_eq f cfg ap user pw b uc pc nb :
  (let b := b ++ nb in
   if rx_match (c_prompt cfg) b then Ret b
   else if rx_match (ap_user ap) b then
          if Nat.ltb username_seen_max (S uc) then Fail EAuth
          else Write user true (Write (c_ret cfg) false (auth_telnet_loop f cfg ap user pw [] (S uc) pc))
   else if rx_match (ap_pass ap) b then
          if Nat.ltb password_seen_max (S pc) then Fail EAuth
          else Write pw true (Write (c_ret cfg) false (auth_telnet_loop f cfg ap user pw [] uc (S pc)))
   else auth_telnet_loop f cfg ap user pw b uc pc) = tn_k f cfg ap user pw b uc pc nb.
Proof.
  unfold tn_k, tn_cls. cbv zeta.
  destruct (rx_match (c_prompt cfg) (b ++ nb)); auto.
  destruct (rx_match (ap_user ap) (b ++ nb)); auto. destruct (rx_match (ap_pass ap) (b ++ nb)); auto.
Qed.

Lemma ptrace_tn_loop_inv cfg f ap user pw b uc pc t :
  ptrace cfg (auth_telnet_loop (S f) cfg ap user pw b uc pc) t ->
  t = [] \/ (exists rb t', t = ORead (CAnyPrompt (tn_pats cfg ap)) rb :: t'
                           /\ cond_holds cfg (CAnyPrompt (tn_pats cfg ap)) rb = true
                           /\ ptrace cfg (tn_k f cfg ap user pw b uc pc rb) t')
  \/ (exists e, t = [OErr (CAnyPrompt (tn_pats cfg ap)) e]).
Proof.
  intros H. cbn [auth_telnet_loop] in H. pinv H; auto.
  - right; left. exists rb, t0. repeat split; auto. rewrite <- tn_k_eq. exact H.
  - pinv H. right; right. eauto.
Qed.

(* ---------- bounds and redaction ---------- *)
Lemma count_writes_app b t1 t2 : count_writes b (t1 ++ t2) = (count_writes b t1 + count_writes b t2)%nat.
Proof. induction t1 as [|o t1 IH]; simpl; auto. destruct o; auto. rewrite IH. lia. Qed.

Lemma creds_redacted_nil ret : creds_redacted ret [].
Proof. intros b r []. Qed.
Lemma creds_redacted_cons_other ret o t :
  (forall b r, o <> OWrite b r) -> creds_redacted ret t -> creds_redacted ret (o :: t).
Proof. intros Ho H b r [Hin|Hin] Hb; [exfalso; eapply Ho; eauto | eapply H; eauto]. Qed.
Lemma creds_redacted_cons_red ret b t : creds_redacted ret t -> creds_redacted ret (OWrite b true :: t).
Proof. intros H b' r [Hin|Hin] Hb; [inversion Hin; auto | eapply H; eauto]. Qed.
Lemma creds_redacted_cons_ret ret r0 t : creds_redacted ret t -> creds_redacted ret (OWrite ret r0 :: t).
Proof. intros H b' r [Hin|Hin] Hb; [inversion Hin; subst; congruence | eapply H; eauto]. Qed.

Section SshBounds.
  Variables (cfg : chan_cfg) (ap : auth_pats) (pw pp : bytes).
  Hypothesis Hpw : pw <> c_ret cfg.
  Hypothesis Hpp : pp <> c_ret cfg.
  Hypothesis Hne : pw <> pp.

  Let P (pc ppc : nat) (t : list obs) : Prop :=
    ((pc <= password_seen_max)%nat -> (count_writes pw t + pc <= password_seen_max)%nat)
    /\ ((ppc <= passphrase_seen_max)%nat -> (count_writes pp t + ppc <= passphrase_seen_max)%nat)
    /\ creds_redacted (c_ret cfg) t.

  Lemma P_nil pc ppc : P pc ppc [].
  Proof. repeat split; simpl; auto. apply creds_redacted_nil. Qed.
  Lemma P_nowrite pc ppc o t : (forall b r, o <> OWrite b r) -> P pc ppc t -> P pc ppc (o :: t).
  Proof.
    intros Ho [H1 [H2 H3]]. repeat split.
    - destruct o; simpl; auto. exfalso; eapply Ho; eauto.
    - destruct o; simpl; auto. exfalso; eapply Ho; eauto.
    - apply creds_redacted_cons_other; auto.
  Qed.
  Lemma P_ret pc ppc t : P pc ppc t -> P pc ppc (OWrite (c_ret cfg) false :: t).
  Proof.
    intros [H1 [H2 H3]]. repeat split; simpl.
    - rewrite (beqb_neq _ _ Hpw). auto.
    - rewrite (beqb_neq _ _ Hpp). auto.
    - apply creds_redacted_cons_ret; auto.
  Qed.
  Lemma P_pw pc ppc t : (S pc <= password_seen_max)%nat -> P (S pc) ppc t -> P pc ppc (OWrite pw true :: t).
  Proof.
    intros Hle [H1 [H2 H3]]. repeat split; simpl.
    - rewrite beqb_refl. intros _. specialize (H1 Hle). lia.
    - rewrite (beqb_neq pp pw); auto.
    - apply creds_redacted_cons_red; auto.
  Qed.
  Lemma P_pp pc ppc t : (S ppc <= passphrase_seen_max)%nat -> P pc (S ppc) t -> P pc ppc (OWrite pp true :: t).
  Proof.
    intros Hle [H1 [H2 H3]]. repeat split; simpl.
    - rewrite (beqb_neq pw pp); auto.
    - rewrite beqb_refl. intros _. specialize (H2 Hle). lia.
    - apply creds_redacted_cons_red; auto.
  Qed.

  Lemma auth_ssh_loop_bounds : forall fuel b pc ppc t,
    ptrace cfg (auth_ssh_loop fuel cfg ap pw pp b pc ppc) t -> P pc ppc t.
  Proof.
    induction fuel as [|f IH]; intros b pc ppc t H.
    - simpl in H. pinv H. apply P_nil.
    - apply ptrace_ssh_loop_inv in H. destruct H as [->|[[rb [t' [-> [Hc H]]]]|[e ->]]].
      + apply P_nil.
      + apply P_nowrite; [discriminate|]. unfold ssh_k in H.
        destruct (ssh_cls cfg ap (b ++ rb)).
        * pinv H. apply P_nil.
        * pinv H. apply P_nil.
        * destruct (Nat.ltb password_seen_max (S pc)) eqn:El; [pinv H; apply P_nil|].
          apply Nat.ltb_ge in El.
          pinv H; [apply P_nil|]. apply P_pw; auto.
          pinv H; [apply P_nil|]. apply P_ret. eapply IH; eauto.
        * destruct (Nat.ltb passphrase_seen_max (S ppc)) eqn:El; [pinv H; apply P_nil|].
          apply Nat.ltb_ge in El.
          pinv H; [apply P_nil|]. apply P_pp; auto.
          pinv H; [apply P_nil|]. apply P_ret. eapply IH; eauto.
        * eapply IH; eauto.
      + apply P_nowrite; [discriminate|]. apply P_nil.
  Qed.
End SshBounds.

Theorem auth_ssh_bounds : forall cfg ap pw pp t,
  pw <> c_ret cfg -> pp <> c_ret cfg -> pw <> pp ->
  ptrace cfg (auth_ssh cfg ap pw pp) t ->
  (count_writes pw t <= password_seen_max)%nat /\ (count_writes pp t <= passphrase_seen_max)%nat
  /\ creds_redacted (c_ret cfg) t.
Proof.
  intros cfg ap pw pp t H1 H2 H3 H.
  destruct (auth_ssh_loop_bounds cfg ap pw pp H1 H2 H3 _ _ _ _ _ H) as [A [B C]].
  repeat split; auto.
  - specialize (A (Nat.le_0_l _)). lia.
  - specialize (B (Nat.le_0_l _)). lia.
Qed.

Section TelnetBounds.
  Variables (cfg : chan_cfg) (ap : auth_pats) (user pw : bytes).
  Hypothesis Hu : user <> c_ret cfg.
  Hypothesis Hpw : pw <> c_ret cfg.
  Hypothesis Hne : user <> pw.

  Let P (uc pc : nat) (t : list obs) : Prop :=
    ((uc <= username_seen_max)%nat -> (count_writes user t + uc <= username_seen_max)%nat)
    /\ ((pc <= password_seen_max)%nat -> (count_writes pw t + pc <= password_seen_max)%nat)
    /\ creds_redacted (c_ret cfg) t.

  Lemma Pt_nil uc pc : P uc pc [].
  Proof. repeat split; simpl; auto. apply creds_redacted_nil. Qed.
  Lemma Pt_nowrite uc pc o t : (forall b r, o <> OWrite b r) -> P uc pc t -> P uc pc (o :: t).
  Proof.
    intros Ho [H1 [H2 H3]]. repeat split.
    - destruct o; simpl; auto. exfalso; eapply Ho; eauto.
    - destruct o; simpl; auto. exfalso; eapply Ho; eauto.
    - apply creds_redacted_cons_other; auto.
  Qed.
  Lemma Pt_ret uc pc t : P uc pc t -> P uc pc (OWrite (c_ret cfg) false :: t).
  Proof.
    intros [H1 [H2 H3]]. repeat split; simpl.
    - rewrite (beqb_neq _ _ Hu). auto.
    - rewrite (beqb_neq _ _ Hpw). auto.
    - apply creds_redacted_cons_ret; auto.
  Qed.
  Lemma Pt_user uc pc t : (S uc <= username_seen_max)%nat -> P (S uc) pc t -> P uc pc (OWrite user true :: t).
  Proof.
    intros Hle [H1 [H2 H3]]. repeat split; simpl.
    - rewrite beqb_refl. intros _. specialize (H1 Hle). lia.
    - rewrite (beqb_neq pw user); auto.
    - apply creds_redacted_cons_red; auto.
  Qed.
  Lemma Pt_pw uc pc t : (S pc <= password_seen_max)%nat -> P uc (S pc) t -> P uc pc (OWrite pw true :: t).
  Proof.
    intros Hle [H1 [H2 H3]]. repeat split; simpl.
    - rewrite (beqb_neq user pw); auto.
    - rewrite beqb_refl. intros _. specialize (H2 Hle). lia.
    - apply creds_redacted_cons_red; auto.
  Qed.

  Lemma auth_telnet_loop_bounds : forall fuel b uc pc t,
    ptrace cfg (auth_telnet_loop fuel cfg ap user pw b uc pc) t -> P uc pc t.
  Proof.
    induction fuel as [|f IH]; intros b uc pc t H.
    - simpl in H. pinv H. apply Pt_nil.
    - apply ptrace_tn_loop_inv in H. destruct H as [->|[[rb [t' [-> [Hc H]]]]|[e ->]]].
      + apply Pt_nil.
      + apply Pt_nowrite; [discriminate|]. unfold tn_k in H.
        destruct (tn_cls cfg ap (b ++ rb)).
        * pinv H. apply Pt_nil.
        * destruct (Nat.ltb username_seen_max (S uc)) eqn:El; [pinv H; apply Pt_nil|].
          apply Nat.ltb_ge in El.
          pinv H; [apply Pt_nil|]. apply Pt_user; auto.
          pinv H; [apply Pt_nil|]. apply Pt_ret. eapply IH; eauto.
        * destruct (Nat.ltb password_seen_max (S pc)) eqn:El; [pinv H; apply Pt_nil|].
          apply Nat.ltb_ge in El.
          pinv H; [apply Pt_nil|]. apply Pt_pw; auto.
          pinv H; [apply Pt_nil|]. apply Pt_ret. eapply IH; eauto.
        * eapply IH; eauto.
      + apply Pt_nowrite; [discriminate|]. apply Pt_nil.
  Qed.
End TelnetBounds.

Theorem auth_telnet_bounds : forall cfg ap user pw t,
  user <> c_ret cfg -> pw <> c_ret cfg -> user <> pw ->
  ptrace cfg (auth_telnet cfg ap user pw) t ->
  (count_writes user t <= username_seen_max)%nat /\ (count_writes pw t <= password_seen_max)%nat
  /\ creds_redacted (c_ret cfg) t.
Proof.
  intros cfg ap user pw t H1 H2 H3 H.
  destruct (auth_telnet_loop_bounds cfg ap user pw H1 H2 H3 _ _ _ _ _ H) as [A [B C]].
  repeat split; auto.
  - specialize (A (Nat.le_0_l _)). lia.
  - specialize (B (Nat.le_0_l _)). lia.
Qed.

(* ---------- credentials only as answers ---------- *)
(* bytes read since the last observation that was not a read (the login loops reset their buffer
   exactly when they write) *)
Fixpoint tail_reads_from (acc : bytes) (t : list obs) : bytes :=
  match t with
  | [] => acc
  | ORead _ rb :: r => tail_reads_from (acc ++ rb) r
  | _ :: r => tail_reads_from [] r
  end.

Lemma tail_reads_from_snoc_read acc t c rb :
  tail_reads_from acc (t ++ [ORead c rb]) = tail_reads_from acc t ++ rb.
Proof. revert acc; induction t as [|o t IH]; intros acc; simpl; auto. destruct o; auto. Qed.

(* CORRECTED [answered_only] (ChanTrace.answered_only tests the pattern on the last read buffer [rb]
   alone and does not constrain the head of the trace; the loops test the buffer accumulated since
   the last reset).  [ans cred ok acc armed t]: along [t], started with [acc] already read since the
   last reset, [cred] is written only when [armed], and a write is armed only by an immediately
   preceding read-until [ORead c rb] such that [ok (accumulated ++ rb) c rb]. *)
Section Answered.
  Variable cred : bytes.
  Variable ok : bytes -> cond -> bytes -> Prop.

  Inductive ans : bytes -> Prop -> list obs -> Prop :=
  | ans_nil acc a : ans acc a []
  | ans_cred acc (a : Prop) r t : a -> ans [] False t -> ans acc a (OWrite cred r :: t)
  | ans_write acc a b r t : b <> cred -> ans [] False t -> ans acc a (OWrite b r :: t)
  | ans_read acc a c rb t : ans (acc ++ rb) (ok (acc ++ rb) c rb) t -> ans acc a (ORead c rb :: t)
  | ans_err acc a c e t : ans [] False t -> ans acc a (OErr c e :: t)
  | ans_note acc a tg d t : ans [] False t -> ans acc a (ONote tg d :: t)
  | ans_requeue acc a b t : ans [] False t -> ans acc a (ORequeue b :: t).

  Definition answered_only' (t : list obs) : Prop := ans [] False t.

  (* what it means: every write of the credential is immediately preceded by a read-until that
     returned with [ok] on the accumulated buffer *)
  Lemma ans_spec : forall t acc a, ans acc a t ->
    forall t1 r t2, t = t1 ++ OWrite cred r :: t2 ->
      (t1 = [] /\ a) \/ (exists t0 c rb, t1 = t0 ++ [ORead c rb] /\ ok (tail_reads_from acc t1) c rb).
  Proof.
    induction 1; intros t1 r0 t2 E.
    - destruct t1; discriminate.
    - destruct t1 as [|o t1]; [left; auto|]. inversion E; subst.
      destruct (IHans _ _ _ eq_refl) as [[_ []]|[t0 [c [rb [E1 E2]]]]].
      right. exists (OWrite cred r :: t0), c, rb. rewrite E1. split; auto. rewrite E1 in E2. exact E2.
    - destruct t1 as [|o t1]; [inversion E; congruence|]. inversion E; subst.
      destruct (IHans _ _ _ eq_refl) as [[_ []]|[t0 [c [rb [E1 E2]]]]].
      right. exists (OWrite b r :: t0), c, rb. rewrite E1. split; auto. rewrite E1 in E2. exact E2.
    - destruct t1 as [|o t1]; [discriminate|]. inversion E; subst.
      destruct (IHans _ _ _ eq_refl) as [[-> Ha]|[t0 [c0 [rb0 [E1 E2]]]]].
      + right. exists [], c, rb. split; auto.
      + right. exists (ORead c rb :: t0), c0, rb0. rewrite E1. split; auto. rewrite E1 in E2. exact E2.
    - destruct t1 as [|o t1]; [discriminate|]. inversion E; subst.
      destruct (IHans _ _ _ eq_refl) as [[_ []]|[t0 [c0 [rb [E1 E2]]]]].
      right. exists (OErr c e :: t0), c0, rb. rewrite E1. split; auto. rewrite E1 in E2. exact E2.
    - destruct t1 as [|o t1]; [discriminate|]. inversion E; subst.
      destruct (IHans _ _ _ eq_refl) as [[_ []]|[t0 [c0 [rb [E1 E2]]]]].
      right. exists (ONote tg d :: t0), c0, rb. rewrite E1. split; auto. rewrite E1 in E2. exact E2.
    - destruct t1 as [|o t1]; [discriminate|]. inversion E; subst.
      destruct (IHans _ _ _ eq_refl) as [[_ []]|[t0 [c0 [rb [E1 E2]]]]].
      right. exists (ORequeue b :: t0), c0, rb. rewrite E1. split; auto. rewrite E1 in E2. exact E2.
  Qed.

  Theorem answered_only'_spec : forall t, answered_only' t ->
    forall t1 r t2, t = t1 ++ OWrite cred r :: t2 ->
      exists t0 c rb, t1 = t0 ++ [ORead c rb] /\ ok (tail_reads_from [] t1) c rb.
  Proof.
    intros t H t1 r t2 E. destruct (ans_spec t [] False H t1 r t2 E) as [[_ []]|X]; auto.
  Qed.
End Answered.

(* when the ssh login may answer with the password / the passphrase: [acc] is the accumulated
   buffer, which is [prefix ++ rb] for the prefix carried by the condition *)
Definition ssh_pw_ok (cfg : chan_cfg) (ap : auth_pats) (acc : bytes) (c : cond) (rb : bytes) : Prop :=
  exists prefix, c = CSshAuth prefix (ssh_pats cfg ap) /\ acc = prefix ++ rb
    /\ ssh_error (prefix ++ rb) = false /\ rx_match (c_prompt cfg) (prefix ++ rb) = false
    /\ rx_match (ap_pass ap) (prefix ++ rb) = true.
Definition ssh_pp_ok (cfg : chan_cfg) (ap : auth_pats) (acc : bytes) (c : cond) (rb : bytes) : Prop :=
  exists prefix, c = CSshAuth prefix (ssh_pats cfg ap) /\ acc = prefix ++ rb
    /\ ssh_error (prefix ++ rb) = false /\ rx_match (c_prompt cfg) (prefix ++ rb) = false
    /\ rx_match (ap_pass ap) (prefix ++ rb) = false /\ rx_match (ap_passphrase ap) (prefix ++ rb) = true.

Lemma ssh_cls_pass cfg ap b : ssh_cls cfg ap b = KPass ->
  ssh_error b = false /\ rx_match (c_prompt cfg) b = false /\ rx_match (ap_pass ap) b = true.
Proof.
  unfold ssh_cls. destruct (ssh_error b); [discriminate|]. destruct (rx_match (c_prompt cfg) b); [discriminate|].
  destruct (rx_match (ap_pass ap) b); auto. destruct (rx_match (ap_passphrase ap) b); discriminate.
Qed.
Lemma ssh_cls_passphrase cfg ap b : ssh_cls cfg ap b = KPassphrase ->
  ssh_error b = false /\ rx_match (c_prompt cfg) b = false /\ rx_match (ap_pass ap) b = false
  /\ rx_match (ap_passphrase ap) b = true.
Proof.
  unfold ssh_cls. destruct (ssh_error b); [discriminate|]. destruct (rx_match (c_prompt cfg) b); [discriminate|].
  destruct (rx_match (ap_pass ap) b); [discriminate|]. destruct (rx_match (ap_passphrase ap) b); auto. discriminate.
Qed.
Lemma ssh_cls_prompt cfg ap b : ssh_cls cfg ap b = KPrompt ->
  ssh_error b = false /\ rx_match (c_prompt cfg) b = true.
Proof.
  unfold ssh_cls. destruct (ssh_error b); [discriminate|]. destruct (rx_match (c_prompt cfg) b); auto.
  destruct (rx_match (ap_pass ap) b); [discriminate|]. destruct (rx_match (ap_passphrase ap) b); discriminate.
Qed.
Lemma ssh_cls_err cfg ap b : ssh_cls cfg ap b = KErr <-> ssh_error b = true.
Proof.
  unfold ssh_cls. destruct (ssh_error b); [tauto|]. destruct (rx_match (c_prompt cfg) b); [split; discriminate|].
  destruct (rx_match (ap_pass ap) b); [split; discriminate|]. destruct (rx_match (ap_passphrase ap) b); split; discriminate.
Qed.

Section SshAnswers.
  Variables (cfg : chan_cfg) (ap : auth_pats) (pw pp : bytes).
  Hypothesis Hpw : pw <> c_ret cfg.
  Hypothesis Hpp : pp <> c_ret cfg.
  Hypothesis Hne : pw <> pp.

  Lemma auth_ssh_loop_answers_pw : forall fuel b pc ppc t a,
    ptrace cfg (auth_ssh_loop fuel cfg ap pw pp b pc ppc) t -> ans pw (ssh_pw_ok cfg ap) b a t.
  Proof.
    induction fuel as [|f IH]; intros b pc ppc t a H.
    - simpl in H. pinv H. constructor.
    - apply ptrace_ssh_loop_inv in H. destruct H as [->|[[rb [t' [-> [Hc H]]]]|[e ->]]].
      + constructor.
      + apply ans_read. unfold ssh_k in H. destruct (ssh_cls cfg ap (b ++ rb)) eqn:K.
        * pinv H. constructor.
        * pinv H. constructor.
        * destruct (Nat.ltb password_seen_max (S pc)); [pinv H; constructor|].
          pinv H; [constructor|]. apply ans_cred.
          { apply ssh_cls_pass in K. destruct K as [K1 [K2 K3]]. exists b. repeat split; assumption. }
          pinv H; [constructor|]. apply ans_write; auto. eapply IH; eauto.
        * destruct (Nat.ltb passphrase_seen_max (S ppc)); [pinv H; constructor|].
          pinv H; [constructor|]. apply ans_write; auto.
          pinv H; [constructor|]. apply ans_write; auto. eapply IH; eauto.
        * eapply IH; eauto.
      + apply ans_err. constructor.
  Qed.

  Lemma auth_ssh_loop_answers_pp : forall fuel b pc ppc t a,
    ptrace cfg (auth_ssh_loop fuel cfg ap pw pp b pc ppc) t -> ans pp (ssh_pp_ok cfg ap) b a t.
  Proof.
    induction fuel as [|f IH]; intros b pc ppc t a H.
    - simpl in H. pinv H. constructor.
    - apply ptrace_ssh_loop_inv in H. destruct H as [->|[[rb [t' [-> [Hc H]]]]|[e ->]]].
      + constructor.
      + apply ans_read. unfold ssh_k in H. destruct (ssh_cls cfg ap (b ++ rb)) eqn:K.
        * pinv H. constructor.
        * pinv H. constructor.
        * destruct (Nat.ltb password_seen_max (S pc)); [pinv H; constructor|].
          pinv H; [constructor|]. apply ans_write; auto.
          pinv H; [constructor|]. apply ans_write; auto. eapply IH; eauto.
        * destruct (Nat.ltb passphrase_seen_max (S ppc)); [pinv H; constructor|].
          pinv H; [constructor|]. apply ans_cred.
          { apply ssh_cls_passphrase in K. destruct K as [K1 [K2 [K3 K4]]]. exists b. repeat split; assumption. }
          pinv H; [constructor|]. apply ans_write; auto. eapply IH; eauto.
        * eapply IH; eauto.
      + apply ans_err. constructor.
  Qed.
End SshAnswers.

Theorem auth_ssh_answers : forall cfg ap pw pp t,
  pw <> c_ret cfg -> pp <> c_ret cfg -> pw <> pp ->
  ptrace cfg (auth_ssh cfg ap pw pp) t ->
  answered_only' pw (ssh_pw_ok cfg ap) t /\ answered_only' pp (ssh_pp_ok cfg ap) t.
Proof.
  intros cfg ap pw pp t H1 H2 H3 H. split.
  - eapply auth_ssh_loop_answers_pw; eauto.
  - eapply auth_ssh_loop_answers_pp; eauto.
Qed.

(* the statement unfolded: the observation before any password write *)
Corollary auth_ssh_password_answers : forall cfg ap pw pp t t1 r t2,
  pw <> c_ret cfg -> pp <> c_ret cfg -> pw <> pp ->
  ptrace cfg (auth_ssh cfg ap pw pp) t -> t = t1 ++ OWrite pw r :: t2 ->
  exists t0 prefix rb, t1 = t0 ++ [ORead (CSshAuth prefix (ssh_pats cfg ap)) rb]
    /\ tail_reads_from [] t1 = prefix ++ rb
    /\ ssh_error (prefix ++ rb) = false /\ rx_match (c_prompt cfg) (prefix ++ rb) = false
    /\ rx_match (ap_pass ap) (prefix ++ rb) = true.
Proof.
  intros cfg ap pw pp t t1 r t2 H1 H2 H3 H E.
  destruct (auth_ssh_answers cfg ap pw pp t H1 H2 H3 H) as [A _].
  destruct (answered_only'_spec _ _ _ A _ _ _ E) as [t0 [c [rb [E1 [prefix [-> [X1 [X2 [X3 X4]]]]]]]]].
  exists t0, prefix, rb. repeat split; assumption.
Qed.

Corollary auth_ssh_passphrase_answers : forall cfg ap pw pp t t1 r t2,
  pw <> c_ret cfg -> pp <> c_ret cfg -> pw <> pp ->
  ptrace cfg (auth_ssh cfg ap pw pp) t -> t = t1 ++ OWrite pp r :: t2 ->
  exists t0 prefix rb, t1 = t0 ++ [ORead (CSshAuth prefix (ssh_pats cfg ap)) rb]
    /\ tail_reads_from [] t1 = prefix ++ rb
    /\ ssh_error (prefix ++ rb) = false /\ rx_match (c_prompt cfg) (prefix ++ rb) = false
    /\ rx_match (ap_pass ap) (prefix ++ rb) = false /\ rx_match (ap_passphrase ap) (prefix ++ rb) = true.
Proof.
  intros cfg ap pw pp t t1 r t2 H1 H2 H3 H E.
  destruct (auth_ssh_answers cfg ap pw pp t H1 H2 H3 H) as [_ A].
  destruct (answered_only'_spec _ _ _ A _ _ _ E) as [t0 [c [rb [E1 [prefix [-> [X1 [X2 [X3 [X4 X5]]]]]]]]]].
  exists t0, prefix, rb. repeat split; assumption.
Qed.

(* telnet: the condition carries no prefix; the tests are on the accumulated buffer *)
Definition tn_user_ok (cfg : chan_cfg) (ap : auth_pats) (acc : bytes) (c : cond) (rb : bytes) : Prop :=
  c = CAnyPrompt (tn_pats cfg ap) /\ rx_match (c_prompt cfg) acc = false /\ rx_match (ap_user ap) acc = true.
Definition tn_pw_ok (cfg : chan_cfg) (ap : auth_pats) (acc : bytes) (c : cond) (rb : bytes) : Prop :=
  c = CAnyPrompt (tn_pats cfg ap) /\ rx_match (c_prompt cfg) acc = false /\ rx_match (ap_user ap) acc = false
  /\ rx_match (ap_pass ap) acc = true.

Lemma tn_cls_user cfg ap b : tn_cls cfg ap b = TUser ->
  rx_match (c_prompt cfg) b = false /\ rx_match (ap_user ap) b = true.
Proof.
  unfold tn_cls. destruct (rx_match (c_prompt cfg) b); [discriminate|].
  destruct (rx_match (ap_user ap) b); auto. destruct (rx_match (ap_pass ap) b); discriminate.
Qed.
Lemma tn_cls_pass cfg ap b : tn_cls cfg ap b = TPass ->
  rx_match (c_prompt cfg) b = false /\ rx_match (ap_user ap) b = false /\ rx_match (ap_pass ap) b = true.
Proof.
  unfold tn_cls. destruct (rx_match (c_prompt cfg) b); [discriminate|].
  destruct (rx_match (ap_user ap) b); [discriminate|]. destruct (rx_match (ap_pass ap) b); auto. discriminate.
Qed.

Section TelnetAnswers.
  Variables (cfg : chan_cfg) (ap : auth_pats) (user pw : bytes).
  Hypothesis Hu : user <> c_ret cfg.
  Hypothesis Hpw : pw <> c_ret cfg.
  Hypothesis Hne : user <> pw.

  Lemma auth_telnet_loop_answers_user : forall fuel b uc pc t a,
    ptrace cfg (auth_telnet_loop fuel cfg ap user pw b uc pc) t -> ans user (tn_user_ok cfg ap) b a t.
  Proof.
    induction fuel as [|f IH]; intros b uc pc t a H.
    - simpl in H. pinv H. constructor.
    - apply ptrace_tn_loop_inv in H. destruct H as [->|[[rb [t' [-> [Hc H]]]]|[e ->]]].
      + constructor.
      + apply ans_read. unfold tn_k in H. destruct (tn_cls cfg ap (b ++ rb)) eqn:K.
        * pinv H. constructor.
        * destruct (Nat.ltb username_seen_max (S uc)); [pinv H; constructor|].
          pinv H; [constructor|]. apply ans_cred.
          { apply tn_cls_user in K. destruct K as [K1 K2]. repeat split; assumption. }
          pinv H; [constructor|]. apply ans_write; auto. eapply IH; eauto.
        * destruct (Nat.ltb password_seen_max (S pc)); [pinv H; constructor|].
          pinv H; [constructor|]. apply ans_write; auto.
          pinv H; [constructor|]. apply ans_write; auto. eapply IH; eauto.
        * eapply IH; eauto.
      + apply ans_err. constructor.
  Qed.

  Lemma auth_telnet_loop_answers_pw : forall fuel b uc pc t a,
    ptrace cfg (auth_telnet_loop fuel cfg ap user pw b uc pc) t -> ans pw (tn_pw_ok cfg ap) b a t.
  Proof.
    induction fuel as [|f IH]; intros b uc pc t a H.
    - simpl in H. pinv H. constructor.
    - apply ptrace_tn_loop_inv in H. destruct H as [->|[[rb [t' [-> [Hc H]]]]|[e ->]]].
      + constructor.
      + apply ans_read. unfold tn_k in H. destruct (tn_cls cfg ap (b ++ rb)) eqn:K.
        * pinv H. constructor.
        * destruct (Nat.ltb username_seen_max (S uc)); [pinv H; constructor|].
          pinv H; [constructor|]. apply ans_write; auto.
          pinv H; [constructor|]. apply ans_write; auto. eapply IH; eauto.
        * destruct (Nat.ltb password_seen_max (S pc)); [pinv H; constructor|].
          pinv H; [constructor|]. apply ans_cred.
          { apply tn_cls_pass in K. destruct K as [K1 [K2 K3]]. repeat split; assumption. }
          pinv H; [constructor|]. apply ans_write; auto. eapply IH; eauto.
        * eapply IH; eauto.
      + apply ans_err. constructor.
  Qed.
End TelnetAnswers.

Theorem auth_telnet_answers : forall cfg ap user pw t,
  user <> c_ret cfg -> pw <> c_ret cfg -> user <> pw ->
  ptrace cfg (auth_telnet cfg ap user pw) t ->
  answered_only' user (tn_user_ok cfg ap) t /\ answered_only' pw (tn_pw_ok cfg ap) t.
Proof.
  intros cfg ap user pw t H1 H2 H3 H. split.
  - eapply auth_telnet_loop_answers_user; eauto.
  - eapply auth_telnet_loop_answers_pw; eauto.
Qed.

(* ---------- outcomes of the ssh login ---------- *)
Lemma ctrace_bind_inv cfg A B (p : prog A) (f : A -> prog B) : forall t r,
  ctrace cfg (bind p f) t r ->
  (exists t1 t2 a, t = t1 ++ t2 /\ ctrace cfg p t1 (inl a) /\ ctrace cfg (f a) t2 r)
  \/ (exists e, ctrace cfg p t (inr e) /\ r = inr e).
Proof.
  induction p; simpl; intros t r0 Hc.
  - left. exists [], t, r. repeat split; auto. constructor.
  - pinv Hc. right. exists e. split; auto. constructor.
  - pinv Hc. destruct (IHp _ _ Hc) as [[t1 [t2 [a [E [H1 H2]]]]]|[e [H1 E]]].
    + left. exists (OWrite b redacted :: t1), t2, a. subst. repeat split; auto. constructor; auto.
    + right. exists e. split; auto. constructor; auto.
  - pinv Hc.
    + destruct (H _ _ _ Hc) as [[t1 [t2 [a [E [H1 H2]]]]]|[e [H1 E]]].
      * left. exists (ORead c rb :: t1), t2, a. subst. repeat split; auto. constructor; auto.
      * right. exists e. split; auto. constructor; auto.
    + destruct (H0 _ _ _ Hc) as [[t1 [t2 [a [E [H1 H2]]]]]|[e' [H1 E]]].
      * left. exists (OErr c e :: t1), t2, a. subst. repeat split; auto. apply ct_err; auto.
      * right. exists e'. split; auto. apply ct_err; auto.
  - pinv Hc. destruct (IHp _ _ Hc) as [[t1 [t2 [a [E [H1 H2]]]]]|[e [H1 E]]].
    + left. exists (ONote tag data :: t1), t2, a. subst. repeat split; auto. constructor; auto.
    + right. exists e. split; auto. constructor; auto.
  - pinv Hc. destruct (IHp _ _ Hc) as [[t1 [t2 [a [E [H1 H2]]]]]|[e [H1 E]]].
    + left. exists (ORequeue b :: t1), t2, a. subst. repeat split; auto. constructor; auto.
    + right. exists e. split; auto. constructor; auto.
Qed.

Fixpoint last_opt (t : list obs) : option obs :=
  match t with
  | [] => None
  | o :: r => match last_opt r with None => Some o | x => x end
  end.

Lemma last_opt_snoc t o : last_opt (t ++ [o]) = Some o.
Proof. induction t as [|x t IH]; simpl; auto. rewrite IH. auto. Qed.

Lemma last_opt_some t o : last_opt t = Some o -> exists t0, t = t0 ++ [o].
Proof.
  revert o; induction t as [|x t IH]; simpl; intros o H; [discriminate|].
  destruct (last_opt t) eqn:E.
  - inversion H; subst. destruct (IH _ eq_refl) as [t0 ->]. exists (x :: t0); auto.
  - inversion H; subst. destruct t; [exists []; auto|]. simpl in E. destruct (last_opt t); discriminate.
Qed.

(* classes of the buffers the reads of a trace returned with (accumulated since the last reset) *)
Fixpoint read_classes (cfg : chan_cfg) (ap : auth_pats) (acc : bytes) (t : list obs) : list ssh_class :=
  match t with
  | [] => []
  | ORead _ rb :: r => ssh_cls cfg ap (acc ++ rb) :: read_classes cfg ap (acc ++ rb) r
  | _ :: r => read_classes cfg ap [] r
  end.

Definition ssh_class_dec : forall a b : ssh_class, {a = b} + {a <> b}.
Proof. decide equality. Defined.
Definition cnt (k : ssh_class) (l : list ssh_class) : nat := count_occ ssh_class_dec l k.

(* the outcome as a function of the last observation and the buffer accumulated at the end *)
Definition ssh_verdict (cfg : chan_cfg) (ap : auth_pats) (lo : option obs) (acc : bytes) (r : bytes + err) : Prop :=
  match lo with
  | None => r = inr EOperation                       (* the model's iteration bound *)
  | Some (OErr _ e) => r = inr e
  | Some (ORead _ _) =>
      match ssh_cls cfg ap acc with
      | KErr => r = inr EConnection
      | KPrompt => r = inl acc
      | KPass | KPassphrase => r = inr EAuth
      | KNone => r = inr EOperation                  (* the model's iteration bound *)
      end
  | Some (OWrite _ _) => r = inr EOperation          (* the model's iteration bound *)
  | Some _ => False
  end.

(* the last observation is a read whose accumulated buffer is a password / passphrase prompt *)
Definition ends_at_prompt (cfg : chan_cfg) (ap : auth_pats) (b : bytes) (t : list obs) : Prop :=
  exists c rb, last_opt t = Some (ORead c rb)
    /\ (ssh_cls cfg ap (tail_reads_from b t) = KPass \/ ssh_cls cfg ap (tail_reads_from b t) = KPassphrase).

Definition one_too_many (cfg : chan_cfg) (ap : auth_pats) (b : bytes) (pc ppc : nat) (t : list obs) : Prop :=
  (pc + cnt KPass (read_classes cfg ap b t) = S password_seen_max)%nat
  \/ (ppc + cnt KPassphrase (read_classes cfg ap b t) = S passphrase_seen_max)%nat.

Section SshOutcome.
  Variables (cfg : chan_cfg) (ap : auth_pats) (pw pp : bytes).

  Lemma ends_at_prompt_skip b o1 t :
    (forall c rb, o1 <> ORead c rb) -> last_opt t <> None ->
    (ends_at_prompt cfg ap b (o1 :: t) <-> ends_at_prompt cfg ap [] t).
  Proof.
    intros Ho Hl. unfold ends_at_prompt. simpl last_opt.
    destruct (last_opt t) eqn:E; [|congruence].
    assert (Et : tail_reads_from b (o1 :: t) = tail_reads_from [] t).
    { destruct o1; auto. exfalso; eapply Ho; eauto. }
    rewrite Et. tauto.
  Qed.

  Lemma auth_ssh_loop_outcome : forall fuel b pc ppc t r,
    (pc <= password_seen_max)%nat -> (ppc <= passphrase_seen_max)%nat ->
    ctrace cfg (auth_ssh_loop fuel cfg ap pw pp b pc ppc) t r ->
    ssh_verdict cfg ap (last_opt t) (tail_reads_from b t) r
    /\ (one_too_many cfg ap b pc ppc t <-> ends_at_prompt cfg ap b t).
  Proof.
    induction fuel as [|f IH]; intros b pc ppc t r Hpc Hppc H.
    - simpl in H. pinv H. split; [reflexivity|].
      unfold one_too_many, ends_at_prompt, cnt. simpl. split.
      + intros [X|X]; lia.
      + intros [c [rb [X _]]]. discriminate.
    - apply ctrace_ssh_loop_inv in H. destruct H as [[rb [t' [-> [Hc H]]]]|[e [-> ->]]].
      2:{ split; [reflexivity|]. unfold one_too_many, ends_at_prompt, cnt. simpl. split.
          - intros [X|X]; lia.
          - intros [c [rb [X _]]]. discriminate. }
      unfold ssh_k in H. destruct (ssh_cls cfg ap (b ++ rb)) eqn:K.
      + pinv H. split; [simpl; rewrite K; reflexivity|].
        unfold one_too_many, ends_at_prompt, cnt. simpl. rewrite K. simpl. split.
        * intros [X|X]; lia.
        * intros [c [rb' [_ [X|X]]]]; discriminate.
      + pinv H. split; [simpl; rewrite K; reflexivity|].
        unfold one_too_many, ends_at_prompt, cnt. simpl. rewrite K. simpl. split.
        * intros [X|X]; lia.
        * intros [c [rb' [_ [X|X]]]]; discriminate.
      + destruct (Nat.ltb password_seen_max (S pc)) eqn:El.
        * apply Nat.ltb_lt in El. pinv H. split; [simpl; rewrite K; reflexivity|].
          unfold one_too_many, ends_at_prompt, cnt. simpl. rewrite K. simpl. split.
          -- intros _. eauto.
          -- intros _. left. lia.
        * apply Nat.ltb_ge in El. pinv H. pinv H.
          match type of H with ctrace _ _ ?tt _ => rename tt into tz end.
          destruct (IH [] (S pc) ppc _ _ El Hppc H) as [V C].
          split.
          -- simpl last_opt. simpl tail_reads_from. destruct (last_opt tz) eqn:E; auto.
          -- assert (C1 : one_too_many cfg ap b pc ppc
                            (ORead (CSshAuth b (ssh_pats cfg ap)) rb :: OWrite pw true :: OWrite (c_ret cfg) false :: tz)
                          <-> one_too_many cfg ap [] (S pc) ppc tz).
             { unfold one_too_many, cnt. simpl. rewrite K. simpl.
               split; intros [X|X]; [left|right|left|right]; lia. }
             rewrite C1, C. unfold ends_at_prompt. simpl last_opt. simpl tail_reads_from.
             destruct (last_opt tz) eqn:E; [tauto|].
             split; intros [c [rb' [X _]]]; discriminate.
      + destruct (Nat.ltb passphrase_seen_max (S ppc)) eqn:El.
        * apply Nat.ltb_lt in El. pinv H. split; [simpl; rewrite K; reflexivity|].
          unfold one_too_many, ends_at_prompt, cnt. simpl. rewrite K. simpl. split.
          -- intros _. eauto.
          -- intros _. right. lia.
        * apply Nat.ltb_ge in El. pinv H. pinv H.
          match type of H with ctrace _ _ ?tt _ => rename tt into tz end.
          destruct (IH [] pc (S ppc) _ _ Hpc El H) as [V C].
          split.
          -- simpl last_opt. simpl tail_reads_from. destruct (last_opt tz) eqn:E; auto.
          -- assert (C1 : one_too_many cfg ap b pc ppc
                            (ORead (CSshAuth b (ssh_pats cfg ap)) rb :: OWrite pp true :: OWrite (c_ret cfg) false :: tz)
                          <-> one_too_many cfg ap [] pc (S ppc) tz).
             { unfold one_too_many, cnt. simpl. rewrite K. simpl.
               split; intros [X|X]; [left|right|left|right]; lia. }
             rewrite C1, C. unfold ends_at_prompt. simpl last_opt. simpl tail_reads_from.
             destruct (last_opt tz) eqn:E; [tauto|].
             split; intros [c [rb' [X _]]]; discriminate.
      + destruct (IH (b ++ rb) pc ppc _ _ Hpc Hppc H) as [V C].
        split.
        * simpl last_opt. simpl tail_reads_from. destruct (last_opt t') eqn:E; auto.
          destruct t'; [|simpl in E; destruct (last_opt t'); discriminate].
          simpl. rewrite K. exact V.
        * assert (C1 : one_too_many cfg ap b pc ppc (ORead (CSshAuth b (ssh_pats cfg ap)) rb :: t')
                       <-> one_too_many cfg ap (b ++ rb) pc ppc t').
          { unfold one_too_many, cnt. simpl. rewrite K. simpl. tauto. }
          rewrite C1, C. unfold ends_at_prompt. simpl last_opt. simpl tail_reads_from.
          destruct (last_opt t') eqn:E; [tauto|].
          destruct t'; [|simpl in E; destruct (last_opt t'); discriminate].
          simpl. rewrite K. split.
          -- intros [c [rb' [X _]]]; discriminate.
          -- intros [c [rb' [_ [X|X]]]]; discriminate.
  Qed.
End SshOutcome.

(* the outcome of a complete ssh login is determined by its last observation; a third password
   (passphrase) prompt is seen exactly when the trace ends at such a prompt *)
Theorem auth_outcomes : forall cfg ap pw pp t r,
  ctrace cfg (auth_ssh cfg ap pw pp) t r ->
  ssh_verdict cfg ap (last_opt t) (tail_reads_from [] t) r
  /\ (one_too_many cfg ap [] 0 0 t <-> ends_at_prompt cfg ap [] t).
Proof.
  intros cfg ap pw pp t r H. eapply auth_ssh_loop_outcome; eauto; apply Nat.le_0_l.
Qed.

(* inl b iff the prompt pattern matched the buffer accumulated at the last read; b is that buffer *)
Corollary auth_outcome_ok : forall cfg ap pw pp t r b,
  ctrace cfg (auth_ssh cfg ap pw pp) t r ->
  (r = inl b <-> exists c rb, last_opt t = Some (ORead c rb) /\ b = tail_reads_from [] t
                              /\ ssh_error b = false /\ rx_match (c_prompt cfg) b = true).
Proof.
  intros cfg ap pw pp t r b H. destruct (auth_outcomes _ _ _ _ _ _ H) as [V _].
  unfold ssh_verdict in V. split.
  - intros ->. destruct (last_opt t) as [[| |c rb| |]|]; try discriminate; try contradiction.
    destruct (ssh_cls cfg ap (tail_reads_from [] t)) eqn:K; try discriminate.
    inversion V; subst. apply ssh_cls_prompt in K. destruct K. exists c, rb. auto.
  - intros [c [rb [E [-> [H1 H2]]]]]. rewrite E in V.
    unfold ssh_cls in V. rewrite H1, H2 in V. exact V.
Qed.

(* inr EAuth iff a third password or passphrase prompt was seen (or the environment handed EAuth
   to a read, which the interpreter never does) *)
Corollary auth_outcome_auth : forall cfg ap pw pp t r,
  ctrace cfg (auth_ssh cfg ap pw pp) t r ->
  (r = inr EAuth <-> one_too_many cfg ap [] 0 0 t \/ exists c, last_opt t = Some (OErr c EAuth)).
Proof.
  intros cfg ap pw pp t r H. destruct (auth_outcomes _ _ _ _ _ _ H) as [V C]. rewrite C.
  unfold ssh_verdict in V. unfold ends_at_prompt. split.
  - intros ->. destruct (last_opt t) as [[| |c rb|c e|]|]; try discriminate; try contradiction.
    + destruct (ssh_cls cfg ap (tail_reads_from [] t)) eqn:K; try discriminate; left; eauto.
    + inversion V; subst. right; eauto.
  - intros [[c [rb [E K]]]|[c E]]; rewrite E in V; auto.
    destruct K as [K|K]; rewrite K in V; auto.
Qed.

(* inr EConnection iff the last buffer carried an ssh error message (or the connection was lost) *)
Corollary auth_outcome_connection : forall cfg ap pw pp t r,
  ctrace cfg (auth_ssh cfg ap pw pp) t r ->
  (r = inr EConnection <->
   (exists c rb, last_opt t = Some (ORead c rb) /\ ssh_error (tail_reads_from [] t) = true)
   \/ exists c, last_opt t = Some (OErr c EConnection)).
Proof.
  intros cfg ap pw pp t r H. destruct (auth_outcomes _ _ _ _ _ _ H) as [V _].
  unfold ssh_verdict in V. split.
  - intros ->. destruct (last_opt t) as [[| |c rb|c e|]|]; try discriminate; try contradiction.
    + destruct (ssh_cls cfg ap (tail_reads_from [] t)) eqn:K; try discriminate.
      apply ssh_cls_err in K. left; eauto.
    + inversion V; subst. right; eauto.
  - intros [[c [rb [E K]]]|[c E]]; rewrite E in V; auto.
    apply (proj2 (ssh_cls_err cfg ap _)) in K. rewrite K in V. auto.
Qed.

Corollary auth_outcome_timeout : forall cfg ap pw pp t r c,
  ctrace cfg (auth_ssh cfg ap pw pp) t r -> In (OErr c ETimeout) t -> r = inr ETimeout.
Proof. intros. eapply timeout_is_timeout; eauto. constructor. Qed.

(* Channel.Open puts exactly the buffer the login returned back on the queue *)
Lemma requeue_tail cfg (p : prog bytes) t r :
  ctrace cfg (bind p (fun b => match b with [] => Ret [] | _ => Requeue b (Ret b) end)) t r ->
  match r with
  | inl b => (b = [] /\ ctrace cfg p t (inl [])) \/ (b <> [] /\ exists t0, t = t0 ++ [ORequeue b] /\ ctrace cfg p t0 (inl b))
  | inr e => ctrace cfg p t (inr e)
  end.
Proof.
  intros H. apply ctrace_bind_inv in H. destruct H as [[t1 [t2 [a [E [H1 H2]]]]]|[e [H1 ->]]]; auto.
  destruct a as [|x a].
  - pinv H2. rewrite app_nil_r. auto.
  - pinv H2. pinv H2. right. split; [discriminate|]. eauto.
Qed.

Theorem channel_open_requeues_ssh : forall cfg ap pw pp t r,
  ctrace cfg (channel_open cfg ap (AuthSSH pw pp)) t r ->
  match r with
  | inl b => (b = [] /\ ctrace cfg (auth_ssh cfg ap pw pp) t (inl []))
             \/ (b <> [] /\ exists t0, t = t0 ++ [ORequeue b] /\ ctrace cfg (auth_ssh cfg ap pw pp) t0 (inl b))
  | inr e => ctrace cfg (auth_ssh cfg ap pw pp) t (inr e)
  end.
Proof. intros. apply requeue_tail. exact H. Qed.

Theorem channel_open_requeues_telnet : forall cfg ap u pw t r,
  ctrace cfg (channel_open cfg ap (AuthTelnet u pw)) t r ->
  match r with
  | inl b => (b = [] /\ ctrace cfg (auth_telnet cfg ap u pw) t (inl []))
             \/ (b <> [] /\ exists t0, t = t0 ++ [ORequeue b] /\ ctrace cfg (auth_telnet cfg ap u pw) t0 (inl b))
  | inr e => ctrace cfg (auth_telnet cfg ap u pw) t (inr e)
  end.
Proof. intros. apply requeue_tail. exact H. Qed.

(* ====================================================================== *)
(* C.  C12 — pacing; the secret only at its prompt                         *)
(* ====================================================================== *)

Definition prefix_of {A} (l l' : list A) : Prop := exists r, l' = l ++ r.

Lemma prefix_of_nil {A} (l : list A) : prefix_of [] l.
Proof. exists l; auto. Qed.
Lemma prefix_of_cons {A} (x : A) l l' : prefix_of l l' -> prefix_of (x :: l) (x :: l').
Proof. intros [r ->]. exists r; auto. Qed.

(* SendInput: input, echo read, return, prompt read — in this order *)
Theorem send_input_return_after_echo : forall cfg input o t,
  o_eager o = false -> input <> [] -> ptrace cfg (send_input cfg input o) t ->
  (exists rb1 rb2, prefix_of t [OWrite input false; ORead (echo_cond o input) rb1;
                                OWrite (c_ret cfg) false; ORead (prompt_cond cfg o) rb2])
  \/ (exists e, t = [OWrite input false; OErr (echo_cond o input) e])
  \/ (exists rb1 e, t = [OWrite input false; ORead (echo_cond o input) rb1;
                         OWrite (c_ret cfg) false; OErr (prompt_cond cfg o) e]).
Proof.
  intros cfg input o t He Hi H. unfold send_input in H. rewrite He in H.
  destruct input as [|x input]; [congruence|].
  assert (Eu : forall (k : bytes -> prog bytes), until_echo o (x :: input) k = Until (echo_cond o (x :: input)) k Fail).
  { intros k. unfold until_echo. destruct (o_exact o); reflexivity. }
  rewrite Eu in H. fold (prompt_cond cfg o) in H.
  pinv H; [left; exists [], []; apply prefix_of_nil|].
  pinv H; [left; exists [], []; apply prefix_of_cons, prefix_of_nil| |].
  - pinv H; [left; exists rb, []; do 2 apply prefix_of_cons; apply prefix_of_nil|].
    pinv H; [left; exists rb, []; do 3 apply prefix_of_cons; apply prefix_of_nil| |].
    + pinv H. left. exists rb, rb0. do 4 apply prefix_of_cons. apply prefix_of_nil.
    + pinv H. right; right. eauto.
  - pinv H. right; left. eauto.
Qed.

Lemma cons_split {A} (a x : A) l t1 t2 :
  a :: l = t1 ++ x :: t2 -> (t1 = [] /\ a = x /\ l = t2) \/ (exists t1', t1 = a :: t1' /\ l = t1' ++ x :: t2).
Proof. destruct t1 as [|y t1]; simpl; intros H; inversion H; subst; eauto. Qed.
Lemma nil_split {A} (x : A) t1 t2 : [] = t1 ++ x :: t2 -> False.
Proof. destruct t1; discriminate. Qed.
Ltac csplit H :=
  first [ apply nil_split in H; contradiction
        | apply cons_split in H; destruct H as [[? [? ?]]|[? [? H]]]; subst ].

(* in particular: whatever precedes a write of the return (other than the input itself) is the
   input and its completed echo read *)
Corollary return_after_echo : forall cfg input o t t1 r t2,
  o_eager o = false -> input <> [] -> ptrace cfg (send_input cfg input o) t ->
  t = t1 ++ OWrite (c_ret cfg) r :: t2 -> t1 <> [] ->
  exists rb, t1 = [OWrite input false; ORead (echo_cond o input) rb].
Proof.
  intros cfg input o t t1 r t2 He Hi H E Hne.
  destruct (send_input_return_after_echo cfg input o t He Hi H) as [[rb1 [rb2 [rest P]]]|[[e ->]|[rb1 [e ->]]]].
  - rewrite E in P. rewrite <- app_assoc in P. simpl in P.
    csplit P; [congruence|]. csplit P; [discriminate|]. csplit P; [eauto|]. csplit P; [discriminate|]. csplit P.
  - csplit E; [congruence|]. csplit E; [discriminate|]. csplit E.
  - csplit E; [congruence|]. csplit E; [discriminate|]. csplit E; [eauto|]. csplit E; [discriminate|]. csplit E.
Qed.

(* ---------- SendInteractive: the shape of every trace ---------- *)
Definition ia_has_echo (o : op_opts) (e : ievent) : bool :=
  match ev_response e, ev_hidden e with
  | Some _, false => match ev_input e with [] => false | _ => true end
  | _, _ => false
  end.

Definition ia_prompts (cfg : chan_cfg) (o : op_opts) (e : ievent) : list re :=
  o_complete o ++ [match ev_response e with Some r => r | None => c_prompt cfg end].

(* after the event's input (and echo): the return, then a read-until of the event's prompts; what
   follows ([next]) only after that read returned, and nothing if a completion pattern matched *)
Definition ia_ret_stage (cfg : chan_cfg) (o : op_opts) (e : ievent) (next : list obs -> Prop) (t2 : list obs) : Prop :=
  t2 = [] \/ exists t3, t2 = OWrite (c_ret cfg) false :: t3 /\
    (t3 = [] \/ (exists er, t3 = [OErr (CAnyPrompt (ia_prompts cfg o e)) er])
     \/ exists pb t4, t3 = ORead (CAnyPrompt (ia_prompts cfg o e)) pb :: t4
                      /\ cond_holds cfg (CAnyPrompt (ia_prompts cfg o e)) pb = true
                      /\ (if existsb (fun p => rx_match p pb) (o_complete o) then t4 = [] else next t4)).

Definition ia_event_shape (cfg : chan_cfg) (o : op_opts) (e : ievent) (next : list obs -> Prop) (t : list obs) : Prop :=
  t = [] \/ exists t1, t = OWrite (ev_input e) (ev_hidden e) :: t1 /\
    if ia_has_echo o e
    then t1 = [] \/ (exists er, t1 = [OErr (echo_cond o (ev_input e)) er])
         \/ exists rb t2, t1 = ORead (echo_cond o (ev_input e)) rb :: t2 /\ ia_ret_stage cfg o e next t2
    else ia_ret_stage cfg o e next t1.

Fixpoint ia_shape (cfg : chan_cfg) (o : op_opts) (evs : list ievent) (t : list obs) : Prop :=
  match evs with
  | [] => t = []
  | e :: rest => ia_event_shape cfg o e (ia_shape cfg o rest) t
  end.

Theorem interactive_paced_loop : forall cfg o evs acc t,
  ptrace cfg (interactive_loop cfg o evs acc) t -> ia_shape cfg o evs t.
Proof.
  intros cfg o. induction evs as [|e rest IH]; intros acc t H; cbn [interactive_loop] in H.
  - pinv H. reflexivity.
  - cbn [ia_shape]. unfold ia_event_shape.
    pinv H; [left; auto|]. right. eexists; split; [reflexivity|].
    fold (ia_prompts cfg o e) in H.
    assert (K : forall acc' t2,
       ptrace cfg (Write (c_ret cfg) false
          (Until (CAnyPrompt (ia_prompts cfg o e))
             (fun pb => match rest with
                        | [] => Ret (process_out cfg (acc' ++ pb) false)
                        | _ :: _ => if existsb (fun p => rx_match p pb) (o_complete o)
                                    then Ret (process_out cfg (acc' ++ pb) false)
                                    else interactive_loop cfg o rest (acc' ++ pb)
                        end) Fail)) t2 -> ia_ret_stage cfg o e (ia_shape cfg o rest) t2).
    { intros acc' t2 H2. unfold ia_ret_stage. pinv H2; [left; auto|]. right. eexists; split; [reflexivity|].
      pinv H2; [left; auto| |].
      - right; right. do 2 eexists. split; [reflexivity|]. split; [assumption|].
        destruct rest as [|e' rest'].
        + pinv H2. destruct (existsb _ _); reflexivity.
        + destruct (existsb (fun p => rx_match p rb) (o_complete o)); [pinv H2; reflexivity|].
          eapply IH; eauto.
      - pinv H2. right; left. eauto. }
    unfold ia_has_echo. destruct (ev_response e) as [resp|]; [|eapply K; eauto].
    destruct (ev_hidden e); [eapply K; eauto|].
    unfold until_echo in H. destruct (ev_input e) as [|x inp] eqn:Ei.
    + eapply K; eauto.
    + assert (Em : (match o_exact o with false | _ => true end) = true) by (destruct (o_exact o); auto).
      assert (H' : ptrace cfg (Until (echo_cond o (x :: inp))
                    (fun nb => Write (c_ret cfg) false
                       (Until (CAnyPrompt (ia_prompts cfg o e))
                          (fun pb => match rest with
                                     | [] => Ret (process_out cfg ((acc ++ nb) ++ pb) false)
                                     | _ :: _ => if existsb (fun p => rx_match p pb) (o_complete o)
                                                 then Ret (process_out cfg ((acc ++ nb) ++ pb) false)
                                                 else interactive_loop cfg o rest ((acc ++ nb) ++ pb)
                                     end) Fail)) Fail) t0).
      { destruct (o_exact o); exact H. }
      clear H Em. pinv H'; [left; auto| |].
      * right; right. do 2 eexists. split; [reflexivity|]. eapply K; eauto.
      * pinv H'. right; left. eauto.
Qed.

(* between the write of event i's return and the write of event i+1's input there is a completed
   read-until of event i's prompts; hidden inputs are written redacted, visible ones not *)
Theorem interactive_paced : forall cfg evs o t,
  ptrace cfg (send_interactive cfg evs o) t -> ia_shape cfg o evs t.
Proof. intros. eapply interactive_paced_loop; eauto. Qed.

(* ---------- the secret only at its prompt ---------- *)
(* [ChanTrace.guard_ok] with the "armed" test as a parameter *)
Section GuardP.
  Variable secret : bytes.
  Variable asp : bytes -> bool.

  Inductive guard_okP : bool -> list obs -> Prop :=
  | gp_nil a : guard_okP a []
  | gp_write_secret r t : r = true -> guard_okP false t -> guard_okP true (OWrite secret r :: t)
  | gp_write_other a b r t : b <> secret -> guard_okP false t -> guard_okP a (OWrite b r :: t)
  | gp_read a c rb t : guard_okP (asp rb) t -> guard_okP a (ORead c rb :: t)
  | gp_err a c e t : guard_okP false t -> guard_okP a (OErr c e :: t)
  | gp_note a tg d t : guard_okP a t -> guard_okP a (ONote tg d :: t)
  | gp_requeue a b t : guard_okP false t -> guard_okP a (ORequeue b :: t).

  Definition is_note (o : obs) : Prop := match o with ONote _ _ => True | _ => False end.

  (* what the guard means: a write of the secret is redacted, and the last observation before it
     that is not a log note is a read-until whose buffer armed the guard *)
  Lemma guard_okP_spec : forall a t, guard_okP a t ->
    forall t1 r t2, t = t1 ++ OWrite secret r :: t2 ->
      r = true /\ ((Forall is_note t1 /\ a = true)
                   \/ exists t0 c rb ns, t1 = t0 ++ ORead c rb :: ns /\ Forall is_note ns /\ asp rb = true).
  Proof.
    induction 1; intros t1 r0 t2 E.
    - exfalso; eapply nil_split; eauto.
    - csplit E.
      + match goal with Hx : OWrite _ _ = OWrite _ _ |- _ => inversion Hx; subst end. split; auto.
      + destruct (IHguard_okP _ _ _ eq_refl) as [Hr [[_ X]|[t0 [c [rb [ns [E1 [E2 E3]]]]]]]]; [discriminate|].
        split; auto. right. rewrite E1. eexists (_ :: t0), c, rb, ns. split; [reflexivity|auto].
    - csplit E.
      + match goal with Hx : OWrite _ _ = OWrite _ _ |- _ => inversion Hx; subst end. congruence.
      + destruct (IHguard_okP _ _ _ eq_refl) as [Hr [[_ X]|[t0 [c [rb [ns [E1 [E2 E3]]]]]]]]; [discriminate|].
        split; auto. right. rewrite E1. eexists (_ :: t0), c, rb, ns. split; [reflexivity|auto].
    - csplit E; [discriminate|].
      destruct (IHguard_okP _ _ _ eq_refl) as [Hr [[X1 X2]|[t0 [c0 [rb0 [ns [E1 [E2 E3]]]]]]]].
      + split; auto. right. exists [], c, rb, x. auto.
      + split; auto. right. rewrite E1. eexists (_ :: t0), c0, rb0, ns. split; [reflexivity|auto].
    - csplit E; [discriminate|].
      destruct (IHguard_okP _ _ _ eq_refl) as [Hr [[_ X]|[t0 [c0 [rb [ns [E1 [E2 E3]]]]]]]]; [discriminate|].
      split; auto. right. rewrite E1. eexists (_ :: t0), c0, rb, ns. split; [reflexivity|auto].
    - csplit E; [discriminate|].
      destruct (IHguard_okP _ _ _ eq_refl) as [Hr [[X1 X2]|[t0 [c0 [rb [ns [E1 [E2 E3]]]]]]]].
      + split; auto. left. split; auto. constructor; simpl; auto.
      + split; auto. right. rewrite E1. eexists (_ :: t0), c0, rb, ns. split; [reflexivity|auto].
    - csplit E; [discriminate|].
      destruct (IHguard_okP _ _ _ eq_refl) as [Hr [[_ X]|[t0 [c0 [rb [ns [E1 [E2 E3]]]]]]]]; [discriminate|].
      split; auto. right. rewrite E1. eexists (_ :: t0), c0, rb, ns. split; [reflexivity|auto].
  Qed.
End GuardP.

Lemma guard_okP_mono secret (asp asp' : bytes -> bool) :
  (forall rb, asp rb = true -> asp' rb = true) ->
  forall a t, guard_okP secret asp a t -> forall a', (a = true -> a' = true) -> guard_okP secret asp' a' t.
Proof.
  intros Hm a t H. induction H; intros a' Ha.
  - constructor.
  - rewrite (Ha eq_refl). apply gp_write_secret; auto.
  - apply gp_write_other; auto.
  - apply gp_read. apply IHguard_okP. apply Hm.
  - apply gp_err. apply IHguard_okP. auto.
  - apply gp_note. apply IHguard_okP. auto.
  - apply gp_requeue. apply IHguard_okP. auto.
Qed.

Lemma guard_okP_guard_ok cfg secret esc complete a t :
  guard_okP secret (at_secret_prompt cfg esc complete) a t <-> guard_ok cfg secret esc complete a t.
Proof.
  split; induction 1; try (constructor; auto; fail).
Qed.

Lemma cond_holds_anyprompt cfg pats rb :
  cond_holds cfg (CAnyPrompt pats) rb = existsb (fun p => rx_match p (process_read_buf rb (c_depth cfg))) pats.
Proof. reflexivity. Qed.

(* the armed test that [interactive_loop] really implements for a hidden second event: some
   pattern among the completion patterns and the first event's response matched the search WINDOW,
   and no completion pattern matched the WHOLE buffer *)
Definition armed_window (cfg : chan_cfg) (esc_prompt : re) (complete : list re) (rb : bytes) : bool :=
  cond_holds cfg (CAnyPrompt (complete ++ [esc_prompt])) rb
  && negb (existsb (fun p => rx_match p rb) complete).

Lemma interactive_two_guarded : forall cfg o inp resp1 secret resp2 acc t,
  secret <> inp -> secret <> c_ret cfg ->
  ptrace cfg (interactive_loop cfg o [mkEv inp (Some resp1) false; mkEv secret (Some resp2) true] acc) t ->
  guard_okP secret (armed_window cfg resp1 (o_complete o)) false t.
Proof.
  intros cfg o inp resp1 secret resp2 acc t Hs Hr H.
  apply interactive_paced_loop in H. cbn [ia_shape] in H.
  assert (K2 : forall t4, ia_event_shape cfg o (mkEv secret (Some resp2) true) (fun t => t = []) t4 ->
                          guard_okP secret (armed_window cfg resp1 (o_complete o)) true t4).
  { intros t4 [->|[t1 [-> S1]]]; [constructor|]. simpl ev_input. simpl ev_hidden.
    apply gp_write_secret; auto. unfold ia_has_echo in S1. simpl in S1.
    destruct S1 as [->|[t3 [-> S3]]]; [constructor|]. apply gp_write_other; auto.
    destruct S3 as [->|[[er ->]|[pb [t5 [-> [Hc S5]]]]]]; [constructor|apply gp_err; constructor|].
    apply gp_read. destruct (existsb _ _); subst; constructor. }
  assert (K1 : forall t2, ia_ret_stage cfg o (mkEv inp (Some resp1) false)
                            (ia_event_shape cfg o (mkEv secret (Some resp2) true) (fun t => t = [])) t2 ->
                          forall a, guard_okP secret (armed_window cfg resp1 (o_complete o)) a t2).
  { intros t2 [->|[t3 [-> S3]]] a; [constructor|]. apply gp_write_other; auto.
    destruct S3 as [->|[[er ->]|[pb [t5 [-> [Hc S5]]]]]]; [constructor|apply gp_err; constructor|].
    apply gp_read. unfold armed_window. unfold ia_prompts in Hc. simpl ev_response in Hc. rewrite Hc.
    destruct (existsb (fun p => rx_match p pb) (o_complete o)); simpl.
    - subst. constructor.
    - apply K2. exact S5. }
  destruct H as [->|[t1 [-> S1]]]; [constructor|]. simpl ev_input. simpl ev_hidden.
  apply gp_write_other; auto.
  destruct (ia_has_echo o (mkEv inp (Some resp1) false)).
  - destruct S1 as [->|[[er ->]|[rb [t2 [-> S2]]]]]; [constructor|apply gp_err; constructor|].
    apply gp_read. apply K1. exact S2.
  - apply K1. exact S1.
Qed.

Definition escalate_complete (net : netcfg) (p : level) : list re :=
  (match lookup_level (n_levels net) (lv_previous p) with Some pl => [lv_pattern pl] | None => [] end)
  ++ [lv_pattern p].

(* TRUE VARIANT of [escalate_guarded]: the guard with the test the code implements *)
Theorem escalate_guarded_partial : forall net target p t,
  lookup_level (n_levels net) target = Some p -> lv_escalate_auth p = true ->
  n_secondary net <> [] -> n_secondary net <> lv_escalate p -> n_secondary net <> c_ret (n_chan net) ->
  ptrace (n_chan net) (escalate net target) t ->
  guard_okP (n_secondary net) (armed_window (n_chan net) (lv_escalate_prompt p) (escalate_complete net p)) false t.
Proof.
  intros net target p t Hl Ha Hn He Hr H. unfold escalate in H. rewrite Hl, Ha in H.
  destruct (n_secondary net) as [|x s] eqn:Es; [congruence|]. simpl in H.
  unfold send_interactive in H. rewrite <- Es in *.
  eapply interactive_two_guarded in H; eauto.
Qed.

(* [escalate_guarded] as stated holds when a completion pattern that matches the search window of
   a buffer also matches the whole buffer *)
Theorem escalate_guarded : forall net target p t,
  lookup_level (n_levels net) target = Some p -> lv_escalate_auth p = true ->
  n_secondary net <> [] -> n_secondary net <> lv_escalate p -> n_secondary net <> c_ret (n_chan net) ->
  (forall r rb, In r (escalate_complete net p) ->
                rx_match r (process_read_buf rb (c_depth (n_chan net))) = true -> rx_match r rb = true) ->
  ptrace (n_chan net) (escalate net target) t ->
  guard_ok (n_chan net) (n_secondary net) (lv_escalate_prompt p) (escalate_complete net p) false t.
Proof.
  intros net target p t Hl Ha Hn He Hr Hwin H.
  apply guard_okP_guard_ok.
  eapply guard_okP_mono; [| eapply escalate_guarded_partial; eauto | auto].
  intros rb Harm. unfold armed_window in Harm. unfold at_secret_prompt.
  apply andb_true_iff in Harm. destruct Harm as [H1 H2]. rewrite H2, andb_true_r.
  rewrite cond_holds_anyprompt, existsb_app in H1. apply orb_true_iff in H1. destruct H1 as [H1|H1].
  - exfalso. apply existsb_exists in H1. destruct H1 as [r [Hin Hm]].
    apply negb_true_iff in H2.
    assert (X : existsb (fun p0 => rx_match p0 rb) (escalate_complete net p) = true).
    { apply existsb_exists. exists r. split; auto. }
    congruence.
  - simpl in H1. rewrite orb_false_r in H1. exact H1.
Qed.

(* consequence: if the device grants or refuses without asking, the secret is never written *)
Corollary escalate_secret_only_at_prompt : forall net target p t t1 r t2,
  lookup_level (n_levels net) target = Some p -> lv_escalate_auth p = true ->
  n_secondary net <> [] -> n_secondary net <> lv_escalate p -> n_secondary net <> c_ret (n_chan net) ->
  (forall r rb, In r (escalate_complete net p) ->
                rx_match r (process_read_buf rb (c_depth (n_chan net))) = true -> rx_match r rb = true) ->
  ptrace (n_chan net) (escalate net target) t ->
  t = t1 ++ OWrite (n_secondary net) r :: t2 ->
  r = true /\ exists t0 c rb ns, t1 = t0 ++ ORead c rb :: ns /\ Forall is_note ns
     /\ rx_match (lv_escalate_prompt p) (process_read_buf rb (c_depth (n_chan net))) = true
     /\ existsb (fun q => rx_match q rb) (escalate_complete net p) = false.
Proof.
  intros net target p t t1 r t2 Hl Ha Hn He Hr Hwin H E.
  pose proof (escalate_guarded net target p t Hl Ha Hn He Hr Hwin H) as G.
  apply guard_okP_guard_ok in G.
  destruct (guard_okP_spec _ _ _ _ G _ _ _ E) as [Hred [[_ X]|[t0 [c [rb [ns [E1 [E2 E3]]]]]]]]; [discriminate|].
  split; auto. exists t0, c, rb, ns. unfold at_secret_prompt in E3.
  apply andb_true_iff in E3. destruct E3 as [E3 E4]. apply negb_true_iff in E4. auto.
Qed.

(* ---------- COUNTEREXAMPLE to [escalate_guarded] without the window hypothesis ---------- *)
(* completion pattern \A#\z (a non-multiline ^#$), search depth 1: the device answers "ab#" to
   "enable"; the window "#" matches the completion pattern, the whole buffer does not, the
   escalation prompt was never seen — and the secret is written *)
Definition cx_pat : re := RCat RBot (RCat (RCls [(35, 35)]) REot).
Definition cx_esc : re := re_lit [80;97;115;115;119;111;114;100;58].          (* Password: *)
Definition cx_enable : bytes := [101;110;97;98;108;101].
Definition cx_secret : bytes := [115;51;99;114;101;116].
Definition cx_priv : bytes := [112;114;105;118].
Definition cx_level : level := mkLevel cx_priv [] cx_pat [] [] [100] cx_enable true [] cx_esc.
Definition cx_chan : chan_cfg := mkCfg 1 cx_pat [10] 0%Z.
Definition cx_net : netcfg := mkNet [(cx_priv, cx_level)] cx_priv cx_secret cx_chan (fun _ l => l) (fun l => l).
Definition cx_buf : bytes := [97;98;35].                                        (* ab# *)
Definition cx_trace : list obs :=
  [OWrite cx_enable false; ORead (echo_cond default_opts cx_enable) cx_enable; OWrite [10] false;
   ORead (CAnyPrompt [cx_pat; cx_esc]) cx_buf; OWrite cx_secret true].

Lemma cx_is_trace : ptrace (n_chan cx_net) (escalate cx_net cx_priv) cx_trace.
Proof.
  assert (E : escalate cx_net cx_priv =
              interactive_loop cx_chan
                (mkOpts default_strip_prompt default_eager default_exact [] [cx_pat])
                [mkEv cx_enable (Some cx_esc) false; mkEv cx_secret (Some cx_pat) true] []) by reflexivity.
  rewrite E. clear E. change (n_chan cx_net) with cx_chan. unfold cx_trace.
  cbn [interactive_loop ev_input ev_hidden ev_response]. apply pt_write.
  assert (Eu : forall k : bytes -> prog bytes,
            until_echo (mkOpts default_strip_prompt default_eager default_exact [] [cx_pat]) cx_enable k
            = Until (echo_cond default_opts cx_enable) k Fail).
  { intros k. unfold until_echo, echo_cond, cx_enable. cbn [o_exact default_opts]. destruct default_exact; reflexivity. }
  rewrite Eu. apply pt_read; [vm_compute; reflexivity|].
  apply pt_write. cbn [o_complete app]. apply pt_read; [vm_compute; reflexivity|].
  replace (existsb (fun p => rx_match p cx_buf) [cx_pat]) with false by (vm_compute; reflexivity).
  cbn [interactive_loop ev_input ev_hidden ev_response]. apply pt_write. apply pt_nil.
Qed.

Lemma guard_ok_inv_write cfg s e c a b r t :
  guard_ok cfg s e c a (OWrite b r :: t) ->
  (b = s /\ a = true /\ r = true /\ guard_ok cfg s e c false t) \/ (b <> s /\ guard_ok cfg s e c false t).
Proof. inversion 1; subst; auto. Qed.
Lemma guard_ok_inv_read cfg s e c a cd rb t :
  guard_ok cfg s e c a (ORead cd rb :: t) -> guard_ok cfg s e c (at_secret_prompt cfg e c rb) t.
Proof. inversion 1; subst; auto. Qed.

Theorem escalate_guarded_refuted :
  ~ (forall net target p t,
       lookup_level (n_levels net) target = Some p -> lv_escalate_auth p = true ->
       n_secondary net <> [] -> n_secondary net <> lv_escalate p -> n_secondary net <> c_ret (n_chan net) ->
       ptrace (n_chan net) (escalate net target) t ->
       guard_ok (n_chan net) (n_secondary net) (lv_escalate_prompt p) (escalate_complete net p) false t).
Proof.
  intros Hall.
  assert (G : guard_ok cx_chan cx_secret cx_esc [cx_pat] false cx_trace).
  { apply (Hall cx_net cx_priv cx_level cx_trace); try reflexivity; try discriminate. apply cx_is_trace. }
  unfold cx_trace in G.
  apply guard_ok_inv_write in G. destruct G as [[E _]|[_ G]]; [discriminate|].
  apply guard_ok_inv_read in G.
  apply guard_ok_inv_write in G. destruct G as [[E _]|[_ G]]; [discriminate|].
  apply guard_ok_inv_read in G.
  replace (at_secret_prompt cx_chan cx_esc [cx_pat] cx_buf) with false in G by (vm_compute; reflexivity).
  apply guard_ok_inv_write in G. destruct G as [[_ [E _]]|[E _]]; [discriminate|]. apply E; reflexivity.
Qed.

(* ====================================================================== *)
(* from traces back to executions: examples of the bridge A in use          *)
(* ====================================================================== *)
Lemma count_writes_wlog b t :
  count_writes b t = length (filter (fun w : bytes * bool => beqb b (fst w)) (writes_of t)).
Proof.
  induction t as [|o t IH]; simpl; auto. destruct o; simpl; auto.
  rewrite IH. destruct (beqb b b0); reflexivity.
Qed.

Lemma in_writes_of b r t : In (b, r) (writes_of t) <-> In (OWrite b r) t.
Proof.
  induction t as [|o t IH]; [simpl; tauto|].
  change (writes_of (o :: t)) with ((match o with OWrite b r => [(b, r)] | _ => [] end) ++ writes_of t).
  rewrite in_app_iff, IH. simpl In at 2.
  destruct o; simpl; split; intros [H|H]; auto; try contradiction; try discriminate.
  - destruct H as [H|[]]. inversion H; auto.
  - inversion H; auto.
Qed.

(* whatever the device does and however the goroutines interleave, the ssh login writes the
   password at most [password_seen_max] times, the passphrase at most [passphrase_seen_max] times,
   and everything it writes except the return is redacted *)
Theorem run_auth_ssh_bounds :
  forall D (feed : D -> bytes -> D * bytes) cfg ap pw pp d start sched,
    pw <> c_ret cfg -> pp <> c_ret cfg -> pw <> pp ->
    let st := run feed cfg sched (init_sys d start (auth_ssh cfg ap pw pp)) in
    (length (filter (fun w : bytes * bool => beqb pw (fst w)) (s_wlog st)) <= password_seen_max)%nat
    /\ (length (filter (fun w : bytes * bool => beqb pp (fst w)) (s_wlog st)) <= passphrase_seen_max)%nat
    /\ (forall b r, In (b, r) (s_wlog st) -> b <> c_ret cfg -> r = true).
Proof.
  intros D feed cfg ap pw pp d start sched H1 H2 H3 st.
  destruct (run_has_trace D feed cfg _ (auth_ssh cfg ap pw pp) d start sched) as [t [Hp [Hw _]]].
  fold st in Hw. rewrite Hw.
  destruct (auth_ssh_bounds cfg ap pw pp t H1 H2 H3 Hp) as [A [B C]].
  rewrite <- !count_writes_wlog. repeat split; auto.
  intros b r Hin Hb. apply in_writes_of in Hin. eapply C; eauto.
Qed.

(* every callback recorded in the log of a run had its trigger true on the buffer it was given,
   and no earlier callback's trigger held *)
Theorem run_callbacks_fire_right :
  forall D (feed : D -> bytes -> D * bytes) cfg input cbs d start sched,
    let st := run feed cfg sched (init_sys d start (send_with_callbacks cfg input cbs)) in
    Forall (fun nt => fst nt = TAG_CB -> cb_note_ok cbs (snd nt)) (s_notes st).
Proof.
  intros D feed cfg input cbs d start sched st.
  destruct (run_has_trace D feed cfg _ (send_with_callbacks cfg input cbs) d start sched) as [t [Hp [_ [Hn _]]]].
  fold st in Hn. rewrite Hn. apply callbacks_fire_right with (cfg := cfg) (input := input). exact Hp.
Qed.

(* a finished operation that met a deadline reports a timeout — in every execution *)
Theorem run_timeout_is_timeout :
  forall D (feed : D -> bytes -> D * bytes) p cfg d start sched,
    chan_op p cfg ->
    let st := run feed cfg sched (init_sys d start p) in
    exists t, s_wlog st = writes_of t /\
      forall r, outcome st = Some r -> forall c, In (OErr c ETimeout) t ->
        r = inr ETimeout /\ exists t0, t = t0 ++ [OErr c ETimeout].
Proof.
  intros D feed p cfg d start sched Hp st.
  destruct (run_has_trace D feed cfg _ p d start sched) as [t [_ [Hw [_ Hc]]]].
  fold st in Hw, Hc. exists t. split; auto. intros r Ho c Hin.
  eapply timeout_is_timeout; eauto.
Qed.

Print Assumptions run_has_trace_env.
Print Assumptions sim_trace.
Print Assumptions sim_run_sfeed.
Print Assumptions sim_escalate.
Print Assumptions sim_acquire_priv.
Print Assumptions sim_net_send_command.
Print Assumptions sim_channel_open_ssh.
Print Assumptions sim_channel_open_telnet.
Print Assumptions sim_send_interactive.
Print Assumptions secret_absent.
Print Assumptions escalate_guarded.
Print Assumptions escalate_guarded_partial.
Print Assumptions escalate_guarded_refuted.
Print Assumptions escalate_secret_only_at_prompt.
Print Assumptions send_input_return_after_echo.
Print Assumptions return_after_echo.
Print Assumptions interactive_paced.
Print Assumptions cb_check_is_spec.
Print Assumptions first_firing_spec.
Print Assumptions first_firing_none.
Print Assumptions callbacks_fire_right.
Print Assumptions callbacks_once.
Print Assumptions callbacks_complete.
Print Assumptions callbacks_timeout.
Print Assumptions auth_ssh_bounds.
Print Assumptions auth_telnet_bounds.
Print Assumptions auth_ssh_answers.
Print Assumptions auth_ssh_password_answers.
Print Assumptions auth_ssh_passphrase_answers.
Print Assumptions auth_telnet_answers.
Print Assumptions auth_outcomes.
Print Assumptions auth_outcome_ok.
Print Assumptions auth_outcome_auth.
Print Assumptions auth_outcome_connection.
Print Assumptions channel_open_requeues_ssh.
Print Assumptions get_timeout_precedence.
Print Assumptions timeout_is_timeout.
Print Assumptions error_is_final.
Print Assumptions implicit_acquire_failure_is_privilege.
Print Assumptions loss_is_error.
Print Assumptions loss_under_acquire_default.
Print Assumptions net_send_command_errors.
Print Assumptions run_auth_ssh_bounds.
Print Assumptions run_callbacks_fire_right.
Print Assumptions run_timeout_is_timeout.
