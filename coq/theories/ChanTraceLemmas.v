(* ChanTraceLemmas.v — proofs about program-level traces (ChanTrace.v):
   A  traces are sound for every execution of the interpreter ([run_has_trace]);
   B  C11 redaction as noninterference ([sim_trace], [sim_run_sfeed], instances, [secret_absent]);
   C  C12 secret only at its prompt / pacing;
   D  C18 callbacks;
   E  C10 login;
   F  C05/C06 timeouts and loss. *)
From Scrapli Require Import Bytes Regex PlatformTypes Generated Channel Network Session ChanTrace.
Open Scope N_scope.

(* ---------- small facts on byte strings ---------- *)
Lemma beqb_true_eq (a b : bytes) : beqb a b = true -> a = b.
Proof.
  revert b; induction a as [|x a IH]; destruct b as [|y b]; simpl; intros H; try discriminate; auto.
  apply andb_true_iff in H; destruct H as [H1 H2]. apply N.eqb_eq in H1. f_equal; auto.
Qed.
Lemma beqb_refl (a : bytes) : beqb a a = true.
Proof. induction a; simpl; auto. rewrite N.eqb_refl; auto. Qed.
Lemma beqb_false_neq (a b : bytes) : beqb a b = false <-> a <> b.
Proof.
  split.
  - intros H E; subst. rewrite beqb_refl in H; discriminate.
  - intros H. destruct (beqb a b) eqn:E; auto. apply beqb_true_eq in E; contradiction.
Qed.
Lemma beqb_neq (a b : bytes) : a <> b -> beqb a b = false.
Proof. apply beqb_false_neq. Qed.

(* ====================================================================== *)
(* A.  Traces are sound for executions                                     *)
(* ====================================================================== *)

Section Residual.
  Variable cfg : chan_cfg.
  Context {R : Type}.

  (* following [t] from [p] leads to [q] *)
  Inductive residual : prog R -> list obs -> prog R -> Prop :=
  | rs_nil p : residual p [] p
  | rs_write b r k t q : residual k t q -> residual (Write b r k) (OWrite b r :: t) q
  | rs_note tg d k t q : residual k t q -> residual (Note tg d k) (ONote tg d :: t) q
  | rs_requeue b k t q : residual k t q -> residual (Requeue b k) (ORequeue b :: t) q
  | rs_read c k h rb t q : cond_holds cfg c rb = true -> residual (k rb) t q -> residual (Until c k h) (ORead c rb :: t) q
  | rs_err c k h e t q : residual (h e) t q -> residual (Until c k h) (OErr c e :: t) q.

  Lemma residual_app p t q t' q' : residual p t q -> residual q t' q' -> residual p (t ++ t') q'.
  Proof. induction 1; simpl; intros; auto; constructor; auto. Qed.

  Lemma residual_ptrace p t q : residual p t q -> ptrace cfg p t.
  Proof. induction 1; constructor; auto. Qed.

  Lemma residual_ptrace_app p t q t' : residual p t q -> ptrace cfg q t' -> ptrace cfg p (t ++ t').
  Proof. induction 1; simpl; intros; auto; constructor; auto. Qed.

  Lemma residual_ctrace_app p t q t' o : residual p t q -> ctrace cfg q t' o -> ctrace cfg p (t ++ t') o.
  Proof. induction 1; simpl; intros; auto; constructor; auto. Qed.

  Lemma residual_ret p t r : residual p t (Ret r) -> ctrace cfg p t (inl r).
  Proof. intros H. rewrite <- (app_nil_r t). eapply residual_ctrace_app; eauto. constructor. Qed.

  Lemma residual_fail p t e : residual p t (Fail e) -> ctrace cfg p t (inr e).
  Proof. intros H. rewrite <- (app_nil_r t). eapply residual_ctrace_app; eauto. constructor. Qed.

  Lemma ctrace_ptrace (p : prog R) t o : ctrace cfg p t o -> ptrace cfg p t.
  Proof. induction 1; constructor; auto. Qed.

  (* every prefix of a path is a residual *)
  Lemma ptrace_residual p t : ptrace cfg p t -> exists q, residual p t q.
  Proof.
    induction 1.
    - eexists; constructor.
    - destruct IHptrace as [q Hq]; eexists; constructor; eauto.
    - destruct IHptrace as [q Hq]; eexists; constructor; eauto.
    - destruct IHptrace as [q Hq]; eexists; constructor; eauto.
    - destruct IHptrace as [q Hq]; eexists; constructor; eauto.
    - destruct IHptrace as [q Hq]; eexists; apply rs_err; eauto.
  Qed.
End Residual.

Lemma writes_of_app a b : writes_of (a ++ b) = writes_of a ++ writes_of b.
Proof. unfold writes_of. apply flat_map_app. Qed.
Lemma notes_of_app a b : notes_of (a ++ b) = notes_of a ++ notes_of b.
Proof. unfold notes_of. apply flat_map_app. Qed.
Lemma visible_app a b : visible (a ++ b) = visible a ++ visible b.
Proof. unfold visible. apply flat_map_app. Qed.

(* settling notes follows a trace of notes only *)
Lemma skip_notes_spec cfg R (q : prog R) : forall notes,
  exists tn, residual cfg q tn (fst (skip_notes R q notes))
             /\ snd (skip_notes R q notes) = notes ++ notes_of tn /\ writes_of tn = [].
Proof.
  induction q; intros notes; simpl;
    try (exists []; simpl; rewrite app_nil_r; repeat split; constructor).
  destruct (IHq (notes ++ [(tag, data)])) as [tn [H1 [H2 H3]]].
  exists (ONote tag data :: tn). split; [constructor; auto|]. split; auto.
  rewrite H2. simpl. rewrite <- app_assoc. reflexivity.
Qed.

Section Soundness.
  Variable D : Type.
  Variable feed : D -> bytes -> D * bytes.
  Variable cfg : chan_cfg.
  Variable R : Type.

  Definition tr_inv (p : prog R) (s : @sys D R) : Prop :=
    exists t, residual cfg p t (s_pc s) /\ s_wlog s = writes_of t /\ s_notes s = notes_of t.

  Lemma set_pc_inv (p : prog R) (s : @sys D R) (q : prog R) t :
    residual cfg p t q -> s_wlog s = writes_of t -> s_notes s = notes_of t ->
    tr_inv p (set_pc s q).
  Proof.
    intros Hr Hw Hn. unfold set_pc.
    destruct (skip_notes_spec cfg R q (s_notes s)) as [tn [H1 [H2 H3]]].
    destruct (skip_notes R q (s_notes s)) as [p' n'] eqn:E. simpl in *.
    exists (t ++ tn). simpl. split; [eapply residual_app; eauto|].
    rewrite writes_of_app, notes_of_app, H3, app_nil_r, H2, Hn. auto.
  Qed.

  Lemma init_inv (p : prog R) d start : tr_inv p (init_sys d start p).
  Proof. unfold init_sys. eapply set_pc_inv with (t := []); simpl; auto. constructor. Qed.

  Lemma step_inv (p : prog R) s e : tr_inv p s -> tr_inv p (step feed cfg s e).
  Proof.
    intros [t [Hr [Hw Hn]]].
    assert (Hsame : tr_inv p s) by (exists t; auto).
    destruct e; simpl.
    - (* Rd *)
      destruct (s_reader s); auto; destruct (s_pending s); auto; exists t; simpl; auto.
    - (* Op *)
      destruct (s_pc s) as [r|e|b red k|c k h|tg d k|b k] eqn:Epc; auto.
      + destruct (feed (s_dev s) b) as [d' out].
        eapply set_pc_inv with (t := t ++ [OWrite b red]).
        * eapply residual_app; eauto. constructor. constructor.
        * simpl. rewrite writes_of_app, Hw. reflexivity.
        * simpl. rewrite notes_of_app, Hn. simpl. rewrite ?app_nil_r; auto.
      + destruct (s_reader s).
        * destruct (s_queue s) as [|chunk q']; auto.
          destruct (cond_holds cfg c (s_acc s ++ chunk)) eqn:Ec.
          -- eapply set_pc_inv with (t := t ++ [ORead c (s_acc s ++ chunk)]).
             ++ eapply residual_app; eauto. constructor; auto. constructor.
             ++ simpl. rewrite writes_of_app, Hw. simpl. rewrite ?app_nil_r; auto.
             ++ simpl. rewrite notes_of_app, Hn. simpl. rewrite ?app_nil_r; auto.
          -- exists t; simpl. auto.
        * eapply set_pc_inv with (t := t ++ [OErr c EConnection]).
          ++ eapply residual_app; eauto. apply rs_err. constructor.
          ++ simpl. rewrite writes_of_app, Hw. simpl. rewrite ?app_nil_r; auto.
          ++ simpl. rewrite notes_of_app, Hn. simpl. rewrite ?app_nil_r; auto.
        * eapply set_pc_inv with (t := t ++ [OErr c ETransport]).
          ++ eapply residual_app; eauto. apply rs_err. constructor.
          ++ simpl. rewrite writes_of_app, Hw. simpl. rewrite ?app_nil_r; auto.
          ++ simpl. rewrite notes_of_app, Hn. simpl. rewrite ?app_nil_r; auto.
      + eapply set_pc_inv with (t := t ++ [ORequeue b]).
        * eapply residual_app; eauto. constructor. constructor.
        * simpl. rewrite writes_of_app, Hw. simpl. rewrite ?app_nil_r; auto.
        * simpl. rewrite notes_of_app, Hn. simpl. rewrite ?app_nil_r; auto.
    - (* Deadline *)
      destruct (s_pc s) as [r|e|b red k|c k h|tg d k|b k] eqn:Epc; auto.
      eapply set_pc_inv with (t := t ++ [OErr c ETimeout]).
      ++ eapply residual_app; eauto. apply rs_err. constructor.
      ++ simpl. rewrite writes_of_app, Hw. simpl. rewrite ?app_nil_r; auto.
      ++ simpl. rewrite notes_of_app, Hn. simpl. rewrite ?app_nil_r; auto.
    - exists t; simpl; auto.
    - destruct (s_reader s); auto; exists t; simpl; auto.
  Qed.

  Lemma run_inv (p : prog R) sched : forall s, tr_inv p s -> tr_inv p (run feed cfg sched s).
  Proof.
    induction sched as [|e l IH]; simpl; intros s H; auto.
    apply IH. apply step_inv; auto.
  Qed.
End Soundness.

Theorem run_has_trace :
  forall D (feed : D -> bytes -> D * bytes) cfg R (p : prog R) d start sched,
    let st := run feed cfg sched (init_sys d start p) in
    exists t, ptrace cfg p t /\ s_wlog st = writes_of t /\ s_notes st = notes_of t
              /\ (forall r, outcome st = Some r -> ctrace cfg p t r).
Proof.
  intros D feed cfg R p d start sched st.
  destruct (run_inv D feed cfg R p sched _ (init_inv D cfg R p d start)) as [t [Hr [Hw Hn]]].
  fold st in Hr, Hw, Hn.
  exists t. split; [eapply residual_ptrace; eauto|]. split; auto. split; auto.
  intros r Ho. unfold outcome in Ho.
  destruct (s_pc st) eqn:E; inversion Ho; subst.
  - apply residual_ret; auto.
  - apply residual_fail; auto.
Qed.
