(* NetworkAbs.v — privilege navigation at the level of whole exchanges: each GetPrompt returns the
   device's current prompt and each SendInput / escalation dialogue delivers its line(s) to the
   device, which changes mode according to the privilege tree.  This is the level at which the
   graph/loop reasoning of C04 lives; the exchanges themselves are C01's subject (phase lemma).
   Definitions only; proofs in NetworkLemmas.v. *)
From Coq Require Import Permutation.
From Scrapli Require Import Bytes Regex PlatformTypes Generated Channel Network.
Open Scope N_scope.

(* the device: a mode (level name) and a log of (mode at arrival, line) *)
Record adev := mkADev { d_mode : bytes; d_log : list (bytes * bytes) }.

(* children of a mode whose escalate command is [line] *)
Definition child_by_cmd (ls : list (bytes * level)) (mode line : bytes) : option bytes :=
  match filter (fun kl => beqb (lv_previous (snd kl)) mode && beqb (lv_escalate (snd kl)) line) ls with
  | kl :: _ => Some (lv_name (snd kl))
  | [] => None
  end.

(* one line arrives: a child's escalate command moves down, the mode's own de-escalate command
   moves up, anything else leaves the mode unchanged; empty lines are bare returns *)
Definition dev_line (ls : list (bytes * level)) (d : adev) (line : bytes) : adev :=
  let logged := mkADev (d_mode d) (d_log d ++ [(d_mode d, line)]) in
  match line with
  | [] => d
  | _ =>
      match child_by_cmd ls (d_mode d) line with
      | Some c => mkADev c (d_log logged)
      | None =>
          match lookup_level ls (d_mode d) with
          | Some l => if beqb (lv_deescalate l) line && negb (match lv_previous l with [] => true | _ => false end)
                      then mkADev (lv_previous l) (d_log logged) else logged
          | None => logged
          end
      end
  end.

(* the lines one action sends: the escalate command (followed by the secret when the edge is
   authenticated and a secret is configured — the device consumes it as the password, it is not a
   command line) or the de-escalate command *)
Definition action_line (net : netcfg) (a : action) : bytes :=
  match a with
  | AEscalate next => match lookup_level (n_levels net) next with Some l => lv_escalate l | None => [] end
  | ADeescalate cur => match lookup_level (n_levels net) cur with Some l => lv_deescalate l | None => [] end
  | ANone => []
  end.

Inductive aresult := AOk (d : adev) (cached : bytes) | AErrPriv (d : adev) | APanicked.

Fixpoint acquire_abs (fuel : nat) (net : netcfg) (prompt_of : bytes -> bytes)
         (d : adev) (cached target : bytes) (count : nat) : aresult :=
  match fuel with
  | O => AErrPriv d
  | S f =>
      match process_acquire net cached target (prompt_of (d_mode d)) with
      | PAErr => AErrPriv d
      | PAPanic => APanicked
      | PAOk ANone cur => AOk d cur
      | PAOk a cur =>
          let d' := dev_line (n_levels net) d (action_line net a) in
          let count' := S count in
          if Nat.ltb (2 * length (n_levels net)) count' then AErrPriv d'
          else acquire_abs f net prompt_of d' cur target count'
      end
  end.

Definition acquire_priv_abs (net : netcfg) (prompt_of : bytes -> bytes) (d : adev) (cached target : bytes) : aresult :=
  match lookup_level (n_levels net) target with
  | None => AErrPriv d
  | Some _ => acquire_abs (2 * length (n_levels net) + 2) net prompt_of d cached target 0
  end.

(* the commands of a path: for each consecutive pair (x, y): y's escalate command if y is a
   child of x, else x's de-escalate command; each paired with the mode it is typed in *)
Fixpoint path_cmds (ls : list (bytes * level)) (p : list bytes) : list (bytes * bytes) :=
  match p with
  | x :: ((y :: _) as rest) =>
      (x, match lookup_level ls y with
          | Some ly => if beqb (lv_previous ly) x then lv_escalate ly
                       else match lookup_level ls x with Some lx => lv_deescalate lx | None => [] end
          | None => []
          end) :: path_cmds ls rest
  | _ => []
  end.

(* hypotheses *)
(* every level's prompt identifies exactly that level, whatever the iteration order *)
Definition prompts_identify (net : netcfg) (prompt_of : bytes -> bytes) : Prop :=
  forall m, In m (names (n_levels net)) -> determine_current net (prompt_of m) = [m].

(* the device is deterministic on the tree's commands: every non-root level has non-empty
   escalate and de-escalate commands, siblings' escalate commands differ, and a mode's
   de-escalate command is not the escalate command of one of its children *)
Definition cmds_ok (ls : list (bytes * level)) : Prop :=
  (forall k l, In (k, l) ls -> lv_previous l <> [] -> lv_escalate l <> [] /\ lv_deescalate l <> [])
  /\ (forall k1 l1 k2 l2, In (k1, l1) ls -> In (k2, l2) ls -> lv_previous l1 = lv_previous l2 ->
                           lv_previous l1 <> [] -> lv_escalate l1 = lv_escalate l2 -> k1 = k2)
  /\ (forall k l kc lc, In (k, l) ls -> In (kc, lc) ls -> lv_previous lc = lv_name l -> lv_escalate lc <> lv_deescalate l).

(* the iteration-order parameters only permute *)
Definition orders_ok (net : netcfg) : Prop :=
  (forall n l, Permutation (n_order net n l) l)
  /\ (forall l, Permutation (n_level_order net l) l).
