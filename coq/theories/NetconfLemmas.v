(* NetconfLemmas.v — machine-checked facts about Netconf.v (C02 decoding, C03 framing).
   No axioms; every main theorem is followed by Print Assumptions at the end of the file. *)
From Scrapli Require Export Bytes BytesLemmas.
From Scrapli Require Import Generated Netconf.
From Coq Require Import ZifyBool ZifyN ZifyNat.
Open Scope N_scope.

(* the only facts about generated constants that the proofs below use; each is re-checked by
   computation against whatever Generated.v currently contains *)
Lemma nc_max_len_10 : nc_max_chunk_size_char_len = 10%nat.
Proof. reflexivity. Qed.

(* [ws s]: every byte of [s] is ASCII whitespace.  Defined once, in BytesLemmas.v (re-exported):
     Definition ws (s : bytes) : Prop := Forall (fun b => ascii_space b = true) s. *)
Lemma ws_unfold (s : bytes) : ws s = Forall (fun b => ascii_space b = true) s.
Proof. reflexivity. Qed.

(* ================================================================================================
   helpers: shorter_than, find_lf *)

Lemma shorter_than_spec : forall l n, shorter_than l n = (N.of_nat (length l) <? n).
Proof.
  induction l as [|x t IH]; intros n; cbn [shorter_than length].
  - reflexivity.
  - destruct (n =? 0) eqn:E; [lia|]. rewrite IH. lia.
Qed.

Lemma find_lf_nil (lim : nat) : find_lf lim [] = None.
Proof. destruct lim; reflexivity. Qed.

Lemma find_lf_some : forall lim s i,
  find_lf lim s = Some i ->
  (i <= lim)%nat /\ (i < length s)%nat /\ nth_error s i = Some 10 /\ ~ In 10 (firstn i s).
Proof.
  induction lim as [|lim IH]; intros s i H; destruct s as [|b t]; cbn [find_lf] in H;
    try discriminate.
  - destruct (b =? 10) eqn:E; [|discriminate]. injection H as <-.
    cbn [length nth_error firstn In].
    split; [lia|]. split; [lia|]. split; [f_equal; lia|tauto].
  - destruct (b =? 10) eqn:E.
    + injection H as <-. cbn [length nth_error firstn In].
      split; [lia|]. split; [lia|]. split; [f_equal; lia|tauto].
    + destruct (find_lf lim t) as [i'|] eqn:E'; [|discriminate]. injection H as <-.
      destruct (IH t i' E') as (H1 & H2 & H3 & H4).
      cbn [length nth_error firstn In].
      split; [lia|]. split; [lia|]. split; [exact H3|].
      intros [Hb|Hin]; [lia|exact (H4 Hin)].
Qed.

Lemma find_lf_app : forall lim s q i, find_lf lim s = Some i -> find_lf lim (s ++ q) = Some i.
Proof.
  induction lim as [|lim IH]; intros s q i H; destruct s as [|b t]; cbn [find_lf app] in *;
    try discriminate.
  - destruct (b =? 10); [exact H|discriminate].
  - destruct (b =? 10); [exact H|].
    destruct (find_lf lim t) as [i'|] eqn:E'; [|discriminate].
    rewrite (IH t q i' E'). exact H.
Qed.

Lemma find_lf_found : forall a lim r,
  ~ In 10 a -> (length a <= lim)%nat -> find_lf lim (a ++ 10 :: r) = Some (length a).
Proof.
  induction a as [|b a IH]; intros lim r Hnin Hlen; cbn [app length].
  - destruct lim; reflexivity.
  - cbn [length] in Hlen. destruct lim as [|lim]; [lia|]. cbn [find_lf].
    destruct (b =? 10) eqn:E; [exfalso; apply Hnin; left; lia|].
    rewrite IH; [reflexivity|intros Hin; apply Hnin; now right|lia].
Qed.

Lemma find_lf_too_long : forall lim a r,
  (lim < length a)%nat -> ~ In 10 (firstn (S lim) a) -> find_lf lim (a ++ r) = None.
Proof.
  induction lim as [|lim IH]; intros a r Hlen Hnin; destruct a as [|b a]; cbn [length] in Hlen;
    try lia; cbn [app find_lf]; cbn [firstn In] in Hnin.
  - destruct (b =? 10) eqn:E; [exfalso; apply Hnin; left; lia|reflexivity].
  - destruct (b =? 10) eqn:E; [exfalso; apply Hnin; left; lia|].
    rewrite IH; [reflexivity|lia|]. intros Hin. apply Hnin. right. exact Hin.
Qed.

(* ================================================================================================
   one iteration of the functional decoder *)

Inductive step_out := SDone (r : dec_result) | SNext (rest' joined' : bytes).

Definition chunk_step (rest joined : bytes) : step_out :=
  match rest with
  | [] => SDone (DFail E_NO_TERMINATOR)
  | c :: t =>
      if c =? 10 then SNext t joined
      else if negb (c =? 35) then SDone (DFail E_MARKER_MISSING)
      else match t with
           | [] => SDone (DFail E_TRUNCATED_AFTER_MARKER)
           | c2 :: _ =>
               if c2 =? 35 then SDone (DOk (finish11 joined))
               else match find_lf nc_max_chunk_size_char_len t with
                    | None => SDone (DFail E_CHUNK_SIZE)
                    | Some i =>
                        match firstn i t with
                        | [] => SDone (DFail E_CHUNK_SIZE)
                        | _ =>
                            match go_atoi (firstn i t) with
                            | None => SDone (DFail E_ATOI)
                            | Some z =>
                                if (z <? 0)%Z || shorter_than (skipn (S i) t) (Z.to_N z)
                                then SDone (DFail E_SIZE_RANGE)
                                else SNext (skipn (Z.to_nat z) (skipn (S i) t))
                                           (joined ++ firstn (Z.to_nat z) (skipn (S i) t))
                            end
                        end
                    end
           end
  end.

Lemma chunks_spec_unfold (f : nat) (rest joined : bytes) :
  chunks_spec (S f) rest joined =
  match chunk_step rest joined with
  | SDone r => r
  | SNext r' j' => chunks_spec f r' j'
  end.
Proof.
  cbn [chunks_spec]. unfold chunk_step.
  destruct rest as [|c t]; [reflexivity|].
  destruct (c =? 10); [reflexivity|]. destruct (negb (c =? 35)); [reflexivity|].
  destruct t as [|c2 t']; [reflexivity|]. destruct (c2 =? 35); [reflexivity|].
  destruct (find_lf nc_max_chunk_size_char_len (c2 :: t')) as [i|]; [|reflexivity].
  cbv zeta.
  destruct (firstn i (c2 :: t')) as [|s0 sz]; [reflexivity|].
  destruct (go_atoi (s0 :: sz)) as [z|]; [|reflexivity].
  destruct ((z <? 0)%Z || shorter_than (skipn (S i) (c2 :: t')) (Z.to_N z)); reflexivity.
Qed.

(* --- inversion --- *)
Lemma chunk_step_next_inv (s j s' j' : bytes) :
  chunk_step s j = SNext s' j' ->
  (s = 10 :: s' /\ j' = j) \/
  (exists t i z,
      s = 35 :: t /\ hd_error t <> Some 35 /\ hd_error t <> None /\
      find_lf nc_max_chunk_size_char_len t = Some i /\ firstn i t <> [] /\
      go_atoi (firstn i t) = Some z /\ (0 <= z)%Z /\
      (Z.to_nat z <= length (skipn (S i) t))%nat /\
      s' = skipn (Z.to_nat z) (skipn (S i) t) /\
      j' = j ++ firstn (Z.to_nat z) (skipn (S i) t)).
Proof.
  unfold chunk_step. intros H.
  destruct s as [|c t]; [discriminate|].
  destruct (c =? 10) eqn:E10.
  { injection H as <- <-. left. split; [f_equal; lia|reflexivity]. }
  destruct (c =? 35) eqn:E35; cbn [negb] in H; [|discriminate].
  destruct t as [|c2 t']; [discriminate|].
  destruct (c2 =? 35) eqn:E235; [discriminate|].
  destruct (find_lf nc_max_chunk_size_char_len (c2 :: t')) as [i|] eqn:Ef; [|discriminate].
  destruct (firstn i (c2 :: t')) as [|s0 sz] eqn:Esz; [discriminate|].
  destruct (go_atoi (s0 :: sz)) as [z|] eqn:Ea; [|discriminate].
  destruct ((z <? 0)%Z || shorter_than (skipn (S i) (c2 :: t')) (Z.to_N z)) eqn:Er; [discriminate|].
  injection H as <- <-. right. exists (c2 :: t'), i, z.
  rewrite shorter_than_spec in Er.
  rewrite Esz, Ea.
  split; [f_equal; lia|].
  split; [cbn [hd_error]; intros Habs; injection Habs as ->; discriminate|].
  split; [discriminate|].
  split; [exact Ef|].
  split; [discriminate|].
  split; [reflexivity|].
  split; [lia|].
  split; [lia|].
  split; reflexivity.
Qed.

Lemma chunk_step_ok_inv (s j : bytes) (r : bytes) :
  chunk_step s j = SDone (DOk r) -> (exists t, s = 35 :: 35 :: t) /\ r = finish11 j.
Proof.
  unfold chunk_step. intros H.
  destruct s as [|c t]; [discriminate|].
  destruct (c =? 10) eqn:E10; [discriminate|].
  destruct (c =? 35) eqn:E35; cbn [negb] in H; [|discriminate].
  destruct t as [|c2 t']; [discriminate|].
  destruct (c2 =? 35) eqn:E235.
  { injection H as <-. split; [|reflexivity]. exists t'. f_equal; [lia|f_equal; lia]. }
  destruct (find_lf nc_max_chunk_size_char_len (c2 :: t')) as [i|]; [|discriminate].
  destruct (firstn i (c2 :: t')) as [|s0 sz]; [discriminate|].
  destruct (go_atoi (s0 :: sz)) as [z|]; [|discriminate].
  destruct ((z <? 0)%Z || shorter_than (skipn (S i) (c2 :: t')) (Z.to_N z)); discriminate.
Qed.

Lemma chunk_step_no_panic (s j : bytes) : chunk_step s j <> SDone DPanic.
Proof.
  unfold chunk_step.
  destruct s as [|c t]; [discriminate|].
  destruct (c =? 10); [discriminate|]. destruct (negb (c =? 35)); [discriminate|].
  destruct t as [|c2 t']; [discriminate|]. destruct (c2 =? 35); [discriminate|].
  destruct (find_lf nc_max_chunk_size_char_len (c2 :: t')) as [i|]; [|discriminate].
  destruct (firstn i (c2 :: t')) as [|s0 sz]; [discriminate|].
  destruct (go_atoi (s0 :: sz)) as [z|]; [|discriminate].
  destruct ((z <? 0)%Z || shorter_than (skipn (S i) (c2 :: t')) (Z.to_N z)); discriminate.
Qed.

(* --- introduction --- *)
Lemma chunk_step_lf (t j : bytes) : chunk_step (10 :: t) j = SNext t j.
Proof. reflexivity. Qed.

Lemma chunk_step_end (t j : bytes) : chunk_step (35 :: 35 :: t) j = SDone (DOk (finish11 j)).
Proof. reflexivity. Qed.

Lemma chunk_step_size (t j : bytes) (i : nat) (z : Z) :
  hd_error t <> Some 35 -> hd_error t <> None ->
  find_lf nc_max_chunk_size_char_len t = Some i -> firstn i t <> [] ->
  go_atoi (firstn i t) = Some z -> (0 <= z)%Z ->
  (Z.to_nat z <= length (skipn (S i) t))%nat ->
  chunk_step (35 :: t) j =
  SNext (skipn (Z.to_nat z) (skipn (S i) t)) (j ++ firstn (Z.to_nat z) (skipn (S i) t)).
Proof.
  intros Hh1 Hh2 Hf Hne Ha Hz Hlen. unfold chunk_step.
  change (35 =? 10) with false. change (negb (35 =? 35)) with false. cbv iota.
  destruct t as [|c2 t']; [cbn in Hh2; congruence|].
  destruct (c2 =? 35) eqn:E; [exfalso; apply Hh1; cbn; f_equal; lia|].
  rewrite Hf. destruct (firstn i (c2 :: t')) as [|s0 sz] eqn:Esz; [congruence|].
  rewrite Ha, shorter_than_spec.
  destruct ((z <? 0)%Z || (N.of_nat (length (skipn (S i) (c2 :: t'))) <? Z.to_N z)) eqn:Er;
    [lia|reflexivity].
Qed.

(* failing steps: the five header defects *)
Lemma chunk_step_fail_general (t j : bytes) :
  hd_error t <> Some 35 ->
  (t = [] \/
   find_lf nc_max_chunk_size_char_len t = None \/
   (exists i, find_lf nc_max_chunk_size_char_len t = Some i /\
              (firstn i t = [] \/ go_atoi (firstn i t) = None \/
               exists z, go_atoi (firstn i t) = Some z /\ (z < 0)%Z))) ->
  exists e, chunk_step (35 :: t) j = SDone (DFail e).
Proof.
  intros Hh H. unfold chunk_step.
  change (35 =? 10) with false. change (negb (35 =? 35)) with false. cbv iota.
  destruct t as [|c2 t']; [eexists; reflexivity|].
  destruct (c2 =? 35) eqn:E; [exfalso; apply Hh; cbn; f_equal; lia|].
  destruct H as [H|[H|(i & Hf & H)]]; [discriminate|rewrite H; eexists; reflexivity|].
  rewrite Hf. destruct H as [H|[H|(z & Ha & Hz)]].
  - rewrite H. eexists; reflexivity.
  - destruct (firstn i (c2 :: t')); [eexists; reflexivity|]. rewrite H. eexists; reflexivity.
  - destruct (firstn i (c2 :: t')); [eexists; reflexivity|]. rewrite Ha.
    replace (z <? 0)%Z with true by lia. cbn [orb]. eexists; reflexivity.
Qed.

(* ================================================================================================
   structural facts about chunks_spec *)

Lemma chunk_step_shrinks (s j s' j' : bytes) :
  chunk_step s j = SNext s' j' -> (length s' < length s)%nat.
Proof.
  intros H. apply chunk_step_next_inv in H.
  destruct H as [[-> _]|(t & i & z & -> & _ & _ & _ & _ & _ & _ & _ & -> & _)].
  - cbn [length]. lia.
  - cbn [length]. rewrite !skipn_length. lia.
Qed.

Lemma chunks_spec_no_panic : forall f s j, chunks_spec f s j <> DPanic.
Proof.
  induction f as [|f IH]; intros s j; [discriminate|].
  rewrite chunks_spec_unfold. destruct (chunk_step s j) as [r|s' j'] eqn:E; [|apply IH].
  intros ->. exact (chunk_step_no_panic s j E).
Qed.

(* with more fuel than input the amount of fuel is irrelevant *)
Lemma chunks_spec_fuel : forall f f' s j,
  (length s < f)%nat -> (length s < f')%nat -> chunks_spec f s j = chunks_spec f' s j.
Proof.
  induction f as [|f IH]; intros f' s j Hf Hf'; [lia|].
  destruct f' as [|f']; [lia|]. rewrite !chunks_spec_unfold.
  destruct (chunk_step s j) as [r|s' j'] eqn:E; [reflexivity|].
  apply chunk_step_shrinks in E. apply IH; lia.
Qed.

Lemma chunks_spec_ok_mono : forall f f' s j r,
  chunks_spec f s j = DOk r -> (f <= f')%nat -> chunks_spec f' s j = DOk r.
Proof.
  induction f as [|f IH]; intros f' s j r H Hle; [discriminate|].
  destruct f' as [|f']; [lia|]. rewrite chunks_spec_unfold in *.
  destruct (chunk_step s j) as [r0|s' j'] eqn:E; [exact H|].
  apply (IH f' s' j' r H). lia.
Qed.

(* a successful decode of a prefix is a successful decode (same result) of any extension *)
Lemma chunk_step_app_next (p q j p' j' : bytes) :
  chunk_step p j = SNext p' j' -> chunk_step (p ++ q) j = SNext (p' ++ q) j'.
Proof.
  intros H. apply chunk_step_next_inv in H.
  destruct H as [[-> ->]|(t & i & z & -> & Hh1 & Hh2 & Hf & Hne & Ha & Hz & Hlen & -> & ->)].
  - reflexivity.
  - destruct (find_lf_some _ _ _ Hf) as (_ & Hi & _ & _).
    assert (Hfi : firstn i (t ++ q) = firstn i t) by (apply firstn_app_le; lia).
    assert (Hsk : skipn (S i) (t ++ q) = skipn (S i) t ++ q) by (apply skipn_app_le; lia).
    cbn [app]. rewrite (chunk_step_size (t ++ q) j i z).
    + rewrite Hsk. rewrite skipn_app_le by exact Hlen. rewrite firstn_app_le by exact Hlen.
      reflexivity.
    + destruct t; [cbn in Hh2; congruence|exact Hh1].
    + destruct t; [cbn in Hh2; congruence|discriminate].
    + apply find_lf_app. exact Hf.
    + rewrite Hfi. exact Hne.
    + rewrite Hfi. exact Ha.
    + exact Hz.
    + rewrite Hsk, app_length. lia.
Qed.

Lemma chunk_step_app_ok (p q j r : bytes) :
  chunk_step p j = SDone (DOk r) -> chunk_step (p ++ q) j = SDone (DOk r).
Proof.
  intros H. apply chunk_step_ok_inv in H. destruct H as [[t ->] ->]. reflexivity.
Qed.

Lemma chunks_spec_prefix_ok : forall f p q j r,
  chunks_spec f p j = DOk r -> chunks_spec f (p ++ q) j = DOk r.
Proof.
  induction f as [|f IH]; intros p q j r H; [discriminate|].
  rewrite chunks_spec_unfold in *.
  destruct (chunk_step p j) as [r0|p' j'] eqn:E.
  - subst r0. rewrite (chunk_step_app_ok p q j r E). reflexivity.
  - rewrite (chunk_step_app_next p q j p' j' E). apply IH. exact H.
Qed.

(* a successful decode only ever appends bytes taken, in order, from the input *)
Lemma chunks_spec_subseq : forall f s j r,
  chunks_spec f s j = DOk r -> exists a, r = finish11 (j ++ a) /\ subseq a s.
Proof.
  induction f as [|f IH]; intros s j r H; [discriminate|].
  rewrite chunks_spec_unfold in H.
  destruct (chunk_step s j) as [r0|s' j'] eqn:E.
  - subst r0. apply chunk_step_ok_inv in E. destruct E as [_ ->].
    exists []. rewrite app_nil_r. split; [reflexivity|apply subseq_nil_l].
  - destruct (IH s' j' r H) as (a' & Hr & Hsub).
    apply chunk_step_next_inv in E.
    destruct E as [[-> ->]|(t & i & z & -> & _ & _ & _ & _ & _ & _ & _ & -> & ->)].
    + exists a'. split; [exact Hr|apply subseq_skip; exact Hsub].
    + exists (firstn (Z.to_nat z) (skipn (S i) t) ++ a'). split.
      * rewrite Hr, <- app_assoc. reflexivity.
      * apply subseq_skip.
        eapply subseq_trans; [apply subseq_app; [apply subseq_refl|exact Hsub]|].
        rewrite firstn_skipn. apply subseq_skipn.
Qed.

(* ================================================================================================
   the decoder on RFC 6242 encoded chunks *)

Lemma skipn_S_len_app {A} (a : list A) (x : A) (b : list A) : skipn (S (length a)) (a ++ x :: b) = b.
Proof. induction a as [|y a IH]; cbn [length app]; [reflexivity|exact IH]. Qed.

Lemma chunk_step_encoded (c tail j : bytes) :
  chunk_ok c ->
  chunk_step (35 :: print_dec (N.of_nat (length c)) ++ 10 :: c ++ tail) j = SNext tail (j ++ c).
Proof.
  intros [Hne Hmax]. unfold max_chunk in Hmax.
  set (n := N.of_nat (length c)) in *.
  destruct (print_dec_digits n) as [Hdig Hdne].
  pose proof (print_dec_length_le n Hmax) as Hlen.
  pose proof (go_atoi_print_dec n Hmax) as Hatoi.
  assert (Hno10 : ~ In 10 (print_dec n)) by (apply print_dec_not_in; lia).
  assert (Hno35 : ~ In 35 (print_dec n)) by (apply print_dec_not_in; lia).
  set (ds := print_dec n) in *.
  assert (Hfi : firstn (length ds) (ds ++ 10 :: c ++ tail) = ds) by apply firstn_len_app.
  assert (Hsk : skipn (S (length ds)) (ds ++ 10 :: c ++ tail) = c ++ tail) by apply skipn_S_len_app.
  assert (Hz : Z.to_nat (Z.of_N n) = length c) by (unfold n; lia).
  rewrite (chunk_step_size (ds ++ 10 :: c ++ tail) j (length ds) (Z.of_N n)).
  - rewrite Hsk, Hz, skipn_len_app, firstn_len_app. reflexivity.
  - destruct ds as [|d0 dt]; [congruence|]. cbn [app hd_error]. intros Habs. injection Habs as ->.
    apply Hno35. now left.
  - destruct ds as [|d0 dt]; [congruence|]. discriminate.
  - apply find_lf_found; [exact Hno10|rewrite nc_max_len_10; exact Hlen].
  - rewrite Hfi. exact Hdne.
  - rewrite Hfi. exact Hatoi.
  - lia.
  - rewrite Hsk, Hz, app_length. lia.
Qed.

Lemma encode_chunk_unfold (c tail : bytes) :
  encode_chunk c ++ tail = 10 :: 35 :: print_dec (N.of_nat (length c)) ++ 10 :: c ++ tail.
Proof. unfold encode_chunk. rewrite <- !app_assoc. reflexivity. Qed.

(* exactly two iterations per chunk *)
Lemma chunks_spec_encoded : forall chunks f tail j,
  Forall chunk_ok chunks ->
  chunks_spec (2 * length chunks + f) (concat (map encode_chunk chunks) ++ tail) j =
  chunks_spec f tail (j ++ concat chunks).
Proof.
  induction chunks as [|c cs IH]; intros f tail j Hok.
  - cbn [length map concat app Nat.mul Nat.add]. rewrite app_nil_r. reflexivity.
  - inversion Hok as [|? ? Hc Hcs]; subst.
    replace (2 * length (c :: cs) + f)%nat with (S (S (2 * length cs + f))) by (cbn [length]; lia).
    cbn [map concat]. rewrite <- app_assoc, encode_chunk_unfold.
    rewrite chunks_spec_unfold, chunk_step_lf, chunks_spec_unfold, (chunk_step_encoded _ _ _ Hc).
    rewrite (IH f tail (j ++ c) Hcs), <- app_assoc. reflexivity.
Qed.

Lemma encoded_length_ge : forall chunks,
  (2 * length chunks <= length (concat (map encode_chunk chunks)))%nat.
Proof.
  induction chunks as [|c cs IH]; [cbn; lia|].
  cbn [map concat length]. rewrite app_length. unfold encode_chunk at 1.
  rewrite app_length. cbn [length]. lia.
Qed.

Lemma encoded_shape (c : bytes) (cs : list bytes) :
  exists B, concat (map encode_chunk (c :: cs)) = 10 :: 35 :: B.
Proof. cbn [map concat]. rewrite encode_chunk_unfold. eexists. reflexivity. Qed.

Lemma record11_spec_of_trim (raw X : bytes) :
  go_trim_space raw = 35 :: X ->
  record11_spec raw = chunks_spec (S (length (35 :: X))) (35 :: X) [].
Proof. intros H. unfold record11_spec. rewrite H. reflexivity. Qed.

(* B: every RFC 6242 encoding, surrounded by any ASCII whitespace, decodes to the concatenation *)
Theorem wellformed11 : forall chunks pre post,
  chunks <> [] -> Forall chunk_ok chunks -> ws pre -> ws post ->
  record11_spec (pre ++ encode11 chunks ++ post) = DOk (finish11 (concat chunks)).
Proof.
  intros chunks pre post Hne Hok Hpre Hpost.
  destruct chunks as [|c cs]; [congruence|].
  destruct (encoded_shape c cs) as [B HB].
  assert (Htrim : go_trim_space (pre ++ encode11 (c :: cs) ++ post) = 35 :: (B ++ [10; 35]) ++ [35]).
  { unfold encode11, end_of_chunks. rewrite HB.
    replace (pre ++ ((10 :: 35 :: B) ++ [10; 35; 35; 10]) ++ post)
      with ((pre ++ [10]) ++ 35 :: (B ++ [10; 35]) ++ [35] ++ ([10] ++ post)).
    - apply go_trim_space_hash; apply ws_app; try assumption; apply ws_lf.
    - repeat (rewrite <- app_assoc; cbn [app]). reflexivity. }
  rewrite (record11_spec_of_trim _ _ Htrim).
  pose proof (chunks_spec_encoded (c :: cs) 2 [10; 35; 35] [] Hok) as H.
  rewrite HB in H.
  replace (2 * length (c :: cs) + 2)%nat with (S (2 * length (c :: cs) + 1)) in H by lia.
  cbn [app] in H.
  rewrite chunks_spec_unfold, chunk_step_lf in H.
  rewrite (chunks_spec_unfold 1), chunk_step_lf, chunks_spec_unfold, chunk_step_end in H.
  rewrite <- app_assoc. cbn [app].
  apply (chunks_spec_ok_mono _ _ _ _ _ H).
  pose proof (encoded_length_ge (c :: cs)) as Hlen. rewrite HB in Hlen.
  cbn [length] in *. rewrite app_length. cbn [length]. lia.
Qed.

(* C: the decoder never invents bytes *)
Theorem record11_subseq : forall raw r,
  record11_spec raw = DOk r -> exists joined, r = finish11 joined /\ subseq joined raw.
Proof.
  intros raw r H. unfold record11_spec in H.
  pose proof (go_trim_space_subseq raw) as Hsub.
  destruct (go_trim_space raw) as [|c d]; [discriminate|].
  destruct (c =? 35); [|discriminate].
  apply chunks_spec_subseq in H. destruct H as (a & Hr & Ha). cbn [app] in Hr.
  exists a. split; [exact Hr|]. eapply subseq_trans; [exact Ha|exact Hsub].
Qed.

(* ================================================================================================
   D: malformed frames fail *)

Lemma record11_spec_total (raw : bytes) :
  (exists r, record11_spec raw = DOk r) \/ (exists e, record11_spec raw = DFail e).
Proof.
  unfold record11_spec. destruct (go_trim_space raw) as [|c d]; [right; eexists; reflexivity|].
  destruct (c =? 35); [|right; eexists; reflexivity].
  destruct (chunks_spec (S (length (c :: d))) (c :: d) []) as [r|e|] eqn:E.
  - left. eexists; reflexivity.
  - right. eexists; reflexivity.
  - exfalso. exact (chunks_spec_no_panic _ _ _ E).
Qed.

(* core: TrimSpace's right-hand trim can only shorten the input, and shortening can never turn a
   failing decode into a successful one; so it is enough to show that the left-trimmed input fails *)
Theorem record11_fails_core (raw X : bytes) (K : nat) :
  go_trim_left raw = 35 :: X ->
  (forall f, exists e, chunks_spec (K + f) (35 :: X) [] = DFail e) ->
  exists e, record11_spec raw = DFail e.
Proof.
  intros Hl Hfail.
  destruct (go_trim_right_keeps_hash X) as (X' & q & Hr & HX).
  assert (Htrim : go_trim_space raw = 35 :: X') by (unfold go_trim_space; rewrite Hl; exact Hr).
  destruct (record11_spec_total raw) as [[r H]|H]; [|exact H].
  exfalso. rewrite (record11_spec_of_trim _ _ Htrim) in H.
  apply chunks_spec_ok_mono with (f' := (K + S (S (length X')))%nat) in H; [|cbn [length]; lia].
  apply chunks_spec_prefix_ok with (q := q) in H. cbn [app] in H. rewrite <- HX in H.
  destruct (Hfail (S (S (length X')))) as [e He]. congruence.
Qed.

Lemma fails_after_chunks (pre_chunks : list bytes) (W Y : bytes) (K : nat) :
  Forall chunk_ok pre_chunks ->
  concat (map encode_chunk pre_chunks) ++ W = 10 :: 35 :: Y ->
  (forall f j, exists e, chunks_spec (S K + f) W j = DFail e) ->
  exists e, record11_spec (concat (map encode_chunk pre_chunks) ++ W) = DFail e.
Proof.
  intros Hok Hshape Hfail.
  apply (record11_fails_core _ Y (2 * length pre_chunks + K)).
  - rewrite Hshape. apply (go_trim_left_ws_hash [10] Y). apply ws_lf.
  - intros f. destruct (Hfail f ([] ++ concat pre_chunks)) as [e He]. exists e.
    rewrite <- He, <- (chunks_spec_encoded pre_chunks (S K + f) W [] Hok), Hshape.
    replace (2 * length pre_chunks + (S K + f))%nat with (S (2 * length pre_chunks + K + f)) by lia.
    rewrite chunks_spec_unfold, chunk_step_lf. reflexivity.
Qed.

Lemma shape_after_chunks (pre_chunks : list bytes) (T : bytes) :
  exists Y, concat (map encode_chunk pre_chunks) ++ [10; 35] ++ T = 10 :: 35 :: Y.
Proof.
  destruct pre_chunks as [|c cs]; [eexists; reflexivity|].
  destruct (encoded_shape c cs) as [B ->]. eexists. reflexivity.
Qed.

(* generic: after any well-formed chunks, a chunk header "\n#" ++ T whose first iteration fails *)
Lemma bad_header_fails_gen (pre_chunks : list bytes) (T : bytes) :
  Forall chunk_ok pre_chunks ->
  (forall j, exists e, chunk_step (35 :: T) j = SDone (DFail e)) ->
  exists e, record11_spec (concat (map encode_chunk pre_chunks) ++ [10; 35] ++ T) = DFail e.
Proof.
  intros Hok Hstep. destruct (shape_after_chunks pre_chunks T) as [Y HY].
  apply (fails_after_chunks pre_chunks _ Y 1 Hok HY).
  intros f j. destruct (Hstep j) as [e He]. exists e.
  cbn [app Nat.add]. rewrite chunks_spec_unfold, chunk_step_lf, chunks_spec_unfold, He. reflexivity.
Qed.

Lemma hd_error_app_ne (s r : bytes) : s <> [] -> hd_error (s ++ r) = hd_error s.
Proof. destruct s; [congruence|reflexivity]. Qed.

(* D.1  the size field is not a number.  The extra hypothesis [hd_error sz <> Some 35] is
   necessary: without it the statement is FALSE, because "\n##" is the end-of-chunks marker
   whatever follows (see [bad_size_unrestricted_counterexample] below). *)
Theorem bad_size_fails : forall pre_chunks sz data rest,
  Forall chunk_ok pre_chunks -> sz <> [] -> ~ In 10 sz -> (length sz <= 10)%nat ->
  go_atoi sz = None ->
  hd_error sz <> Some 35 ->
  exists e, record11_spec (concat (map encode_chunk pre_chunks) ++ [10; 35] ++ sz ++ [10] ++ data ++ rest)
            = DFail e.
Proof.
  intros pre_chunks sz data rest Hok Hne Hno10 Hlen Hatoi Hhd.
  apply bad_header_fails_gen; [exact Hok|]. intros j.
  apply chunk_step_fail_general.
  - rewrite hd_error_app_ne by exact Hne. exact Hhd.
  - right. right. exists (length sz). split.
    + apply find_lf_found; [exact Hno10|rewrite nc_max_len_10; exact Hlen].
    + right. left. cbn [app]. rewrite firstn_len_app. exact Hatoi.
Qed.

Example bad_size_unrestricted_counterexample :
  exists pre_chunks sz data rest,
    Forall chunk_ok pre_chunks /\ sz <> [] /\ ~ In 10 sz /\ (length sz <= 10)%nat /\
    go_atoi sz = None /\
    record11_spec (concat (map encode_chunk pre_chunks) ++ [10; 35] ++ sz ++ [10] ++ data ++ rest)
    = DOk [].
Proof.
  exists [], [35], [], [].
  split; [constructor|]. split; [discriminate|]. split; [cbn; intros [H|[]]; discriminate|].
  split; [cbn; lia|]. split; vm_compute; reflexivity.
Qed.

Lemma In_firstn {A} (x : A) (n : nat) (l : list A) : In x (firstn n l) -> In x l.
Proof.
  revert l; induction n as [|n IH]; intros l H; [destruct H|].
  destruct l as [|y l]; [destruct H|]. cbn [firstn In] in *. destruct H as [H|H]; [now left|].
  right. apply IH. exact H.
Qed.

(* D.2  a header of more than nc_max_chunk_size_char_len bytes without LF *)
Theorem long_header_fails : forall pre_chunks hdr rest,
  Forall chunk_ok pre_chunks ->
  (nc_max_chunk_size_char_len < length hdr)%nat ->
  ~ In 10 (firstn (S nc_max_chunk_size_char_len) hdr) ->
  hd_error hdr <> Some 35 ->
  exists e, record11_spec (concat (map encode_chunk pre_chunks) ++ [10; 35] ++ hdr ++ rest) = DFail e.
Proof.
  intros pre_chunks hdr rest Hok Hlen Hno10 Hhd.
  apply bad_header_fails_gen; [exact Hok|]. intros j.
  apply chunk_step_fail_general.
  - rewrite hd_error_app_ne; [exact Hhd|]. intros ->. cbn in Hlen. lia.
  - right. left. apply find_lf_too_long; assumption.
Qed.

(* D.1'  same as bad_size_fails without the length bound: an over-long size field fails as well *)
Theorem bad_size_fails_strong : forall pre_chunks sz data rest,
  Forall chunk_ok pre_chunks -> sz <> [] -> ~ In 10 sz -> go_atoi sz = None ->
  hd_error sz <> Some 35 ->
  exists e, record11_spec (concat (map encode_chunk pre_chunks) ++ [10; 35] ++ sz ++ [10] ++ data ++ rest)
            = DFail e.
Proof.
  intros pre_chunks sz data rest Hok Hne Hno10 Hatoi Hhd.
  destruct (Nat.leb (length sz) 10) eqn:Elen.
  - apply Nat.leb_le in Elen. apply bad_size_fails; assumption.
  - apply Nat.leb_gt in Elen. rewrite <- nc_max_len_10 in Elen.
    apply (long_header_fails pre_chunks sz ([10] ++ data ++ rest) Hok Elen); [|exact Hhd].
    intros Hin. apply Hno10. exact (In_firstn _ _ _ Hin).
Qed.

(* D.3  a negative size.  "-0" is NOT rejected by the Go decoder (strconv.Atoi("-0") = 0, a
   zero-length chunk), hence the hypothesis [parse_dec digits <> Some 0]; see [lenient_minus_zero]. *)
Theorem negative_size_fails : forall pre_chunks digits data rest,
  Forall chunk_ok pre_chunks -> ~ In 10 digits -> parse_dec digits <> Some 0 ->
  exists e, record11_spec (concat (map encode_chunk pre_chunks) ++ [10; 35] ++ (45 :: digits) ++ [10]
                             ++ data ++ rest) = DFail e.
Proof.
  intros pre_chunks digits data rest Hok Hno10 Hnz.
  apply bad_header_fails_gen; [exact Hok|]. intros j.
  assert (Hno10' : ~ In 10 (45 :: digits)).
  { intros [H|H]; [discriminate|exact (Hno10 H)]. }
  apply chunk_step_fail_general; [cbn; discriminate|].
  destruct (Nat.leb (length (45 :: digits)) nc_max_chunk_size_char_len) eqn:Elen.
  - right. right. exists (length (45 :: digits)). split.
    + apply find_lf_found; [exact Hno10'|lia].
    + right. rewrite (firstn_len_app (45 :: digits)).
      unfold go_atoi. change (45 =? 45) with true. cbv iota.
      destruct (parse_dec digits) as [n|]; [|left; reflexivity].
      destruct (n <=? max_int64 + 1); [|left; reflexivity].
      right. exists (- Z.of_N n)%Z. split; [reflexivity|].
      assert (n <> 0) by congruence. lia.
  - right. left. apply find_lf_too_long; [lia|].
    intros Hin. apply In_firstn in Hin. exact (Hno10' Hin).
Qed.

(* D.4  a byte other than LF / '#' where a chunk marker is due (after at least one chunk, and
   after any number of LFs).  [pre_chunks <> []] is necessary: with no chunk before it the junk
   byte is the first byte of the input and, if it is whitespace, TrimSpace removes it; e.g.
   b = 32, rest = "\n##\n" decodes to DOk [] (see [junk_first_byte_counterexample]). *)
Lemma chunks_spec_lfs : forall k f s j, chunks_spec (k + f) (repeat 10 k ++ s) j = chunks_spec f s j.
Proof.
  induction k as [|k IH]; intros f s j; [reflexivity|].
  cbn [repeat app Nat.add]. rewrite chunks_spec_unfold, chunk_step_lf. apply IH.
Qed.

Theorem junk_marker_fails : forall pre_chunks k b rest,
  pre_chunks <> [] -> Forall chunk_ok pre_chunks -> b <> 10 -> b <> 35 ->
  exists e, record11_spec (concat (map encode_chunk pre_chunks) ++ repeat 10 k ++ [b] ++ rest) = DFail e.
Proof.
  intros pre_chunks k b rest Hne Hok Hb10 Hb35.
  destruct pre_chunks as [|c cs]; [congruence|].
  destruct (encoded_shape c cs) as [B HB].
  apply (fails_after_chunks (c :: cs) _ (B ++ repeat 10 k ++ [b] ++ rest) k Hok).
  - rewrite HB. reflexivity.
  - intros f j. exists E_MARKER_MISSING.
    replace (S k + f)%nat with (k + S f)%nat by lia.
    rewrite chunks_spec_lfs, chunks_spec_unfold. cbn [app]. unfold chunk_step.
    destruct (b =? 10) eqn:E10; [lia|]. destruct (b =? 35) eqn:E35; [lia|]. reflexivity.
Qed.

Example junk_first_byte_counterexample :
  record11_spec (concat (map encode_chunk []) ++ repeat 10 0 ++ [32] ++ [10; 35; 35; 10]) = DOk [].
Proof. vm_compute. reflexivity. Qed.

(* D.5  the end-of-chunks marker is missing altogether *)
Theorem no_terminator_fails : forall chunks,
  chunks <> [] -> Forall chunk_ok chunks ->
  exists e, record11_spec (concat (map encode_chunk chunks)) = DFail e.
Proof.
  intros chunks Hne Hok. destruct chunks as [|c cs]; [congruence|].
  destruct (encoded_shape c cs) as [B HB].
  rewrite <- (app_nil_r (concat (map encode_chunk (c :: cs)))).
  apply (fails_after_chunks (c :: cs) [] B 0 Hok).
  - rewrite app_nil_r. exact HB.
  - intros f j. exists E_NO_TERMINATOR. reflexivity.
Qed.

(* ================================================================================================
   A: the cursor-level transcription of the Go loop refines the functional decoder; no panic *)

Definition out_dec (o : loop_out) : dec_result :=
  match o with
  | LBreak j => DOk (finish11 j)
  | LExit _ => DFail E_NO_TERMINATOR
  | LErr e => DFail e
  | LPanic => DPanic
  end.

Lemma scan_size_unfold (d : bytes) (c n k : nat) :
  scan_size d c (S n) k =
  if Nat.leb (length d) (c + k) then None
  else match idx d (c + k) with
       | Some b => if b =? 10 then Some k else scan_size d c n (S k)
       | None => None
       end.
Proof. reflexivity. Qed.

Lemma scan_size_spec : forall n d c k,
  scan_size d c (S n) k =
  match find_lf n (skipn (c + k) d) with Some i => Some (k + i)%nat | None => None end.
Proof.
  induction n as [|n IH]; intros d c k; rewrite scan_size_unfold.
  - destruct (Nat.leb (length d) (c + k)) eqn:E.
    + apply Nat.leb_le in E. rewrite skipn_all2 by lia. reflexivity.
    + apply Nat.leb_gt in E. unfold idx.
      destruct (nth_error d (c + k)) as [b|] eqn:En; [|apply nth_error_None in En; lia].
      rewrite (nth_error_skipn _ _ _ En). cbn [find_lf scan_size].
      destruct (b =? 10); [f_equal; lia|reflexivity].
  - destruct (Nat.leb (length d) (c + k)) eqn:E.
    + apply Nat.leb_le in E. rewrite skipn_all2 by lia. reflexivity.
    + apply Nat.leb_gt in E. unfold idx.
      destruct (nth_error d (c + k)) as [b|] eqn:En; [|apply nth_error_None in En; lia].
      rewrite (nth_error_skipn _ _ _ En). cbn [find_lf].
      destruct (b =? 10); [f_equal; lia|].
      rewrite IH. replace (c + S k)%nat with (S (c + k)) by lia.
      destruct (find_lf n (skipn (S (c + k)) d)); [f_equal; lia|reflexivity].
Qed.

Lemma chunks_go_unfold (f : nat) (d : bytes) (cursor : nat) (joined : bytes) :
  chunks_go (S f) d cursor joined =
  if negb (Nat.ltb cursor (length d)) then LExit joined
  else match idx d cursor with
       | None => LPanic
       | Some c =>
           if c =? 10 then chunks_go f d (S cursor) joined
           else if negb (c =? 35) then LErr E_MARKER_MISSING
           else if Nat.leb (length d) (S cursor) then LErr E_TRUNCATED_AFTER_MARKER
           else match idx d (S cursor) with
                | None => LPanic
                | Some c2 =>
                    if c2 =? 35 then LBreak joined
                    else match scan_size d (S cursor) (S nc_max_chunk_size_char_len) 0 with
                         | None => LErr E_CHUNK_SIZE
                         | Some k =>
                             match firstn k (skipn (S cursor) d) with
                             | [] => LErr E_CHUNK_SIZE
                             | _ :: _ =>
                                 match go_atoi (firstn k (skipn (S cursor) d)) with
                                 | None => LErr E_ATOI
                                 | Some z =>
                                     if (z <? 0)%Z || (Z.of_nat (length d - (S cursor + k + 1)) <? z)%Z
                                     then LErr E_SIZE_RANGE
                                     else if Nat.ltb (length d) (S cursor + k + 1 + Z.to_nat z) then LPanic
                                          else chunks_go f d (S cursor + k + 1 + Z.to_nat z)
                                                 (joined ++ firstn (Z.to_nat z) (skipn (S cursor + k + 1) d))
                                 end
                             end
                         end
                end
       end.
Proof. reflexivity. Qed.

Lemma chunk_step_hash (t j : bytes) (c2 : N) :
  hd_error t = Some c2 ->
  chunk_step (35 :: t) j =
  if c2 =? 35 then SDone (DOk (finish11 j))
  else match find_lf nc_max_chunk_size_char_len t with
       | None => SDone (DFail E_CHUNK_SIZE)
       | Some i =>
           match firstn i t with
           | [] => SDone (DFail E_CHUNK_SIZE)
           | _ :: _ =>
               match go_atoi (firstn i t) with
               | None => SDone (DFail E_ATOI)
               | Some z =>
                   if (z <? 0)%Z || shorter_than (skipn (S i) t) (Z.to_N z)
                   then SDone (DFail E_SIZE_RANGE)
                   else SNext (skipn (Z.to_nat z) (skipn (S i) t))
                              (j ++ firstn (Z.to_nat z) (skipn (S i) t))
               end
           end
       end.
Proof. destruct t as [|x t]; cbn [hd_error]; intros H; [discriminate|]. injection H as ->. reflexivity. Qed.

Lemma chunks_go_refines : forall f d cursor joined,
  (cursor <= length d)%nat ->
  out_dec (chunks_go f d cursor joined) = chunks_spec f (skipn cursor d) joined.
Proof.
  induction f as [|f IH]; intros d cursor joined Hc; [reflexivity|].
  rewrite chunks_go_unfold, chunks_spec_unfold.
  destruct (Nat.ltb cursor (length d)) eqn:Elt; cbn [negb].
  2:{ apply Nat.ltb_ge in Elt. rewrite skipn_all2 by lia. reflexivity. }
  apply Nat.ltb_lt in Elt. unfold idx.
  destruct (nth_error d cursor) as [c|] eqn:En; [|apply nth_error_None in En; lia].
  rewrite (nth_error_skipn _ _ _ En).
  destruct (c =? 10) eqn:E10.
  { assert (c = 10) by lia. subst c. rewrite chunk_step_lf. apply IH. lia. }
  destruct (c =? 35) eqn:E35; cbn [negb].
  2:{ unfold chunk_step. rewrite E10, E35. reflexivity. }
  assert (c = 35) by lia. subst c.
  destruct (Nat.leb (length d) (S cursor)) eqn:Ele.
  { apply Nat.leb_le in Ele. rewrite skipn_all2 by lia. reflexivity. }
  apply Nat.leb_gt in Ele.
  destruct (nth_error d (S cursor)) as [c2|] eqn:En2; [|apply nth_error_None in En2; lia].
  assert (Hhd : hd_error (skipn (S cursor) d) = Some c2) by (rewrite <- nth_error_skipn_hd; exact En2).
  rewrite (chunk_step_hash _ _ c2 Hhd).
  destruct (c2 =? 35); [reflexivity|].
  rewrite scan_size_spec, Nat.add_0_r.
  destruct (find_lf nc_max_chunk_size_char_len (skipn (S cursor) d)) as [i|] eqn:Ef; [|reflexivity].
  cbn [Nat.add].
  destruct (find_lf_some _ _ _ Ef) as (_ & Hi & _ & _). rewrite skipn_length in Hi.
  destruct (firstn i (skipn (S cursor) d)) as [|s0 sz] eqn:Esz; [reflexivity|].
  destruct (go_atoi (s0 :: sz)) as [z|]; [|reflexivity].
  replace (S (cursor + i + 1 + Z.to_nat z))%nat with (S cursor + S i + Z.to_nat z)%nat by lia.
  replace (S (cursor + i + 1))%nat with (S cursor + S i)%nat by lia.
  rewrite shorter_than_spec, !skipn_skipn, skipn_length.
  destruct ((z <? 0)%Z || (Z.of_nat (length d - (S cursor + S i)) <? z)%Z) eqn:E1;
    destruct ((z <? 0)%Z || (N.of_nat (length d - (S cursor + S i)) <? Z.to_N z)) eqn:E2;
    try lia; [reflexivity|].
  destruct (Nat.ltb (length d) (S cursor + S i + Z.to_nat z)) eqn:E3; [lia|].
  apply IH. lia.
Qed.

Theorem record11_go_refines : forall raw, record11_go raw = record11_spec raw.
Proof.
  intros raw. unfold record11_go, record11_spec.
  destruct (go_trim_space raw) as [|c d]; [reflexivity|].
  destruct (c =? 35); cbn [negb]; [|reflexivity].
  pose proof (chunks_go_refines (S (length (c :: d))) (c :: d) 0 [] ltac:(lia)) as H.
  cbn [skipn] in H. rewrite <- H.
  destruct (chunks_go (S (length (c :: d))) (c :: d) 0 []); reflexivity.
Qed.

Theorem record11_spec_no_panic : forall raw, record11_spec raw <> DPanic.
Proof.
  intros raw. destruct (record11_spec_total raw) as [[r H]|[e H]]; rewrite H; discriminate.
Qed.

Theorem record11_no_panic : forall raw, record11_go raw <> DPanic.
Proof. intros raw. rewrite record11_go_refines. apply record11_spec_no_panic. Qed.

(* NetconfResponse.Record through either decoder *)
Theorem record_refines : forall v raw, record v raw = record_fast v raw.
Proof.
  intros v raw. unfold record, record_fast, record_with. rewrite record11_go_refines. reflexivity.
Qed.

Theorem record_no_panic : forall v raw, record v raw <> RecPanic.
Proof.
  intros v raw. rewrite record_refines. unfold record_fast, record_with.
  destruct v; [discriminate|].
  destruct (record11_spec raw) as [r|e|] eqn:E; try discriminate.
  exfalso. exact (record11_spec_no_panic raw E).
Qed.

(* ================================================================================================
   E: C03 framing — the strict decoders invert the client's framing *)

Lemma take_digits_spec : forall ds n r,
  Forall (fun b => is_digit b = true) ds -> (length ds <= n)%nat ->
  take_digits n (ds ++ 10 :: r) = (ds, 10 :: r).
Proof.
  induction ds as [|b ds IH]; intros n r Hd Hlen.
  - destruct n; reflexivity.
  - cbn [length] in Hlen. destruct n as [|n]; [lia|].
    inversion Hd as [|? ? Hb Hds]; subst. cbn [app take_digits]. rewrite Hb.
    rewrite (IH n r Hds) by lia. reflexivity.
Qed.

Lemma strict_chunks_size_step (f : nat) (d0 : N) (t acc : bytes) :
  d0 <> 35 ->
  strict_chunks (S f) (10 :: 35 :: d0 :: t) acc =
  (let '(ds, r) := take_digits 10 (d0 :: t) in
   match ds with
   | [] => None
   | d0' :: _ =>
       if d0' =? 48 then None
       else match r with
            | 10 :: data =>
                match parse_dec ds with
                | Some n =>
                    if (max_chunk <? n) || (N.of_nat (length data) <? n) then None
                    else strict_chunks f (skipn (N.to_nat n) data) (acc ++ firstn (N.to_nat n) data)
                | None => None
                end
            | _ => None
            end
   end).
Proof.
  intros Hd. destruct d0 as [|p]; [reflexivity|].
  do 6 (try (destruct p as [p|p|]; try reflexivity)).
  all: try (exfalso; apply Hd; reflexivity).
Qed.

Lemma strict_chunks_end (f : nat) (rest acc : bytes) :
  acc <> [] -> strict_chunks (S f) (10 :: 35 :: 35 :: 10 :: rest) acc = Some (acc, rest).
Proof. intros H. destruct acc; [congruence|reflexivity]. Qed.

Lemma strict_chunks_frame (f : nat) (msg rest acc : bytes) :
  msg <> [] -> N.of_nat (length msg) <= max_chunk ->
  strict_chunks (S (S f))
    (10 :: 35 :: print_dec (N.of_nat (length msg)) ++ 10 :: msg ++ 10 :: 35 :: 35 :: 10 :: rest) acc
  = Some (acc ++ msg, rest).
Proof.
  intros Hne Hmax. set (n := N.of_nat (length msg)) in *.
  assert (Hpos : 0 < n) by (unfold n; destruct msg; [congruence|cbn [length]; lia]).
  destruct (print_dec_digits n) as [Hdig _].
  pose proof (print_dec_length_le n Hmax) as Hlen.
  pose proof (parse_print_dec n) as Hparse.
  assert (Hno35 : ~ In 35 (print_dec n)) by (apply print_dec_not_in; lia).
  destruct (print_dec_no_leading_zero n Hpos) as (d0 & dt & Hds & Hd0).
  rewrite Hds in *. cbn [app].
  rewrite strict_chunks_size_step by (intros ->; apply Hno35; now left).
  change (d0 :: dt ++ 10 :: msg ++ 10 :: 35 :: 35 :: 10 :: rest)
    with ((d0 :: dt) ++ 10 :: msg ++ 10 :: 35 :: 35 :: 10 :: rest).
  rewrite (take_digits_spec (d0 :: dt) 10 _ Hdig Hlen).
  destruct (d0 =? 48) eqn:E48; [lia|].
  rewrite Hparse.
  assert (Hn : N.to_nat n = length msg) by (unfold n; lia).
  destruct ((max_chunk <? n) || (N.of_nat (length (msg ++ 10 :: 35 :: 35 :: 10 :: rest)) <? n)) eqn:Er.
  { rewrite app_length in Er. lia. }
  rewrite Hn, skipn_len_app, firstn_len_app.
  apply strict_chunks_end. intros Habs. apply app_eq_nil in Habs. destruct Habs as [_ Habs]. congruence.
Qed.

Lemma frame11_unfold (msg tail : bytes) :
  [10] ++ frame V11 msg ++ [10] ++ tail =
  10 :: 35 :: print_dec (N.of_nat (length msg)) ++ 10 :: msg ++ 10 :: 35 :: 35 :: 10 :: tail.
Proof. unfold frame, HASH, LF. repeat (rewrite <- app_assoc; cbn [app]). reflexivity. Qed.

Theorem frame11_strict : forall msg,
  msg <> [] -> N.of_nat (length msg) <= max_chunk ->
  forall rest, strict_decode11 ([10] ++ frame V11 msg ++ [10] ++ rest) = Some (msg, rest).
Proof.
  intros msg Hne Hmax rest. rewrite frame11_unfold. unfold strict_decode11. cbn [length].
  rewrite (strict_chunks_frame _ msg rest [] Hne Hmax). reflexivity.
Qed.

Fixpoint strict_stream11 (fuel : nat) (s : bytes) : option (list bytes) :=
  match fuel with
  | O => None
  | S f =>
      match s with
      | [10] => Some []
      | _ =>
          match strict_decode11 s with
          | Some (m, rest) =>
              match strict_stream11 f rest with Some l => Some (m :: l) | None => None end
          | None => None
          end
      end
  end.

Lemma strict_stream11_step (f : nat) (y : N) (t : bytes) :
  strict_stream11 (S f) (10 :: y :: t) =
  match strict_decode11 (10 :: y :: t) with
  | Some (m, rest) => match strict_stream11 f rest with Some l => Some (m :: l) | None => None end
  | None => None
  end.
Proof. reflexivity. Qed.

Theorem stream11_strict : forall msgs,
  Forall (fun m => m <> [] /\ N.of_nat (length m) <= max_chunk) msgs ->
  strict_stream11 (S (length msgs)) ([10] ++ concat (map (fun m => frame V11 m ++ [10; 10]) msgs))
  = Some msgs.
Proof.
  induction msgs as [|m ms IH]; intros Hok; [reflexivity|].
  inversion Hok as [|? ? [Hne Hmax] Hms]; subst.
  pose proof (frame11_strict m Hne Hmax ([10] ++ concat (map (fun m => frame V11 m ++ [10; 10]) ms)))
    as Hdec.
  cbn [map concat length].
  replace ([10] ++ (frame V11 m ++ [10; 10]) ++ concat (map (fun m0 => frame V11 m0 ++ [10; 10]) ms))
    with ([10] ++ frame V11 m ++ [10] ++ [10] ++ concat (map (fun m0 => frame V11 m0 ++ [10; 10]) ms))
    by (rewrite <- (app_assoc (frame V11 m)); reflexivity).
  rewrite frame11_unfold in *. rewrite strict_stream11_step, Hdec, (IH Hms). reflexivity.
Qed.

Lemma split_at_delim_found (delim rest : bytes) : forall msg acc fuel,
  (length msg < fuel)%nat ->
  (forall i, (i < length msg)%nat -> is_prefix delim (skipn i (msg ++ delim)) = false) ->
  split_at_delim_fuel fuel delim (msg ++ delim ++ rest) acc = Some (rev acc ++ msg, rest).
Proof.
  induction msg as [|b m IH]; intros acc fuel Hfuel Hno.
  - destruct fuel as [|f]; [cbn in Hfuel; lia|]. cbn [app split_at_delim_fuel].
    rewrite is_prefix_refl_app, skipn_len_app, app_nil_r. reflexivity.
  - destruct fuel as [|f]; [cbn in Hfuel; lia|]. cbn [length] in Hfuel.
    cbn [split_at_delim_fuel].
    assert (H0 : is_prefix delim ((b :: m) ++ delim ++ rest) = false).
    { rewrite app_assoc, is_prefix_app_long by (rewrite app_length; lia).
      apply (Hno 0%nat). cbn [length]. lia. }
    rewrite H0. cbn [app]. rewrite IH.
    + cbn [rev]. rewrite <- app_assoc. reflexivity.
    + lia.
    + intros i Hi. apply (Hno (S i)). cbn [length]. lia.
Qed.

Theorem frame10_split : forall msg rest,
  (forall i, (i < length msg)%nat -> is_prefix nc_v1dot0_delim (skipn i (msg ++ nc_v1dot0_delim)) = false) ->
  split_eom (frame V10 msg ++ rest) = Some (msg, rest).
Proof.
  intros msg rest Hno. unfold split_eom, frame. rewrite <- app_assoc.
  rewrite (split_at_delim_found nc_v1dot0_delim rest msg [] _); [reflexivity| |exact Hno].
  rewrite app_length. lia.
Qed.

(* ================================================================================================
   D (continued): every proper truncation of an encoding fails *)

Lemma find_lf_no_lf : forall lim s, ~ In 10 s -> find_lf lim s = None.
Proof.
  induction lim as [|lim IH]; intros s Hno; destruct s as [|b t]; cbn [find_lf]; try reflexivity.
  - destruct (b =? 10) eqn:E; [exfalso; apply Hno; left; lia|reflexivity].
  - destruct (b =? 10) eqn:E; [exfalso; apply Hno; left; lia|].
    rewrite IH; [reflexivity|]. intros Hin. apply Hno. now right.
Qed.

Lemma chunk_step_fail_short (t j : bytes) (i : nat) (z : Z) :
  hd_error t <> Some 35 ->
  find_lf nc_max_chunk_size_char_len t = Some i ->
  go_atoi (firstn i t) = Some z ->
  (Z.of_nat (length (skipn (S i) t)) < z)%Z ->
  exists e, chunk_step (35 :: t) j = SDone (DFail e).
Proof.
  intros Hh Hf Ha Hshort.
  destruct t as [|c2 t']; [rewrite find_lf_nil in Hf; discriminate|].
  rewrite (chunk_step_hash (c2 :: t') j c2 eq_refl).
  destruct (c2 =? 35) eqn:E; [exfalso; apply Hh; cbn; f_equal; lia|].
  rewrite Hf. destruct (firstn i (c2 :: t')) as [|s0 sz]; [eexists; reflexivity|].
  rewrite Ha, shorter_than_spec.
  destruct ((z <? 0)%Z || (N.of_nat (length (skipn (S i) (c2 :: t'))) <? Z.to_N z)) eqn:Er;
    [eexists; reflexivity|lia].
Qed.

Lemma chunks_spec_nil (f : nat) (j : bytes) : chunks_spec f [] j = DFail E_NO_TERMINATOR.
Proof. destruct f; reflexivity. Qed.

(* a proper prefix of one encoded chunk *)
Lemma chunk_prefix_fails (c : bytes) (k f : nat) (j : bytes) :
  chunk_ok c -> (k < length (encode_chunk c))%nat ->
  exists e, chunks_spec f (firstn k (encode_chunk c)) j = DFail e.
Proof.
  intros [Hne Hmax] Hk. unfold max_chunk in Hmax.
  rewrite <- (app_nil_r (encode_chunk c)) in *. rewrite encode_chunk_unfold in *.
  rewrite app_nil_r in *.
  set (n := N.of_nat (length c)) in *.
  destruct (print_dec_digits n) as [Hdig Hdne].
  pose proof (print_dec_length_le n Hmax) as Hlen.
  pose proof (go_atoi_print_dec n Hmax) as Hatoi.
  assert (Hno10 : ~ In 10 (print_dec n)) by (apply print_dec_not_in; lia).
  assert (Hno35 : ~ In 35 (print_dec n)) by (apply print_dec_not_in; lia).
  set (ds := print_dec n) in *.
  cbn [length] in Hk. rewrite app_length in Hk. cbn [length] in Hk.
  destruct k as [|[|m]].
  - cbn [firstn]. rewrite chunks_spec_nil. eexists; reflexivity.
  - cbn [firstn]. destruct f as [|f]; [eexists; reflexivity|].
    rewrite chunks_spec_unfold, chunk_step_lf, chunks_spec_nil. eexists; reflexivity.
  - cbn [firstn]. destruct f as [|[|f]]; [eexists; reflexivity| |].
    { rewrite chunks_spec_unfold, chunk_step_lf. eexists; reflexivity. }
    rewrite chunks_spec_unfold, chunk_step_lf, chunks_spec_unfold.
    assert (Hstep : exists e, chunk_step (35 :: firstn m (ds ++ 10 :: c)) j = SDone (DFail e)).
    { destruct (Nat.leb m (length ds)) eqn:Em.
      - apply Nat.leb_le in Em. rewrite firstn_app_le by exact Em.
        apply chunk_step_fail_general.
        + intros Hhd. apply Hno35. apply (In_firstn _ m).
          destruct (firstn m ds) as [|x l]; [discriminate|]. cbn in Hhd. injection Hhd as ->. now left.
        + right. left. apply find_lf_no_lf. intros Hin. apply Hno10. exact (In_firstn _ _ _ Hin).
      - apply Nat.leb_gt in Em.
        rewrite firstn_app, (firstn_all2 ds) by lia.
        destruct (m - length ds)%nat as [|m'] eqn:Em'; [lia|]. cbn [firstn].
        apply (chunk_step_fail_short _ j (length ds) (Z.of_N n)).
        + rewrite hd_error_app_ne by exact Hdne. destruct ds as [|d0 dt]; [congruence|].
          cbn [hd_error]. intros Habs. injection Habs as ->. apply Hno35. now left.
        + apply find_lf_found; [exact Hno10|rewrite nc_max_len_10; exact Hlen].
        + rewrite firstn_len_app. exact Hatoi.
        + rewrite skipn_S_len_app, firstn_length. unfold n. lia. }
    destruct Hstep as [e ->]. eexists; reflexivity.
Qed.

Lemma prefix_fails : forall chunks,
  Forall chunk_ok chunks ->
  forall k f j, exists e,
    chunks_spec f (firstn k (concat (map encode_chunk chunks) ++ [10; 35])) j = DFail e.
Proof.
  induction chunks as [|c cs IH]; intros Hok k f j.
  - cbn [map concat app]. destruct k as [|[|k]]; cbn [firstn]; rewrite ?firstn_nil;
      destruct f as [|[|f]]; eexists; reflexivity.
  - inversion Hok as [|? ? Hc Hcs]; subst. cbn [map concat]. rewrite <- app_assoc.
    destruct (Nat.ltb k (length (encode_chunk c))) eqn:Ek.
    + apply Nat.ltb_lt in Ek. rewrite firstn_app_le by lia. apply chunk_prefix_fails; assumption.
    + apply Nat.ltb_ge in Ek. rewrite firstn_app, (firstn_all2 (encode_chunk c)) by exact Ek.
      rewrite encode_chunk_unfold.
      destruct f as [|[|f]]; [eexists; reflexivity| |].
      { rewrite chunks_spec_unfold, chunk_step_lf. eexists; reflexivity. }
      rewrite chunks_spec_unfold, chunk_step_lf, chunks_spec_unfold, (chunk_step_encoded _ _ _ Hc).
      apply IH. exact Hcs.
Qed.

Theorem truncated_fails : forall chunks k,
  chunks <> [] -> Forall chunk_ok chunks -> (k + 1 < length (encode11 chunks))%nat ->
  exists e, record11_spec (firstn k (encode11 chunks)) = DFail e.
Proof.
  intros chunks k Hne Hok Hk. unfold encode11, end_of_chunks in *.
  replace (concat (map encode_chunk chunks) ++ [10; 35; 35; 10])
    with ((concat (map encode_chunk chunks) ++ [10; 35]) ++ [35; 10]) in *
    by (rewrite <- app_assoc; reflexivity).
  rewrite !app_length in Hk. cbn [length] in Hk.
  rewrite firstn_app_le by (rewrite app_length; cbn [length]; lia).
  destruct chunks as [|c cs]; [congruence|].
  destruct (encoded_shape c cs) as [B HB].
  destruct k as [|[|m]].
  - exists E_NO_MARKER_START. reflexivity.
  - rewrite HB. exists E_NO_MARKER_START. reflexivity.
  - apply (record11_fails_core _ (firstn m (B ++ [10; 35])) 0).
    + rewrite HB. cbn [app firstn]. apply (go_trim_left_ws_hash [10]). apply ws_lf.
    + intros f. destruct (prefix_fails (c :: cs) Hok (S (S m)) (S f) []) as [e He].
      exists e. rewrite HB in He. cbn [app firstn] in He.
      rewrite chunks_spec_unfold, chunk_step_lf in He. exact He.
Qed.

(* ================================================================================================
   F: non-vacuity *)

Example ex_three_chunks :
  record11_spec (encode11 [bs "<rpc-reply>"; bs "hello"; bs "</rpc-reply>"])
  = DOk (bs "<rpc-reply>hello</rpc-reply>").
Proof. vm_compute. reflexivity. Qed.

Example ex_three_chunks_go :
  record11_go (encode11 [bs "<rpc-reply>"; bs "hello"; bs "</rpc-reply>"])
  = DOk (bs "<rpc-reply>hello</rpc-reply>").
Proof. vm_compute. reflexivity. Qed.

Example ex_header_stripped :
  record11_spec ([32; 10] ++ encode11 [nc_xml_header; bs "<a/>"] ++ [10]) = DOk (bs "<a/>").
Proof. vm_compute. reflexivity. Qed.

Example ex_no_terminator : record11_spec (bs "#3" ++ [10] ++ bs "abc") = DFail E_NO_TERMINATOR.
Proof. vm_compute. reflexivity. Qed.

Example ex_short_data : record11_spec ([10] ++ bs "#3" ++ [10] ++ bs "ab ") = DFail E_SIZE_RANGE.
Proof. vm_compute. reflexivity. Qed.

Example ex_truncations :
  map (fun k => record11_spec (firstn k (encode11 [bs "ab"; bs "c"]))) (seq 0 14)
  = map DFail [1; 1; 3; 4; 4; 6; 7; 7; 3; 4; 4; 7; 7; 3]%nat
  /\ length (encode11 [bs "ab"; bs "c"]) = 15%nat
  /\ record11_spec (firstn 14 (encode11 [bs "ab"; bs "c"])) = DOk (bs "abc").
Proof. vm_compute. repeat split; reflexivity. Qed.

(* leniencies of the Go decoder relative to RFC 6242 (chunk-size is DIGIT1 followed by DIGITs);
   all of the following are accepted: *)
Example lenient_minus_zero : record11_spec ([10] ++ bs "#-0" ++ [10; 10] ++ bs "##" ++ [10]) = DOk [].
Proof. vm_compute. reflexivity. Qed.
Example lenient_zero : record11_spec ([10] ++ bs "#0" ++ [10; 10] ++ bs "##" ++ [10]) = DOk [].
Proof. vm_compute. reflexivity. Qed.
Example lenient_plus :
  record11_spec ([10] ++ bs "#+3" ++ [10] ++ bs "abc" ++ [10] ++ bs "##" ++ [10]) = DOk (bs "abc").
Proof. vm_compute. reflexivity. Qed.
Example lenient_leading_zero :
  record11_spec ([10] ++ bs "#03" ++ [10] ++ bs "abc" ++ [10] ++ bs "##" ++ [10]) = DOk (bs "abc").
Proof. vm_compute. reflexivity. Qed.
(* ... which the strict decoder used for C03 rejects *)
Example strict_rejects_leading_zero :
  strict_decode11 ([10] ++ bs "#03" ++ [10] ++ bs "abc" ++ [10] ++ bs "##" ++ [10]) = None.
Proof. vm_compute. reflexivity. Qed.

Example ex_strict_decode :
  strict_decode11 ([10] ++ frame V11 (bs "abc") ++ [10] ++ bs "xyz") = Some (bs "abc", bs "xyz").
Proof. vm_compute. reflexivity. Qed.

Example ex_strict_stream :
  strict_stream11 3 ([10] ++ concat (map (fun m => frame V11 m ++ [10; 10]) [bs "<a/>"; bs "<b/>"]))
  = Some [bs "<a/>"; bs "<b/>"].
Proof. vm_compute. reflexivity. Qed.

Example ex_frame10 :
  split_eom (frame V10 (bs "<hello/>") ++ bs "rest") = Some (bs "<hello/>", bs "rest").
Proof. vm_compute. reflexivity. Qed.

(* the hypothesis of frame10_split is satisfiable (and decidable by computation) *)
Example ex_frame10_hyp :
  forall i, (i < length (bs "<hello/>"))%nat ->
            is_prefix nc_v1dot0_delim (skipn i (bs "<hello/>" ++ nc_v1dot0_delim)) = false.
Proof.
  intros i Hi. cbn [bs bytes_of_string length] in Hi.
  do 8 (destruct i as [|i]; [vm_compute; reflexivity|]). lia.
Qed.

Print Assumptions record11_go_refines.
Print Assumptions record11_no_panic.
Print Assumptions wellformed11.
Print Assumptions record11_subseq.
Print Assumptions truncated_fails.
Print Assumptions no_terminator_fails.
Print Assumptions bad_size_fails.
Print Assumptions negative_size_fails.
Print Assumptions long_header_fails.
Print Assumptions junk_marker_fails.
Print Assumptions frame11_strict.
Print Assumptions stream11_strict.
Print Assumptions frame10_split.
Print Assumptions record_refines.
Print Assumptions record_no_panic.
Print Assumptions bad_size_fails_strong.
