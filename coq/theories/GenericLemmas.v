(* GenericLemmas.v — proofs about Generic.v (C13). *)
From Scrapli Require Import Bytes Generic.
Open Scope N_scope.

Lemma contains_any_substr_spec out fws :
  ~ In [] fws ->
  (contains_any_substr out fws <> [] <-> exists s, In s fws /\ contains s out = true).
Proof.
  induction fws as [|f fws IH]; intros Hne; cbn [contains_any_substr].
  - split; [congruence | intros (s & [] & _)].
  - destruct (contains f out) eqn:Hc.
    + split; [intros _; exists f; split; [now left | exact Hc] | intros _ ->; apply Hne; now left].
    + rewrite IH by (intros H; apply Hne; now right).
      split; intros (s & Hin & Hs); exists s.
      * split; [now right | exact Hs].
      * destruct Hin as [<- | Hin]; [congruence | now split].
Qed.

Lemma contains_any_substr_first out fws s :
  contains_any_substr out fws = s -> s <> [] ->
  exists pre post, fws = pre ++ s :: post /\ contains s out = true /\
                   Forall (fun x => contains x out = false) pre.
Proof.
  revert s; induction fws as [|f fws IH]; intros s; cbn [contains_any_substr].
  - intros <- H; congruence.
  - destruct (contains f out) eqn:Hc.
    + intros <- _. exists [], fws. repeat split; auto.
    + intros Hs Hne. destruct (IH s Hs Hne) as (pre & post & -> & Hin & Hall).
      exists (f :: pre), post. repeat split; auto.
Qed.

Lemma failed_with_iff out fws :
  ~ In [] fws ->
  (failed_with out fws <> None <-> exists s, In s fws /\ contains s out = true).
Proof.
  intros Hne. rewrite <- (contains_any_substr_spec out fws Hne).
  unfold failed_with. destruct (contains_any_substr out fws); split; congruence.
Qed.

Lemma failed_with_some out fws s :
  failed_with out fws = Some s ->
  exists pre post, fws = pre ++ s :: post /\ contains s out = true /\
                   Forall (fun x => contains x out = false) pre.
Proof.
  unfold failed_with. destruct (contains_any_substr out fws) eqn:E; [congruence|].
  intros [= <-]. apply contains_any_substr_first; [exact E | congruence].
Qed.

Lemma is_failed_record c o fws :
  ~ In [] fws ->
  (is_failed (record c o fws) = true <-> exists s, In s fws /\ contains s o = true).
Proof.
  intros Hne. rewrite <- (failed_with_iff o fws Hne).
  unfold is_failed, record; cbn. destruct (failed_with o fws); split; congruence.
Qed.

Definition mk_resps fws (cmds : list (bytes * bytes)) : list resp :=
  map (fun co => record (fst co) (snd co) fws) cmds.

Lemma send_loop_nostop fws cmds : send_loop fws false cmds = mk_resps fws cmds.
Proof.
  induction cmds as [|[c o] rest IH]; [reflexivity|].
  cbn [send_loop mk_resps map fst snd]. destruct rest as [|p rest']; [reflexivity|].
  cbn [andb]. f_equal. exact IH.
Qed.

Lemma send_loop_stop fws cmds : send_loop fws true cmds = upto_first_failed (mk_resps fws cmds).
Proof.
  induction cmds as [|[c o] rest IH]; [reflexivity|].
  cbn [send_loop mk_resps map fst snd upto_first_failed].
  destruct rest as [|p rest'].
  - cbn. destruct (is_failed (record c o fws)); reflexivity.
  - cbn [andb]. destruct (is_failed (record c o fws)); [reflexivity|].
    f_equal. exact IH.
Qed.

Lemma upto_first_failed_prefix rs : exists post, rs = upto_first_failed rs ++ post.
Proof.
  induction rs as [|r t [post IH]]; [now exists []|].
  cbn [upto_first_failed]. destruct (is_failed r).
  - now exists t.
  - exists post. cbn. now rewrite <- IH.
Qed.

(* shape of the stopped list: all but the last succeeded, and if it is shorter than the input the
   last one failed *)
Lemma upto_first_failed_shape rs :
  let us := upto_first_failed rs in
  Forall (fun r => is_failed r = false) (removelast us)
  /\ (length us < length rs -> exists r, last us r = r /\ In r us /\ is_failed r = true)%nat.
Proof.
  induction rs as [|r t [IH1 IH2]]; cbn zeta; cbn [upto_first_failed].
  - split; [constructor | cbn; lia].
  - destruct (is_failed r) eqn:Hf.
    + split; [constructor|]. intros _. exists r. cbn. auto.
    + split.
      * destruct (upto_first_failed t) eqn:E; cbn [removelast]; [constructor|].
        constructor; [exact Hf | exact IH1].
      * cbn [length]. intros Hlt. destruct IH2 as (r' & Hl & Hin & Hf'); [lia|].
        exists r'. repeat split; [|now right|exact Hf'].
        destruct (upto_first_failed t) eqn:E; [destruct Hin|]. exact Hl.
Qed.

Lemma multi_failed_iff rs :
  multi_failed rs <> [] <-> exists r, In r rs /\ is_failed r = true.
Proof.
  unfold multi_failed. split.
  - destruct (filter is_failed rs) as [|r l] eqn:E; [congruence|]. intros _.
    exists r. apply filter_In. rewrite E. now left.
  - intros (r & Hin & Hf) E.
    assert (In r (filter is_failed rs)) as H by (apply filter_In; now split).
    rewrite E in H. destruct H.
Qed.

Lemma collapse_failed_iff rs :
  collapse_failed rs = true <-> exists r, In r rs /\ is_failed r = true.
Proof.
  rewrite <- multi_failed_iff. unfold collapse_failed.
  destruct (multi_failed rs); cbn; split; congruence.
Qed.

Lemma sent_inputs fws cmds : map r_input (mk_resps fws cmds) = map fst cmds.
Proof. unfold mk_resps. rewrite map_map. apply map_ext. now intros []. Qed.
