(* C07: shard 6 of the reachability computation (see CloseDefs.shard_of) *)
From Scrapli Require Import Conc Close CloseDefs.
From Coq Require Import List Bool.
Lemma shard_ok : forallb (fun sc => ok_on sc (reach_of sc)) (shard 6) = true.
Proof. vm_cast_no_check (eq_refl true). Qed.
