(* DecideStd.v — Standard.openBase as translated from the source = SshArgs.std_policy / std_auth (C14). *)
From Scrapli Require Import Bytes Regex PlatformTypes Generated Channel Netconf DecideLang GeneratedSkel.
From Coq Require Import String List Bool ZArith NArith.
Import ListNotations.
Open Scope string_scope.

Open Scope list_scope.
(* ---------- Standard.openBase (C14): host-key policy and the authentication methods offered ---------- *)
From Scrapli Require Import SshArgs.

Record so_tests := mkSO { so_strict : bool; so_kh_empty : bool; so_key_empty : bool; so_pw_empty : bool;
                          so_ciphers : bool; so_kexs : bool }.

Definition so_env (t : so_tests) : denv :=
  mkEnv (fun _ => false)
        (fun a v => (String.eqb a "t.SSHArgs.KnownHostsFile" && String.eqb v """""" && so_kh_empty t)
                    || (String.eqb a "t.SSHArgs.PrivateKeyPath" && String.eqb v """""" && so_key_empty t)
                    || (String.eqb a "a.Password" && String.eqb v """""" && so_pw_empty t)
                    || (String.eqb a "err" && String.eqb v "nil"))       (* files readable, key parses *)
        (fun _ => "")
        (fun a => if String.eqb a "t.SSHArgs.StrictKey" then Some (so_strict t)
                  else if String.eqb a "len(t.ExtraCiphers) > 0" then Some (so_ciphers t)
                  else if String.eqb a "len(t.ExtraKexs) > 0" then Some (so_kexs t)
                  else None)
        (fun _ _ _ => None).

(* every value a variable was assigned, oldest first *)
Definition assigns_of (s : store) (k : string) : list string :=
  rev (flat_map (fun kv => if String.eqb (fst kv) k then [snd kv] else []) s).

Inductive so_policy := KInsecure | KKnownHosts | KNoFile.

Definition PW_METHODS : string :=
  "append(authMethods, ssh.Password(a.Password), ssh.KeyboardInteractive( func(_, _ string, questions []string, _ []bool) ([]string, error) { answers := make([]string, len(questions)) for i := range answers { answers[i] = a.Password } return answers, nil }, ))".

Fixpoint auth_of (l : list string) : option (list auth_method) :=
  match l with
  | [] => Some []
  | x :: r =>
      match auth_of r with
      | None => None
      | Some rest =>
          if String.eqb x "append(authMethods, ssh.PublicKeys(signer))" then Some (APublicKey :: rest)
          else if String.eqb x PW_METHODS then Some (APassword :: AKeyboardInteractive :: rest)
          else None
      end
  end.

Definition so_run (t : so_tests) : option (so_policy * list auth_method) :=
  match exec 80 (so_env t) standard_open_base_code [] with
  | Returned s v =>
      if String.eqb v "error" then Some (KNoFile, [])        (* refused before anything is dialled *)
      else if negb (String.eqb v "t.openSession(a, cfg)") then None
      else if negb (match sget s "cfg" with
                    | Some c => String.eqb c "&ssh.ClientConfig{ User: a.User, Auth: authMethods, Timeout: a.TimeoutSocket, HostKeyCallback: keyCallback, }"
                    | None => false end) then None
      else
        let pol := match sget s "keyCallback" with
                   | Some k => if String.eqb k "ssh.InsecureIgnoreHostKey()" then Some KInsecure
                               else if String.eqb k "knownHosts"
                                       && existsb (String.eqb "knownhosts.New(t.SSHArgs.KnownHostsFile)") (calls_of s)
                                    then Some KKnownHosts else None
                   | None => None
                   end in
        let au := match assigns_of s "authMethods" with
                  | first :: more => if String.eqb first "make([]ssh.AuthMethod, 0)" then auth_of more else None
                  | [] => None
                  end in
        match pol, au with Some p, Some a => Some (p, a) | _, _ => None end
  | _ => None
  end.

Definition so_expected (t : so_tests) : so_policy * list auth_method :=
  if so_strict t && so_kh_empty t then (KNoFile, [])
  else ((if so_strict t then KKnownHosts else KInsecure),
        (if so_key_empty t then [] else [APublicKey]) ++ (if so_pw_empty t then [] else [APassword; AKeyboardInteractive])).

Lemma so_run_cases : forall t, so_run t = Some (so_expected t).
Proof. intros [a b c d e f]. destruct a, b, c, d, e, f; vm_compute; reflexivity. Qed.

Definition policy_kind (p : policy) : so_policy :=
  match p with PInsecure => KInsecure | PKnownHosts _ => KKnownHosts | PErrNoFile => KNoFile end.

Definition so_tests_of (c : cfg) (ciphers kexs : bool) : so_tests :=
  mkSO (c_strict c) (is_empty (c_known_hosts c)) (is_empty (c_key c)) (is_empty (c_password c)) ciphers kexs.

(* THE TIE: for every configuration (and whatever extra ciphers / key exchanges are set), the
   source's openBase (as translated on this run; files readable, key parsing) installs the host-key
   policy the model says -- the insecure callback ONLY when strict checking is off, the known-hosts
   callback built from the configured file otherwise, an error before dialling when strict and no
   file -- and offers exactly the authentication methods the model says, in order *)
Theorem standard_open_base_is_source : forall c ciphers kexs,
  so_run (so_tests_of c ciphers kexs) =
  Some (policy_kind (std_policy c),
        match std_policy c with PErrNoFile => [] | _ => std_auth c end).
Proof.
  intros c ciphers kexs. rewrite so_run_cases. unfold so_expected, so_tests_of, std_policy, std_auth.
  cbn [so_strict so_kh_empty so_key_empty so_pw_empty].
  destruct (c_strict c), (is_empty (c_known_hosts c)); reflexivity.
Qed.

(* every test the translated code makes is one the environment above was written for (an unknown
   equality would otherwise evaluate to false without notice) *)
Definition standard_open_base_known : list string := "t.SSHArgs.StrictKey" :: "t.SSHArgs.KnownHostsFile == """"" :: "t.SSHArgs.PrivateKeyPath == """"" :: "err == nil" :: "a.Password == """"" :: "len(t.ExtraCiphers) > 0" :: "len(t.ExtraKexs) > 0" :: nil.
Lemma standard_open_base_tests_known : tests_known standard_open_base_code standard_open_base_known = true.
Proof. vm_compute. reflexivity. Qed.
