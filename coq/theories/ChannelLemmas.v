(* ChannelLemmas.v — small facts about the interpreter used by C06. *)
From Scrapli Require Import Bytes Regex PlatformTypes Generated Channel.

Section L.
  Variables (D : Type) (feed : D -> bytes -> D * bytes) (R : Type) (cfg : chan_cfg).

  Lemma set_pc_reader (s : @sys D R) p : s_reader (set_pc s p) = s_reader s.
  Proof. unfold set_pc. destruct (skip_notes _ _ _); reflexivity. Qed.

  Lemma eof_fails_read (s : @sys D R) c k h :
    s_pc s = Until c k h -> s_reader s = RExited ->
    step feed cfg s Op = set_pc (mkSys (s_dev s) (s_pending s) (s_queue s) [] (h EConnection) (s_wlog s) (s_notes s) RExited) (h EConnection).
  Proof. intros Hp Hr. cbn [step]. rewrite Hp, Hr. reflexivity. Qed.

  Lemma ioerr_fails_read (s : @sys D R) c k h :
    s_pc s = Until c k h -> s_reader s = RErr ->
    step feed cfg s Op = set_pc (mkSys (s_dev s) (s_pending s) (s_queue s) [] (h ETransport) (s_wlog s) (s_notes s) RRun) (h ETransport).
  Proof. intros Hp Hr. cbn [step]. rewrite Hp, Hr. reflexivity. Qed.

  Lemma eof_is_permanent (s : @sys D R) e : s_reader s = RExited -> s_reader (step feed cfg s e) = RExited.
  Proof.
    intros Hr. destruct e as [n| | | |]; cbn [step].
    - rewrite Hr. exact Hr.
    - destruct (s_pc s) as [r|er|b red k|c k h|t d k|qb qk]; try exact Hr.
      + destruct (feed (s_dev s) b) as [d' out]. rewrite set_pc_reader. exact Hr.
      + rewrite Hr. rewrite set_pc_reader. reflexivity.
      + rewrite set_pc_reader. exact Hr.
    - destruct (s_pc s) as [r|er|b red k|c k h|t d k|qb qk]; try exact Hr.
      rewrite set_pc_reader. exact Hr.
    - reflexivity.
    - rewrite Hr. exact Hr.
  Qed.
End L.
