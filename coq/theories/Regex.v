(* Regex.v — byte-level regular expressions with Go/RE2 "leftmost-first" semantics, as a fuelled
   continuation-passing backtracking matcher.  The ASTs are produced by gen/ from Go's own
   regexp/syntax parse of every pattern in the source tree (flags resolved, classes expanded to
   UTF-8 byte sequences), so Go decides what a pattern means; this file only gives the tree a
   semantics.  Out-of-fuel is a distinct result that callers surface (never a silent "no match").
   Agreement with Go's regexp on generated inputs is the standing correspondence check RX. *)
From Scrapli Require Import Bytes.
Open Scope N_scope.

Inductive re : Type :=
| REps
| RFail
| RCls (rs : list (N * N))                 (* one byte within one of the inclusive ranges *)
| RCat (a b : re)
| RAlt (a b : re)                          (* left alternative preferred *)
| RRep (r : re) (mn : nat) (mx : option nat) (greedy : bool)
| RBol | REol                              (* (?m)^  (?m)$ *)
| RBot | REot                              (* \A and non-multiline ^ ;  \z and non-multiline $ *)
| RWordB | RNoWordB
| RGrp (i : nat) (r : re).

Definition caps := list (nat * nat * nat).   (* (group, start, end), newest first *)

Inductive res := Fuel | No | Yes (e : nat) (c : caps).

Definition in_ranges (b : N) (rs : list (N * N)) : bool :=
  existsb (fun lh => (fst lh <=? b) && (b <=? snd lh)) rs.

Definition is_word_byte (b : N) : bool :=
  ((48 <=? b) && (b <=? 57)) || ((65 <=? b) && (b <=? 90)) || ((97 <=? b) && (b <=? 122)) || (b =? 95).
Definition is_word_opt (o : option N) : bool := match o with Some b => is_word_byte b | None => false end.
Definition head_opt (s : bytes) : option N := match s with [] => None | b :: _ => Some b end.

Definition pred_opt (o : option nat) : option nat :=
  match o with Some n => Some (pred n) | None => None end.

Definition kont := option N -> nat -> bytes -> caps -> res.

Fixpoint m (fuel : nat) (r : re) (prev : option N) (pos : nat) (s : bytes) (c : caps) (k : kont) : res :=
  match fuel with
  | O => Fuel
  | S f =>
      match r with
      | REps => k prev pos s c
      | RFail => No
      | RCls rs =>
          match s with
          | b :: t => if in_ranges b rs then k (Some b) (S pos) t c else No
          | [] => No
          end
      | RCat a b => m f a prev pos s c (fun p' pos' s' c' => m f b p' pos' s' c' k)
      | RAlt a b =>
          match m f a prev pos s c k with
          | No => m f b prev pos s c k
          | x => x
          end
      | RGrp i r' => m f r' prev pos s c (fun p' pos' s' c' => k p' pos' s' ((i, pos, pos') :: c'))
      | RBol => match prev with
                | None => k prev pos s c
                | Some b => if b =? 10 then k prev pos s c else No
                end
      | REol => match s with
                | [] => k prev pos s c
                | b :: _ => if b =? 10 then k prev pos s c else No
                end
      | RBot => match prev with None => k prev pos s c | Some _ => No end
      | REot => match s with [] => k prev pos s c | _ :: _ => No end
      | RWordB => if xorb (is_word_opt prev) (is_word_opt (head_opt s)) then k prev pos s c else No
      | RNoWordB => if xorb (is_word_opt prev) (is_word_opt (head_opt s)) then No else k prev pos s c
      | RRep r' mn mx g =>
          match mn with
          | S mn' =>
              m f r' prev pos s c
                (fun p' pos' s' c' => m f (RRep r' mn' (pred_opt mx) g) p' pos' s' c' k)
          | O =>
              match mx with
              | Some O => k prev pos s c
              | _ =>
                  if g then
                    match m f r' prev pos s c
                            (fun p' pos' s' c' =>
                               if Nat.eqb pos' pos then No     (* empty iteration: stop looping *)
                               else m f (RRep r' O (pred_opt mx) g) p' pos' s' c' k) with
                    | No => k prev pos s c
                    | x => x
                    end
                  else
                    match k prev pos s c with
                    | No => m f r' prev pos s c
                              (fun p' pos' s' c' =>
                                 if Nat.eqb pos' pos then No
                                 else m f (RRep r' O (pred_opt mx) g) p' pos' s' c' k)
                    | x => x
                    end
              end
          end
      end
  end.

Fixpoint re_size (r : re) : nat :=
  match r with
  | RCat a b | RAlt a b => S (re_size a + re_size b)
  | RRep r' mn _ _ => S (re_size r' + mn)
  | RGrp _ r' => S (re_size r')
  | _ => 1%nat
  end.

(* Fuel bounds the recursion DEPTH of [m] (one unit per nested call), which is linear in the input
   length for every pattern in the tree.  A single shared constant (2^21, built once) is used
   rather than a per-call product: building a unary nat per call dominated the running time.
   Exhaustion is reported ([SFuel]), never hidden. *)
Fixpoint pow2_tail (k : nat) : nat :=
  match k with O => 1%nat | S k' => let h := pow2_tail k' in Nat.tail_add h h end.
Definition rx_fuel : nat := pow2_tail 21.
Definition fuel_for (r : re) (s : bytes) : nat := rx_fuel.

Inductive sres := SFuel | SNone | SFound (st e : nat) (c : caps).

(* leftmost match at or after the current position; [prev] is the byte before it *)
Fixpoint search (r : re) (fuel : nat) (prev : option N) (pos : nat) (s : bytes) : sres :=
  match m fuel r prev pos s [] (fun _ e _ c => Yes e c) with
  | Yes e c => SFound pos e c
  | Fuel => SFuel
  | No => match s with
          | [] => SNone
          | b :: t => search r fuel (Some b) (S pos) t
          end
  end.

Definition rx_search (r : re) (s : bytes) : sres := search r (fuel_for r s) None 0 s.

(* regexp.Match; out-of-fuel counts as no match here and is exposed by [rx_fuel_ok] *)
Definition rx_match (r : re) (s : bytes) : bool :=
  match rx_search r s with SFound _ _ _ => true | _ => false end.
Definition rx_fuel_ok (r : re) (s : bytes) : bool :=
  match rx_search r s with SFuel => false | _ => true end.

Definition slice (st e : nat) (s : bytes) : bytes := firstn (e - st) (skipn st s).

(* regexp.Find: bytes of the leftmost match (None = nil) *)
Definition rx_find (r : re) (s : bytes) : option bytes :=
  match rx_search r s with SFound st e _ => Some (slice st e s) | _ => None end.

Fixpoint cap_lookup (i : nat) (c : caps) : option (nat * nat) :=
  match c with
  | [] => None
  | (j, st, e) :: t => if Nat.eqb i j then Some (st, e) else cap_lookup i t
  end.

(* FindSubmatch group i (i >= 1); None when there is no match or the group did not participate *)
Definition rx_find_group (r : re) (i : nat) (s : bytes) : option bytes :=
  match rx_search r s with
  | SFound _ _ c => match cap_lookup i c with Some (st, e) => Some (slice st e s) | None => None end
  | _ => None
  end.

(* width in bytes of the UTF-8 sequence starting at the head (1 for invalid / ASCII / empty) *)
Definition rune_width (s : bytes) : nat :=
  match s with
  | b :: _ => if (b <? 192)%N then 1%nat else if (b <? 224)%N then Nat.min 2 (length s)
              else if (b <? 240)%N then Nat.min 3 (length s) else Nat.min 4 (length s)
  | [] => 1%nat
  end.

Definition last_byte_before (pos : nat) (whole : bytes) : option N :=
  match pos with O => None | S p => nth_error whole p end.

(* Regexp.FindAll(Index)(s, -1): Go's allMatches loop.  [fuel] bounds the number of iterations
   (each advances the position, so |s|+2 suffices). *)
Fixpoint find_all_loop (r : re) (whole : bytes) (mf : nat) (fuel : nat) (pos : nat) (prev_end : option nat)
  : list (nat * nat * caps) :=
  match fuel with
  | O => []
  | S f =>
      if Nat.ltb (length whole) pos then []
      else
        match search r mf (last_byte_before pos whole) pos (skipn pos whole) with
        | SFound st e c =>
            let accept :=
              if Nat.eqb e pos then negb (match prev_end with Some pe => Nat.eqb st pe | None => false end)
              else true in
            let pos' :=
              if Nat.eqb e pos
              then if Nat.ltb pos (length whole) then (pos + rune_width (skipn pos whole))%nat else S (length whole)
              else e in
            let rest := find_all_loop r whole mf f pos' (Some e) in
            if accept then (st, e, c) :: rest else rest
        | _ => []
        end
  end.

Definition rx_find_all (r : re) (s : bytes) : list (nat * nat * caps) :=
  find_all_loop r s (fuel_for r s) (length s + 2) 0 None.

(* Regexp.ReplaceAll(src, nil): Go's replaceAll loop with an empty replacement *)
Fixpoint replace_loop (r : re) (whole : bytes) (mf : nat) (fuel : nat) (search_pos last_end : nat) (acc : bytes)
  : bytes :=
  match fuel with
  | O => acc ++ skipn last_end whole
  | S f =>
      if Nat.ltb (length whole) search_pos then acc ++ skipn last_end whole
      else
        match search r mf (last_byte_before search_pos whole) search_pos (skipn search_pos whole) with
        | SFound st e _ =>
            let acc' := acc ++ slice last_end st whole in
            let width := if Nat.ltb search_pos (length whole) then rune_width (skipn search_pos whole) else O in
            let sp' := if Nat.ltb e (search_pos + width) then (search_pos + width)%nat
                       else if Nat.ltb e (search_pos + 1) then S search_pos else e in
            replace_loop r whole mf f sp' e acc'
        | _ => acc ++ skipn last_end whole
        end
  end.

Definition rx_remove_all (r : re) (s : bytes) : bytes :=
  replace_loop r s (fuel_for r s) (length s + 2) 0 0 [].

(* Regexp.Split(s, 2)[1]: what follows the first match (None = Go would index out of range) *)
Definition rx_after_first (r : re) (s : bytes) : option bytes :=
  match rx_search r s with SFound _ e _ => Some (skipn e s) | _ => None end.

(* literal helper for hand-written tests *)
Fixpoint re_lit (s : bytes) : re :=
  match s with [] => REps | [b] => RCls [(b, b)] | b :: t => RCat (RCls [(b, b)]) (re_lit t) end.
