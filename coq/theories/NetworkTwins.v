(* NetworkTwins.v — C04 generalised to privilege trees with "twin" levels.

   On real platforms (cisco_iosxr configuration / configuration-exclusive, juniper_junos
   configuration / -exclusive / -private) several levels share one prompt: determineCurrentPriv
   returns several names and processAcquirePriv disambiguates with the cached d.CurrentPriv
   (cached first, then the target, then the first candidate).  NetworkLemmas.v proves navigation
   under [prompts_identify] (every prompt names exactly one level), which excludes such trees — and
   with them the disambiguation code.  Here the hypothesis is weakened to
   [prompts_identify_upto_twins] (an ambiguous prompt only occurs at LEAVES of the tree) and the
   cache is tracked by the invariant [cache_ok] (the cache names the true mode, or the mode is
   unambiguous).  Side condition found by the proof: the sentinel "UNKNOWN" that the driver stores
   in d.CurrentPriv after every escalate / de-escalate must not itself be a candidate of another
   level's prompt ([unknown_not_twin]); witness in Example.unknown_twin_refuted.

   New file; NetworkLemmas.v is reused unchanged. *)
From Coq Require Import Permutation List Lia Bool Arith.
From Scrapli Require Import Bytes Regex PlatformTypes Generated Channel Network NetworkAbs NetworkLemmas.
Import ListNotations.
Local Open Scope nat_scope.

(* ================================================================== *)
(* 0. determine_current is a duplicate-free list of level names        *)
(* ================================================================== *)

Definition dc_keep (prompt : bytes) (kl : bytes * level) : bool :=
  negb (util_contains_any prompt (lv_not_contains (snd kl))) && rx_match (lv_pattern (snd kl)) prompt.

Lemma flat_map_keep {A B} (keep : A -> bool) (f : A -> B) (l : list A) :
  flat_map (fun x => if keep x then [f x] else []) l = map f (filter keep l).
Proof.
  induction l as [|x t IH]; [reflexivity|].
  cbn [flat_map filter]. destruct (keep x); cbn [map app]; rewrite IH; reflexivity.
Qed.

Lemma determine_current_filter net prompt :
  determine_current net prompt =
  map (fun kl => lv_name (snd kl)) (filter (dc_keep prompt) (n_level_order net (n_levels net))).
Proof.
  unfold determine_current. rewrite <- flat_map_keep. apply flat_map_ext. intros kl.
  unfold dc_keep. cbv zeta.
  destruct (util_contains_any prompt (lv_not_contains (snd kl))); [reflexivity|].
  cbn [negb andb]. reflexivity.
Qed.

Lemma NoDup_map_filter {A B} (f : A -> B) (keep : A -> bool) (l : list A) :
  NoDup (map f l) -> NoDup (map f (filter keep l)).
Proof.
  induction l as [|x t IH]; cbn [map filter]; [intros; constructor|].
  intros H. inversion H as [|? ? Hn Hd]; subst. destruct (keep x); [|apply IH; exact Hd].
  cbn [map]. constructor; [|apply IH; exact Hd].
  intros Hin. apply Hn. apply in_map_iff in Hin. destruct Hin as [y [E Hy]].
  apply filter_In in Hy. destruct Hy as [Hy _]. apply in_map_iff. exists y. split; assumption.
Qed.

Lemma names_by_name ls : keys_are_names ls = true -> map (fun kl => lv_name (snd kl)) ls = names ls.
Proof.
  intros K. unfold names. apply map_ext_in. intros kl Hkl.
  unfold keys_are_names in K. rewrite forallb_forall in K. specialize (K kl Hkl).
  apply beqb_true_iff in K. symmetry; exact K.
Qed.

Lemma level_order_names net :
  tree_wf (n_levels net) = true -> orders_ok net ->
  Permutation (map (fun kl => lv_name (snd kl)) (n_level_order net (n_levels net))) (names (n_levels net)).
Proof.
  intros W [_ O2]. destruct (wf_parts _ W) as [K _].
  rewrite <- (names_by_name _ K). apply Permutation_map. apply O2.
Qed.

Lemma determine_current_NoDup net prompt :
  tree_wf (n_levels net) = true -> orders_ok net -> NoDup (determine_current net prompt).
Proof.
  intros W OK. rewrite determine_current_filter. apply NoDup_map_filter.
  eapply Permutation_NoDup; [apply Permutation_sym; apply level_order_names; assumption|].
  apply wf_nodup. exact W.
Qed.

Lemma determine_current_names net prompt x :
  tree_wf (n_levels net) = true -> orders_ok net ->
  In x (determine_current net prompt) -> In x (names (n_levels net)).
Proof.
  intros W OK Hx. rewrite determine_current_filter in Hx. apply in_map_iff in Hx.
  destruct Hx as [kl [E Hkl]]. apply filter_In in Hkl. destruct Hkl as [Hkl _].
  eapply Permutation_in; [apply level_order_names; assumption|].
  apply in_map_iff. exists kl. split; assumption.
Qed.

Lemma single_list (l : list bytes) (m : bytes) :
  NoDup l -> In m l -> (forall x, In x l -> x = m) -> l = [m].
Proof.
  intros Hnd Hin Hall. destruct l as [|a t]; [destruct Hin|].
  assert (Ea : a = m) by (apply Hall; left; reflexivity). subst a.
  destruct t as [|b t']; [reflexivity|]. exfalso.
  assert (Eb : b = m) by (apply Hall; right; left; reflexivity). subst b.
  inversion Hnd as [|? ? Hn _]; subst. apply Hn. left; reflexivity.
Qed.

(* ================================================================== *)
(* 1. leaves, twins, the weaker hypothesis, the cache invariant         *)
(* ================================================================== *)

(* a leaf of the privilege tree: no level has it as its previous-priv *)
Definition leaf (ls : list (bytes * level)) (x : bytes) : Prop :=
  forall y, parent ls y <> Some x.

(* every level's prompt is recognised as that level; whenever it is ALSO recognised as some
   other level m', the two are twins: both are leaves of the tree (cisco_iosxr, juniper_junos:
   the variants of the configuration mode) *)
Definition prompts_identify_upto_twins (net : netcfg) (prompt_of : bytes -> bytes) : Prop :=
  forall m, In m (names (n_levels net)) ->
    In m (determine_current net (prompt_of m)) /\
    forall m', In m' (determine_current net (prompt_of m)) -> m' <> m ->
               leaf (n_levels net) m /\ leaf (n_levels net) m'.

(* what the proof uses of it: an ambiguous prompt only occurs at a leaf *)
Definition ambiguous_only_at_leaves (net : netcfg) (prompt_of : bytes -> bytes) : Prop :=
  forall m, In m (names (n_levels net)) ->
    In m (determine_current net (prompt_of m)) /\
    forall m', In m' (determine_current net (prompt_of m)) -> m' <> m -> leaf (n_levels net) m.

Lemma twins_ambiguous_only_at_leaves net prompt_of :
  prompts_identify_upto_twins net prompt_of -> ambiguous_only_at_leaves net prompt_of.
Proof.
  intros PT m Hm. destruct (PT m Hm) as [H1 H2]. split; [exact H1|].
  intros m' Hin Hne. exact (proj1 (H2 m' Hin Hne)).
Qed.

(* the accuracy invariant of d.CurrentPriv: it names the device's true mode, or that mode's
   prompt is unambiguous (then the cache is not consulted).  At session start the cache is
   "UNKNOWN", so the start mode has to be unambiguous; after every AcquirePriv it is the target. *)
Definition cache_ok (net : netcfg) (prompt_of : bytes -> bytes) (d : adev) (cached : bytes) : Prop :=
  cached = d_mode d \/ determine_current net (prompt_of (d_mode d)) = [d_mode d].

(* the sentinel the driver caches after each action is not a candidate of any OTHER level's
   prompt (in particular: true when no level is called "UNKNOWN") *)
Definition unknown_not_twin (net : netcfg) (prompt_of : bytes -> bytes) : Prop :=
  forall m, In m (names (n_levels net)) ->
    In net_unknown_priv (determine_current net (prompt_of m)) -> m = net_unknown_priv.

Lemma unknown_not_level_not_twin net prompt_of :
  tree_wf (n_levels net) = true -> orders_ok net ->
  ~ In net_unknown_priv (names (n_levels net)) -> unknown_not_twin net prompt_of.
Proof.
  intros W OK Hn m _ Hin. exfalso. apply Hn. eapply determine_current_names; eassumption.
Qed.

(* the old hypothesis is the special case without twins *)
Lemma prompts_identify_upto_twins_of_identify net prompt_of :
  prompts_identify net prompt_of -> prompts_identify_upto_twins net prompt_of.
Proof.
  intros PI m Hm. rewrite (PI m Hm). split; [left; reflexivity|].
  intros m' [E|[]] Hne. exfalso. apply Hne. symmetry; exact E.
Qed.

Lemma unknown_not_twin_of_identify net prompt_of :
  prompts_identify net prompt_of -> unknown_not_twin net prompt_of.
Proof. intros PI m Hm. rewrite (PI m Hm). intros [E|[]]. exact E. Qed.

Lemma cache_ok_of_identify net prompt_of d cached :
  prompts_identify net prompt_of -> In (d_mode d) (names (n_levels net)) -> cache_ok net prompt_of d cached.
Proof. intros PI Hm. right. apply PI. exact Hm. Qed.

(* an interior node of a tree path has a child on the path: it is not a leaf *)
Lemma path_interior_not_leaf ls a b y z rest :
  tree_wf ls = true -> In a (names ls) -> In b (names ls) ->
  tree_path ls a b = Some (a :: y :: z :: rest) -> ~ leaf ls y.
Proof.
  intros W Ha Hb Htp L. destruct (tree_path_spec_strong ls W a b Ha Hb) as [p [Hp [[_ [_ [Hnd Hch]]] _]]].
  rewrite Htp in Hp. inversion Hp; subst p. clear Hp.
  destruct Hch as [Hay [Hyz _]].
  destruct Hyz as [Hyz|Hzy]; [|exact (L z Hzy)].
  destruct Hay as [Hay|Hya]; [exact (L a Hay)|].
  rewrite Hyz in Hya. inversion Hya; subst z.
  inversion Hnd as [|? ? Hn _]; subst. apply Hn. right; left; reflexivity.
Qed.

(* ================================================================== *)
(* 2. processAcquirePriv = choose the current level, then act on it     *)
(* ================================================================== *)

(* the disambiguation of the current level (driver/network/privilege.go: cached, else target, else first) *)
Definition pa_current (net : netcfg) (cached target : bytes) (possible : list bytes) (first : bytes) : bytes :=
  if mem_bytes cached possible then cached
  else if mem_bytes target possible then
         match lookup_level (n_levels net) target with Some l => lv_name l | None => target end
       else first.

(* everything after it *)
Definition pa_tail (net : netcfg) (current target : bytes) : pa_result :=
  if beqb current target then PAOk ANone current
  else
    match build_path (S (length (n_levels net))) net current target [] with
    | Some (_ :: next :: _) =>
        match lookup_level (n_levels net) next with
        | Some nl =>
            if beqb (lv_previous nl) current then PAOk (AEscalate (lv_name nl)) net_unknown_priv
            else PAOk (ADeescalate current) net_unknown_priv
        | None => PAPanic
        end
    | _ => PAPanic
    end.

Lemma process_acquire_eq net cached target prompt :
  process_acquire net cached target prompt =
  match determine_current net prompt with
  | [] => PAErr
  | first :: rest => pa_tail net (pa_current net cached target (first :: rest) first) target
  end.
Proof. unfold process_acquire. destruct (determine_current net prompt); reflexivity. Qed.

(* the loop invariant: in mode m with this cache and this target, the candidates resolve to m *)
Definition resolves (net : netcfg) (prompt_of : bytes -> bytes) (cached target m : bytes) : Prop :=
  cached = m
  \/ determine_current net (prompt_of m) = [m]
  \/ (m = target /\ ~ In cached (determine_current net (prompt_of m))).

Section Nav.
  Variable net : netcfg.
  Variable prompt_of : bytes -> bytes.
  Hypothesis W : tree_wf (n_levels net) = true.
  Hypothesis NE : ~ In [] (names (n_levels net)).
  Hypothesis OK : orders_ok net.
  Hypothesis AL : ambiguous_only_at_leaves net prompt_of.
  Hypothesis UK : unknown_not_twin net prompt_of.
  Hypothesis CO : cmds_ok (n_levels net).

  Lemma nonleaf_unambiguous m :
    In m (names (n_levels net)) -> ~ leaf (n_levels net) m -> determine_current net (prompt_of m) = [m].
  Proof.
    intros Hm Hnl. destruct (AL m Hm) as [Hin Hoth].
    apply single_list; [apply determine_current_NoDup; assumption|exact Hin|].
    intros x Hx. destruct (bytes_eq_dec x m) as [E|E]; [exact E|].
    exfalso. apply Hnl. exact (Hoth x Hx E).
  Qed.

  Lemma pa_current_resolves cached target m first rest :
    In m (names (n_levels net)) -> In target (names (n_levels net)) ->
    determine_current net (prompt_of m) = first :: rest ->
    resolves net prompt_of cached target m ->
    pa_current net cached target (first :: rest) first = m.
  Proof.
    intros Hm Ht D R. destruct (AL m Hm) as [Hin _]. unfold resolves in R. rewrite D in *.
    unfold pa_current.
    destruct (wf_lookup_total _ W target Ht) as [tl [T1 [_ T3]]]. rewrite T1, T3.
    destruct R as [R|[R|[R1 R2]]].
    - subst cached. apply mem_bytes_In in Hin. rewrite Hin. reflexivity.
    - inversion R; subst first rest.
      destruct (mem_bytes cached [m]) eqn:M1.
      + apply mem_bytes_In in M1. destruct M1 as [E|[]]. symmetry; exact E.
      + destruct (mem_bytes target [m]) eqn:M2; [|reflexivity].
        apply mem_bytes_In in M2. destruct M2 as [E|[]]. symmetry; exact E.
    - apply mem_bytes_false in R2. rewrite R2. subst m.
      apply mem_bytes_In in Hin. rewrite Hin. reflexivity.
  Qed.

  (* under the invariant processAcquirePriv acts on the device's true mode *)
  Theorem process_acquire_resolved cached target m :
    In m (names (n_levels net)) -> In target (names (n_levels net)) ->
    resolves net prompt_of cached target m ->
    process_acquire net cached target (prompt_of m) = pa_tail net m target.
  Proof.
    intros Hm Ht R. rewrite process_acquire_eq. destruct (AL m Hm) as [Hin _].
    destruct (determine_current net (prompt_of m)) as [|first rest] eqn:D; [destruct Hin|].
    rewrite (pa_current_resolves cached target m first rest Hm Ht D R). reflexivity.
  Qed.

  Lemma pa_tail_at_target target : pa_tail net target target = PAOk ANone target.
  Proof. unfold pa_tail. rewrite beqb_refl'. reflexivity. Qed.

  Lemma pa_tail_step target m :
    In m (names (n_levels net)) -> In target (names (n_levels net)) -> m <> target ->
    exists next rest,
      tree_path (n_levels net) m target = Some (m :: next :: rest) /\
      In next (names (n_levels net)) /\
      pa_tail net m target = PAOk (step_action (n_levels net) m next) net_unknown_priv /\
      ((parent (n_levels net) next = Some m /\ step_action (n_levels net) m next = AEscalate next) \/
       (parent (n_levels net) m = Some next /\ step_action (n_levels net) m next = ADeescalate m)).
  Proof.
    intros Hm Ht Hne. destruct (tree_path_neq _ W m target Hm Ht Hne) as [next [rest Htp]].
    destruct (tree_path_tail _ W m target next rest Hm Ht Htp) as [_ [Hadj Hn]].
    destruct (wf_lookup_total _ W next Hn) as [nl [L1 [_ L3]]].
    exists next, rest. split; [exact Htp|]. split; [exact Hn|]. split.
    - unfold pa_tail. destruct (beqb_reflect m target) as [E|_]; [contradiction|].
      rewrite (dfs_is_tree_path net m target W OK Hm Ht), Htp.
      unfold step_action. rewrite L1, L3. destruct (beqb (lv_previous nl) m); reflexivity.
    - unfold step_action. rewrite L1. destruct (beqb_reflect (lv_previous nl) m) as [E|E].
      + left. split; [|reflexivity]. apply parent_Some. exists nl.
        split; [exact L1|]. split; [exact E|]. intros E0. apply NE. rewrite <- E0. exact Hm.
      + right. split; [|reflexivity]. destruct Hadj as [H|H]; [exact H|].
        apply parent_Some in H. destruct H as [l [H1 [H2 _]]]. congruence.
  Qed.

  (* after an action the cache is "UNKNOWN"; the node arrived at still resolves: an interior
     node of the path is not a leaf, hence unambiguous; the target is recognised by name *)
  Lemma resolves_after_step target m next rest :
    In m (names (n_levels net)) -> In target (names (n_levels net)) ->
    tree_path (n_levels net) m target = Some (m :: next :: rest) ->
    resolves net prompt_of net_unknown_priv target next.
  Proof.
    intros Hm Ht Htp. destruct (tree_path_tail _ W m target next rest Hm Ht Htp) as [Htl [_ Hn]].
    destruct (bytes_eq_dec next target) as [E|E].
    - destruct (in_dec bytes_eq_dec net_unknown_priv (determine_current net (prompt_of next))) as [Hin|Hni].
      + left. symmetry. exact (UK next Hn Hin).
      + right; right. split; assumption.
    - right; left. destruct (tree_path_neq _ W next target Hn Ht E) as [z [rest' Htp']].
      rewrite Htl in Htp'. inversion Htp'; subst rest.
      apply (nonleaf_unambiguous next Hn).
      exact (path_interior_not_leaf _ m target next z rest' W Hm Ht Htp).
  Qed.

  Lemma acquire_abs_walk_twins target : In target (names (n_levels net)) ->
    forall p d cached count fuel,
      In (d_mode d) (names (n_levels net)) ->
      resolves net prompt_of cached target (d_mode d) ->
      tree_path (n_levels net) (d_mode d) target = Some p ->
      length p <= fuel -> count + length p <= 2 * length (n_levels net) + 1 ->
      exists d', acquire_abs fuel net prompt_of d cached target count = AOk d' target /\
                 d_mode d' = target /\ d_log d' = d_log d ++ path_cmds (n_levels net) p.
  Proof.
    intros Ht. induction p as [|x p IH]; intros d cached count fuel Hm R Htp Hlen Hcnt.
    - exfalso. destruct (tree_path_spec_strong _ W _ _ Hm Ht) as [q [Hq [[Hh _] _]]].
      rewrite Htp in Hq. inversion Hq; subst q. discriminate.
    - destruct fuel as [|f]; [cbn in Hlen; lia|]. cbn [acquire_abs].
      rewrite (process_acquire_resolved cached target (d_mode d) Hm Ht R).
      destruct (bytes_eq_dec (d_mode d) target) as [E|E].
      + rewrite E in Htp.
        replace (pa_tail net (d_mode d) target) with (PAOk ANone target)
          by (rewrite E; symmetry; apply pa_tail_at_target).
        rewrite (tree_path_self _ W target Ht) in Htp. inversion Htp; subst x p.
        exists d. split; [reflexivity|]. split; [exact E|]. cbn [path_cmds]. rewrite app_nil_r. reflexivity.
      + destruct (pa_tail_step target (d_mode d) Hm Ht E) as [next [rest [Htp' [Hn [Hpa Hcase]]]]].
        rewrite Htp in Htp'. inversion Htp'; subst x p. clear Htp'.
        rewrite Hpa.
        destruct (tree_path_tail _ W _ _ _ _ Hm Ht Htp) as [Htl _].
        pose proof (resolves_after_step target (d_mode d) next rest Hm Ht Htp) as R'.
        assert (Hlt : Nat.ltb (2 * length (n_levels net)) (S count) = false).
        { apply Nat.ltb_ge. cbn [length] in Hcnt. lia. }
        destruct Hcase as [[Hp Ha]|[Hp Ha]]; rewrite Ha; cbv beta iota zeta; rewrite Hlt.
        * destruct (dev_escalate net W CO d next rest Hp) as [cmd [Hpc Hdl]]. rewrite Hdl.
          destruct (IH (mkADev next (d_log d ++ [(d_mode d, cmd)])) net_unknown_priv (S count) f)
            as [d' [H1 [H2 H3]]];
            [exact Hn|exact R'|exact Htl|cbn [length] in *; lia|cbn [length] in *; lia|].
          exists d'. split; [exact H1|]. split; [exact H2|].
          rewrite H3. cbn [d_log]. rewrite Hpc, <- app_assoc. reflexivity.
        * assert (Hm0 : d_mode d <> []) by (intros E0; apply NE; rewrite <- E0; exact Hm).
          destruct (dev_deescalate net W CO d next rest Hm0 Hp) as [cmd [Hpc Hdl]]. rewrite Hdl.
          destruct (IH (mkADev next (d_log d ++ [(d_mode d, cmd)])) net_unknown_priv (S count) f)
            as [d' [H1 [H2 H3]]];
            [exact Hn|exact R'|exact Htl|cbn [length] in *; lia|cbn [length] in *; lia|].
          exists d'. split; [exact H1|]. split; [exact H2|].
          rewrite H3. cbn [d_log]. rewrite Hpc, <- app_assoc. reflexivity.
  Qed.

  Theorem acquire_reaches_target_twins_s d cached target :
    In (d_mode d) (names (n_levels net)) -> In target (names (n_levels net)) ->
    cache_ok net prompt_of d cached ->
    exists p d', tree_path (n_levels net) (d_mode d) target = Some p /\
                 acquire_priv_abs net prompt_of d cached target = AOk d' target /\
                 d_mode d' = target /\ d_log d' = d_log d ++ path_cmds (n_levels net) p /\
                 cache_ok net prompt_of d' target.
  Proof.
    intros Hm Ht C.
    destruct (tree_path_spec_strong _ W _ _ Hm Ht) as [p [Hp [[_ [_ [Hnd _]]] Hnames]]].
    assert (Hlen : length p <= length (n_levels net)).
    { assert (length p <= length (names (n_levels net))) by (apply NoDup_incl_length; [exact Hnd|exact Hnames]).
      unfold names in *. rewrite map_length in *. lia. }
    assert (R : resolves net prompt_of cached target (d_mode d)).
    { destruct C as [C|C]; [left; exact C|right; left; exact C]. }
    destruct (acquire_abs_walk_twins target Ht p d cached 0 (2 * length (n_levels net) + 2) Hm R Hp)
      as [d' [H1 [H2 H3]]]; [lia|lia|].
    exists p, d'. split; [exact Hp|]. split; [|split; [exact H2|split; [exact H3|]]].
    - unfold acquire_priv_abs. destruct (names_In _ target Ht) as [l Hl]. rewrite Hl. exact H1.
    - left. symmetry. exact H2.
  Qed.
End Nav.

(* ================================================================== *)
(* 3. the theorems                                                     *)
(* ================================================================== *)

(* AcquirePriv on a tree with twin levels: from any mode whose cache is accurate (or whose prompt
   is unambiguous), acquiring any target sends exactly the commands of the unique tree path, ends
   in the target, caches the target — and the cache is accurate again, so acquires compose *)
Theorem acquire_reaches_target_twins : forall net prompt_of d cached target,
  tree_wf (n_levels net) = true -> ~ In [] (names (n_levels net)) ->
  orders_ok net -> prompts_identify_upto_twins net prompt_of -> unknown_not_twin net prompt_of ->
  cmds_ok (n_levels net) ->
  In (d_mode d) (names (n_levels net)) -> In target (names (n_levels net)) ->
  cache_ok net prompt_of d cached ->
  exists p d', tree_path (n_levels net) (d_mode d) target = Some p /\
               acquire_priv_abs net prompt_of d cached target = AOk d' target /\
               d_mode d' = target /\ d_log d' = d_log d ++ path_cmds (n_levels net) p /\
               cache_ok net prompt_of d' target.
Proof.
  intros net prompt_of d cached target W NE OK PT UK CO Hm Ht C.
  apply acquire_reaches_target_twins_s; try assumption.
  apply twins_ambiguous_only_at_leaves. exact PT.
Qed.

(* the same under the weaker hypothesis the proof actually uses (the OTHER candidates need not be leaves) *)
Theorem acquire_reaches_target_ambiguous_leaves : forall net prompt_of d cached target,
  tree_wf (n_levels net) = true -> ~ In [] (names (n_levels net)) ->
  orders_ok net -> ambiguous_only_at_leaves net prompt_of -> unknown_not_twin net prompt_of ->
  cmds_ok (n_levels net) ->
  In (d_mode d) (names (n_levels net)) -> In target (names (n_levels net)) ->
  cache_ok net prompt_of d cached ->
  exists p d', tree_path (n_levels net) (d_mode d) target = Some p /\
               acquire_priv_abs net prompt_of d cached target = AOk d' target /\
               d_mode d' = target /\ d_log d' = d_log d ++ path_cmds (n_levels net) p /\
               cache_ok net prompt_of d' target.
Proof. intros. apply acquire_reaches_target_twins_s; assumption. Qed.

(* session start: d.CurrentPriv is "UNKNOWN", so the first acquire needs an unambiguous start mode *)
Corollary acquire_from_session_start : forall net prompt_of d target,
  tree_wf (n_levels net) = true -> ~ In [] (names (n_levels net)) ->
  orders_ok net -> prompts_identify_upto_twins net prompt_of -> unknown_not_twin net prompt_of ->
  cmds_ok (n_levels net) ->
  In (d_mode d) (names (n_levels net)) -> In target (names (n_levels net)) ->
  determine_current net (prompt_of (d_mode d)) = [d_mode d] ->
  exists p d', tree_path (n_levels net) (d_mode d) target = Some p /\
               acquire_priv_abs net prompt_of d net_unknown_priv target = AOk d' target /\
               d_mode d' = target /\ d_log d' = d_log d ++ path_cmds (n_levels net) p /\
               cache_ok net prompt_of d' target.
Proof.
  intros net prompt_of d target W NE OK PT UK CO Hm Ht U.
  apply acquire_reaches_target_twins; try assumption. right. exact U.
Qed.

(* the theorem of NetworkLemmas.v is the twin-free special case *)
Corollary acquire_reaches_target_partial_from_twins : forall net prompt_of d cached target,
  tree_wf (n_levels net) = true -> ~ In [] (names (n_levels net)) ->
  orders_ok net -> prompts_identify net prompt_of -> cmds_ok (n_levels net) ->
  In (d_mode d) (names (n_levels net)) -> In target (names (n_levels net)) ->
  exists p d', tree_path (n_levels net) (d_mode d) target = Some p /\
               acquire_priv_abs net prompt_of d cached target = AOk d' target /\
               d_mode d' = target /\ d_log d' = d_log d ++ path_cmds (n_levels net) p.
Proof.
  intros net prompt_of d cached target W NE OK PI CO Hm Ht.
  destruct (acquire_reaches_target_twins net prompt_of d cached target W NE OK
              (prompts_identify_upto_twins_of_identify _ _ PI) (unknown_not_twin_of_identify _ _ PI)
              CO Hm Ht (cache_ok_of_identify _ _ d cached PI Hm)) as [p [d' [H1 [H2 [H3 [H4 _]]]]]].
  exists p, d'. repeat split; assumption.
Qed.

(* ---------- histories of acquires ---------- *)
Fixpoint acquire_many (net : netcfg) (prompt_of : bytes -> bytes) (d : adev) (cached : bytes)
         (targets : list bytes) : option (adev * bytes) :=
  match targets with
  | [] => Some (d, cached)
  | t :: ts => match acquire_priv_abs net prompt_of d cached t with
               | AOk d' c' => acquire_many net prompt_of d' c' ts
               | _ => None
               end
  end.

(* the commands of the successive tree paths m -> t1 -> t2 -> ... *)
Fixpoint paths_cmds (ls : list (bytes * level)) (m : bytes) (targets : list bytes) : list (bytes * bytes) :=
  match targets with
  | [] => []
  | t :: ts => match tree_path ls m t with Some p => path_cmds ls p | None => [] end ++ paths_cmds ls t ts
  end.

Theorem acquire_many_twins : forall net prompt_of,
  tree_wf (n_levels net) = true -> ~ In [] (names (n_levels net)) ->
  orders_ok net -> prompts_identify_upto_twins net prompt_of -> unknown_not_twin net prompt_of ->
  cmds_ok (n_levels net) ->
  forall targets d cached,
    In (d_mode d) (names (n_levels net)) -> (forall t, In t targets -> In t (names (n_levels net))) ->
    cache_ok net prompt_of d cached ->
    exists d' c', acquire_many net prompt_of d cached targets = Some (d', c') /\
                  d_mode d' = last targets (d_mode d) /\
                  d_log d' = d_log d ++ paths_cmds (n_levels net) (d_mode d) targets /\
                  cache_ok net prompt_of d' c'.
Proof.
  intros net prompt_of W NE OK PT UK CO. induction targets as [|t ts IH]; intros d cached Hm Hts C.
  - exists d, cached. cbn [acquire_many last paths_cmds]. rewrite app_nil_r. repeat split. exact C.
  - assert (Ht : In t (names (n_levels net))) by (apply Hts; left; reflexivity).
    destruct (acquire_reaches_target_twins net prompt_of d cached t W NE OK PT UK CO Hm Ht C)
      as [p [d1 [H1 [H2 [H3 [H4 H5]]]]]].
    destruct (IH d1 t) as [d' [c' [G1 [G2 [G3 G4]]]]].
    + rewrite H3. exact Ht.
    + intros t' Ht'. apply Hts. right; exact Ht'.
    + exact H5.
    + exists d', c'. cbn [acquire_many paths_cmds]. rewrite H2, H1. split; [exact G1|].
      split; [|split; [|exact G4]].
      * rewrite G2, H3, last_cons. reflexivity.
      * rewrite G3, H4, H3, <- app_assoc. reflexivity.
Qed.

(* ================================================================== *)
(* 4. non-vacuity, and the failures outside the hypotheses              *)
(* ================================================================== *)
Module Example.
  (* the shape of cisco_iosxr: exec -> privilege-exec -> { configuration, configuration-exclusive },
     the two configuration variants sharing one prompt pattern (host(l2)#) *)
  Definition lvl (name : String.string) (pat : re) (prev deesc esc : String.string) : bytes * level :=
    (bs name, mkLevel (bs name) [] pat [] (bs prev) (bs deesc) (bs esc) false [] REps).

  Definition twin_levels : list (bytes * level) :=
    [ lvl "exec" rx_verif_lvl_0 "" "" "";
      lvl "privilege-exec" rx_verif_lvl_1 "exec" "disable" "enable";
      lvl "configuration" rx_verif_lvl_2 "privilege-exec" "end" "configure terminal";
      lvl "configuration-exclusive" rx_verif_lvl_2 "privilege-exec" "end" "configure exclusive" ]%string.

  Definition twin_net : netcfg :=
    mkNet twin_levels (bs "privilege-exec") [] (mkCfg 1000 REps [10%N] 0%Z) (fun _ l => l) (fun l => l).

  Definition twin_prompt (m : bytes) : bytes :=
    if beqb m (bs "exec") then bs "host(l0)>"
    else if beqb m (bs "privilege-exec") then bs "host(l1)#"
    else if beqb m (bs "configuration") then bs "host(l2)#"
    else if beqb m (bs "configuration-exclusive") then bs "host(l2)#"
    else [].

  Definition EXEC := bs "exec".
  Definition PRIV := bs "privilege-exec".
  Definition CFG := bs "configuration".
  Definition CFGX := bs "configuration-exclusive".

  Lemma twin_tree_wf : tree_wf (n_levels twin_net) = true.
  Proof. vm_compute. reflexivity. Qed.

  Lemma twin_names : names (n_levels twin_net) = [EXEC; PRIV; CFG; CFGX].
  Proof. reflexivity. Qed.

  Lemma twin_names_nonempty : ~ In [] (names (n_levels twin_net)).
  Proof. cbn. intros [H|[H|[H|[H|[]]]]]; discriminate. Qed.

  Lemma twin_orders_ok : orders_ok twin_net.
  Proof. split; intros; apply Permutation_refl. Qed.

  (* the twins' prompt is ambiguous: the old hypothesis does NOT hold of this tree *)
  Example twin_prompt_ambiguous :
    determine_current twin_net (twin_prompt CFG) = [CFG; CFGX] /\
    determine_current twin_net (twin_prompt CFGX) = [CFG; CFGX] /\
    determine_current twin_net (twin_prompt PRIV) = [PRIV] /\
    determine_current twin_net (twin_prompt EXEC) = [EXEC].
  Proof. split; [|split; [|split]]; vm_compute; reflexivity. Qed.

  Example twin_not_prompts_identify : ~ prompts_identify twin_net twin_prompt.
  Proof.
    intros PI. assert (H : In CFG (names (n_levels twin_net))) by (cbn; right; right; left; reflexivity).
    specialize (PI CFG H). destruct twin_prompt_ambiguous as [E _]. rewrite E in PI. clear E. discriminate PI.
  Qed.

  Lemma parent_of_twin y : parent twin_levels y = Some CFG \/ parent twin_levels y = Some CFGX -> False.
  Proof.
    intros H.
    assert (Hy : In y (names twin_levels)).
    { destruct H as [H|H]; exact (proj1 (parent_in_names twin_levels twin_tree_wf _ _ H)). }
    cbn in Hy. destruct Hy as [E|[E|[E|[E|[]]]]]; subst y; vm_compute in H; destruct H as [H|H]; discriminate H.
  Qed.

  Lemma twin_leaf_cfg : leaf twin_levels CFG.
  Proof. intros y H. apply (parent_of_twin y). left; exact H. Qed.

  Lemma twin_leaf_cfgx : leaf twin_levels CFGX.
  Proof. intros y H. apply (parent_of_twin y). right; exact H. Qed.

  Lemma twin_upto_twins : prompts_identify_upto_twins twin_net twin_prompt.
  Proof.
    destruct twin_prompt_ambiguous as [E1 [E2 [E3 E4]]].
    intros m Hm. rewrite twin_names in Hm. destruct Hm as [H|[H|[H|[H|[]]]]]; subst m.
    - rewrite E4. split; [left; reflexivity|].
      intros m' [E|[]] Hne. exfalso; apply Hne; symmetry; exact E.
    - rewrite E3. split; [left; reflexivity|].
      intros m' [E|[]] Hne. exfalso; apply Hne; symmetry; exact E.
    - rewrite E1. split; [left; reflexivity|].
      intros m' [E|[E|[]]] Hne; [exfalso; apply Hne; symmetry; exact E|subst m'].
      split; [exact twin_leaf_cfg|exact twin_leaf_cfgx].
    - rewrite E2. split; [right; left; reflexivity|].
      intros m' [E|[E|[]]] Hne; [subst m'|exfalso; apply Hne; symmetry; exact E].
      split; [exact twin_leaf_cfgx|exact twin_leaf_cfg].
  Qed.

  Lemma twin_unknown_not_twin : unknown_not_twin twin_net twin_prompt.
  Proof.
    apply unknown_not_level_not_twin; [exact twin_tree_wf|exact twin_orders_ok|].
    cbn. intros [H|[H|[H|[H|[]]]]]; discriminate.
  Qed.

  Ltac in_levels H :=
    cbn in H; destruct H as [H|[H|[H|[H|[]]]]]; inversion H; subst; clear H.

  Lemma twin_cmds_ok : cmds_ok (n_levels twin_net).
  Proof.
    split; [|split].
    - intros k l H Hp. in_levels H; cbn in *; try contradiction; split; discriminate.
    - intros k1 l1 k2 l2 H1 H2 E Hp Ee. in_levels H1; in_levels H2; cbn in *;
        try reflexivity; try contradiction; try discriminate.
    - intros k l kc lc H1 H2 E. in_levels H1; in_levels H2; cbn in *; try discriminate.
  Qed.

  (* configuration -> configuration-exclusive with an accurate cache: out and in again *)
  Example twin_cfg_to_cfgx :
    acquire_priv_abs twin_net twin_prompt (mkADev CFG []) CFG CFGX
    = AOk (mkADev CFGX [(CFG, bs "end"); (PRIV, bs "configure exclusive")]) CFGX.
  Proof. vm_compute. reflexivity. Qed.

  (* the same through the theorem: its hypotheses are satisfiable on a tree with twins *)
  Example twin_cfg_to_cfgx_thm :
    exists p d',
      tree_path twin_levels CFG CFGX = Some p /\ p = [CFG; PRIV; CFGX] /\
      acquire_priv_abs twin_net twin_prompt (mkADev CFG []) CFG CFGX = AOk d' CFGX /\
      d_mode d' = CFGX /\ d_log d' = [(CFG, bs "end"); (PRIV, bs "configure exclusive")] /\
      cache_ok twin_net twin_prompt d' CFGX.
  Proof.
    destruct (acquire_reaches_target_twins twin_net twin_prompt (mkADev CFG []) CFG CFGX
                twin_tree_wf twin_names_nonempty twin_orders_ok twin_upto_twins twin_unknown_not_twin
                twin_cmds_ok) as [p [d' [H1 [H2 [H3 [H4 H5]]]]]].
    - cbn. right; right; left; reflexivity.
    - cbn. right; right; right; left; reflexivity.
    - left. reflexivity.
    - exists p, d'. change (n_levels twin_net) with twin_levels in *. cbn [d_mode d_log] in *.
      assert (Hp : p = [CFG; PRIV; CFGX]).
      { assert (E : tree_path twin_levels CFG CFGX = Some [CFG; PRIV; CFGX]) by (vm_compute; reflexivity).
        rewrite E in H1. inversion H1; reflexivity. }
      repeat split; try assumption. rewrite H4, Hp. vm_compute. reflexivity.
  Qed.

  (* a whole session: start (cache UNKNOWN) in the unambiguous privilege-exec, then
     configuration, configuration-exclusive, privilege-exec *)
  Example twin_session :
    acquire_many twin_net twin_prompt (mkADev PRIV []) net_unknown_priv [CFG; CFGX; PRIV]
    = Some (mkADev PRIV [(PRIV, bs "configure terminal"); (CFG, bs "end");
                         (PRIV, bs "configure exclusive"); (CFGX, bs "end")], PRIV).
  Proof. vm_compute. reflexivity. Qed.

  (* ---- the seeded defect: prefer the target over the cached level ---- *)
  Definition process_acquire_bad (net : netcfg) (cached target prompt : bytes) : pa_result :=
    match determine_current net prompt with
    | [] => PAErr
    | (first :: _) as possible =>
        let current :=
          if mem_bytes target possible then
            match lookup_level (n_levels net) target with Some l => lv_name l | None => target end
          else if mem_bytes cached possible then cached
          else first in
        pa_tail net current target
    end.

  (* device in configuration, cache = configuration, target = its twin: the real code leaves
     configuration; the seeded variant believes it is already at the target and does nothing *)
  Example seeded_variant_differs :
    process_acquire twin_net CFG CFGX (twin_prompt CFG) = PAOk (ADeescalate CFG) net_unknown_priv /\
    process_acquire_bad twin_net CFG CFGX (twin_prompt CFG) = PAOk ANone CFGX.
  Proof. split; vm_compute; reflexivity. Qed.

  (* away from twins the two agree (the defect is invisible to the twin-free theorem) *)
  Example seeded_variant_agrees_without_twins :
    process_acquire twin_net CFG PRIV (twin_prompt CFG) = process_acquire_bad twin_net CFG PRIV (twin_prompt CFG) /\
    process_acquire twin_net net_unknown_priv CFGX (twin_prompt PRIV)
    = process_acquire_bad twin_net net_unknown_priv CFGX (twin_prompt PRIV).
  Proof. split; vm_compute; reflexivity. Qed.

  (* ---- [cache_ok] is needed: a stale cache in a twin mode ---- *)
  (* device in configuration but the cache says UNKNOWN (e.g. the mode was entered behind the
     driver's back): the driver reports configuration-exclusive acquired without sending anything *)
  Example cache_ok_needed :
    ~ cache_ok twin_net twin_prompt (mkADev CFG []) net_unknown_priv /\
    acquire_priv_abs twin_net twin_prompt (mkADev CFG []) net_unknown_priv CFGX = AOk (mkADev CFG []) CFGX.
  Proof.
    split; [|vm_compute; reflexivity].
    intros [H|H]; [vm_compute in H; discriminate H|].
    destruct twin_prompt_ambiguous as [E _]. cbn [d_mode] in H. rewrite E in H. clear E. discriminate H.
  Qed.

  (* ---- [unknown_not_twin] is needed: a level called "UNKNOWN" that has a twin ---- *)
  Definition unk_levels : list (bytes * level) :=
    [ lvl "root" rx_verif_lvl_0 "" "" "";
      (net_unknown_priv, mkLevel net_unknown_priv [] rx_verif_lvl_1 [] (bs "root") (bs "exit") (bs "enter-u") false [] REps);
      lvl "t" rx_verif_lvl_1 "root" "exit" "enter-t" ]%string.
  Definition unk_net : netcfg :=
    mkNet unk_levels (bs "root") [] (mkCfg 1000 REps [10%N] 0%Z) (fun _ l => l) (fun l => l).
  Definition unk_prompt (m : bytes) : bytes := if beqb m (bs "root") then bs "host(l0)#" else bs "host(l1)#".

  Lemma unk_tree_wf : tree_wf unk_levels = true.
  Proof. vm_compute. reflexivity. Qed.

  Lemma unk_no_parent y : parent unk_levels y = Some net_unknown_priv \/ parent unk_levels y = Some (bs "t") -> False.
  Proof.
    intros H.
    assert (Hy : In y (names unk_levels)).
    { destruct H as [H|H]; exact (proj1 (parent_in_names unk_levels unk_tree_wf _ _ H)). }
    cbn in Hy. destruct Hy as [E|[E|[E|[]]]]; subst y; vm_compute in H; destruct H as [H|H]; discriminate H.
  Qed.

  Lemma unk_names : names (n_levels unk_net) = [bs "root"; net_unknown_priv; bs "t"].
  Proof. reflexivity. Qed.

  Lemma unk_names_nonempty : ~ In [] (names (n_levels unk_net)).
  Proof. cbn. intros [H|[H|[H|[]]]]; discriminate H. Qed.

  Lemma unk_cmds_ok : cmds_ok (n_levels unk_net).
  Proof.
    split; [|split].
    - intros k l H Hp. cbn in H. destruct H as [H|[H|[H|[]]]]; inversion H; subst; cbn in *;
        try contradiction; split; discriminate.
    - intros k1 l1 k2 l2 H1 H2 E Hp Ee. cbn in H1, H2.
      destruct H1 as [H1|[H1|[H1|[]]]]; destruct H2 as [H2|[H2|[H2|[]]]]; inversion H1; inversion H2; subst; cbn in *;
        try reflexivity; try contradiction; try discriminate.
    - intros k l kc lc H1 H2 E. cbn in H1, H2.
      destruct H1 as [H1|[H1|[H1|[]]]]; destruct H2 as [H2|[H2|[H2|[]]]]; inversion H1; inversion H2; subst; cbn in *;
        try discriminate.
  Qed.

  (* every hypothesis of the theorem but [unknown_not_twin] holds; starting at session start in
     the unambiguous root, the acquire of t arrives in t, takes the cached "UNKNOWN" for the
     current level and keeps leaving and re-entering until the loop bound: privilege error *)
  Example unknown_twin_refuted :
    tree_wf (n_levels unk_net) = true /\ ~ In [] (names (n_levels unk_net)) /\ orders_ok unk_net /\
    prompts_identify_upto_twins unk_net unk_prompt /\ cmds_ok (n_levels unk_net) /\
    In (d_mode (mkADev (bs "root") [])) (names (n_levels unk_net)) /\ In (bs "t") (names (n_levels unk_net)) /\
    cache_ok unk_net unk_prompt (mkADev (bs "root") []) net_unknown_priv /\
    ~ unknown_not_twin unk_net unk_prompt /\
    (forall d' c, acquire_priv_abs unk_net unk_prompt (mkADev (bs "root") []) net_unknown_priv (bs "t") <> AOk d' c).
  Proof.
    assert (D0 : determine_current unk_net (unk_prompt (bs "root")) = [bs "root"]) by (vm_compute; reflexivity).
    assert (D1 : determine_current unk_net (unk_prompt net_unknown_priv) = [net_unknown_priv; bs "t"]) by (vm_compute; reflexivity).
    assert (D2 : determine_current unk_net (unk_prompt (bs "t")) = [net_unknown_priv; bs "t"]) by (vm_compute; reflexivity).
    assert (L1 : leaf unk_levels net_unknown_priv) by (intros y H; apply (unk_no_parent y); left; exact H).
    assert (L2 : leaf unk_levels (bs "t")) by (intros y H; apply (unk_no_parent y); right; exact H).
    split; [exact unk_tree_wf|].
    split; [exact unk_names_nonempty|].
    split; [split; intros; apply Permutation_refl|].
    split.
    { intros m Hm. rewrite unk_names in Hm. destruct Hm as [H|[H|[H|[]]]]; subst m.
      - rewrite D0. split; [left; reflexivity|]. intros m' [E|[]] Hne. exfalso; apply Hne; symmetry; exact E.
      - rewrite D1. split; [left; reflexivity|].
        intros m' [E|[E|[]]] Hne; [exfalso; apply Hne; symmetry; exact E|subst m'].
        split; [exact L1|exact L2].
      - rewrite D2. split; [right; left; reflexivity|].
        intros m' [E|[E|[]]] Hne; [subst m'|exfalso; apply Hne; symmetry; exact E].
        split; [exact L2|exact L1]. }
    split; [exact unk_cmds_ok|].
    split; [cbn; left; reflexivity|]. split; [cbn; right; right; left; reflexivity|].
    split; [right; exact D0|].
    split.
    { intros UK. assert (Ht : In (bs "t") (names (n_levels unk_net))) by (cbn; right; right; left; reflexivity).
      specialize (UK (bs "t") Ht). rewrite D2 in UK. specialize (UK (or_introl eq_refl)). vm_compute in UK. discriminate UK. }
    intros d' c.
    assert (E : exists d0, acquire_priv_abs unk_net unk_prompt (mkADev (bs "root") []) net_unknown_priv (bs "t") = AErrPriv d0)
      by (eexists; vm_compute; reflexivity).
    destruct E as [d0 E]. rewrite E. intros X. discriminate X.
  Qed.
End Example.

Print Assumptions acquire_reaches_target_twins.
Print Assumptions acquire_reaches_target_ambiguous_leaves.
Print Assumptions acquire_from_session_start.
Print Assumptions acquire_reaches_target_partial_from_twins.
Print Assumptions acquire_many_twins.
Print Assumptions Example.twin_cfg_to_cfgx_thm.
Print Assumptions Example.twin_session.
Print Assumptions Example.seeded_variant_differs.
Print Assumptions Example.cache_ok_needed.
Print Assumptions Example.unknown_twin_refuted.
