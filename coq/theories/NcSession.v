(* NcSession.v — the NETCONF driver above the channel: the read loop of driver/netconf/read.go
   (message delimiting, echo skipping, filing replies by message-id), the RPC wait of rpc.go, and
   Open (capabilities.go, driver.go).  Replayed against the event log of the harness transport,
   like Replay.v.  Definitions only. *)
From Scrapli Require Import Bytes Regex PlatformTypes Generated Channel Netconf.
Open Scope N_scope.

Definition delim_re (v : ncver) : re := match v with V10 => rx_ncd_v1Dot0Delim | V11 => rx_ncd_v1Dot1Delim end.

Definition END_RPC : bytes := bs "</rpc>".

(* message store: association list id -> raw message (latest binding wins, as map assignment) *)
Definition store := list (Z * bytes).
Fixpoint store_get (s : store) (i : Z) : option bytes :=
  match s with [] => None | (j, b) :: t => if (i =? j)%Z then Some b else store_get t i end.
Fixpoint store_del (s : store) (i : Z) : store :=
  match s with [] => [] | (j, b) :: t => if (i =? j)%Z then store_del t i else (j, b) :: store_del t i end.

(* getID: first message-id="digits" (case-insensitive pattern), Atoi; 0 when absent or unparsable *)
Definition message_id_of (b : bytes) : Z :=
  match rx_find_group rx_ncd_messageID 1 b with
  | Some ds => match go_atoi ds with Some z => z | None => 0%Z end
  | None => 0%Z
  end.

(* one pass of the loop body on the accumulated buffer; iterated to a fixpoint because the real
   loop re-examines the buffer every read delay whether or not new bytes arrived *)
Inductive rd_out := RdKeep (b : bytes) (st : store) | RdPanic.

Definition nc_examine (v : ncver) (b : bytes) (st : store) : rd_out * bool (* changed? *) :=
  if rx_match (delim_re v) b then
    if contains END_RPC b then
      match rx_after_first (delim_re v) b with
      | Some rest => (RdKeep rest st, true)
      | None => (RdPanic, true)             (* ss[1] on a one-element slice *)
      end
    else
      let id := message_id_of b in
      (RdKeep [] (if (id =? 0)%Z then st else (id, b) :: st), true)
  else (RdKeep b st, false).

Fixpoint nc_settle (fuel : nat) (v : ncver) (b : bytes) (st : store) : rd_out :=
  match fuel with
  | O => RdKeep b st
  | S f => match nc_examine v b st with
           | (RdKeep b' st', true) => nc_settle f v b' st'
           | (o, _) => o
           end
  end.

Definition nc_read_chunk (v : ncver) (b : bytes) (st : store) (chunk : bytes) : rd_out :=
  nc_settle (S (S (length b + length chunk))) v (b ++ chunk) st.

(* ---------- replay of a whole session (after a successful open) ---------- *)

Inductive nlev :=
| NR (chunk : bytes)        (* the NETCONF read loop obtained this (normalised) chunk *)
| NW (w : bytes)            (* Channel.Write *)
| NCall                     (* next API call starts *)
| NDeadline                 (* the call in flight returned a timeout *)
| NErr.                     (* the call in flight returned a transport error *)

Inductive rpc_out :=
| ROk (id : Z) (raw_input framed_input : bytes) (result : bytes) (rpc_error parse_error : bool)
| RTimeout (id : Z) | RError (id : Z) | RBuildErr | RNoReply (id : Z) | RPanic.

Record nst := mkN {
  n_ver : ncver; n_force : bool; n_xh : bool;
  n_buf : bytes; n_store : store; n_next_id : N;
  n_writes : list bytes;
  n_panic : bool }.

Definition apply_chunk (s : nst) (chunk : bytes) : nst :=
  match nc_read_chunk (n_ver s) (n_buf s) (n_store s) chunk with
  | RdKeep b st => mkN (n_ver s) (n_force s) (n_xh s) b st (n_next_id s) (n_writes s) (n_panic s)
  | RdPanic => mkN (n_ver s) (n_force s) (n_xh s) (n_buf s) (n_store s) (n_next_id s) (n_writes s) true
  end.

(* process the events of one call's segment; returns the state and whether a deadline/error mark
   was seen *)
Fixpoint run_segment (s : nst) (seg : list nlev) (dl er : bool) : nst * bool * bool :=
  match seg with
  | [] => (s, dl, er)
  | NR c :: t => run_segment (apply_chunk s c) t dl er
  | NW w :: t => run_segment (mkN (n_ver s) (n_force s) (n_xh s) (n_buf s) (n_store s) (n_next_id s) (n_writes s ++ [w]) (n_panic s)) t dl er
  | NDeadline :: t => run_segment s t true er
  | NErr :: t => run_segment s t dl true
  | NCall :: t => run_segment s t dl er
  end.

(* split the log into per-call segments at NCall marks (events before the first mark belong to
   segment 0, which has no call) *)
Fixpoint split_calls (log : list nlev) (cur : list nlev) : list (list nlev) :=
  match log with
  | [] => [rev cur]
  | NCall :: t => rev cur :: split_calls t []
  | e :: t => split_calls t (e :: cur)
  end.

Definition do_rpc (s : nst) (o : nc_op) (seg : list nlev) : nst * rpc_out :=
  match op_payload o with
  | BErr => (fst (fst (run_segment s seg false false)), RBuildErr)
  | BOk p =>
      let id := n_next_id s in
      let ser := serialize (n_ver s) (n_force s) (n_xh s) id p in
      let s1 := mkN (n_ver s) (n_force s) (n_xh s) (n_buf s) (n_store s) (id + 1) (n_writes s) (n_panic s) in
      let '(s2, dl, er) := run_segment s1 seg false false in
      let zid := Z.of_N id in
      if n_panic s2 then (s2, RPanic)
      else if er then (s2, RError zid)
      else if dl then (s2, RTimeout zid)
      else match store_get (n_store s2) zid with
           | None => (s2, RNoReply zid)
           | Some raw =>
               let s3 := mkN (n_ver s2) (n_force s2) (n_xh s2) (n_buf s2) (store_del (n_store s2) zid) (n_next_id s2) (n_writes s2) (n_panic s2) in
               match record_fast (n_ver s2) raw with
               | RecOut r rpce pe => (s3, ROk zid (ser_raw ser) (ser_framed ser) r rpce pe)
               | RecPanic => (s3, RPanic)
               end
           end
  end.

Fixpoint run_rpcs (s : nst) (ops : list nc_op) (segs : list (list nlev)) : nst * list rpc_out :=
  match ops, segs with
  | o :: ops', seg :: segs' =>
      let '(s1, r) := do_rpc s o seg in
      let '(s2, rs) := run_rpcs s1 ops' segs' in (s2, r :: rs)
  | _, _ => (s, [])
  end.

Definition nc_session (v : ncver) (force xh : bool) (ops : list nc_op) (log : list nlev) : nst * list rpc_out :=
  match split_calls log [] with
  | seg0 :: segs =>
      let s0 := mkN v force xh [] [] ncd_initial_message_id [] false in
      let '(s1, _, _) := run_segment s0 seg0 false false in
      run_rpcs s1 ops segs
  | [] => (mkN v force xh [] [] ncd_initial_message_id [] false, [])
  end.

(* ---------- Open: read to the 1.0 delimiter, parse hello, decide, send client hello ---------- *)
Inductive open_out :=
| OpenOk (v : ncver) (caps : list bytes) (session_id : Z) (client_hello : bytes)
| OpenNetconfErr
| OpenOther.

Definition nc_open (server_hello_buf : bytes) (p : pref) : open_out :=
  match parse_hello server_hello_buf with
  | HelloNoHello => OpenNetconfErr
  | HelloBadSessionID => OpenNetconfErr
  | HelloOk caps sid =>
      match determine_version caps p with
      | None => OpenNetconfErr
      | Some v => OpenOk v caps (match sid with Some z => z | None => 0%Z end) (client_hello v)
      end
  end.
